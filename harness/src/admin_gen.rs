//! Online generator for the administrative histories of C07 / C08 / C11: the next operation is
//! chosen while the REAL state evolves (live sessions, fabrics, fail-safe flags are read back through
//! `World::view`), so that most commands are plausible and a controlled fraction is out of order,
//! repeated, from the wrong session, or hit by an expiry / restart / store fault.
//! All operations are literal text, so a case replays (and shrinks) without generator state.
use std::rc::Rc;

use super::admin_common::{header, make_cas, run_case, step, Ca, View, World};
use super::admin_handlers::run_case_h;
use crate::proto::{parse_cases, Out};
use crate::rng::Rng;
use crate::Args;

const F_ADD_CSR: u8 = 0x01;
const F_UPD_CSR: u8 = 0x02;
const F_ROOT: u8 = 0x04;
const F_ADD_NOC: u8 = 0x08;
const F_UPD_NOC: u8 = 0x10;

struct G {
    r: Rng,
    serial: u64,
    rid: u64,
    /// the root staged by the last accepted AddTrustedRootCertificate (so that AddNOC mostly matches)
    staged: u64,
    /// crash points strictly inside the two writes of an acknowledged CommissioningComplete
    /// (open finding C08-complete-not-atomic: exercised from the corpus only)
    forbidden_crash: Vec<u64>,
    /// a fabric-scoped write was deferred under a CASE-armed fail-safe (open finding
    /// C08-context-switch: AddNOC in the same context is then left to the corpus)
    deferred_case_write: bool,
    /// weights that differ between the three properties
    prop: &'static str,
    /// CASE handshakes in their last leg (reserved session id, fabric index)
    pending_hs: Vec<(u32, u8)>,
    /// "full table" histories: commission until the fabric table is full (no noise, always a NEW fabric)
    fill: bool,
}

impl G {
    fn any_sess(&mut self, v: &View) -> u32 {
        if v.sessions.is_empty() || self.r.chance(1, 25) {
            return self.r.below(6) as u32;
        }
        self.r.pick(&v.sessions).0
    }
    fn sess_where(&mut self, v: &View, f: impl Fn(&(u32, char, u8, bool, u64)) -> bool) -> Option<u32> {
        let c: Vec<u32> = v.sessions.iter().filter(|s| f(s)).map(|s| s.0).collect();
        if c.is_empty() {
            None
        } else {
            Some(*self.r.pick(&c))
        }
    }
    fn next_serial(&mut self) -> u64 {
        self.serial += 1;
        self.serial
    }
    fn next_rid(&mut self) -> u64 {
        self.rid += 1;
        self.rid
    }
    fn node(&mut self) -> u64 {
        *self.r.pick(&[100u64, 100, 101, 102])
    }

    /// the op that moves a commissioning forward in the current real state
    fn progress(&mut self, v: &View) -> String {
        match v.armed {
            None => {
                // arm from a PASE session if there is one, else from a CASE session, else get a session
                if let Some(s) = self.sess_where(v, |s| s.1 == 'p' && !s.3) {
                    return format!("arm {} {}", s, self.r.pick(&[60u64, 60, 30, 120]));
                }
                if v.fabrics.is_empty() || self.fill || self.r.chance(1, 2) {
                    if !v.window {
                        if v.fabrics.is_empty() {
                            return "boot".into();
                        }
                        if let Some(s) = self.sess_where(v, |s| s.1 == 'c' && !s.3) {
                            return format!("open {}", s);
                        }
                        let f = *self.r.pick(&v.fabrics);
                        return format!("cest {} {} {}", f, self.node(), self.next_rid());
                    }
                    return "pase".into();
                }
                if let Some(s) = self.sess_where(v, |s| s.1 == 'c' && !s.3) {
                    return format!("arm {} {}", s, self.r.pick(&[60u64, 30]));
                }
                let f = *self.r.pick(&v.fabrics);
                format!("cest {} {} {}", f, self.node(), self.next_rid())
            }
            Some((fab, flags)) => {
                // the session context the fail-safe is bound to
                let ctx = self.sess_where(v, |s| s.2 == fab && !s.3);
                let noc_done = flags & (F_ADD_NOC | F_UPD_NOC) != 0;
                if noc_done {
                    // finish over CASE on the fail-safe's fabric
                    if let Some(s) = self.sess_where(v, |s| s.1 == 'c' && s.2 == fab && !s.3) {
                        // (a fault that hits the SECOND write of CommissioningComplete: repaired for a fabric
                        // added under the fail-safe, generated; for a fabric that existed before it is what
                        // is left of the open finding C08-complete-partial-commit: corpus only)
                        if !self.fill && (self.r.chance(1, 4) || (v.fault_in >= 2 && flags & F_ADD_NOC == 0)) {
                            return self.write_op(s);
                        }
                        return format!("complete {}", s);
                    }
                    return format!("cest {} {} {}", fab, self.node(), self.next_rid());
                }
                let Some(s) = ctx else {
                    // the arming session is gone: a new one of the same kind
                    if fab == 0 {
                        return if v.window { "pase".into() } else { "poll".into() };
                    }
                    return format!("cest {} {} {}", fab, self.node(), self.next_rid());
                };
                let is_case = v.sessions.iter().any(|x| x.0 == s && x.1 == 'c');
                if is_case && !self.fill && self.r.chance(2, 3) && flags & (F_ADD_CSR | F_ROOT) == 0 {
                    // UpdateNOC flow, or plain network / ACL work under the fail-safe
                    if flags & F_UPD_CSR == 0 {
                        if self.r.chance(1, 3) {
                            return self.write_op(s);
                        }
                        return format!("csr {} 1", s);
                    }
                    return format!("updnoc {} {} {}", s, self.node(), self.next_serial());
                }
                if flags & F_ADD_CSR == 0 && flags & F_UPD_CSR == 0 {
                    if !self.fill && self.r.chance(1, 5) {
                        return format!("net {} {}", s, self.r.range(1, 3));
                    }
                    return format!("csr {} 0", s);
                }
                if flags & F_ROOT == 0 {
                    return format!("root {} {}", s, self.r.range(1, 3));
                }
                let ca = if self.staged != 0 && (self.fill || !self.r.chance(1, 6)) { self.staged } else { self.r.range(1, 3) };
                let fid = if self.fill { 1 + v.fabrics.len() as u64 } else { self.r.range(1, 3) };
                format!("addnoc {} {} {} {} {} {}", s, ca, fid, self.r.range(10, 12), self.node(), self.next_serial())
            }
        }
    }

    /// Full-table history, after the table is full: the fail-safe is armed over a CASE session of an
    /// EXISTING fabric (it has a stored copy), UpdateNOC and / or fabric-scoped writes are staged under
    /// it, and it ends WITHOUT completion - timer, ArmFailSafe(0), RevokeCommissioning, restart (the
    /// rollback then has to re-load the stored copy into a table without a spare slot).
    /// `left` = staged changes still to make; returns `None` when the tail is over.
    fn full_tail(&mut self, v: &View, left: &mut u32) -> Option<String> {
        match v.armed {
            None => {
                if *left == 0 {
                    return None;
                }
                if let Some(s) = self.sess_where(v, |s| s.1 == 'c' && !s.3) {
                    if v.window {
                        // (a CASE-armed fail-safe is refused while a window is open)
                        return Some(format!("revoke {}", s));
                    }
                    return Some(format!("arm {} {}", s, self.r.pick(&[60u64, 30])));
                }
                let f = *self.r.pick(&v.fabrics);
                Some(format!("cest {} {} {}", f, self.node(), self.next_rid()))
            }
            Some((fab, flags)) => {
                let ctx = self.sess_where(v, |s| s.1 == 'c' && s.2 == fab && !s.3);
                let Some(s) = ctx else {
                    return Some(format!("cest {} {} {}", fab, self.node(), self.next_rid()));
                };
                if *left > 0 {
                    *left -= 1;
                    if flags & F_UPD_NOC == 0 && self.r.chance(1, 2) {
                        if flags & F_UPD_CSR == 0 {
                            *left += 1;
                            return Some(format!("csr {} 1", s));
                        }
                        return Some(format!("updnoc {} {} {}", s, self.node(), self.next_serial()));
                    }
                    return Some(self.write_op(s));
                }
                // the end without completion
                let other = self.any_sess(v);
                Some(match self.r.below(7) {
                    0 | 1 => format!("tick {}", self.r.pick(&[61u64, 121])),
                    2 => format!("arm {} 0", s),
                    3 => format!("arm {} 0", other),
                    4 => format!("revoke {}", self.r.pick(&[s, other])),
                    5 => "poll".into(),
                    _ => "restart".into(),
                })
            }
        }
    }

    fn write_op(&mut self, s: u32) -> String {
        // SetVIDVerificationStatement stores the fabric record at once unless it rides along with staged
        // changes of the fail-safe's fabric: asked for more often right after a deferred write
        if self.deferred_case_write && self.r.chance(1, 3) {
            return format!("vvs {} {}", s, self.r.range(1, 9));
        }
        match self.r.below(7) {
            6 => format!("vvs {} {}", s, self.r.range(1, 9)),
            4 => format!("gkm {} {}", s, self.r.range(1, 9)),
            5 => format!("bcw {} {}", s, self.r.range(1, 9)),
            0 => format!("acl {} {}", s, self.r.range(200, 203)),
            1 => format!("grp {} {}", s, self.r.range(1, 3)),
            2 => format!("label {} {}", s, self.r.range(1, 4)),
            _ => format!("net {} {}", s, self.r.range(1, 3)),
        }
    }

    /// something else: out of order, other session, time, faults, removals
    fn noise(&mut self, v: &View) -> String {
        let s = self.any_sess(v);
        let c07 = self.prop == "C07";
        let c11 = self.prop == "C11";
        // a CASE handshake in its last leg: the fabric goes away underneath it, then the last ack arrives
        if !self.pending_hs.is_empty() && self.r.chance(if c07 { 1 } else { 2 }, 6) {
            let (hsid, hfab) = *self.r.pick(&self.pending_hs);
            if !v.fabrics.contains(&hfab) || self.r.chance(1, 3) {
                return format!("hsdone {}", hsid);
            }
            return match self.r.below(3) {
                0 => format!("rmfab {} {}", s, hfab),
                1 => format!("arm {} 0", s),
                _ => format!("tick {}", self.r.pick(&[61u64, 121])),
            };
        }
        if !v.fabrics.is_empty() && self.r.chance(if c07 { 1 } else { 1 }, if c07 { 12 } else { 40 }) {
            let f = *self.r.pick(&v.fabrics);
            return format!("hs {} {} {}", f, self.node(), self.next_rid());
        }
        let x = self.r.below(100);
        match x {
            0..=5 => format!("arm {} {}", s, self.r.pick(&[0u64, 0, 1, 60, 65535])),
            6..=9 => format!("csr {} {}", s, self.r.below(2)),
            10..=12 => format!("root {} {}", s, self.r.range(1, 3)),
            13..=16 => format!("addnoc {} {} {} {} {} {}", s, self.r.range(1, 3), self.r.range(1, 2), self.r.range(10, 12), self.r.pick(&[100u64, 101, 0]), self.next_serial()),
            17..=19 => format!("updnoc {} {} {}", s, self.node(), self.next_serial()),
            20..=27 => self.write_op(s),
            28..=29 => format!("rmnet {} {}", s, self.r.range(1, 3)),
            30..=34 => {
                if v.fault_in >= 2 && !v.armed.map(|(_, fl)| fl & F_ADD_NOC != 0).unwrap_or(false) {
                    "poll".into()
                } else {
                    format!("complete {}", s)
                }
            }
            35..=40 => {
                let idx = if v.fabrics.is_empty() || self.r.chance(1, 6) { self.r.range(0, 3) as u8 } else { *self.r.pick(&v.fabrics) };
                format!("rmfab {} {}", s, idx)
            }
            41..=44 => format!("revoke {}", s),
            45..=47 => format!("open {}", s),
            48..=50 => "boot".into(),
            51..=54 => "pase".into(),
            55..=62 => {
                let f = if v.fabrics.is_empty() || self.r.chance(1, 8) { self.r.range(1, 3) as u8 } else { *self.r.pick(&v.fabrics) };
                format!("cest {} {} {}", f, self.node(), self.next_rid())
            }
            63..=68 => {
                let rid = if v.rids.is_empty() || self.r.chance(1, 8) { self.r.range(1, self.rid.max(1)) } else { *self.r.pick(&v.rids) };
                format!("resume {} {}", rid, self.next_rid())
            }
            69..=76 => format!("tick {}", self.r.pick(&[1u64, 29, 30, 31, 59, 60, 61, 120, 301, 901])),
            77..=82 => "poll".into(),
            83..=85 => "flush".into(),
            86..=89 => "restart".into(),
            90..=92 => {
                // (C07: a fault while a fail-safe is armed can hit the purge of a rollback - the repaired
                // finding C07-failed-purge-on-rollback; generated since the repair)
                if c07 && self.r.chance(1, 2) {
                    "poll".into()
                } else {
                    format!("kvfail {}", self.r.range(1, 2))
                }
            }
            93..=95 => {
                if c11 || self.r.chance(1, 3) {
                    let n = self.r.range(0, v.kvlen as u64);
                    if self.forbidden_crash.contains(&n) {
                        "restart".into()
                    } else {
                        format!("crash {}", n)
                    }
                } else {
                    "restart".into()
                }
            }
            96..=97 => {
                if c11 {
                    format!("corrupt {:02x} {}", self.r.pick(&[0xffu8, 0x00, 0x15, 0x18, 0x30, 0x24, 0x7f]), self.r.range(1, 40))
                } else {
                    "flush".into()
                }
            }
            _ => {
                if c11 && self.r.chance(1, 3) {
                    format!("rt {} {}", self.r.pick(&["fab", "nets", "res", "binfo"]), self.r.range(0, 1 << 40))
                } else if c11 && self.r.chance(1, 3) {
                    "coldreset".into()
                } else if c11 && self.r.chance(1, 3) {
                    format!("fabrecover {}", self.r.pick(&[1u64, 1, 2, 3, 200, 255]))
                } else if c11 && self.r.chance(1, 2) {
                    "freset".into()
                } else if c07 && v.fault_in == 0 && self.r.chance(1, 2) {
                    // (C07: the factory reset of the RUNNING node - the sessions and resumption records of
                    // the fabrics must go with them; one that is hit by a store fault is the open finding
                    // C07-faulty-factory-reset-leaves-keys: corpus only)
                    "freset".into()
                } else {
                    format!("tick {}", self.r.range(1, 70))
                }
            }
        }
    }
}

fn gen_case(out: &mut Out, cas: &Rc<Vec<Ca>>, id: u64, seed_rng: &mut Rng, prop: &'static str, len: usize, full: bool) {
    let mut g = G { r: seed_rng.fork(), serial: 0, rid: 0, staged: 0, forbidden_crash: Vec::new(), deferred_case_write: false, prop, pending_hs: Vec::new(), fill: full };
    // full-table history: 0 = fill the table, 1 = the tail (see `full_tail`), 2 = free
    let mut phase = if full { 0 } else { 2 };
    let mut tail_left: u32 = 0;
    let mut free_left: usize = len;
    out.case(id, &header());
    let mut w = World::new(cas.clone());
    // how eager this case is to make progress (some cases are mostly noise)
    let eager = *g.r.pick(&[50u64, 65, 75, 85, 92]);
    let mut nt_arm = false;
    let mut nt_change = false;
    let mut nt_end = false;
    let mut nt_gone_with_refs = false;
    let mut nt_restart = false;
    // (a full-table history takes ~9 operations per fabric before its tail starts)
    let max_ops = if full { len + 12 * rs_matter::fabric::MAX_FABRICS } else { len };
    for _ in 0..max_ops {
        let v = w.view();
        if phase == 0 && v.fabrics.len() >= rs_matter::fabric::MAX_FABRICS && v.armed.is_none() {
            phase = 1;
            g.fill = false;
            tail_left = g.r.range(1, 4) as u32;
            out.stat("cases_full_table", 1);
        }
        let op = match phase {
            0 => g.progress(&v),
            1 => match g.full_tail(&v, &mut tail_left) {
                Some(op) => op,
                None => {
                    phase = 2;
                    free_left = free_left.min(8);
                    g.noise(&v)
                }
            },
            _ => {
                if free_left == 0 {
                    break;
                }
                free_left -= 1;
                if g.r.below(100) < eager { g.progress(&v) } else { g.noise(&v) }
            }
        };
        let before = v;
        let res = step(out, cas, &mut w, &op);
        let head = res.split(' ').next().unwrap_or("");
        let after = w.view();
        let kind = op.split(' ').next().unwrap_or("");
        if kind == "hs" && head.starts_with('s') {
            let f: u8 = op.split(' ').nth(1).and_then(|x| x.parse().ok()).unwrap_or(0);
            if let Ok(id) = head[1..].parse::<u32>() {
                g.pending_hs.push((id, f));
            }
        }
        if kind == "hsdone" {
            let id: u32 = op.split(' ').nth(1).and_then(|x| x.parse().ok()).unwrap_or(0);
            g.pending_hs.retain(|x| x.0 != id);
        }
        if ["restart", "crash", "corrupt", "coldreset", "fabrecover"].contains(&kind) {
            g.pending_hs.clear();
        }
        if kind == "root" && head == "ok" {
            g.staged = op.split(' ').nth(2).and_then(|x| x.parse().ok()).unwrap_or(0);
        }
        // (two store mutations: fabric + networks, or - second write failed - fabric + its removal; a crash
        // between them is the open finding C11-complete-crash-between-writes: corpus only)
        if kind == "complete" && after.kvlen == before.kvlen + 2 {
            g.forbidden_crash.push(before.kvlen as u64 + 1);
        }
        if ["crash", "corrupt", "coldreset", "fabrecover"].contains(&kind) {
            // the store history was cut: later mutation numbers differ
            let k = after.kvlen as u64;
            g.forbidden_crash.retain(|n| *n < k);
        }
        if after.armed.is_none() {
            g.deferred_case_write = false;
        } else if ["acl", "grp", "label"].contains(&kind) && head == "ok" {
            let sid: u32 = op.split(' ').nth(1).and_then(|x| x.parse().ok()).unwrap_or(0);
            if let (Some((fab, flags)), Some(sess)) = (before.armed, before.sessions.iter().find(|x| x.0 == sid)) {
                if sess.1 == 'c' && sess.2 == fab && flags & (F_ADD_NOC | F_UPD_NOC) == 0 {
                    g.deferred_case_write = true;
                }
            }
        }
        if kind == "arm" && head == "ok" && after.armed.is_some() {
            nt_arm = true;
        }
        if before.armed.is_some() && head.starts_with("ok") && ["addnoc", "updnoc", "acl", "grp", "label", "net", "rmnet"].contains(&kind) {
            nt_change = true;
        }
        if before.armed.is_some() && after.armed.is_none() && nt_change {
            nt_end = true;
        }
        for f in &before.fabrics {
            if !after.fabrics.contains(f) && (before.sessions.iter().any(|s| s.2 == *f) || !before.rids.is_empty()) {
                nt_gone_with_refs = true;
            }
        }
        if ["restart", "crash", "corrupt", "freset", "coldreset", "fabrecover"].contains(&kind) && before.kvlen > 0 {
            nt_restart = true;
        }
    }
    let nt = match prop {
        "C07" => nt_gone_with_refs,
        "C11" => nt_restart,
        _ => nt_arm && nt_change && nt_end,
    };
    if nt {
        out.buf.push_str("#nt\n");
    }
    out.stat(if nt { "cases_nontrivial" } else { "cases_trivial" }, 1);
}

/// C07: **the factory reset of the running node with the store fault on its k-th store call**, k over
/// ALL positions of the reset (fabric keys, basic info, RTC, the CASE resumption cache, the group data
/// counter, the networks; also "no fault"), then NO restart: the node is commissioned again at once (the
/// new fabric gets the local index of an old one) and the peers of the OLD fabrics come back - CASE
/// resumption with an old record, commands over an old session. Whatever the reset answered, nothing of
/// the old fabrics may be usable on the running node. (Later in the tail: restarts, so that what the
/// faulty reset left in the STORE is looked at as well.)
fn gen_case_reset(out: &mut Out, cas: &Rc<Vec<Ca>>, id: u64, seed_rng: &mut Rng) {
    let mut g = G { r: seed_rng.fork(), serial: 0, rid: 0, staged: 0, forbidden_crash: Vec::new(), deferred_case_write: false, prop: "C07", pending_hs: Vec::new(), fill: true };
    out.case(id, &header());
    let mut w = World::new(cas.clone());
    fn run_op(out: &mut Out, cas: &Rc<Vec<Ca>>, g: &mut G, w: &mut World, op: &str) -> String {
        let res = step(out, cas, w, op);
        if op.starts_with("root ") && res.starts_with("ok") {
            g.staged = op.split(' ').nth(2).and_then(|x| x.parse().ok()).unwrap_or(0);
        }
        res
    }
    // A: one or two committed fabrics
    let target = *g.r.pick(&[1usize, 1, 2]);
    for _ in 0..40 {
        let v = w.view();
        if v.fabrics.len() >= target && v.armed.is_none() {
            break;
        }
        let op = g.progress(&v);
        run_op(out, cas, &mut g, &mut w, &op);
    }
    // B: CASE sessions and resumption records on them; the cache is stored (or not)
    for _ in 0..g.r.range(1, 3) {
        let v = w.view();
        if v.fabrics.is_empty() {
            break;
        }
        let f = *g.r.pick(&v.fabrics);
        let op = if g.r.chance(1, 5) { format!("hs {} {} {}", f, g.node(), g.next_rid()) } else { format!("cest {} {} {}", f, g.node(), g.next_rid()) };
        run_op(out, cas, &mut g, &mut w, &op);
        if g.r.chance(1, 2) {
            run_op(out, cas, &mut g, &mut w, "flush");
        }
    }
    let before = w.view();
    let old_rids = before.rids.clone();
    let old_sess: Vec<u32> = before.sessions.iter().filter(|s| s.2 != 0).map(|s| s.0).collect();
    // C: the reset, the fault on its k-th store call
    let x = g.r.below(100);
    let k: u64 = match x {
        0..=29 => 259,
        30..=44 => {
            let mut c: Vec<u64> = vec![1, 2, 3, 254, 255];
            c.extend(before.fabrics.iter().map(|f| *f as u64));
            *g.r.pick(&c)
        }
        45..=54 => 256,
        55..=61 => g.r.range(257, 258),
        62..=69 => 260,
        70..=79 => 261,
        80..=89 => 0,
        _ => *g.r.pick(&[262u64, 1000]),
    };
    run_op(out, cas, &mut g, &mut w, &format!("fresetk {}", k));
    let class = match w.last_fault_key() {
        None => "none",
        Some(key) if key == rs_matter::persist::CASE_RESUMPTION_KEY => "resumption",
        Some(key) if key == rs_matter::persist::NETWORKS_KEY => "networks",
        Some(key) if key >= 1 && key <= 255 => "fabric_key",
        Some(_) => "other_key",
    };
    out.stat(&format!("freset_fault_on_{}", class), 1);
    // D: NO restart - the node is commissioned again (the index of an old fabric is handed out again)
    for _ in 0..12 {
        let v = w.view();
        if !v.fabrics.is_empty() {
            break;
        }
        let op = g.progress(&v);
        run_op(out, cas, &mut g, &mut w, &op);
    }
    if !w.view().fabrics.is_empty() {
        out.stat("freset_then_index_reused", 1);
    }
    // E: the old peers come back
    g.fill = false;
    let n_tail = g.r.range(3, 8);
    for i in 0..n_tail {
        let v = w.view();
        let y = if i == 0 { g.r.below(50) } else { g.r.below(100) };
        let op = match y {
            0..=34 => {
                let rid = if old_rids.is_empty() || g.r.chance(1, 10) { g.r.range(1, 9) } else { *g.r.pick(&old_rids) };
                format!("resume {} {}", rid, 100 + g.next_rid())
            }
            35..=49 => {
                let s = if old_sess.is_empty() { g.r.below(4) as u32 } else { *g.r.pick(&old_sess) };
                match g.r.below(3) {
                    0 => format!("acl {} 77", s),
                    1 => format!("rmfab {} 1", s),
                    _ => format!("open {}", s),
                }
            }
            50..=74 => g.progress(&v),
            75..=82 => "flush".into(),
            83..=92 => "restart".into(),
            _ => {
                let f = if v.fabrics.is_empty() { 1 } else { *g.r.pick(&v.fabrics) };
                format!("cest {} {} {}", f, g.node(), g.next_rid())
            }
        };
        run_op(out, cas, &mut g, &mut w, &op);
    }
    if !old_rids.is_empty() || !old_sess.is_empty() {
        out.buf.push_str("#nt\n");
        out.stat("cases_nontrivial", 1);
    } else {
        out.stat("cases_trivial", 1);
    }
    out.stat("cases_faulty_reset", 1);
}

/// turn a generated op list into one the handler-level path supports: no ACL / group / network
/// writes (no Write interaction / Ethernet device there), admin subject = the CASE peer (the real
/// access check runs), timeouts and ticks chosen so that no deadline falls within two seconds of a
/// tick boundary (the real 1-second poll and the few virtual milliseconds every exchange costs)
fn h_compat(ops: &[String]) -> Vec<String> {
    let mut res = Vec::new();
    // the session of the most recent session-borne op: carries the extra interactions below
    let mut last_sid: u64 = 0;
    for op in ops {
        let w: Vec<&str> = op.split_whitespace().collect();
        let n = |i: usize| -> u64 { w.get(i).and_then(|x| x.parse().ok()).unwrap_or(0) };
        let kind = w.first().copied().unwrap_or("");
        if ["open", "arm", "csr", "root", "addnoc", "updnoc", "acl", "grp", "label", "net", "rmnet", "complete", "rmfab", "revoke", "bcw", "gkm", "addgrp", "ksw", "vvs"].contains(&kind) {
            last_sid = n(1);
        }
        match kind {
            "freset" | "fresetk" | "corrupt" | "hs" | "hsdone" | "coldreset" | "fabrecover" | "rt" => {}
            // a group table write goes through the real Groups cluster of endpoint 1: AddGroup needs an entry
            // of the group in the fabric's group key map first; repeated for the same group it RE-NAMES it
            "grp" => {
                res.push(format!("gkm {} {}", n(1), n(2)));
                res.push(format!("addgrp {} {} {}", n(1), n(2), 1 + res.len() % 3));
            }
            "acl" => {
                res.push(op.clone());
                res.push(format!("ksw {} {} {}", n(1), 1 + n(2) % 2, res.len() % 5));
            }
            // the real 1-second poll runs anyway: a subscription over the last session instead
            "poll" => res.push(format!("sub {}", last_sid)),
            "flush" => {
                res.push(op.clone());
                res.push(format!("bind {} {}", last_sid, 300 + n(1) % 3));
            }
            "label" => {
                res.push(op.clone());
                res.push(format!("nlabel {} {}", n(1), n(2)));
            }
            "open" => {
                res.push(op.clone());
                res.push(format!("ulabel {} {}", n(1), 1 + n(1) % 4));
            }
            "arm" => {
                let t = if n(2) == 0 { 0 } else if n(2) < 100 { 61 } else { 122 };
                res.push(format!("arm {} {}", n(1), t));
            }
            "tick" => res.push(format!("tick {}", if n(1) < 30 { 7 } else if n(1) < 250 { 203 } else { 504 })),
            "cest" => res.push(format!("cest {} 100 {}", n(1), n(3))),
            "addnoc" => res.push(format!("addnoc {} {} {} {} {} {}", n(1), n(2), n(3), n(4), if n(5) == 0 { 0 } else { 100 }, n(6))),
            // the admin subject must stay the CASE peer (the real access check runs): other subjects are fine as additions
            _ => res.push(op.clone()),
        }
    }
    res
}

/// A handler-level history of RE-WRITES: one fabric is commissioned, then the same few values are
/// written again and again over its CASE session through the real handlers - AddGroup for a group the
/// endpoint is already a member of (same name / another name), KeySetWrite of an existing key set,
/// group key map / binding / user label / node label / fabric label / ACL writes - outside and
/// inside a fail-safe, with restarts, crash points and store faults in between.  Every accepted
/// write outside a fail-safe must be in the store when it is acknowledged, whatever it looks like.
fn rewrite_ops(r: &mut Rng, len: usize) -> Vec<String> {
    let mut ops: Vec<String> = ["boot", "pase", "arm 0 61", "csr 0 0", "root 0 1", "addnoc 0 1 5 10 100 1", "cest 1 100 1", "complete 1"].iter().map(|x| x.to_string()).collect();
    // the live CASE session, the next resumption id, whether a fail-safe is (meant to be) armed
    let mut s: u32 = 1;
    let mut rid: u64 = 1;
    let mut armed = false;
    // the group key map holds ONE entry (a list write replaces): the group AddGroup is accepted for
    let mut gid: u64 = 1;
    ops.push(format!("gkm {} {}", s, gid));
    for _ in 0..len {
        let x = r.below(100);
        let op = match x {
            0..=27 => format!("addgrp {} {} {}", s, gid, r.range(1, 3)),
            28..=35 => {
                gid = r.range(1, 2);
                format!("gkm {} {}", s, gid)
            }
            36..=47 => format!("ksw {} {} {}", s, r.range(1, 2), r.range(0, 3)),
            48..=53 => format!("bind {} {}", s, 300 + r.range(0, 1)),
            54..=59 => format!("ulabel {} {}", s, r.range(1, 2)),
            60..=65 => format!("nlabel {} {}", s, r.range(1, 2)),
            66..=71 => format!("label {} {}", s, r.range(1, 2)),
            72..=75 => format!("acl {} {}", s, r.range(200, 201)),
            76..=79 => format!("kvfail {}", r.range(1, 2)),
            80..=84 => {
                if armed {
                    armed = false;
                    match r.below(3) {
                        0 => format!("arm {} 0", s),
                        1 => format!("revoke {}", s),
                        _ => "tick 203".to_string(),
                    }
                } else {
                    armed = true;
                    format!("arm {} 61", s)
                }
            }
            _ => {
                // the node restarts (sessions are gone: a new CASE session, its id starts over)
                let op = if armed || r.chance(2, 3) { "restart".to_string() } else { format!("crash {}", r.range(0, 12)) };
                ops.push(op);
                armed = false;
                rid += 1;
                s = 0;
                format!("cest 1 100 {}", rid)
            }
        };
        ops.push(op);
    }
    ops.push("restart".into());
    ops
}

pub fn gen(prop: &'static str, a: &Args) -> String {
    let mut r = Rng::new(a.seed ^ (prop.as_bytes()[2] as u64) << 32);
    let mut out = Out::default();
    let cas = make_cas();
    let rule = match prop {
        "C07" => "one administrative history on the real FailSafe/Fabrics/Sessions/resumption objects, generated online (65-90% the next sensible commissioning step, rest out-of-order / other-session / time / restart / removal noise); every 8th history: 1-2 fabrics with CASE sessions and resumption records, the factory reset of the running node with the store fault on its k-th store call (k over all 261 positions incl. none), NO restart, re-commissioning (index re-used), then resumption with the old records / commands over the old sessions; non-trivial = a fabric disappeared (RemoveFabric, fail-safe rollback, factory reset) while sessions or resumption records existed; distinct = by operation list",
        "C11" => "one administrative history with restarts, crash points (restart from the store after the n-th mutation), store faults, factory resets and corrupted resumption blobs; non-trivial = a restart/crash/reset happened after at least one store mutation; distinct = by operation list",
        _ => "one administrative history generated online (65-90% the next sensible commissioning step, rest out-of-order / repeated / other-session commands, fabric-scoped writes incl. SetVIDVerificationStatement - asked for 1 in 3 while a deferred write is pending -, expiry by timer / ArmFailSafe(0) / revoke / restart, store faults); non-trivial = the fail-safe was armed, a credential/ACL/group/label/network change was accepted under it, and the fail-safe ended (completed or rolled back); distinct = by operation list",
    };
    out.buf.push_str(&format!("#rule {}\n", rule));
    let n_cases = if a.thorough { 20000 } else { 3000 };
    let h_every = if a.thorough { 20 } else { 15 };
    for id in 0..n_cases {
        let len = if a.thorough { r.range(8, 70) } else { r.range(8, 40) } as usize;
        let mark = out.buf.len();
        if prop == "C11" && id % 12 == 7 {
            // a case of TLV round trips only: every persisted structure the state-level harness can
            // store by itself, values within (and at) the capacity limits
            out.case(id, &header());
            let mut w = World::new(cas.clone());
            let mut rr = r.fork();
            for _ in 0..10 {
                let op = format!("rt {} {}", rr.pick(&["fab", "nets", "nets", "res", "res", "binfo"]), rr.range(0, 1 << 40));
                step(&mut out, &cas, &mut w, &op);
            }
            out.buf.push_str("#nt\n");
            out.stat("cases_roundtrip", 1);
            continue;
        }
        if id % 40 == 19 {
            // (C11b) re-writes through the real handlers
            let mut rr = r.fork();
            let ops = rewrite_ops(&mut rr, if a.thorough { 30 } else { 18 });
            run_case_h(&mut out, &cas, &crate::proto::Case { id: 2_000_000 + id, kind: String::new(), ops });
            out.buf.push_str("#nt\n");
            out.stat("cases_handler_rewrites", 1);
        }
        if prop == "C07" && id % 8 == 5 {
            // the factory reset with the fault on its k-th store call, then re-commissioning without a restart
            gen_case_reset(&mut out, &cas, id, &mut r);
            continue;
        }
        // every 60th history fills the fabric table first (`full_tail`)
        gen_case(&mut out, &cas, id, &mut r, prop, len, id % 60 == 31);
        if id % h_every == 0 {
            // the same history (made handler-compatible) through the REAL cluster handlers
            let text = out.buf[mark..].to_string();
            if let Some(c) = parse_cases(&text).into_iter().next() {
                let ops = h_compat(&c.ops);
                run_case_h(&mut out, &cas, &crate::proto::Case { id: 1_000_000 + id, kind: String::new(), ops });
                out.stat("cases_handler_level", 1);
            }
        }
    }
    out.finish()
}

pub fn replay(a: &Args) -> String {
    let text = std::fs::read_to_string(a.input.as_ref().expect("--in")).expect("read input");
    let mut out = Out::default();
    let cas = make_cas();
    for c in parse_cases(&text) {
        if c.kind.contains("h=1") {
            run_case_h(&mut out, &cas, &c);
        } else {
            run_case(&mut out, &cas, &c);
        }
    }
    out.finish()
}
