import RsMatterVerif.Lemmas.CodecDerLink
import RsMatterVerif.Lemmas.CodecX509Round
/-!
# What rs-matter's X.509 field readers return on the output of `as_asn1` (audit C17, concern 2, part b)

`CertRef::as_asn1` (`Model/Codec/CertAsn1.lean`) writes the **TBSCertificate** only (no signature algorithm, no
signature); `X509Cert::new` (`Model/Codec/X509.lean`, the parser of DAC / PAI / PAA attestation certificates) reads a
complete `Certificate` and then applies the attestation profile (`validate_issuer_subject` needs VID / PID
attributes, `Dac/Pai/PaaExtensions::decode_value` a fixed extension profile, `ParsedExtensionFields::parse` refuses every
critical extension it does not know — among them the critical extended-key-usage of every Matter NOC). So
`x509New k (as_asn1 output)` is legitimately an error (`DerRd.x509New_tbs_refused` in `CodecDerLinkWalk.lean`) and the honest end-to-end statement is at the level of the
*field readers* `TbsCertificate::decode_value` is made of: `ContextSpecific::decode` of the version, `AnyRef` serial,
`AlgorithmIdentifier`, `Name::decode` (+ `MatterDnAttrs::parse`), `Validity`, `SubjectPublicKeyInfo::decode`,
`ParsedExtensionFields::parse`. This file proves what these `Dec` actions of the model return on the bytes
`as_asn1` writes.
-/
namespace Codec.Der
open Codec

/-! ## the writer's encoding in terms of the `der`-crate model's `encTlv` -/

mutual
def Node.encRd : Node → List Nat
  | .prim t c => DerRd.encTlv t c
  | .cons t cs => DerRd.encTlv t (Node.encRdL cs)
  | .raw b => b
def Node.encRdL : List Node → List Nat
  | [] => []
  | n :: r => n.encRd ++ Node.encRdL r
end

theorem lenBytes_eq_rd (n : Nat) (h : n < 65536) : lenBytes n = DerRd.encLen n := by
  rw [lenBytes_eq_encLen n h, encLen_eq_rd n (by omega)]

mutual
theorem Node.enc_eq_encRd (n : Node) (h : n.lenOk) : n.enc = n.encRd := by
  match n, h with
  | .prim t c, h =>
    simp only [Node.lenOk] at h
    simp [Node.enc, Node.encRd, DerRd.encTlv, lenBytes_eq_rd _ h]
  | .raw b, _ => rfl
  | .cons t cs, h =>
    obtain ⟨h1, h2⟩ := h
    have := Node.encL_eq_encRdL cs h2
    rw [this] at h1
    simp only [Node.enc, Node.encRd, DerRd.encTlv, this, lenBytes_eq_rd _ h1]
    simp
theorem Node.encL_eq_encRdL (cs : List Node) (h : Node.lenOkL cs) : Node.encL cs = Node.encRdL cs := by
  match cs, h with
  | [], _ => rfl
  | n :: r, h => simp only [Node.encL, Node.encRdL, Node.enc_eq_encRd n h.1, Node.encL_eq_encRdL r h.2]
end

theorem Node.encRdL_append (a b : List Node) : Node.encRdL (a ++ b) = Node.encRdL a ++ Node.encRdL b := by
  induction a with
  | nil => rfl
  | cons n r ih => simp [Node.encRdL, ih]

end Codec.Der

namespace Codec.CertAsn1
open Codec Codec.Der

/-! ## hexadecimal attribute values: the X.509 model's own digit reader inverts the encoder's `{:0nX}` -/

/-- a hexadecimal string read with `hex_digit` of `cert/x509.rs` (`DerRd.hexDigit`), most significant digit first,
without the `u16` truncation of `parse_hex_u16` -/
def hexRead : List Nat → Nat → Option Nat
  | [], val => some val
  | b :: rest, val =>
    match DerRd.hexDigit b with
    | none => none
    | some d => hexRead rest (val * 16 + d)

theorem hexDigit_hexDigitUp (n : Nat) : DerRd.hexDigit (hexDigitUp n) = some (n % 16) := by
  unfold hexDigitUp DerRd.hexDigit
  have : n % 16 < 16 := Nat.mod_lt _ (by decide)
  split
  · rw [if_pos (by omega)]; congr 1; omega
  · rw [if_neg (by omega), if_pos (by omega)]; congr 1; omega

theorem hexRead_append (a b : List Nat) (v : Nat) :
    hexRead (a ++ b) v = (hexRead a v).bind (hexRead b) := by
  induction a generalizing v with
  | nil => rfl
  | cons x r ih =>
    simp only [List.cons_append, hexRead]
    cases DerRd.hexDigit x with
    | none => rfl
    | some d => exact ih _

theorem hexRead_hexFix : ∀ (n v acc : Nat), hexRead (hexFix n v) acc = some (acc * 16 ^ n + v % 16 ^ n)
  | 0, v, acc => by simp [hexFix, hexRead, Nat.mod_one]
  | n + 1, v, acc => by
    simp only [hexFix, hexRead_append, hexRead_hexFix n (v / 16) acc, Option.bind_some, hexRead, hexDigit_hexDigitUp]
    congr 1
    have h1 : v % 16 ^ (n + 1) = 16 * (v / 16 % 16 ^ n) + v % 16 := by
      rw [Nat.pow_succ, Nat.mul_comm, Nat.mod_mul]; omega
    rw [h1, Nat.pow_succ]
    generalize 16 ^ n = p
    generalize v / 16 % p = q
    rw [Nat.add_mul, Nat.mul_assoc]; omega

/-- **the integer of a Matter DN attribute comes back from its string**: reading the `{:016X}` / `{:08X}` string
`as_asn1` writes with the X.509 parser's own `hex_digit` gives the integer (for every value that fits the width) -/
theorem hexRead_hexUp (width v : Nat) (h : v < 16 ^ width) : hexRead (hexUp width v) 0 = some v := by
  unfold hexUp
  rw [if_pos h, hexRead_hexFix, Nat.mod_eq_of_lt h]; simp

/-- the same for the one hexadecimal reader rs-matter's X.509 parser has, `parse_hex_u16` (VID / PID sized fields) -/
theorem parseHexU16_hexUp (v : Nat) (h : v < 65536) : DerRd.parseHexU16 (hexUp 4 v) = some v := by
  unfold hexUp
  rw [if_pos (by omega)]
  simp only [hexFix, List.nil_append, List.cons_append, DerRd.parseHexU16, List.length_cons, List.length_nil,
    ne_eq, not_true_eq_false, if_false, DerRd.hexFold, hexDigit_hexDigitUp]
  congr 1
  omega

/-! ## distinguished names -/

/-- the X.509 attribute (OID, string tag, value octets) a Matter DN attribute is written as -/
def Attr.toX (a : Attr) : Option DerRd.Attr :=
  match DN_ENCODING[a.tag - 1]? with
  | some (oid, expected) =>
    (attrString expected a.val).map fun p => { oid := oid, tag := if p.1 then 0x13 else 0x0c, value := p.2 }
  | none => none

theorem dn_table_facts : ∀ i, i < 22 → (DN_ENCODING[i]?.map fun p =>
    DerRd.oidValid p.1 && decide (p.1 ≠ DerRd.OID_MATTER_VENDOR_ID) && decide (p.1 ≠ DerRd.OID_MATTER_PRODUCT_ID)) = some true := by
  decide

theorem attr_toX (a : Attr) (n : Node) (hw : a.WF) (hn : attrNode a = some n) :
    ∃ x, a.toX = some x ∧ n.encRd = DerRd.encRdn x ∧ x.WF ∧
      ∀ acc, DerRd.dnApply acc (x.oid, (x.tag, x.value)) = .ok acc := by
  obtain ⟨oid, expected, p, h1, h2⟩ := attr_string_some a hw
  have hf := dn_table_facts (a.tag - 1) (by have := hw.1; have := hw.2.1; omega)
  simp only [h1, Option.map_some, Option.some.injEq, Bool.and_eq_true, decide_eq_true_eq] at hf
  obtain ⟨⟨f1, f2⟩, f3⟩ := hf
  simp only [attrNode, h1, h2, Option.some.injEq] at hn
  subst hn
  refine ⟨{ oid := oid, tag := if p.1 then 0x13 else 0x0c, value := p.2 }, by simp [Attr.toX, h1, h2], ?_, ⟨f1, ?_⟩, ?_⟩
  · simp [Node.encRd, Node.encRdL, seq, strNode, DerRd.encRdn, DerRd.encOid, DerRd.TAG_SET, DerRd.TAG_SEQUENCE, DerRd.TAG_OID]
  · cases p.1 <;> simp [DerRd.tagOfByte]
  · intro acc
    simp [DerRd.dnApply, f2, f3]

theorem attrs_toX (l : List Attr) (ns : List Node) (hw : ∀ a ∈ l, a.WF) (hn : mapO attrNode l = some ns) :
    ∃ xs, mapO Attr.toX l = some xs ∧ Node.encRdL ns = DerRd.encRdns xs ∧ (∀ x ∈ xs, x.WF) ∧ xs.length = l.length ∧
      ∀ acc, DerRd.dnFold xs acc = some acc := by
  induction l generalizing ns with
  | nil => simp [mapO] at hn; subst hn; exact ⟨[], rfl, rfl, by simp, rfl, fun _ => rfl⟩
  | cons a r ih =>
    obtain ⟨b, bs, h1, h2, rfl⟩ := mapO_some_cons _ _ _ _ hn
    obtain ⟨x, x1, x2, x3, x4⟩ := attr_toX a b (hw a (by simp)) h1
    obtain ⟨xs, y1, y2, y3, y4, y5⟩ := ih bs (fun c hc => hw c (by simp [hc])) h2
    refine ⟨x :: xs, by simp [mapO, x1, y1], by simp [Node.encRdL, x2, y2, DerRd.encRdns_cons], ?_, by simp [y4], ?_⟩
    · intro c hc; rcases List.mem_cons.1 hc with rfl | hc; exact x3; exact y3 c hc
    · intro acc; simp [DerRd.dnFold, x4, y5]

/-- **`Name::decode` on a DN `as_asn1` wrote**: the raw RDNSequence octets it returns are the X.509 encoding of the
attribute list (OID, string type, value) and it finds no vendor / product id (Matter operational DNs have none) -/
theorem run_name_asn1 (l : List Attr) (n : Node) (hw : ∀ a ∈ l, a.WF) (hn : dnNode l = some n) (rest : List Nat) (fuel : Nat)
    (hf : l.length < fuel + 2) :
    ∃ xs, mapO Attr.toX l = some xs ∧
      DerRd.Run (DerRd.dName (fuel + 2)) (n.encRd ++ rest) (fun y => y = (DerRd.encRdns xs, { vid := none, pid := none })) rest := by
  unfold dnNode at hn
  cases h1 : mapO attrNode l with
  | none => simp [h1] at hn
  | some ns =>
    simp [h1] at hn; subst hn
    obtain ⟨xs, y1, y2, y3, y4, y5⟩ := attrs_toX l ns hw h1
    refine ⟨xs, y1, ?_⟩
    have := DerRd.run_name (attrs := xs) (fuel := fuel) (rest := rest) y3 (y5 _) (by omega)
    simpa [seq, Node.encRd, y2, DerRd.encName, DerRd.TAG_SEQUENCE] using this
theorem dn_encRd (l : List Attr) (n : Node) (hw : ∀ a ∈ l, a.WF) (hn : dnNode l = some n) :
    ∃ xs, mapO Attr.toX l = some xs ∧ n.encRd = DerRd.encName xs ∧ (∀ x ∈ xs, x.WF) ∧ xs.length = l.length ∧
      ∀ acc, DerRd.dnFold xs acc = some acc := by
  unfold dnNode at hn
  cases h1 : mapO attrNode l with
  | none => simp [h1] at hn
  | some ns =>
    simp [h1] at hn; subst hn
    obtain ⟨xs, y1, y2, y3, y4, y5⟩ := attrs_toX l ns hw h1
    exact ⟨xs, y1, by simp [seq, Node.encRd, y2, DerRd.encName, DerRd.TAG_SEQUENCE], y3, y4, y5⟩

/-- the octets `as_asn1` writes for the validity and for the extensions, in terms of `encTlv` -/
def validityBytes (nb na : Node) : List Nat := DerRd.encTlv 0x30 (nb.encRd ++ na.encRd)
def extsBytes (l : List XExt) : List Nat := DerRd.encTlv 0xA3 (DerRd.encTlv 0x30 (Node.encRdL (l.map extNode)))

/-- **The TBSCertificate `as_asn1` writes, field by field, in the X.509 model's own encoders** (`DerRd.encName`,
`encAlgId`, `encSpki`, `encTlv`: the specification-side encoders of `Model/Codec/X509.lean`, written independently of the
writer model `Der.lean`). -/
theorem asn1_tbs_layout (f : Fields) (n : Node) (hn : certNode f = some n) (hw : f.WF) (hl : n.lenOk) :
    ∃ xi xs nb na,
      mapO Attr.toX f.issuer = some xi ∧ mapO Attr.toX f.subject = some xs ∧
      timeNode f.notBefore = some nb ∧ timeNode (if f.notAfter = 0 then DOESNT_EXPIRE else f.notAfter) = some na ∧
      (∀ x ∈ xi, x.WF) ∧ (∀ x ∈ xs, x.WF) ∧ xi.length = f.issuer.length ∧ xs.length = f.subject.length ∧
      (∀ acc, DerRd.dnFold xi acc = some acc) ∧ (∀ acc, DerRd.dnFold xs acc = some acc) ∧
      n.enc = DerRd.encTlv DerRd.TAG_SEQUENCE
        (DerRd.encTlv 0xA0 (DerRd.encTlv DerRd.TAG_INTEGER [2]) ++ (DerRd.encTlv DerRd.TAG_INTEGER f.serial ++
          (DerRd.encAlgId DerRd.OID_ECDSA_WITH_SHA256 ++ (DerRd.encName xi ++ (validityBytes nb na ++
            (DerRd.encName xs ++ (DerRd.encSpki f.pubkey ++ extsBytes f.exts))))))) := by
  obtain ⟨_, _, _, issuer, nb, na, subject, h2, h3, h4, h5, rfl⟩ := certNode_parts f n hn
  obtain ⟨xi, i1, i2, i3, i4, i5⟩ := dn_encRd f.issuer issuer hw.1 h2
  obtain ⟨xs, s1, s2, s3, s4, s5⟩ := dn_encRd f.subject subject hw.2.1 h5
  refine ⟨xi, xs, nb, na, i1, s1, h3, h4, i3, s3, i4, s4, i5, s5, ?_⟩
  rw [Node.enc_eq_encRd _ hl]
  simp only [seq, Node.encRd, Node.encRdL, i2, s2, bitstrContent_false, List.append_nil, validityBytes, extsBytes,
    DerRd.encAlgId, DerRd.encOid, DerRd.encSpki, DerRd.encBitString, DerRd.TAG_SEQUENCE, DerRd.TAG_INTEGER, DerRd.TAG_OID,
    DerRd.TAG_BIT_STRING]
  rfl
end Codec.CertAsn1

/-! ## the field readers of `TbsCertificate::decode_value` -/
namespace Codec.DerRd

/-- the field readers of `TbsCertificate::decode_value` (`Model/Codec/X509.lean`, `dTbs`) from the version up to the
issuer, in the order and with the checks of `dTbs`; nothing of the attestation profile is involved up to here -/
def dTbsHead (fuel : Nat) : Dec (List Nat × (Nat × List Nat) × List Nat × (List Nat × DnAttrs)) := do
  match ← ctxWith 0 (ctxExplicit dUintRef) fuel with
  | none => Dec.fail .failed
  | some version =>
    if version ≠ [2] then Dec.fail .failed else do
      let serial ← dAny
      let (sigAlg, _) ← dAlgId
      if sigAlg ≠ OID_ECDSA_WITH_SHA256 then Dec.fail .failed else do
        let issuer ← dName fuel
        pure (version, serial, sigAlg, issuer)

/-- the field readers of `dTbs` behind the validity: subject `Name`, `SubjectPublicKeyInfo` -/
def dTbsMid (fuel : Nat) : Dec ((List Nat × DnAttrs) × (Option (Nat × List Nat) × BitStr)) := do
  let subject ← dName fuel
  let spki ← dSpki
  pure (subject, spki)

theorem run_tbsHead {fuel : Nat} {serial : List Nat} {xi : List Attr} {rest : List Nat} (hwf : ∀ a ∈ xi, a.WF)
    (hi : dnFold xi { vid := none, pid := none } = some { vid := none, pid := none }) (hfi : xi.length < fuel + 2) :
    Run (dTbsHead (fuel + 2))
      (encTlv 0xA0 (encTlv TAG_INTEGER [2]) ++ (encTlv TAG_INTEGER serial ++ (encAlgId OID_ECDSA_WITH_SHA256 ++ (encName xi ++ rest))))
      (fun y => y = ([2], (TAG_INTEGER, serial), OID_ECDSA_WITH_SHA256, (encRdns xi, { vid := none, pid := none }))) rest := by
  unfold dTbsHead
  have hver : Run (ctxExplicit dUintRef) (encTlv 0xA0 (encTlv TAG_INTEGER [2]) ++ (encTlv TAG_INTEGER serial ++
      (encAlgId OID_ECDSA_WITH_SHA256 ++ (encName xi ++ rest)))) (fun y => y = [2]) _ :=
    run_ctxExplicit tagOfByte_a0 (by decide) (by decide) (Run.of_append_nil (run_uintRef_small (by omega)))
  refine Run.bind (run_ctxWith_hit (t := 0xA0) (by simp [encTlv]) tagOfByte_a0 (by decide) (by decide) hver) (fun o ho => ?_)
  obtain ⟨ver, rfl, rfl⟩ := ho
  simp only [ne_eq, not_true_eq_false, if_false]
  refine Run.bind (run_any tagOfByte_int) (fun s hs => ?_)
  subst hs
  refine Run.bind (run_algId oidValid_consts.2.2.1) (fun x hx => ?_)
  subst hx
  simp only [not_true_eq_false, if_false]
  refine Run.bind (run_name hwf hi hfi) (fun x hx => ?_)
  subst hx
  exact Run.pure rfl

theorem run_tbsMid {fuel : Nat} {xs : List Attr} {pk rest : List Nat} (hwf : ∀ a ∈ xs, a.WF)
    (hs : dnFold xs { vid := none, pid := none } = some { vid := none, pid := none }) (hfs : xs.length < fuel + 2)
    (hl : pk.length = P256_PUBLIC_KEY_LEN) (hh : pk.head? = some 0x04) :
    Run (dTbsMid (fuel + 2)) (encName xs ++ (encSpki pk ++ rest))
      (fun y => y.1 = (encRdns xs, { vid := none, pid := none }) ∧ y.2.1 = some (TAG_OID, OID_PRIME256V1) ∧
        y.2.2.bytes = pk ∧ y.2.2.unused = 0) rest := by
  unfold dTbsMid
  refine Run.bind (run_name hwf hs hfs) (fun x hx => ?_)
  subst hx
  refine Run.bind (run_spki hl hh) (fun y hy => ?_)
  exact Run.pure ⟨rfl, hy⟩

end Codec.DerRd

namespace C17
open Codec Codec.Der Codec.CertAsn1

/-- **Matter-TLV certificate → `as_asn1` DER → the field readers of rs-matter's X.509 parser** (audit C17, concern 2b).
For every certificate within the declared bounds whose public key is an uncompressed P-256 point (65 octets, first `0x04`):
the TBSCertificate `as_asn1` writes is, field by field, the X.509 model's own encoding (`DerRd.encName`, `encAlgId`,
`encSpki`, …) of the certificate's fields, and on it the `Dec` actions `TbsCertificate::decode_value` is made of return
* `dTbsHead`: version 3 (`[2]`), the serial `AnyRef` = (INTEGER, the serial octets), the signature algorithm
  ecdsa-with-SHA256, and from `Name::decode` the issuer's raw RDNSequence = `encRdns xi` where `xi` is the list of
  (OID, string tag, value octets) of the issuer attributes (`Attr.toX`), with no VID / PID found;
* `dTbsMid` (positioned behind the validity): the same for the subject, and from `SubjectPublicKeyInfo::decode` the
  curve prime256v1 and the key octets = the certificate's public key, no unused bits.
`Run p l Q l'` = on every reader (any nesting) whose remaining input is `l`, `p` succeeds with a value satisfying `Q` and
leaves `l'`.

**Continued in `Lemmas/CodecDerLinkWalk.lean`:** `Validity::decode` (calendar agreement `calOf_agree`) and the single composed
walk `C17.cert_x509_tbs_walk`; the extension reader (`C17.cert_x509_exts_read` for RCAC / ICAC-shaped lists,
`C17.cert_x509_exts_eku_refused`: the critical extended key usage of every NOC is refused); `X509Cert::new` on this
TBS-only input is `InvalidData` (`DerRd.x509New_tbs_refused`). -/
theorem cert_x509_field_readers (f : Fields) (h : f.Legal) (hpl : f.pubkey.length = 65) (hph : f.pubkey.head? = some 4) :
    ∃ n xi xs nb na, certNode f = some n ∧ mapO Attr.toX f.issuer = some xi ∧ mapO Attr.toX f.subject = some xs ∧
      timeNode f.notBefore = some nb ∧ timeNode (if f.notAfter = 0 then DOESNT_EXPIRE else f.notAfter) = some na ∧
      (∀ fuel rest, f.issuer.length < fuel + 2 →
        DerRd.Run (DerRd.dTbsHead (fuel + 2))
          (DerRd.encTlv 0xA0 (DerRd.encTlv DerRd.TAG_INTEGER [2]) ++ (DerRd.encTlv DerRd.TAG_INTEGER f.serial ++
            (DerRd.encAlgId DerRd.OID_ECDSA_WITH_SHA256 ++ (DerRd.encName xi ++ rest))))
          (fun y => y = ([2], (DerRd.TAG_INTEGER, f.serial), DerRd.OID_ECDSA_WITH_SHA256,
            (DerRd.encRdns xi, { vid := none, pid := none }))) rest) ∧
      (∀ fuel rest, f.subject.length < fuel + 2 →
        DerRd.Run (DerRd.dTbsMid (fuel + 2)) (DerRd.encName xs ++ (DerRd.encSpki f.pubkey ++ rest))
          (fun y => y.1 = (DerRd.encRdns xs, { vid := none, pid := none }) ∧
            y.2.1 = some (DerRd.TAG_OID, DerRd.OID_PRIME256V1) ∧ y.2.2.bytes = f.pubkey ∧ y.2.2.unused = 0) rest) ∧
      ∀ buf : List Nat, n.need ≤ buf.length → buf.length < 65536 →
        asAsn1 f.lazy buf = .ok n.enc ∧
        n.enc = DerRd.encTlv DerRd.TAG_SEQUENCE
          (DerRd.encTlv 0xA0 (DerRd.encTlv DerRd.TAG_INTEGER [2]) ++ (DerRd.encTlv DerRd.TAG_INTEGER f.serial ++
            (DerRd.encAlgId DerRd.OID_ECDSA_WITH_SHA256 ++ (DerRd.encName xi ++ (validityBytes nb na ++
              (DerRd.encName xs ++ (DerRd.encSpki f.pubkey ++ extsBytes f.exts))))))) := by
  obtain ⟨n, hn⟩ := certNode_some f h
  obtain ⟨_, _, _, issuer, nb, na, subject, h2, h3, h4, h5, _⟩ := certNode_parts f n hn
  obtain ⟨xi, i1, _, i3, i4, i5⟩ := dn_encRd f.issuer issuer h.wf.1 h2
  obtain ⟨xs, s1, _, s3, s4, s5⟩ := dn_encRd f.subject subject h.wf.2.1 h5
  refine ⟨n, xi, xs, nb, na, hn, i1, s1, h3, h4, ?_, ?_, ?_⟩
  · intro fuel rest hf
    exact DerRd.run_tbsHead i3 (i5 _) (by omega)
  · intro fuel rest hf
    exact DerRd.run_tbsMid s3 (s5 _) (by omega) hpl hph
  · intro buf hfit hsmall
    have hl := lenOk_of_need n (by omega)
    refine ⟨asAsn1_ok f n buf hn h.wf hl hfit, ?_⟩
    obtain ⟨xi2, xs2, nb2, na2, a1, a2, a3, a4, _, _, _, _, _, _, a5⟩ := asn1_tbs_layout f n hn h.wf hl
    rw [i1] at a1; rw [s1] at a2; rw [h3] at a3; rw [h4] at a4
    cases a1; cases a2; cases a3; cases a4
    exact a5

/-- the sample certificate of `Props/C17.lean` (`certSample`) with a full-length public key -/
def certSampleX509 : Fields :=
  { serial := [0x10, 0x43], signAlgo := 1
    issuer := [{ tag := 20, val := .uint 1 }, { tag := 1, val := .printable [0x43, 0x41] }]
    notBefore := 0x27812280, notAfter := 0
    subject := [{ tag := 17, val := .uint 0xBC5C02 }, { tag := 21, val := .uint 1 }, { tag := 3, val := .utf8 [0x61] }]
    pubkeyAlgo := 1, ecCurveId := 1, pubkey := 4 :: List.replicate 64 7
    exts := [.basic true (some 0), .keyUsage 0x60, .extKeyUsage [2, 1], .subjKeyId [1, 2], .authKeyId [3]] }

theorem certSampleX509_legal : certSampleX509.Legal := by
  refine ⟨rfl, rfl, rfl, by decide, by decide, ?_, ?_, ?_⟩
  · intro a ha; simp [certSampleX509] at ha; rcases ha with rfl | rfl <;> simp [Attr.WF]
  · intro a ha; simp [certSampleX509] at ha; rcases ha with rfl | rfl | rfl <;> simp [Attr.WF]
  · intro e he; simp [certSampleX509] at he
    rcases he with rfl | rfl | rfl | rfl | rfl <;> simp [XExt.WF]

/-- non-vacuity: the hypotheses of `cert_x509_field_readers` and of `cert_der_roundtrip_derrd` hold for the sample -/
example : certSampleX509.Legal ∧ certSampleX509.pubkey.length = 65 ∧ certSampleX509.pubkey.head? = some 4 :=
  ⟨certSampleX509_legal, rfl, rfl⟩
/-- the issuer attributes of the sample as X.509 (OID, string tag, value): the fabric id as 16 hex digits (UTF8String),
the common name as PrintableString -/
example : mapO Attr.toX certSampleX509.issuer =
    some [{ oid := matterOid 4, tag := 0x0c, value := [48, 48, 48, 48, 48, 48, 48, 48, 48, 48, 48, 48, 48, 48, 48, 49] },
          { oid := [0x55, 0x04, 0x03], tag := 0x13, value := [0x43, 0x41] }] := by decide
example : hexRead [48, 48, 48, 48, 48, 48, 48, 48, 48, 48, 48, 48, 48, 48, 48, 49] 0 = some 1 := by decide

end C17
