#!/bin/bash
# tools/try_seed.sh <patch.diff> <Cxx> [<Cxx>...]: apply a candidate change to /repo, run the checks, undo it.
set -u
patch="$1"; shift
cd /repo || exit 2
if ! git diff --quiet; then echo "/repo has uncommitted changes; refusing"; exit 2; fi
git apply "$patch" || { echo "patch does not apply"; exit 2; }
trap 'git -C /repo checkout -- . ; git -C /repo clean -fdq -- rs-matter/src rs-matter/tests 2>/dev/null; git -C /verif checkout -- evidence/ 2>/dev/null' EXIT
cd /verif
rc=0
for p in "$@"; do
  flock /tmp/cargo-slot-5 ./check "$p" --tier "${TIER:-quick}" ; r=$?
  echo "== $p exit=$r"
  [ $r -ne 0 ] && rc=1
done
exit $rc
