import RsMatterVerif.Lemmas.CodecBuf
import RsMatterVerif.Lemmas.CodecLevel0 -- G5
import RsMatterVerif.Lemmas.CodecBase38
import RsMatterVerif.Lemmas.CodecVerhoeff
import RsMatterVerif.Lemmas.CodecManual
import RsMatterVerif.Lemmas.CodecHeaders
import RsMatterVerif.Lemmas.CodecBtpBdx
import RsMatterVerif.Lemmas.CodecQr
import RsMatterVerif.Lemmas.CodecCheckIn
import RsMatterVerif.Lemmas.CodecBleAdv
import RsMatterVerif.Lemmas.CodecDerRead -- D16d
import RsMatterVerif.Lemmas.CodecCmsCd -- D16d
import RsMatterVerif.Lemmas.CodecCmsRound -- D16d
import RsMatterVerif.Lemmas.CodecCertAsn1
import RsMatterVerif.Lemmas.CodecBleRecovery
import RsMatterVerif.Lemmas.CodecMdnsRound
import RsMatterVerif.Lemmas.CodecMdnsService
import RsMatterVerif.Lemmas.CodecX509Sound -- E3
import RsMatterVerif.Lemmas.CodecCd -- E3
import RsMatterVerif.Lemmas.CodecDerLinkFull -- G5 (audit C17 concern 2; imports CodecDerLinkWalk, CodecDerLinkX509, CodecDerLink)
/-!
# C17 — headers, onboarding payloads and discovery records decode what was encoded

For every modelled codec: `decode (encode x) = ok x` under an explicit, decidable well-formedness
predicate (with an `example` that it is satisfiable), totality / absence of panics of the decoder on
arbitrary input (`NoPanic`: the model never answers `Err.panic`; this has content where the model has
checked operations — see section (0b) for the decoders whose list-level model has none), and the refusal clauses of the property (wrong check digit, invalid base-38 character
or length class, out-of-range fields).

The proofs live in `Lemmas/Codec*.lean`; this file states the property-level theorems.
Round 2 added: the BLE recovery advertisement and the mDNS wire format (sections D16b-1 / D16b-2), the
DER writer + Matter-TLV → X.509 conversion with a DER reader as the inverse (section 11), the DER
reading layer, `der_utils.rs` and the CMS envelope of the certification declaration (section D16d).
Round 3 (section E3): the X.509 DAC/PAI/PAA field walk (`cert/x509/cert.rs`), the CSR parser (`cert/x509/csr.rs`) and
the TLV content / `validate` rules of the certification declaration (`attest/cd.rs`) — totality, round trip, refusal.
-/
namespace C17
open Codec

/-! ## (0) the cursor arithmetic every codec sits on (`ParseBuf` / `WriteBuf`) -/

/-- under the structure invariant (established by `new`, preserved by every primitive) each read
primitive of the cursor model equals the list-level reader the codec models use, and none of the
checked slice / index / subtraction operations can panic -/
theorem parsebuf_refines (b : RBuf) (h : b.Inv) (n : Nat) :
    (match b.leU8 with
      | .ok (x, b') => Rd.u8 b.rem = .ok (x, b'.rem) ∧ b'.Inv
      | .error e => Rd.u8 b.rem = .error e) ∧
    (match b.parseArr n with
      | .ok (a, b') => Rd.arr n b.rem = .ok (a, b'.rem) ∧ b'.Inv
      | .error e => Rd.arr n b.rem = .error e) ∧
    (match b.tail n with
      | .ok (t, b') => Rd.tail n b.rem = .ok (t, b'.rem) ∧ b'.Inv
      | .error e => Rd.tail n b.rem = .error e) ∧
    NoPanic b.leU8 ∧ NoPanic (b.parseArr n) ∧ NoPanic (b.tail n) ∧ NoPanic b.asSlice :=
  ⟨RBuf.leU8_refines b h, RBuf.parseArr_refines b n h, RBuf.tail_refines b n h, RBuf.primitives_np b h n⟩
example : (RBuf.new [1, 2, 3]).Inv := RBuf.new_inv _

/-- a write either appends exactly the bytes or fails with `NoSpace`; never a panic -/
theorem writebuf_append (w : WBuf) (src : List Nat) (h : w.Inv) :
    (if w.stop + src.length ≤ w.bufSize then
      ∃ w', w.append src = .ok w' ∧ w'.written = w.written ++ src ∧ w'.Inv ∧ w'.start = w.start ∧ w'.bufSize = w.bufSize
    else w.append src = .error .noSpace) ∧ NoPanic (w.append src) :=
  ⟨WBuf.append_spec w src h, WBuf.append_np w src h⟩
example : (WBuf.new 8).Inv := WBuf.new_inv _

/-! ## (0b) whole decoders on the cursor model (G5): composition of `parsebuf_refines`

The totality theorems `plain_hdr_decode_total`, `proto_hdr_decode_total`, `status_report_read_total`,
`bdx_parsers_total` further down are about the *level-1* models, which read from a list and contain no
failing operation (`Err.panic` does not occur in them): they hold by construction. The content is here:
the same Rust functions transliterated over the level-0 cursor `RBuf` (`Model/Codec/Level0.lean`), where
every slice / index / `usize` subtraction of `parsebuf.rs` **and the three direct `payload[..]` index
expressions of `bdx.rs`** are checked operations answering `Err.panic`, (a) never answer `panic` on arbitrary
input and (b) compute exactly what the level-1 decoder computes on the remaining bytes. The BTP header /
handshake decoders read from a byte *iterator* (`next().ok_or(..)?` only, no index expression in the Rust),
so `btp_hdr_decode_total` / `btp_handshake_decode_total` are by construction in the code as well. -/

/-- `PlainHdr::decode` on any `ReadBuf` in its invariant: equals the list-level decoder on the remaining
bytes, leaves the cursor in its invariant, and no checked operation fails. `RefinesCur x y` :=
`match x with | .ok (h, b') => y = .ok (h, b'.rem) ∧ b'.Inv | .error e => y = .error e ∧ e ≠ .panic`. -/
theorem plain_hdr_decode_refines (h0 : PlainHdr.Hdr) (b : RBuf) (hb : b.Inv) :
    RefinesCur (PlainHdr.decode0 h0 b) (PlainHdr.decode h0 b.rem) ∧
    NoPanic (PlainHdr.decode0 h0 b) :=
  have h := PlainHdr.decode0_sim h0 b rfl rfl hb
  ⟨SimR.refinesCur hb h, h.noPanic⟩

/-- the same for `ProtoHdr::decrypt_and_decode` (decoding part) -/
theorem proto_hdr_decode_refines (h0 : ProtoHdr.Hdr) (b : RBuf) (hb : b.Inv) :
    RefinesCur (ProtoHdr.decode0 h0 b) (ProtoHdr.decode h0 b.rem) ∧
    NoPanic (ProtoHdr.decode0 h0 b) :=
  have h := ProtoHdr.decode0_sim h0 b rfl rfl hb
  ⟨SimR.refinesCur hb h, h.noPanic⟩

/-- … including the checked `parsebuf.as_slice()` inside the `trace!("[rx payload]: …")` that ends `decrypt_and_decode`
(evaluated when trace logging is on): it cannot fail, the traced decoder is the decoder -/
theorem proto_hdr_decode_traced (h0 : ProtoHdr.Hdr) (b : RBuf) (hb : b.Inv) :
    ProtoHdr.decode0Traced h0 b = ProtoHdr.decode0 h0 b ∧ NoPanic (ProtoHdr.decode0Traced h0 b) := by
  rw [ProtoHdr.decode0Traced_eq h0 b hb]
  exact ⟨rfl, (proto_hdr_decode_refines h0 b hb).2⟩
example : (RBuf.new [0x05, 0x20, 1, 0, 0, 0, 9, 9]).Inv := RBuf.new_inv _

/-- `StatusReport::read` (three reads and the checked `as_slice()`) -/
theorem status_report_read_refines (b : RBuf) (hb : b.Inv) :
    StatusReport.read0 b = StatusReport.read b.rem ∧ NoPanic (StatusReport.read0 b) :=
  have h := StatusReport.read0_sim b hb
  ⟨h.eq, h.noPanic⟩
example : (RBuf.new [1, 0, 2, 0, 0, 0, 3, 0, 9]).Inv ∧
    StatusReport.read0 (RBuf.new [1, 0, 2, 0, 0, 0, 3, 0, 9]) = .ok { general := 1, protoId := 2, protoCode := 3, data := [9] } :=
  ⟨RBuf.new_inv _, rfl⟩

/-- **BDX parsers with their direct index expressions checked** (`payload.get(off..end)`, `&payload[end..]`,
`&payload[rb.read_off()..]`): for every payload they equal the list-level parsers and never panic.
`payload.length < 2^64` (a Rust slice length is a `usize`) is needed for `TransferInit` only, where the code
computes `off.checked_add(fdl)`. -/
theorem bdx_parsers_refine (l : List Nat) (r : Bool) (hl : l.length < USIZE) :
    (Bdx.TransferInit.parse0 l = Bdx.TransferInit.parse l ∧ NoPanic (Bdx.TransferInit.parse0 l)) ∧
    (Bdx.TransferAccept.parse0 r l = Bdx.TransferAccept.parse r l ∧ NoPanic (Bdx.TransferAccept.parse0 r l)) ∧
    (Bdx.Block.parse0 l = Bdx.Block.parse l ∧ NoPanic (Bdx.Block.parse0 l)) ∧
    (Bdx.blockQueryParse0 l = Bdx.blockQueryParse l ∧ NoPanic (Bdx.blockQueryParse0 l)) ∧
    (Bdx.blockQuerySkipParse0 l = Bdx.blockQuerySkipParse l ∧ NoPanic (Bdx.blockQuerySkipParse0 l)) :=
  ⟨⟨(Bdx.init_parse0_sim l hl).eq, (Bdx.init_parse0_sim l hl).noPanic⟩,
   ⟨(Bdx.accept_parse0_sim r l).eq, (Bdx.accept_parse0_sim r l).noPanic⟩,
   ⟨(Bdx.block_parse0_sim l).eq, (Bdx.block_parse0_sim l).noPanic⟩,
   ⟨(Bdx.blockQuery0_sim l).eq, (Bdx.blockQuery0_sim l).noPanic⟩,
   ⟨(Bdx.blockQuerySkip0_sim l).eq, (Bdx.blockQuerySkip0_sim l).noPanic⟩⟩
/-- the checked index is a real obligation: the same slice one byte further out does answer `panic` -/
example : RBuf.slice [1, 2, 3] 4 3 = .error .panic ∧ RBuf.slice [1, 2, 3] 3 3 = .ok [] := ⟨rfl, rfl⟩
/-- a TransferInit whose file-designator length exceeds the payload is `TruncatedPacket`, not a panic -/
example : Bdx.TransferInit.parse0 [0x10, 0, 0, 4, 9, 0, 1] = .error .truncated := rfl

/-! ## (1) base-38 -/

/-- every byte string survives encode → decode -/
theorem base38_decode_encode (bs : List Nat) (h : ∀ b ∈ bs, b < 256) :
    ∃ cs, Base38.encode bs = .ok cs ∧ Base38.decodeVec cs = .ok bs := by
  obtain ⟨cs, h1, h2⟩ := Base38.decode_encode bs h
  exact ⟨cs, h1, by simp [Base38.decodeVec, h2]⟩
example : ∀ b ∈ [0x88, 0xff, 0xa7], b < 256 := by decide

/-- every canonical string survives decode → encode (so the decoder is injective on canonical strings) -/
theorem base38_encode_decode (s : List Nat) (h : Base38.canonical s = true) :
    ∃ bs, Base38.decodeVec s = .ok bs ∧ Base38.encode bs = .ok s := by
  obtain ⟨h1, h2⟩ := Base38.encode_decode s h
  refine ⟨(Base38.decode s).1, ?_, h2⟩
  simp only [Base38.decodeVec]
  cases hd : Base38.decode s with
  | mk bs e => rw [hd] at h1; simp at h1; subst h1; rfl
example : Base38.canonical [45, 77, 79, 65, 53, 55, 48] = true := by decide

/-- the decoder never panics and fails only with `InvalidData` -/
theorem base38_decode_total (s : List Nat) : NoPanic (Base38.decodeVec s) := by
  simp only [Base38.decodeVec, NoPanic]
  cases hd : Base38.decode s with
  | mk bs e =>
    cases e with
    | none => simp
    | some e =>
      have := Base38.decode_error s e (by rw [hd])
      subst this; simp

/-- a character outside the alphabet is refused -/
theorem base38_invalid_char_rejected (s : List Nat) (c : Nat) (hc : c ∈ s) (hbad : c ∉ Base38.alphabet) :
    Base38.decodeVec s = .error .invalidData := by
  have hb : Base38.decChar c = .error .invalidData := by
    rcases Base38.decChar_cases c with ⟨d, _, _, ha⟩ | he
    · exact absurd (List.mem_of_getElem? ha) hbad
    · exact he
  have := Base38.decode_rejects_invalid_char s c hc hb
  simp only [Base38.decodeVec]
  cases hd : Base38.decode s with
  | mk bs e => rw [hd] at this; simp at this; subst this; rfl
example : (33 : Nat) ∈ [48, 33] ∧ (33 : Nat) ∉ Base38.alphabet := by decide

/-- a string whose length is 1 or 3 modulo 5 (no such encoding exists) is refused -/
theorem base38_bad_length_rejected (s : List Nat) (h : s.length % 5 = 1 ∨ s.length % 5 = 3) :
    Base38.decodeVec s = .error .invalidData := by
  have := Base38.decode_rejects_bad_length s h
  simp only [Base38.decodeVec]
  cases hd : Base38.decode s with
  | mk bs e => rw [hd] at this; simp at this; subst this; rfl

/-! ## (2) Verhoeff check digit and the manual pairing code -/

/-- 11-digit code: `parse_pairing_code (compute_pairing_code d p)` = (d >> 8, p) -/
theorem manual_code_parse_encode (disc pw : Nat) (hd : disc < 4096) (hp : pw < 134217728) :
    ∃ code, ManualCode.encode disc pw = .ok code ∧ code.length = 11 ∧
      ManualCode.parse code = .ok { short := disc / 256, pass := pw, vid := 0, pid := 0, long := false } :=
  ManualCode.parse_encode disc pw hd hp
example : (3840 : Nat) < 4096 ∧ (20202021 : Nat) < 134217728 := by decide

/-- 21-digit code (specification-side encoder; rs-matter only has the decoder): the decoder inverts the
format of the Matter specification, including vendor and product id -/
theorem manual_code_long_parse_spec_encode (disc pw vid pid : Nat) (hd : disc < 4096) (hp : pw < 134217728)
    (hv : vid < 65536) (hpd : pid < 65536) :
    ∃ code, ManualCode.specEncodeLong disc pw vid pid = .ok code ∧ code.length = 21 ∧
      ManualCode.parse code = .ok { short := disc / 256, pass := pw, vid := vid, pid := pid, long := true } :=
  ManualCode.parse_specEncodeLong disc pw vid pid hd hp hv hpd

theorem manual_code_parse_total (code : List Nat) : NoPanic (ManualCode.parse code) :=
  ManualCode.parse_np code

/-- every single-digit substitution in a code that validates is detected -/
theorem verhoeff_detects_substitution (pre post : List Nat) (a b : Nat)
    (ha : Verhoeff.isDigit a = true) (hb : Verhoeff.isDigit b = true) (hne : a ≠ b)
    (h : Verhoeff.validate (pre ++ a :: post) = true) : Verhoeff.validate (pre ++ b :: post) = false :=
  Verhoeff.validate_subst pre post a b ha hb hne h

/-- every transposition of two different adjacent digits is detected -/
theorem verhoeff_detects_transposition (pre post : List Nat) (a b : Nat)
    (ha : Verhoeff.isDigit a = true) (hb : Verhoeff.isDigit b = true) (hne : a ≠ b)
    (h : Verhoeff.validate (pre ++ a :: b :: post) = true) : Verhoeff.validate (pre ++ b :: a :: post) = false :=
  Verhoeff.validate_transpose pre post a b ha hb hne h
example : Verhoeff.validate [50, 51, 54, 51] = true := by decide

/-- a code with a wrong check digit is refused (10 or 20 digits followed by a digit that is not their
Verhoeff digit) -/
theorem manual_code_bad_check_digit_rejected (digits : List Nat) (c k : Nat)
    (hdig : ∀ x ∈ digits, Verhoeff.isDigit x = true) (hlen : digits.length = 10 ∨ digits.length = 20)
    (hc : Verhoeff.isDigit c = true) (hk : Verhoeff.calculate digits = .ok k) (hne : c ≠ 48 + k) :
    ManualCode.parse (digits ++ [c]) = .error .invalidData :=
  ManualCode.parse_rejects_wrong_check_digit digits c hdig hlen hc k hk hne

/-- any code (with or without separators) whose digits do not validate is refused -/
theorem manual_code_invalid_checksum_rejected (code ds : List Nat) (hs : ManualCode.strip code [] = .ok ds)
    (hv : Verhoeff.validate ds = false) : ManualCode.parse code = .error .invalidData :=
  ManualCode.parse_rejects_bad_check code ds hs hv

/-- **a manual pairing code with an out-of-range field is refused with `InvalidData`, also when its check digit
is right**: first digit 8 / 9, vid/pid-present bit not matching the length, digits 2..6 > 65535, digits 7..10 >
8191, vendor or product id > 65535 (`ManualCode.RangesOk`, on the digit string after the separators are stripped) -/
theorem manual_code_out_of_range_rejected (code ds : List Nat) (hs : ManualCode.strip code [] = .ok ds)
    (hbad : ¬ ManualCode.RangesOk ds) : ManualCode.parse code = .error .invalidData :=
  ManualCode.parse_rejects_out_of_range code ds hs hbad

/-- and one with another number of digits than 11 / 21 -/
theorem manual_code_bad_length_rejected (code ds : List Nat) (hs : ManualCode.strip code [] = .ok ds)
    (h : ds.length ≠ 11 ∧ ds.length ≠ 21) : ManualCode.parse code = .error .invalidData :=
  ManualCode.parse_rejects_length code ds hs h

/-- non-vacuity, one code per class, each with a *valid* Verhoeff digit (so only the range test refuses it):
`80000000001` (first digit 8), `40000000011` (11 digits with the vid/pid flag), `06553600008` (digits 2..6 =
65536), `00000081926` (digits 7..10 = 8192), `400000000165536000013` (vendor id 65536),
`400000000100001655363` (product id 65536) -/
example : [[56, 48, 48, 48, 48, 48, 48, 48, 48, 48, 49], [52, 48, 48, 48, 48, 48, 48, 48, 48, 49, 49],
      [48, 54, 53, 53, 51, 54, 48, 48, 48, 48, 56], [48, 48, 48, 48, 48, 48, 56, 49, 57, 50, 54],
      [52, 48, 48, 48, 48, 48, 48, 48, 48, 49, 54, 53, 53, 51, 54, 48, 48, 48, 48, 49, 51],
      [52, 48, 48, 48, 48, 48, 48, 48, 48, 49, 48, 48, 48, 48, 49, 54, 53, 53, 51, 54, 51]].all
    (fun ds => (match ManualCode.strip ds [] with | .ok r => r == ds | .error _ => false) &&
      Verhoeff.validate ds && !decide (ManualCode.RangesOk ds)) = true := by decide

/-- the encoder outside the legal field values (not demanded by the property — `compute_pairing_code` is not a
decoder and discriminators ≥ 2^12 / passcodes ≥ 2^27 are not legal field values — stated to pin down where the
`write_unwrap!` panic of the model, and of the code, begins): no panic up to discriminator 10239 and passcode
163839999; `encode 10240 1` and `encode 0 163840000` answer `panic` (example in Lemmas/CodecManual.lean) -/
theorem manual_code_encoder_no_panic_below (disc pw : Nat) (hd : disc < 10240) (hp : pw < 163840000) :
    ∃ code, ManualCode.encode disc pw = .ok code ∧ code.length = 11 :=
  ManualCode.encode_ok_of_bounds disc pw hd hp
example : ManualCode.encode 10240 1 = .error .panic ∧ ManualCode.encode 0 163840000 = .error .panic := ⟨rfl, rfl⟩

/-! ## (3) plain message header -/

theorem plain_hdr_decode_encode (h h0 : PlainHdr.Hdr) (rest : List Nat) (hwf : PlainHdr.WF h) :
    ∃ h', PlainHdr.decode h0 (PlainHdr.encodeBytes h ++ rest) = .ok (h', rest) ∧ PlainHdr.view h' = PlainHdr.view h :=
  PlainHdr.decode_encode h h0 rest hwf

theorem plain_hdr_decode_encode_exact (h : PlainHdr.Hdr) (rest : List Nat) (hwf : PlainHdr.WF h)
    (hc : PlainHdr.Canon h) : PlainHdr.decode {} (PlainHdr.encodeBytes h ++ rest) = .ok (h, rest) :=
  PlainHdr.decode_encode_exact h rest hwf hc
example : PlainHdr.WF { flags := 6, sessId := 7, secFlags := 0xE1, ctr := 9, src := 11, dst := 13 } ∧
    PlainHdr.Canon { flags := 6, sessId := 7, secFlags := 0xE1, ctr := 9, src := 11, dst := 13 } := by decide

/-- level-1 (list) model: holds by construction (no failing operation in the model); the checked-arithmetic
statement is `plain_hdr_decode_refines` -/
theorem plain_hdr_decode_total (h0 : PlainHdr.Hdr) (l : List Nat) : NoPanic (PlainHdr.decode h0 l) :=
  PlainHdr.decode_np h0 l

/-! ## (4) protocol header -/

theorem proto_hdr_decode_encode (h h0 : ProtoHdr.Hdr) (rest : List Nat) (hwf : ProtoHdr.WF h) :
    ∃ h', ProtoHdr.decode h0 (ProtoHdr.encodeBytes h ++ rest) = .ok (h', rest) ∧ ProtoHdr.view h' = ProtoHdr.view h :=
  ProtoHdr.decode_encode h h0 rest hwf

theorem proto_hdr_decode_encode_exact (h : ProtoHdr.Hdr) (rest : List Nat) (hwf : ProtoHdr.WF h)
    (hc : ProtoHdr.Canon h) : ProtoHdr.decode {} (ProtoHdr.encodeBytes h ++ rest) = .ok (h, rest) :=
  ProtoHdr.decode_encode_exact h {} rest hwf hc ⟨rfl, rfl⟩
example : ProtoHdr.WF { exchId := 1, flags := 0x13, protoId := 2, opcode := 3, vendorId := 4, ackCtr := 5 } ∧
    ProtoHdr.Canon { exchId := 1, flags := 0x13, protoId := 2, opcode := 3, vendorId := 4, ackCtr := 5 } := by decide

/-- level-1 (list) model: by construction; the checked-arithmetic statement is `proto_hdr_decode_refines` -/
theorem proto_hdr_decode_total (h0 : ProtoHdr.Hdr) (l : List Nat) : NoPanic (ProtoHdr.decode h0 l) :=
  ProtoHdr.decode_np h0 l

/-! ## (5) status report -/

theorem status_report_read_write (r : StatusReport.Report) (hwf : StatusReport.WF r) :
    StatusReport.read (StatusReport.writeBytes r) = .ok r :=
  StatusReport.read_write r hwf

/-- level-1 (list) model: by construction; the checked-arithmetic statement is `status_report_read_refines` -/
theorem status_report_read_total (l : List Nat) : NoPanic (StatusReport.read l) :=
  StatusReport.read_np l

theorem status_report_unknown_general_code_rejected (g : Nat) (rest : List Nat)
    (h : StatusReport.GENERAL_CODE_MAX < g) (h' : g < 65536) :
    StatusReport.read (le16 g ++ rest) = .error .invalidOpcode :=
  StatusReport.read_rejects_general g rest h h'

/-! ## (6) QR onboarding payload: 3+16+16+2+8+12+27+4 bits, base-38 body, optional TLV tail -/

/-- `parse (as_str q) = q`, including any optional-TLV bytes. `q.version = 0` is the only value the Rust type can
hold (`QrPayload::new` sets it, the field is private); since the fix `C17-qr-version-accepted` the parser refuses
every other version. -/
theorem qr_parse_encode (q : QrPayload.Qr) (hwf : QrPayload.WF q) (hver : q.version = 0) (cap : Nat)
    (hcap : 11 + q.tlv.length ≤ cap) :
    ∃ cs, QrPayload.encode q = .ok cs ∧ QrPayload.parse cs cap = .ok q :=
  QrPayload.parse_encode q hwf hver cap hcap
def qrSample : QrPayload.Qr :=
  { version := 0, vid := 9050, pid := 65279, flow := 0, rendezvous := 2, disc := 2976
    pass := 34567890, tlv := [0x15, 0x18] }
example : QrPayload.WF qrSample := by
  refine ⟨by decide, by decide, by decide, by decide, by decide, by decide, by decide, ?_⟩
  intro b hb; simp [qrSample] at hb; omega

theorem qr_parse_total (s : List Nat) (cap : Nat) : NoPanic (QrPayload.parse s cap) :=
  QrPayload.parse_np s cap

/-- out-of-range / malformed QR texts are refused, each with its error class (never `panic`): no `MT:`
prefix → `InvalidData`; a character outside the base-38 alphabet or an impossible length class → `InvalidData`
(`BufferTooSmall` when the bytes decoded before the bad chunk already overflow the caller's scratch buffer);
fewer than 11 decoded bytes → `InvalidData` (`BufferTooSmall` only for a buffer that is smaller still); a version
field other than 0 → `InvalidData`; the undefined commissioning flow 3 → `InvalidData` -/
theorem qr_out_of_range_rejected :
    (∀ s cap, QrPayload.stripPrefix s = none → QrPayload.parse s cap = .error .invalidData) ∧
    (∀ body cap, ((∃ c ∈ body, c ∉ Base38.alphabet) ∨ body.length % 5 = 1 ∨ body.length % 5 = 3) →
      QrPayload.parse (QrPayload.PREFIX ++ body) cap = .error .invalidData ∨
      QrPayload.parse (QrPayload.PREFIX ++ body) cap = .error .bufferTooSmall) ∧
    (∀ body bytes cap, Base38.decode body = (bytes, none) → bytes.length < 11 →
      QrPayload.parse (QrPayload.PREFIX ++ body) cap = .error .invalidData ∨
      QrPayload.parse (QrPayload.PREFIX ++ body) cap = .error .bufferTooSmall) ∧
    (∀ body bytes cap, Base38.decode body = (bytes, none) → (∀ b ∈ bytes, b < 256) → 11 ≤ bytes.length →
      bytes.length ≤ cap → fromLe bytes % 2 ^ 3 ≠ 0 →
      QrPayload.parse (QrPayload.PREFIX ++ body) cap = .error .invalidData) ∧
    (∀ body bytes cap, Base38.decode body = (bytes, none) → (∀ b ∈ bytes, b < 256) → 11 ≤ bytes.length →
      bytes.length ≤ cap → fromLe bytes / 2 ^ 35 % 2 ^ 2 = 3 →
      QrPayload.parse (QrPayload.PREFIX ++ body) cap = .error .invalidData) :=
  ⟨QrPayload.parse_rejects_prefix, QrPayload.parse_rejects_bad_base38, QrPayload.parse_rejects_short,
   QrPayload.parse_rejects_version, QrPayload.parse_rejects_flow⟩
/-- `MT:10L9042C00KA0648G00` = the payload of `MT:Y.K9042C00KA0648G00` (vendor 0xFFF1, product 0x8000,
discriminator 3840, passcode 20202021) with version 5: refused (accepted, with `version() = 5`, before the fix) -/
example : QrPayload.parse [77, 84, 58, 49, 48, 76, 57, 48, 52, 50, 67, 48, 48, 75, 65, 48, 54, 52, 56, 71, 48, 48] 64
    = .error .invalidData := rfl
example : (QrPayload.parse [77, 84, 58, 89, 46, 75, 57, 48, 52, 50, 67, 48, 48, 75, 65, 48, 54, 52, 56, 71, 48, 48] 64).toOption.map
    (fun q => (q.version, q.vid, q.pid, q.disc, q.pass)) = some (0, 65521, 32768, 3840, 20202021) := rfl

/-- soundness of acceptance: whatever `QrPayload::parse` accepts has version 0 and a defined commissioning flow.
(Criterion, the same for every onboarding codec: refused at codec level = the values for which the v1 layout or an
enumeration is undefined — version ≠ 0, flow 3, manual-code first digit 8 / 9. The semantic legality of a correctly
decoded field — passcode 0, > 99999998 or one of the trivial ones, an empty rendezvous set, padding / reserved bits — is the
subject of the validator `QrPayload::is_valid`, not of `parse`, as in the reference SDK; see docs/C17.md, "Observations for the
maintainers": that validator is not callable on the parsed type.) -/
theorem qr_accepts_only_version0_defined_flow (s : List Nat) (cap : Nat) (q : QrPayload.Qr)
    (h : QrPayload.parse s cap = .ok q) : q.version = 0 ∧ q.flow ≤ 2 :=
  QrPayload.parse_ok_version_flow s cap q h

/-! ## (7) BTP packet header and handshake -/

theorem btp_hdr_decode_encode (h h0 : BtpHdr.Hdr) (rest : List Nat) (hwf : BtpHdr.WF h) :
    ∃ h', BtpHdr.decode h0 (BtpHdr.encodeBytes h ++ rest) = .ok (h', rest) ∧ BtpHdr.view h' = BtpHdr.view h :=
  BtpHdr.decode_encode h h0 rest hwf
example : BtpHdr.WF { flags := 0x0D, opcode := 0, ackNum := 3, seqNum := 4, msgLen := 300 } := by decide

/-- by construction, in the model and in the code: the Rust decoder reads a byte iterator with
`next().ok_or(ErrorCode::Invalid)?` and has no index / slice / subtraction / `unwrap` -/
theorem btp_hdr_decode_total (h0 : BtpHdr.Hdr) (l : List Nat) : NoPanic (BtpHdr.decode h0 l) :=
  BtpHdr.decode_np h0 l

theorem btp_handshake_req_decode_encode (r : BtpHdr.Req) (rest : List Nat) (hwf : BtpHdr.Req.WF r) :
    BtpHdr.Req.decode (BtpHdr.Req.encodeBytes r ++ rest) = .ok (r, rest) :=
  BtpHdr.req_decode_encode r rest hwf
example : BtpHdr.Req.WF { versions := 4, mtu := 247, window := 6 } := by
  refine ⟨by decide, by decide, by decide⟩

theorem btp_handshake_resp_decode_encode (r : BtpHdr.Resp) (rest : List Nat) (hwf : BtpHdr.Resp.WF r) :
    BtpHdr.Resp.decode (BtpHdr.Resp.encodeBytes r ++ rest) = .ok (r, rest) :=
  BtpHdr.resp_decode_encode r rest hwf
example : BtpHdr.Resp.WF { version := 4, mtu := 247, window := 6 } := by
  refine ⟨by decide, by decide, by decide⟩

/-- by construction (byte iterator, see `btp_hdr_decode_total`) -/
theorem btp_handshake_decode_total (l : List Nat) :
    NoPanic (BtpHdr.Req.decode l) ∧ NoPanic (BtpHdr.Resp.decode l) :=
  ⟨BtpHdr.req_decode_np l, BtpHdr.resp_decode_np l⟩

/-! ## (8) check-in message framing, symbolic AEAD -/

theorem checkin_parse_generate (S : CheckIn.Scheme) (hS : S.Sound) (key app : List Nat) (ctr cap : Nat)
    (hc : ctr < 4294967296) (hcap : CheckIn.MIN_PAYLOAD_LEN + app.length ≤ cap) :
    ∃ p, CheckIn.generate S key ctr app cap = .ok p ∧ p.length = CheckIn.MIN_PAYLOAD_LEN + app.length ∧
      CheckIn.parse S key p = .ok (ctr, app) :=
  CheckIn.parse_generate S hS key app ctr cap hc hcap
example : CheckIn.toyScheme.Sound := CheckIn.toyScheme_sound

theorem checkin_parse_total (S : CheckIn.Scheme) (hS : S.Sound) (key payload : List Nat) :
    NoPanic (CheckIn.parse S key payload) :=
  CheckIn.parse_np S hS key payload

/-- a check-in payload shorter than nonce + counter + tag is refused -/
theorem checkin_short_rejected (S : CheckIn.Scheme) (key payload : List Nat)
    (h : payload.length < CheckIn.MIN_PAYLOAD_LEN) : CheckIn.parse S key payload = .error .invalid := by
  simp [CheckIn.parse, h]

/-- a check-in payload whose AEAD tag does not verify is refused (`InvalidData`) -/
theorem checkin_bad_tag_rejected (S : CheckIn.Scheme) (key payload : List Nat)
    (hl : ¬ payload.length < CheckIn.MIN_PAYLOAD_LEN)
    (hdec : S.dec key (payload.take CheckIn.NONCE_LEN) (payload.drop CheckIn.NONCE_LEN) = none) :
    CheckIn.parse S key payload = .error .invalidData :=
  CheckIn.parse_rejects_bad_tag S key payload hl hdec

/-- a check-in payload that decrypts but whose nonce is not the one derived from the authenticated counter is
refused (`Invalid`) -/
theorem checkin_wrong_nonce_rejected (S : CheckIn.Scheme) (key payload pt : List Nat)
    (hl : ¬ payload.length < CheckIn.MIN_PAYLOAD_LEN)
    (hdec : S.dec key (payload.take CheckIn.NONCE_LEN) (payload.drop CheckIn.NONCE_LEN) = some pt)
    (h4 : ¬ pt.length < CheckIn.COUNTER_LEN)
    (hn : CheckIn.nonceOf S key (fromLe (pt.take CheckIn.COUNTER_LEN)) ≠ payload.take CheckIn.NONCE_LEN) :
    CheckIn.parse S key payload = .error .invalid :=
  CheckIn.parse_rejects_wrong_nonce S key payload pt hl hdec h4 hn

/-- non-vacuity on the toy scheme: a 33-byte payload with a broken tag; and one that decrypts to counter 1 under
the nonce `09…09`, which is not the nonce of counter 1 -/
example : CheckIn.parse CheckIn.toyScheme [] (List.replicate 33 0) = .error .invalidData :=
  checkin_bad_tag_rejected CheckIn.toyScheme [] _ (by decide) (by decide)
example : CheckIn.parse CheckIn.toyScheme [] (List.replicate 13 9 ++ [1, 0, 0, 0] ++ List.replicate 16 7) = .error .invalid :=
  checkin_wrong_nonce_rejected CheckIn.toyScheme [] _ [1, 0, 0, 0] (by decide) (by decide) (by decide) (by decide)

/-! ## (9) BDX messages -/

theorem bdx_init_parse_write (t : Bdx.TransferInit) (hwf : Bdx.TransferInit.WF t) :
    Bdx.TransferInit.parse t.writeBytes = .ok t :=
  Bdx.init_parse_write t hwf

theorem bdx_accept_parse_write (t : Bdx.TransferAccept) (hwf : Bdx.TransferAccept.WF t) :
    Bdx.TransferAccept.parse t.receive t.writeBytes = .ok t :=
  Bdx.accept_parse_write t hwf

theorem bdx_block_parse_write (b : Bdx.Block) (h : b.counter < 4294967296) : Bdx.Block.parse b.writeBytes = .ok b :=
  Bdx.block_parse_write b h

/-- level-1 (list) model: by construction; the statement with the `ReadBuf` arithmetic and the three direct
`payload[..]` index expressions of `bdx.rs` as checked operations is `bdx_parsers_refine` -/
theorem bdx_parsers_total (l : List Nat) (r : Bool) :
    NoPanic (Bdx.TransferInit.parse l) ∧ NoPanic (Bdx.TransferAccept.parse r l) ∧ NoPanic (Bdx.Block.parse l) ∧
    NoPanic (Bdx.blockQueryParse l) ∧ NoPanic (Bdx.blockQuerySkipParse l) :=
  ⟨Bdx.init_parse_np l, Bdx.accept_parse_np r l, Bdx.block_parse_np l, Bdx.blockQuery_np l, Bdx.blockQuerySkip_np l⟩

/-! ## (10) BLE advertisement payload of a commissionable device (`AdvData`) -/

theorem ble_adv_parse_encode (a : BleAdv.Adv) (hwf : BleAdv.WF a) :
    BleAdv.parseServiceData (BleAdv.servicePayload a) = .ok (some a) ∧ BleAdv.parseAdv (BleAdv.encode a) = .ok (some a) :=
  BleAdv.parse_encode a hwf
example : BleAdv.WF { vid := 0xFFF1, pid := 0x8000, disc := 0xF00, additional := false } := by
  refine ⟨by decide, by decide, by decide⟩

/-- **the `AdStructures` walk of `matter_service_data` terminates**: the model's fuel `len + 1` is never
exhausted (`WalkErr.fuel` is a distinct error, not the good value "no Matter record"), and the checked
`rest.split_at(len)` is always in range. Shared by `AdvData::parse_adv` and `RecoveryAdvData::parse_adv`. -/
theorem ble_adv_walk_terminates (adv : List Nat) :
    (∃ r, BleAdv.matterServiceData (adv.length + 1) adv = .ok r) ∧
    BleAdv.matterServiceData (adv.length + 1) adv ≠ .error .fuel ∧
    BleAdv.matterServiceData (adv.length + 1) adv ≠ .error .panic :=
  ⟨BleAdv.matterServiceData_ok adv, BleAdv.matterServiceData_no_fuel adv⟩
/-- with too little fuel the model does answer `fuel` (two structures, one step) -/
example : BleAdv.matterServiceData 1 [2, 1, 6, 2, 1, 6] = .error .fuel := rfl

/-- `parseAdv` reports an error of the walk (fuel, failed split) as `Err.panic`, so this includes
`ble_adv_walk_terminates` -/
theorem ble_adv_parse_total (adv : List Nat) :
    NoPanic (BleAdv.parseAdv adv) ∧ NoPanic (BleAdv.parseServiceData adv) :=
  ⟨BleAdv.parseAdv_np adv, BleAdv.parseServiceData_np adv⟩

/-! ## (D16d) DER reading layer under `attest/cd.rs`, `cert/x509/cert.rs`, `cert/x509/csr.rs` (crate `der` 0.7.10)
and rs-matter's `cert/der_utils.rs`

`Der.Safe r` = the model's answer `r` is a value or a proper error: neither `E.panic` (an index, slice,
checked subtraction, `debug_assert!` or `copy_from_slice` of the Rust code would panic) nor `E.endless`
(a loop ran out of fuel). `Der.Within input v` = `v` is a range `[off, off + |v|)` of `input`. -/

open Codec.DerRd in
/-- **the reading primitives are total and never panic**, on every well-formed reader (`Rdr.WF`: the
invariant that `SliceReader::new` / `NestedReader::new` establish and every read preserves), for
arbitrary bytes (no range assumption on the "bytes") and any requested length -/
theorem der_reader_total (r : Rdr) (h : r.WF) (n : Nat) :
    Safe (r.readSlice n) ∧ Safe r.readByte ∧ Safe (lengthDecode r) ∧ Safe (headerDecode r) ∧
    Safe (anyDecode r) ∧ Safe r.finish ∧ Safe (nestedNew r n) :=
  ⟨readSlice_safe h n, readByte_safe h, lengthDecode_safe h, headerDecode_safe h, anyDecode_safe h,
   finish_safe h, nestedNew_safe h n⟩
example : ∃ r, Codec.DerRd.Rdr.new [0x30, 0x00] = .ok r ∧ r.WF :=
  ⟨.slice [0x30, 0x00] 0, rfl, by decide, by decide⟩

open Codec.DerRd in
/-- **every slice a read returns is the range `[offset, offset + n)` of the input, inside the input**,
the reader advances by exactly `n` and stays well formed (same input, same nesting) -/
theorem der_read_slice_within (r : Rdr) (h : r.WF) (n : Nat) (s : List Nat) (r' : Rdr)
    (hr : r.readSlice n = .ok (s, r')) :
    s = (r.input.drop r.offset).take n ∧ s.length = n ∧ r.offset + n ≤ r.input.length ∧
    r'.offset = r.offset + n ∧ r'.input = r.input ∧ r'.WF ∧ r'.shape = r.shape := by
  obtain ⟨h1, h2, h3, h4, h5, _, _, h8⟩ := readSlice_spec h hr
  have := h5.offset_le
  rw [h3, h4] at this
  exact ⟨h1, h2, this, h3, h4, h5, h8⟩
example : (Codec.DerRd.Rdr.slice [1, 2, 3] 1).readSlice 2 = .ok ([2, 3], .slice [1, 2, 3] 3) := rfl

open Codec.DerRd in
/-- **`AnyRef::decode`: the value lies inside the input, at least two octets behind the old offset, and
the reader moves strictly forward to its end** -/
theorem der_any_within_and_progress (r : Rdr) (h : r.WF) (tag : Nat) (v : List Nat) (r' : Rdr)
    (hr : anyDecode r = .ok ((tag, v), r')) :
    ∃ hl, 2 ≤ hl ∧ v = (r.input.drop (r.offset + hl)).take v.length ∧
      r.offset + hl + v.length ≤ r.input.length ∧ r'.offset = r.offset + hl + v.length ∧ r'.WF := by
  obtain ⟨hl, h1, h2, h3, h4⟩ := anyDecode_spec h hr
  exact ⟨hl, h1, h2, h3, by rw [h4.off]; omega, h4.wf⟩
example : Codec.DerRd.anyDecode (.slice [0x02, 0x01, 0x05] 0) = .ok ((2, [5]), .slice [0x02, 0x01, 0x05] 3) := rfl

open Codec.DerRd in
/-- **DER is canonical in this reader**: whatever `AnyRef::from_der` accepts is exactly
`identifier ‖ minimal length octets ‖ value` of what it returns — over-long (non-minimal) lengths, the
indefinite form, lengths above 256 MiB and trailing bytes are all refused -/
theorem der_from_der_canonical (bytes : List Nat) (hbytes : ∀ b ∈ bytes, b < 256) (tag : Nat) (v : List Nat)
    (h : fromDerAny bytes = .ok (tag, v)) : bytes = encTlv tag v :=
  fromDerAny_canonical hbytes h
example : Codec.DerRd.fromDerAny [0x04, 0x02, 0xAA, 0xBB] = .ok (4, [0xAA, 0xBB]) := rfl
/-- samples of the refusal (tests, not the theorem): non-minimal long form, indefinite form, length-of-length 8 -/
example : Codec.DerRd.fromDerAny [0x04, 0x81, 0x01, 0xAA] = .error .length ∧
    Codec.DerRd.fromDerAny [0x30, 0x80, 0x00, 0x00] = .error .indefiniteLength ∧
    Codec.DerRd.fromDerAny [0x04, 0x88, 0xff, 0xff, 0xff, 0xff, 0xff, 0xff, 0xff, 0xff] = .error .length := ⟨rfl, rfl, rfl⟩

open Codec.DerRd in
/-- **round trip of the element layer**: `from_der (encTlv tag v) = (tag, v)` for every tag octet that
`Tag::try_from` knows and every value whose encoding fits `Length::MAX` -/
theorem der_from_der_encode (tag : Nat) (v : List Nat) (ht : tagOfByte tag = .ok tag)
    (hmax : (encTlv tag v).length ≤ MAX_LEN) : fromDerAny (encTlv tag v) = .ok (tag, v) :=
  fromDerAny_enc ht hmax
example : Codec.DerRd.tagOfByte 0x30 = .ok 0x30 ∧ (Codec.DerRd.encTlv 0x30 [5, 0]).length ≤ Codec.DerRd.MAX_LEN := ⟨rfl, by decide⟩

open Codec.DerRd in
/-- **`Length::decode` inverts the minimal length octets (all five forms) and accepts nothing else** -/
theorem der_length_roundtrip_and_canonical :
    (∀ (bytes : List Nat) (pos n : Nat) (rest : List Nat), bytes.drop pos = encLen n ++ rest → n ≤ MAX_LEN →
      bytes.length ≤ MAX_LEN →
      lengthDecode (.slice bytes pos) = .ok (n, .slice bytes (pos + (encLen n).length))) ∧
    (∀ (r : Rdr), r.WF → (∀ b ∈ r.input, b < 256) → ∀ (l : Nat) (r' : Rdr), lengthDecode r = .ok (l, r') →
      l ≤ MAX_LEN ∧ (r.input.drop r.offset).take (encLen l).length = encLen l ∧
      r'.offset = r.offset + (encLen l).length) :=
  ⟨fun _ _ _ _ hd hn hmax => lengthDecode_encLen hd hn hmax,
   fun r h hb l r' hr => by
     obtain ⟨h1, h2, h3⟩ := lengthDecode_spec h hb hr
     exact ⟨h1, h3, h2.off⟩⟩

open Codec.DerRd in
/-- **truncation is refused**: every strict prefix of an element is an error (never a value, never a panic) -/
theorem der_truncated_rejected (tag : Nat) (v : List Nat) (hbytes : ∀ b ∈ encTlv tag v, b < 256) (k : Nat)
    (hk : k < (encTlv tag v).length) : ∃ e, fromDerAny ((encTlv tag v).take k) = .error e ∧ e ≠ .panic :=
  fromDerAny_truncated hbytes k hk
example : ∀ b ∈ Codec.DerRd.encTlv 0x04 [1, 2, 3], b < 256 := by decide

open Codec.DerRd in
/-- **iteration over a sequence terminates and consumes strictly**: the `while !is_finished() { AnyRef::decode }`
loop (`MatterDnAttrs::parse`, `ParsedExtensionFields::parse`), started with fuel `|input| + 1`, never runs out
of fuel and never panics — both on a plain reader (`seqItems`) and inside `reader.sequence(…)` + `finish`
(`sequenceItems`, the shape of every `decode_value`); all item values are ranges of the input -/
theorem der_sequence_iteration_total (bytes : List Nat) :
    (match seqItems bytes with
      | .error (e, _) => e ≠ .panic ∧ e ≠ .endless
      | .ok l => ∀ it ∈ l, Within bytes it.2) ∧
    (match sequenceItems bytes with
      | .error e => e ≠ .panic ∧ e ≠ .endless
      | .ok l => ∀ it ∈ l, Within bytes it.2) :=
  ⟨seqItems_spec bytes, sequenceItems_spec bytes⟩
example : Codec.DerRd.sequenceItems [0x30, 5, 2, 1, 5, 5, 0] = .ok [(2, [5]), (5, [])] := rfl

open Codec.DerRd in
/-- **`cert/der_utils.rs` is total**: `ecdsa_der_to_raw` and `copy_integer_to_fixed` never panic (the
`src[0]`, `&src[1..]`, `target.len() - src.len()`, `target[..offset]`, `copy_from_slice` of the Rust code are
checked operations in the model) and the zero-stripping loop terminates; `copy_integer_to_fixed` answers
`Invalid` exactly when the stripped integer does not fit, else the integer right-aligned in `n` bytes -/
theorem ecdsa_der_total (der integer : List Nat) (n : Nat) :
    Safe (ecdsaDerToRaw der) ∧ Safe (copyIntegerToFixed n integer) ∧
    copyIntegerToFixed n integer =
      (if (stripZeros integer).length > n then .error .invalid else .ok (padLeft n (stripZeros integer))) ∧
    (∀ out, copyIntegerToFixed n integer = .ok out → out.length = n) :=
  ⟨ecdsaDerToRaw_safe der, copyIntegerToFixed_safe n integer, copyIntegerToFixed_eq n integer,
   fun _ h => copyIntegerToFixed_length h⟩

open Codec.DerRd in
/-- **signature round trip**: the DER `SEQUENCE { INTEGER r, INTEGER s }` of two minimal big-endian
magnitudes of at most 32 bytes decodes to `r‖s`, each half left-padded to 32 bytes -/
theorem ecdsa_der_roundtrip (r s : List Nat) (hr : Canon 32 r) (hs : Canon 32 s) :
    ecdsaDerToRaw (encSig r s) = .ok (padLeft 32 r ++ padLeft 32 s) :=
  ecdsaDerToRaw_encSig hr hs
example : Codec.DerRd.Canon 32 [0x43, 0xa6, 0x3f] ∧ Codec.DerRd.Canon 32 [] ∧ Codec.DerRd.Canon 32 (List.replicate 32 0xff) := by
  refine ⟨⟨by decide, by decide, by decide⟩, ⟨by decide, by decide, by decide⟩, ⟨by decide, by decide, by decide⟩⟩

open Codec.DerRd in
/-- **`CmsSignedData::parse` (`attest/cd.rs`) is total and returns sub-slices of the message**: on arbitrary
bytes the model never panics and never runs out of fuel; when it succeeds, `signer_key_id` (exactly 20 bytes)
and `cd_content` are the ranges `[kidOff, kidOff + 20)` and `[cdOff, cdOff + |cd|)` of the message, and the
raw signature has 64 bytes. (`ObjectIdentifier` / `u8` decoding of the `der` crate enter by their acceptance
condition only, see `Model/Codec/CmsCd.lean`.) -/
theorem cms_parse_total_and_within (msg : List Nat) :
    Safe (cmsParse msg) ∧
    ∀ c, cmsParse msg = .ok c →
      c.kidOff + c.kid.length ≤ msg.length ∧ c.kid = (msg.drop c.kidOff).take c.kid.length ∧
      c.cdOff + c.cd.length ≤ msg.length ∧ c.cd = (msg.drop c.cdOff).take c.cd.length ∧
      c.kid.length = 20 ∧ c.sig.length = 64 := by
  obtain ⟨hs, hq⟩ := cmsParse_post msg
  refine ⟨hs, fun c hc => ?_⟩
  obtain ⟨⟨a1, a2⟩, ⟨b1, b2⟩, h3, h4⟩ := hq c hc
  exact ⟨a1, a2, b1, b2, h3, h4⟩
set_option maxRecDepth 100000 in
/-- non-vacuity (a test): the model encoder's output is parsed, with the fields that were encoded -/
example : (match Codec.DerRd.cmsParse (Codec.DerRd.encCms [0x15, 0x18] (List.replicate 20 7) [5] [6]) with
    | .ok c => c.kid == List.replicate 20 7 && c.kidOff == 63 && c.cd == [0x15, 0x18] && c.cdOff == 52 &&
        c.sig == List.replicate 31 0 ++ [5] ++ List.replicate 31 0 ++ [6]
    | .error _ => false) = true := by decide

open Codec.DerRd in
/-- **CMS round trip**: `CmsSignedData::parse` of the Matter CD envelope (RFC 5652 profile of `cd.rs`) built by
the model encoder from a CD content, a 20-byte signer key identifier and a signature `(r, s)` (minimal magnitudes of
at most 32 bytes) returns exactly the key identifier, the content and `pad32 r ‖ pad32 s`. The content bytes are
arbitrary (any TLV, any length up to `Length::MAX`). -/
theorem cms_parse_encode (content kid r s : List Nat) (hk : kid.length = 20) (hr : Canon 32 r) (hs : Canon 32 s)
    (hmax : (encCms content kid r s).length ≤ MAX_LEN) :
    ∃ c, cmsParse (encCms content kid r s) = .ok c ∧ c.kid = kid ∧ c.cd = content ∧
      c.sig = padLeft 32 r ++ padLeft 32 s :=
  cmsParse_encCms hk hr hs hmax
set_option maxRecDepth 100000 in
example : (List.replicate 20 7).length = 20 ∧ Codec.DerRd.Canon 32 [5] ∧
    (Codec.DerRd.encCms [0x15, 0x18] (List.replicate 20 7) [5] [6]).length ≤ Codec.DerRd.MAX_LEN :=
  ⟨by decide, ⟨by decide, by decide, by decide⟩, by decide⟩

/-! ## (11) Matter-TLV certificate → X.509 DER: the DER writer `ASN1Writer` (`cert/asn1_writer.rs`), a DER
reader, and `CertRef::as_asn1` (`cert.rs`) — D16c -/
section DerCert
open Codec.Der Codec.CertAsn1

/-- length octets: the reader inverts the encoder for every length below 2^32 -/
theorem der_len_roundtrip (n : Nat) (rest : List Nat) (h : n < 4294967296) :
    decLen (encLen n ++ rest) = some (n, rest) :=
  decLen_encLen n rest h

/-- minimality: the only length octets the reader accepts for `n` are `encLen n` (no indefinite form, no
leading zero, no long form for a short length) -/
theorem der_len_minimal (l rest : List Nat) (n : Nat) (hb : ∀ b ∈ l, b < 256) (h : decLen l = some (n, rest)) :
    n < 4294967296 ∧ l = encLen n ++ rest :=
  decLen_canonical l rest n hb h
example : decLen [0x82, 0x01, 0x00, 7] = some (256, [7]) := by decide

/-- the length octets `encode_len` writes are DER's, for every length the writer supports -/
theorem der_writer_len (n : Nat) (h : n < 65536) : lenBytes n = encLen n := lenBytes_eq_encLen n h

/-- `parse (encode tree) = tree` for every tree with low tag numbers and lengths below 2^32 -/
theorem der_parse_encode (d : Der) (hw : d.WF) (rest : List Nat) :
    parseOne (fuelFor (d.enc ++ rest)) (d.enc ++ rest) = some (d, rest) ∧ parseDer d.enc = some d :=
  ⟨parseOne_enc d hw _ (by have := fuel_le d; simp only [fuelFor, List.length_append]; omega) rest, parseDer_enc d hw⟩
example : (Der.cons 0x30 [.prim 0x02 [5], .cons 0xA0 []]).WF :=
  ⟨by decide, by decide, by decide, ⟨by decide, by decide, by decide⟩, ⟨by decide, by decide, by decide, trivial⟩, trivial⟩

/-- what the reader accepts *is* the canonical (definite, minimal-length) encoding of the tree it returns -/
theorem der_parse_canonical (l : List Nat) (d : Der) (hb : ∀ b ∈ l, b < 256) (h : parseDer l = some d) :
    d.WF ∧ l = d.enc := by
  unfold parseDer at h
  split at h
  · rename_i d' heq
    simp only [Option.some.injEq] at h; subst h
    have := (parse_sound (fuelFor l)).1 l d' [] hb heq
    simpa using this
  · simp at h

/-- (ii) the writer never panics: any operation sequence (balanced or not, any nesting, any buffer) answers
`Ok` or a clean error (`BufferTooSmall`, `Invalid`), provided every `utctime` argument is a date up to
9999-12-31T23:59:59Z and the caller stops at the first error (`?`) -/
theorem der_writer_never_panics (buf : List Nat) (ops : List Op) (h : ∀ op ∈ ops, op.argsOk) :
    NoPanic ((W.new buf).run ops) :=
  (Inv.new buf).run_noPanic ops h
example : ∀ op ∈ [Op.startSeq, .utctime 252455615999, .endSeq, .endSeq], op.argsOk := by
  intro op h; simp at h; rcases h with rfl | rfl | rfl | rfl <;> simp [Op.argsOk] <;> decide

/-- … and the only errors are `BufferTooSmall` (no room, a length ≥ 65536, the depth limit) and `Invalid` (an end
without a start) -/
theorem der_writer_errors (buf : List Nat) (ops : List Op) (h : ∀ op ∈ ops, op.argsOk) (e : Err)
    (he : (W.new buf).run ops = .error e) : e = .bufferTooSmall ∨ e = .invalid :=
  (Inv.new buf).run_errors ops h e he

/-- (i) writer output = encode(tree): a balanced operation sequence (every start has its end) whose nesting stays
below the depth limit, whose lengths the writer can encode and which fits the buffer (`needL`: an open compound
holds 1 + 3 header bytes until it is closed) succeeds, and `as_slice()` is the encoding of the operations' tree -/
theorem der_writer_output_is_encoding (buf : List Nat) (ops : List Op) (ns : List Node) (hb : forest ops = some ns)
    (hh : Node.heightL ns < MAX_DEPTH) (hl : Node.lenOkL ns) (hfit : Node.needL ns ≤ buf.length) :
    ∃ w, (W.new buf).run ops = .ok w ∧ w.asSlice = .ok (Node.encL ns) :=
  run_balanced buf ops ns hb hh hl hfit
example : forest [.startSeq, .integer [5], .startOstr, .bool true, .endOstr, .endSeq]
    = some [.cons 0x30 [.prim 0x02 [5], .cons 0x04 [.prim 0x01 [0xFF]]]] := rfl
example : Node.heightL [.cons 0x30 [.prim 0x02 [5], .cons 0x04 [.prim 0x01 [0xFF]]]] < MAX_DEPTH := by decide
example : Node.needL [.cons 0x30 [.prim 0x02 [5], .cons 0x04 [.prim 0x01 [0xFF]]]] ≤ 16 := by decide

/-- "fits the buffer" is exactly `needL ≤ buf.len()`: with less room the same sequence answers `BufferTooSmall` -/
theorem der_writer_need_exact (buf : List Nat) (ops : List Op) (ns : List Node) (hb : forest ops = some ns)
    (hh : Node.heightL ns < MAX_DEPTH) (hl : Node.lenOkL ns) (hfit : buf.length < Node.needL ns) :
    (W.new buf).run ops = .error .bufferTooSmall :=
  run_balanced_noSpace buf ops ns hb hh hl hfit

/-- (i) … and the output parses as well-formed DER whose tree is the tree of the operations (`toDerL`: a
compound OCTET STRING is a primitive whose content is the encoding of its children; `raw` bytes stand for the DER
values they contain — the hypothesis `toDerL ns = some ds` says that they are DER) -/
theorem der_writer_output_parses (buf : List Nat) (ops : List Op) (ns : List Node) (ds : List Der)
    (hb : forest ops = some ns) (hh : Node.heightL ns < MAX_DEPTH) (hl : Node.lenOkL ns)
    (hfit : Node.needL ns ≤ buf.length) (ht : Node.tagsOkL ns) (hd : Node.toDerL ns = some ds) :
    ∃ w out, (W.new buf).run ops = .ok w ∧ w.asSlice = .ok out ∧ parseAll out = some ds :=
  parse_run_balanced buf ops ns ds hb hh hl hfit ht hd

/-- BIT STRING of named bits (`bitstr(truncate = true, s)`, the key-usage extension): unused-bits byte followed by
`s` without its trailing zero bytes; what is kept does not end in a zero byte, the count is the number of trailing
zero bits of the last kept byte (0 for the empty string); what is cut is zeros -/
theorem der_bitstr_named_bits (s : List Nat) :
    ∃ k u, k ≤ s.length ∧ bitstrContent true s = u :: s.take k ∧ (∀ i, k ≤ i → i < s.length → s[i]? = some 0) ∧
      (k = 0 → u = 0) ∧ (0 < k → ∃ x, s[k - 1]? = some x ∧ x ≠ 0 ∧ u = tz 8 x) :=
  bitstrContent_true_spec s
example : bitstrContent true [0x06, 0x00] = [1, 0x06] := by decide

/-- a buffer below 64 KiB that is large enough makes every length encodable -/
theorem der_lengths_fit (ns : List Node) (h : Node.needL ns < 65536) : Node.lenOkL ns := lenOkL_of_needL ns h

/-- UTCTime / GeneralizedTime: every instant the writer can write (year-2050 rule included) reads back as
the same instant -/
theorem cert_time_roundtrip (e : Nat) (h : MATTER_EPOCH_SECS + e ≤ MAX_UNIX) :
    ∃ tag s, timeStr e = some (tag, s) ∧ parseTime (.prim tag s) = some e :=
  parseTime_timeStr e h

/-- `as_asn1` never panics: for *any* accessor results (readable or failing fields, any list contents) within
the types' bounds and any buffer it returns the DER or an error -/
theorem cert_as_asn1_never_panics (c : Cert) (hb : c.Bounds) (buf : List Nat) :
    asAsn1 c buf ≠ .error (.w .panic) :=
  asAsn1_noPanic c hb buf

def certSample : Fields :=
  { serial := [0x10, 0x43], signAlgo := 1
    issuer := [{ tag := 20, val := .uint 1 }, { tag := 1, val := .printable [0x43, 0x41] }]
    notBefore := 0x27812280, notAfter := 0
    subject := [{ tag := 17, val := .uint 0xBC5C02 }, { tag := 21, val := .uint 1 }, { tag := 3, val := .utf8 [0x61] }]
    pubkeyAlgo := 1, ecCurveId := 1, pubkey := [4, 1, 2, 3]
    exts := [.basic true (some 0), .keyUsage 0x60, .extKeyUsage [2, 1], .subjKeyId [1, 2], .authKeyId [3]] }

/-- (3) **certificate round trip, every certificate within the declared bounds** (`Fields.Legal`): `as_asn1`
into any buffer with enough room (below 64 KiB) writes the encoding of `certNode`, which parses as DER, and the
fields read back from it — serial, algorithms, every DN attribute with its OID / string type / value, both validity
instants (0 = no well-defined expiry), the public key, every extension with criticality and value — are exactly
the certificate's (`Fields.view`) -/
theorem cert_der_roundtrip (f : Fields) (h : f.Legal) :
    ∃ n, certNode f = some n ∧ ∀ buf : List Nat, n.need ≤ buf.length → buf.length < 65536 →
      ∃ der d v, asAsn1 f.lazy buf = .ok der ∧ der = n.enc ∧ parseDer der = some d ∧
        certFieldsOfDer d = some v ∧ f.view = some v :=
  cert_roundtrip_legal f h
example : (certNode certSample).map (fun n => decide (n.need ≤ Consts.c17MaxCertAsn1Len ∧ n.need < 65536)) = some true := by
  decide +kernel
example : certSample.Legal := by
  refine ⟨rfl, rfl, rfl, by decide, by decide, ?_, ?_, ?_⟩
  · intro a ha; simp [certSample] at ha; rcases ha with rfl | rfl <;> simp [Attr.WF]
  · intro a ha; simp [certSample] at ha; rcases ha with rfl | rfl | rfl <;> simp [Attr.WF]
  · intro e he; simp [certSample] at he
    rcases he with rfl | rfl | rfl | rfl | rfl <;> simp [XExt.WF]

end DerCert

end C17

/-! ## (D16b-1) BLE advertisement payload of a node in network-recovery mode (`RecoveryAdvData`) -/
namespace C17
open Codec

/-- `parse_service_data (service_payload_iter r) = r` and `parse_adv (iter r) = r` for every eight-byte id -/
theorem ble_recovery_parse_encode (r : BleRecovery.Rec) (hwf : BleRecovery.WF r) :
    BleRecovery.parseServiceData (BleRecovery.servicePayload r) = .ok (some r) ∧
    BleRecovery.parseAdv (BleRecovery.encode r) = .ok (some r) :=
  BleRecovery.parse_encode r hwf
example : BleRecovery.WF { id := [0x11, 0x22, 0x33, 0x44, 0x55, 0x66, 0x77, 0x88], additional := false } := rfl

/-- both parsers are total on arbitrary bytes: the guarded indexes / `try_into().unwrap()` never fire -/
theorem ble_recovery_parse_total (adv : List Nat) :
    NoPanic (BleRecovery.parseAdv adv) ∧ NoPanic (BleRecovery.parseServiceData adv) :=
  ⟨BleRecovery.parseAdv_np adv, BleRecovery.parseServiceData_np adv⟩

/-- refusal: a payload shorter than 11 bytes, a payload whose opcode is not 1, an advertisement
without a Matter service-data structure -/
theorem ble_recovery_rejected :
    (∀ p : List Nat, p.length < BleRecovery.PAYLOAD_LEN → BleRecovery.parseServiceData p = .ok none) ∧
    (∀ (op : Nat) (rest : List Nat), op ≠ BleRecovery.OPCODE_NETWORK_RECOVERY →
      BleRecovery.parseServiceData (op :: rest) = .ok none) ∧
    (∀ adv : List Nat, BleAdv.matterServiceData (adv.length + 1) adv = .ok none → BleRecovery.parseAdv adv = .ok none) :=
  ⟨BleRecovery.parse_rejects_short, BleRecovery.parse_rejects_opcode, BleRecovery.parseAdv_rejects_no_matter⟩
example : ([1, 0, 1, 2, 3] : List Nat).length < BleRecovery.PAYLOAD_LEN ∧ (0 : Nat) ≠ BleRecovery.OPCODE_NETWORK_RECOVERY ∧
    BleAdv.matterServiceData 4 [0x02, 0x01, 0x05] = .ok none := ⟨by decide, by decide, rfl⟩

/-- soundness of an accepted payload: wire layout `01 vv id[8] ad …`, id verbatim, flag = bit 0 -/
theorem ble_recovery_accepts_only_layout (p : List Nat) (r : BleRecovery.Rec)
    (h : BleRecovery.parseServiceData p = .ok (some r)) :
    BleRecovery.WF r ∧ ∃ v ad rest, p = BleRecovery.OPCODE_NETWORK_RECOVERY :: v :: (r.id ++ ad :: rest) ∧
      r.additional = decide (ad % 2 = 1) :=
  BleRecovery.parse_some p r h
example : BleRecovery.parseServiceData [1, 0, 1, 2, 3, 4, 5, 6, 7, 8, 1] =
    .ok (some { id := [1, 2, 3, 4, 5, 6, 7, 8], additional := true }) := by
  rw [BleRecovery.parseServiceData_long]; rfl

/-- the commissionable and the recovery payload never parse as each other (opcode byte / length) -/
theorem ble_adv_kinds_disjoint (r : BleRecovery.Rec) (a : BleAdv.Adv) :
    BleAdv.parseServiceData (BleRecovery.servicePayload r) = .ok none ∧
    BleRecovery.parseServiceData (BleAdv.servicePayload a) = .ok none :=
  BleRecovery.kinds_disjoint r a

end C17

/-! ## (D16b-2) mDNS: names, resource records, TXT strings, the broadcast message and `parse_into_answer`

Model: `Model/Codec/Mdns.lean` (what is rs-matter code and what is `domain`-crate behaviour is said there).
`P` is the parser cursor (`pos`, `len`); `P.Inv d p` is `pos ≤ len ≤ |d|`. -/
namespace C17
open Codec Codec.Mdns

/-! ### totality -/

/-- **termination of compression-pointer following**: for every octet string and every cursor the name
parser never exhausts the step budget `256 * (len + 2)` the model hands out (a pointer must point strictly
before itself, and between two pointers the name grows towards its 255-octet limit) -/
theorem mdns_name_parse_terminates (d : List Nat) (p : P) : parseName d p ≠ .error .fuel :=
  parseName_ne_fuel d p

/-- the name parser on a sound cursor answers a name or a proper error - never a panic - and leaves a sound cursor -/
theorem mdns_name_parse_no_panic (d : List Nat) (p : P) (hi : p.Inv d) :
    Fine (parseName d p) ∧ ∀ n p', parseName d p = .ok (n, p') → p'.Inv d ∧ p'.len = p.len := by
  have h := parseName_good d p hi
  refine ⟨h.fine, fun n p' he => ?_⟩
  rw [he] at h; exact h
example : P.Inv [3, 119, 119, 119, 0] ⟨0, 5⟩ := by refine ⟨by decide, by decide⟩

/-- **`parse_into_answer` is total on arbitrary octets**: shorter than a header → `MdnsError`, otherwise
`None` or an answer; no panic, no exhausted budget (name parser, `MdnsTxt`, `MdnsAddrs`) -/
theorem mdns_parse_total (d : List Nat) (scope : Option Nat) :
    (d.length < 12 ∧ parseIntoAnswer d scope = .error .shortMessage) ∨
    (12 ≤ d.length ∧ ∃ v, parseIntoAnswer d scope = .ok v) :=
  parseIntoAnswer_total d scope

/-- draining `MdnsTxt` over arbitrary record data always yields a list -/
theorem mdns_txt_total (data : List Nat) : ∃ kvs, txtPairs data = .ok kvs := txtPairs_fine data

/-- `MdnsAddrs` (a re-walk per item with a `seen` / `yielded` cursor) drained = the addresses of the A / AAAA
records owned by the SRV target, in packet order -/
theorem mdns_addrs_iterator (d : List Nat) (L : Nat) (rs : List Rec) (t : Name) (hok : ∀ r ∈ rs, RecOk d L r) :
    addrsAll d rs (some t) (rs.length + 1) 0 = .ok (addrsOf t (addrView d) rs) :=
  addrsAll_view d L rs t hok
example : ∀ r ∈ ([] : List Rec), RecOk [] 0 r := by intro r hr; cases hr

/-! ### names -/

/-- **name round trip**, compression-free encoding: labels of 1..63 octets, at most 255 octets on the wire -/
theorem mdns_name_round_trip (d : List Nat) (p : P) (labels : List (List Nat)) (B : List Nat) (hwf : NameWF labels)
    (hdrop : d.drop p.pos = encName labels ++ B) (hfit : p.pos + (encName labels).length ≤ p.len) (hd : p.len ≤ d.length) :
    parseName d p = .ok ({ labels := labels, nameLen := (encName labels).length, compressed := false },
                         ⟨p.pos + (encName labels).length, p.len⟩) :=
  parseName_flat d p labels B hwf hdrop hfit hd
example : NameWF [[95, 109, 97, 116, 116, 101, 114, 99], [95, 117, 100, 112], LOCAL] := by decide

/-- **name round trip with suffix compression** (what other responders send): labels, then a pointer to an
earlier flat name -/
theorem mdns_name_compressed_round_trip (d : List Nat) (p : P) (pre suf : List (List Nat)) (c lo : Nat) (B B' : List Nat)
    (hpre : ∀ l ∈ pre, 1 ≤ l.length ∧ l.length ≤ 63) (hsuf : ∀ l ∈ suf, 1 ≤ l.length ∧ l.length ≤ 63) (hc : 192 ≤ c)
    (hdrop : d.drop p.pos = encLabels pre ++ c :: lo :: B)
    (hfit : p.pos + (encLabels pre).length + 2 ≤ p.len) (hd : p.len ≤ d.length)
    (hback : lo + c % 64 * 256 < p.pos + (encLabels pre).length)
    (hsufdrop : d.drop (lo + c % 64 * 256) = encName suf ++ B')
    (hsuffit : lo + c % 64 * 256 + (encName suf).length ≤ p.len)
    (hlen : (encLabels pre).length + (encName suf).length ≤ 255) :
    parseName d p = .ok ({ labels := pre ++ suf, nameLen := (encLabels pre).length + (encName suf).length,
                           compressed := decide ((encLabels pre).length ≠ 0) },
                         ⟨p.pos + (encLabels pre).length + 2, p.len⟩) :=
  parseName_compressed d p pre suf c lo B B' hpre hsuf hc hdrop hfit hd hback hsufdrop hsuffit hlen
/-- the hypotheses are satisfiable: `local.` at 0, `_udp` + pointer to 0 at 7 -/
example : parseName [5, 108, 111, 99, 97, 108, 0, 4, 95, 117, 100, 112, 0xC0, 0] ⟨7, 14⟩ =
    .ok ({ labels := [[95, 117, 100, 112], [108, 111, 99, 97, 108]], nameLen := 12, compressed := true }, ⟨14, 14⟩) := by
  rfl

/-- **refusal clauses of the name parser**, each after an arbitrary run `pre` of well-formed labels:
a length octet 0x40..0xBF (label longer than 63 octets); a name cut off at a label boundary or inside a
label; a pointer that does not point strictly before itself (self reference, forward, past the end - the
only way a pointer loop could start); a name longer than 255 octets -/
theorem mdns_name_rejected (d : List Nat) (p : P) (pre : List (List Nat))
    (hpre : ∀ l ∈ pre, 1 ≤ l.length ∧ l.length ≤ 63) (hd : p.len ≤ d.length) (hlen : (encLabels pre).length < 255) :
    (∀ t B, 64 ≤ t → t < 192 → d.drop p.pos = encLabels pre ++ t :: B → p.pos + (encLabels pre).length + 1 ≤ p.len →
      parseName d p = .error .badLabel) ∧
    (∀ B, d.drop p.pos = encLabels pre ++ B → p.pos + (encLabels pre).length = p.len →
      parseName d p = .error .shortInput) ∧
    (∀ n B, 1 ≤ n → n ≤ 63 → d.drop p.pos = encLabels pre ++ n :: B → p.pos + (encLabels pre).length + 1 ≤ p.len →
      p.len < p.pos + (encLabels pre).length + 1 + n → parseName d p = .error .shortInput) ∧
    (∀ c lo B, 192 ≤ c → d.drop p.pos = encLabels pre ++ c :: lo :: B → p.pos + (encLabels pre).length + 2 ≤ p.len →
      p.pos + (encLabels pre).length ≤ lo + c % 64 * 256 → parseName d p = .error .compression) ∧
    (∀ l B, 1 ≤ l.length → l.length ≤ 63 → d.drop p.pos = encLabels pre ++ l.length :: (l ++ B) →
      p.pos + (encLabels pre).length + 1 + l.length ≤ p.len → 255 ≤ (encLabels pre).length + l.length + 1 →
      parseName d p = .error .longName) :=
  ⟨fun t B h1 h2 hdrop hfit => parseName_rejects_bad_label d p pre t B hpre h1 h2 hdrop hfit hd hlen,
   fun B hdrop hfit => parseName_rejects_truncated d p pre B hpre hdrop hfit hd hlen,
   fun n B h1 h2 hdrop hfit hcut => parseName_rejects_truncated_label d p pre n B hpre h1 h2 hdrop hfit hcut hd hlen,
   fun c lo B hc hdrop hfit hfwd => parseName_rejects_forward_pointer d p pre c lo B hpre hc hdrop hfit hd hlen hfwd,
   fun l B h1 h2 hdrop hfit hlong => parseName_rejects_long d p pre l B hpre h1 h2 hdrop hfit hd hlen hlong⟩
/-- samples of the refused inputs: a self-referencing pointer; two pointers pointing at each other; a pointer
whose target runs into the same pointer again (refused when the name reaches 255 octets) -/
example : parseName [0xC0, 0] ⟨0, 2⟩ = .error .compression ∧
    parseName [0xC0, 2, 0xC0, 0] ⟨0, 4⟩ = .error .compression ∧ parseName [0xC0, 2, 0xC0, 0] ⟨2, 4⟩ = .error .compression ∧
    parseName (62 :: List.replicate 62 97 ++ [0xC0, 0]) ⟨63, 65⟩ = .error .longName := ⟨rfl, rfl, rfl, rfl⟩

/-- **everything the name parser accepts is a legal DNS name** - labels of 1..63 octets, reported length = length
of the uncompressed name ≤ 255 octets - however many compression pointers were followed (no hypothesis) -/
theorem mdns_name_accepts_only_legal (d : List Nat) (p : P) (n : Name) (p' : P) (h : parseName d p = .ok (n, p')) :
    (∀ l ∈ n.labels, 1 ≤ l.length ∧ l.length ≤ 63) ∧ n.nameLen = (encName n.labels).length ∧ n.nameLen ≤ 255 :=
  parseName_sound d p n p' h

/-! ### resource records -/

/-- **record framing round trip**: owner name, TYPE, CLASS, TTL, RDLENGTH, RDATA of any record type -/
theorem mdns_record_round_trip (d : List Nat) (pos len : Nat) (r : RecSpec) (B : List Nat) (hwf : r.WF)
    (h : d.drop pos = r.bytes ++ B) (hfit : pos + r.bytes.length ≤ len) (hd : len ≤ d.length) :
    parseRecord d ⟨pos, len⟩ = .ok (r.parsed pos len, ⟨pos + r.bytes.length, len⟩) ∧
    d.drop (pos + r.hdrLen) = r.rdata ++ B ∧ d.drop (pos + r.bytes.length) = B :=
  parseRecord_at d pos len r B hwf h hfit hd
example : RecSpec.WF { owner := [LOCAL], rtype := RT_A, cls := CLASS_IN_FLUSH, ttl := 120, rdata := [192, 168, 1, 5] } :=
  ⟨by decide, by decide, by decide, by decide, by decide⟩

/-- **typed record data round trip** of a record found at `pos` (`At`): SRV (priority, weight, port, target),
PTR (target), A / AAAA (4 / 16 octets), and the raw data the TXT pass keeps -/
theorem mdns_rdata_round_trip {d : List Nat} {len : Nat} {r : RecSpec} {pos : Nat} (h : At d len r pos) :
    (∀ prio weight port target, r.rtype = RT_SRV →
      r.rdata = u16be prio ++ (u16be weight ++ (u16be port ++ encName target)) →
      prio < 65536 → weight < 65536 → port < 65536 → NameWF target →
      toSrv d (r.parsed pos len) = .ok (some (port, flatName target))) ∧
    (∀ target, r.rtype = RT_PTR → r.rdata = encName target → NameWF target →
      toPtr d (r.parsed pos len) = .ok (some (flatName target))) ∧
    (r.rtype = RT_A → r.rdata.length = 4 → toAddr RT_A 4 d (r.parsed pos len) = .ok (some r.rdata)) ∧
    (r.rtype = RT_AAAA → r.rdata.length = 16 → toAddr RT_AAAA 16 d (r.parsed pos len) = .ok (some r.rdata)) ∧
    toUnknown d (r.parsed pos len) = .ok (some r.rdata) :=
  ⟨fun prio weight port target ht hdata h1 h2 h3 hwf => toSrv_at h prio weight port target ht hdata h1 h2 h3 hwf,
   fun target ht hdata hwf => toPtr_at h target ht hdata hwf,
   fun ht hn => toAddr_at RT_A 4 h ht hn, fun ht hn => toAddr_at RT_AAAA 16 h ht hn, toUnknown_at h⟩

/-! ### TXT -/

/-- **TXT round trip**: `Txt::compose_rdata` → `MdnsTxt`: the same pairs in the same order (split at the
first `=`; an empty list travels as one empty string) -/
theorem mdns_txt_round_trip (kvs : List (List Nat × List Nat)) (hwf : ∀ kv ∈ kvs, TxtWF kv) :
    txtPairs (encTxt kvs) = .ok kvs :=
  txtPairs_encTxt kvs hwf
example : ∀ kv ∈ [([68], [49, 50, 51, 52]), ([86, 80], [54, 53, 43, 51, 61])], TxtWF kv := by
  intro kv hkv
  simp only [List.mem_cons, List.not_mem_nil, or_false] at hkv
  rcases hkv with rfl | rfl <;> exact ⟨by decide, by decide, by decide⟩

/-! ### the whole message -/

def mdnsSampleHost : HostCfg :=
  { hostname := [109, 121, 104, 111, 115, 116], ip := [192, 168, 1, 5], ipv6 := [List.replicate 16 0, [0xfe, 0x80, 0, 0, 0, 0, 0, 0, 0, 0, 0, 0, 0, 0, 0, 1]] }
def mdnsSampleSvc : Svc :=
  { name := [65, 66, 67, 68], service := [95, 109, 97, 116, 116, 101, 114, 99], protocol := [95, 117, 100, 112], port := 5540,
    subtypes := [[95, 76, 49, 50, 51, 52], [95, 67, 77]], txt := [([68], [49, 50, 51, 52]), ([86, 80], [54, 53, 43, 51])] }

/-- **message round trip**: header + A / AAAA / SRV / PTR… / TXT answers written by `Host::broadcast` for a
legal description are parsed by `parse_into_answer` into exactly the instance name, the port, the TXT pairs
in order and the addresses (IPv4 unless unspecified, then the specified IPv6 ones) that were encoded;
and the encoder answers these octets whenever they fit the buffer, `BufferTooSmall` otherwise -/
theorem mdns_message_round_trip (h : HostCfg) (s : Svc) (hostTtl svcTtl cap : Nat) (scope : Option Nat)
    (hwf : BroadcastWF h s hostTtl svcTtl) :
    parseIntoAnswer (broadcastBytes h s hostTtl svcTtl) scope = .ok (some {
      inst := flatName (serviceFqdn s), port := some s.port, addrs := hostAddrs h, txt := s.txt, scope := scope.getD 0 }) ∧
    ((broadcastBytes h s hostTtl svcTtl).length ≤ cap → broadcast h s hostTtl svcTtl cap = .ok (broadcastBytes h s hostTtl svcTtl)) ∧
    (¬ (broadcastBytes h s hostTtl svcTtl).length ≤ cap → broadcast h s hostTtl svcTtl cap = .error .bufferTooSmall) := by
  have hb := broadcast_spec h s hostTtl svcTtl cap hwf
  refine ⟨parse_broadcast h s hostTtl svcTtl scope hwf, fun hc => ?_, fun hc => ?_⟩
  · rw [if_pos hc] at hb; exact hb
  · rw [if_neg hc] at hb; exact hb
example : BroadcastWF mdnsSampleHost mdnsSampleSvc 120 4500 :=
  ⟨by decide, by decide, by decide, by decide, by decide, by decide, by decide, by decide, by decide, by decide, by decide⟩

/-- **browse response**: a message with only a PTR record `service type → instance` (no SRV) yields the PTR target
as instance name, no port, no address, no TXT pair - the fallback branch of `parse_into_answer` -/
theorem mdns_browse_response (stype inst : List (List Nat)) (ttl : Nat) (scope : Option Nat)
    (h1 : NameWF stype) (h2 : NameWF inst) (h3 : ttl < 4294967296) :
    parseIntoAnswer (responseBytes [browseRecord stype inst ttl]) scope =
      .ok (some { inst := flatName inst, port := none, addrs := [], txt := [], scope := scope.getD 0 }) :=
  parse_browse_response stype inst ttl scope h1 h2 h3
example : NameWF (serviceTypeFqdn mdnsSampleSvc) ∧ NameWF (serviceFqdn mdnsSampleSvc) := by decide

/-- a query written by `build_query` is not an answer, and its question section is walked to the end -/
theorem mdns_query_ignored (name : List (List Nat)) (rtype : Nat) (scope : Option Nat) :
    parseIntoAnswer (queryBytes name rtype) scope = .ok none ∧
    (NameWF name → rtype < 65536 →
      answerStart (queryBytes name rtype) = .ok ⟨(queryBytes name rtype).length, (queryBytes name rtype).length⟩) :=
  ⟨parse_query name rtype scope, answerStart_query name rtype⟩

/-! ### what a Matter node publishes (`MatterLocalService::service`, `transport/network/mdns.rs`) -/

/-- the instance name, the service type and every subtype are legal DNS names, and every TXT pair fits a TXT
string, has a key without `=` and is UTF-8 - for every value of the identifiers, discriminator, vendor / product
id, session parameters, pairing hint, device type, TCP / ICD flags (device name and pairing instruction: UTF-8,
≤ 249 octets) -/
theorem mdns_matter_service_legal (l : LocalSvc) (dd : DevDet) (port : Nat) (icd : Option Bool) (hdd : dd.WF) :
    NameWF (serviceFqdn (matterService l dd port icd).1) ∧
    (∀ sub ∈ (matterService l dd port icd).1.subtypes, NameWF (subtypeFqdn (matterService l dd port icd).1 sub)) ∧
    (∀ kv ∈ (matterService l dd port icd).1.txt, TxtOk kv) :=
  ⟨(matterService_names l dd port icd).1, (matterService_names l dd port icd).2, matterService_txt l dd port icd hdd⟩
def mdnsSampleDevDet : DevDet :=
  { vid := 0xFFF1, pid := 0x8000, sai := some 300, sii := none, deviceName := [84, 101, 115, 116],
    pairingInstruction := [], pairingHint := 33, deviceType := some 257, tcp := true }
example : DevDet.WF mdnsSampleDevDet :=
  ⟨by decide, by decide, by decide, by decide⟩

/-- **end to end**: what a Matter node publishes, written by `Host::broadcast` and read by `parse_into_answer`,
comes back with the published instance name, port, TXT pairs (`D`, `CM`, `VP`, …) in order and the host's addresses -/
theorem mdns_matter_service_round_trip (h : HostCfg) (l : LocalSvc) (dd : DevDet) (port : Nat) (icd : Option Bool)
    (hostTtl svcTtl : Nat) (scope : Option Nat) (hdd : dd.WF) (hhost : NameWF (hostFqdn h)) (hip : h.ip.length = 4)
    (hip6 : ∀ a ∈ h.ipv6, a.length = 16) (hn6 : h.ipv6.length ≤ 1000) (hport : port < 65536)
    (ht1 : hostTtl < 4294967296) (ht2 : svcTtl < 4294967296) :
    parseIntoAnswer (broadcastBytes h (matterService l dd port icd).1 hostTtl svcTtl) scope = .ok (some {
      inst := flatName (serviceFqdn (matterService l dd port icd).1), port := some port, addrs := hostAddrs h,
      txt := (matterService l dd port icd).1.txt, scope := scope.getD 0 }) :=
  matterService_round_trip h l dd port icd hostTtl svcTtl scope hdd hhost hip hip6 hn6 hport ht1 ht2
example : NameWF (hostFqdn mdnsSampleHost) ∧ mdnsSampleHost.ip.length = 4 ∧ (∀ a ∈ mdnsSampleHost.ipv6, a.length = 16) ∧
    mdnsSampleHost.ipv6.length ≤ 1000 := by decide

end C17


/-! ## (E3) the DER-based decoders on top of the reading layer: X.509 DAC / PAI / PAA (`cert/x509/cert.rs`), CSR
(`cert/x509/csr.rs`), the TLV content of the certification declaration and its validation (`attest/cd.rs`)

Models: `Model/Codec/X509.lean`, `Model/Codec/CdContent.lean`; proofs: `Lemmas/CodecX509.lean` (totality),
`Lemmas/CodecX509Time.lean` (calendar), `Lemmas/CodecX509Round.lean` (round trips), `Lemmas/CodecX509Sound.lean`
(what is accepted), `Lemmas/CodecCd.lean`. -/
namespace C17
open Codec.DerRd

/-! ### X.509 -/

/-- **`X509Cert::new` is total**: for each certificate type, on arbitrary bytes (no `< 256` assumption), the parser
answers a certificate or an error — never a panic, never an exhausted loop (extension / RDN / attribute /
context-specific loops run on fuel `|data| + 1`) —, and the slices its accessors hand out (`subject_key_id`,
`authority_key_id`, `public_key`) are ranges of the input at the reported positions; the key has 65 octets -/
theorem x509_parse_total (k : CertKind) (data : List Nat) :
    Safe (x509New k data) ∧
    ∀ c, x509New k data = .ok c →
      At data c.skid ∧ (∀ a, c.akid = some a → At data a) ∧ At data c.pk ∧ c.pk.1.length = 65 :=
  x509New_post k data

/-- the only error `X509Cert::new` returns is `InvalidData` -/
theorem x509_only_invalid_data (k : CertKind) (data : List Nat) (e : E) (h : x509New k data = .error e) :
    e = .invalidData :=
  x509New_error k data h

/-- **time values**: for every date of the Gregorian calendar from 1970-01-01 to 9999-12-31 with a time of day, both
time decoders (`DateTime::new` followed by `DateTime::from_unix_duration`, as `UtcTime` / `GeneralizedTime` do) return
the calendar fields that were written and the seconds `DateTime::new` counts -/
theorem x509_time_roundtrip (c : Cal) (h : c.Valid) :
    timeOfFields c.year c.month c.day c.hour c.minute c.second = .ok c.dt :=
  timeOfFields_cal c h
example : Cal.Valid { year := 2024, month := 2, day := 29, hour := 23, minute := 59, second := 59 } := by
  unfold Cal.Valid; decide
example : Cal.secs { year := 9999, month := 12, day := 31, hour := 23, minute := 59, second := 59 } = MAX_UNIX_SECS := by
  decide

/-- **X.509 round trip** (`parse (encode c) = c`): `X509Cert::new` of the certificate the model's DER writer produces
from well-formed fields (version 3, any serial, issuer and subject with any readable attributes incl. the Matter VID /
PID, validity, an uncompressed P-256 key, any list of extensions in any order) that meet the requirements of the
certificate type returns — through its accessors — the subject key identifier, the authority key identifier, the key,
the vendor / product id of the subject (four hexadecimal digits in any string type) and the validity that were
written -/
theorem x509_parse_encode (k : CertKind) (c : CertSpec) (idn sdn : DnAttrs) (s : List Nat) (a : Option (List Nat))
    (hwf : c.WF)
    (hi : dnFold c.issuer { vid := none, pid := none } = some idn)
    (hs : dnFold c.subject { vid := none, pid := none } = some sdn)
    (hext : extCheckV k c.extView = some (s, a))
    (hval : validateIssuerSubject k idn sdn (encRdns c.issuer) (encRdns c.subject) = .ok ())
    (hlen : (encCert c).length ≤ MAX_LEN) :
    ∃ cert, x509New k (encCert c) = .ok cert ∧
      cert.view = { skid := s, akid := a, pk := c.pk, vid := sdn.vid, pid := sdn.pid,
                    notBefore := c.notBefore.dt, notAfter := c.notAfter.dt } :=
  x509New_encCert k c idn sdn s a hwf hi hs hext hval hlen

/-- a device attestation certificate: vendor 0xFFF1, product 0x8000, valid from 2021-06-28 without expiry -/
def sampleDac : CertSpec :=
  { serial := [0x23, 0x8a],
    issuer := [{ oid := [0x55, 0x04, 0x03], tag := 0x0C, value := [80, 65, 73] },
               { oid := OID_MATTER_VENDOR_ID, tag := 0x0C, value := [70, 70, 70, 49] }],
    notBefore := { year := 2021, month := 6, day := 28, hour := 14, minute := 23, second := 43 },
    notAfter := { year := 9999, month := 12, day := 31, hour := 23, minute := 59, second := 59 },
    subject := [{ oid := [0x55, 0x04, 0x03], tag := 0x0C, value := [68, 65, 67] },
                { oid := OID_MATTER_VENDOR_ID, tag := 0x0C, value := [70, 70, 70, 49] },
                { oid := OID_MATTER_PRODUCT_ID, tag := 0x13, value := [56, 48, 48, 48] }],
    pk := 4 :: List.replicate 64 7,
    exts := [.other [0x55, 0x1d, 0x63] [5, 0], .keyUsage true 7 [0x80], .basicConstraints true false none,
             .authorityKeyId false (List.replicate 20 2), .subjectKeyId false (List.replicate 20 1)],
    signature := [0x30, 0x06, 2, 1, 1, 2, 1, 1] }

theorem sampleDac_wf : sampleDac.WF where
  issuer := by
    intro a ha
    simp only [sampleDac, List.mem_cons, List.not_mem_nil, or_false] at ha
    rcases ha with rfl | rfl <;> exact ⟨by decide, rfl⟩
  subject := by
    intro a ha
    simp only [sampleDac, List.mem_cons, List.not_mem_nil, or_false] at ha
    rcases ha with rfl | rfl | rfl <;> exact ⟨by decide, rfl⟩
  nb := by unfold Cal.Valid; decide
  na := by unfold Cal.Valid; decide
  pkLen := by decide
  pkHead := by decide
  exts := by
    intro e he
    simp only [sampleDac, List.mem_cons, List.not_mem_nil, or_false] at he
    rcases he with rfl | rfl | rfl | rfl | rfl
    · exact ⟨by decide, by decide, by decide, by decide, by decide⟩
    · exact ⟨by decide, fun _ => by decide⟩
    · intro p hp; cases hp
    · trivial
    · trivial

set_option maxRecDepth 100000 in
/-- the hypotheses of `x509_parse_encode` are satisfiable: the sample is a legal DAC -/
example : sampleDac.WF ∧
    dnFold sampleDac.issuer { vid := none, pid := none } = some { vid := some 0xFFF1, pid := none } ∧
    dnFold sampleDac.subject { vid := none, pid := none } = some { vid := some 0xFFF1, pid := some 0x8000 } ∧
    extCheckV .dac sampleDac.extView = some (List.replicate 20 1, some (List.replicate 20 2)) ∧
    validateIssuerSubject .dac { vid := some 0xFFF1, pid := none } { vid := some 0xFFF1, pid := some 0x8000 }
      (encRdns sampleDac.issuer) (encRdns sampleDac.subject) = .ok () ∧
    (encCert sampleDac).length ≤ MAX_LEN :=
  ⟨sampleDac_wf, by decide, by decide, by decide, rfl, by decide⟩

/-- **whatever `X509Cert::new` accepts meets the profile of its certificate type** (so everything else is refused):
BasicConstraints and KeyUsage present and critical, the subject key identifier present and returned, and
* DAC: `cA = FALSE`, key usage exactly `digitalSignature`, authority key identifier present; issuer and subject carry the
  same vendor id, the subject a product id, an issuer product id equals the subject's;
* PAI: `cA = TRUE`, `pathLen = 0`, `keyCertSign` and `cRLSign` (optionally `digitalSignature`, nothing else), authority
  key identifier present; the subject carries a vendor id, an issuer vendor id equals it;
* PAA: `cA = TRUE`, `pathLen` absent or 1, the same key usage; no product id in issuer or subject, issuer and subject
  byte for byte equal. -/
theorem x509_accepts_only_profile (k : CertKind) (data : List Nat) (c : Cert) (h : x509New k data = .ok c) :
    ∃ (f : ExtFields) (issuer subject : DnAttrs) (ir sr : List Nat) (ca : Bool) (pl : Option Nat) (bits : Nat) (sc : Bool),
      f.bc = some (true, (ca, pl)) ∧ f.ku = some (true, bits) ∧ f.skid = some (sc, c.skid) ∧
      c.akid = f.akid.map (·.2) ∧ extProfile k ca pl bits f.akid.isSome ∧
      c.vid = subject.vid ∧ c.pid = subject.pid ∧ dnProfile k issuer subject ir sr := by
  obtain ⟨f, e, issuer, subject, ir, sr, hext, hval, h1, h2, h3, h4⟩ := x509New_ok h
  obtain ⟨ca, pl, bits, sc, e1, e2, e3, e4, e5⟩ := extCheck_sound hext
  exact ⟨f, issuer, subject, ir, sr, ca, pl, bits, sc, e1, e2, by rw [h1]; exact e3, by rw [h2]; exact e4, e5, h3, h4,
    validateIssuerSubject_sound hval⟩

/-- **bytes after the certificate are refused** -/
theorem x509_trailing_rejected (k : CertKind) (c : CertSpec) (rest : List Nat) (idn sdn : DnAttrs) (s : List Nat)
    (a : Option (List Nat)) (hwf : c.WF)
    (hi : dnFold c.issuer { vid := none, pid := none } = some idn)
    (hs : dnFold c.subject { vid := none, pid := none } = some sdn)
    (hext : extCheckV k c.extView = some (s, a))
    (hval : validateIssuerSubject k idn sdn (encRdns c.issuer) (encRdns c.subject) = .ok ())
    (hr : rest ≠ []) (hlen : (encCert c ++ rest).length ≤ MAX_LEN) :
    x509New k (encCert c ++ rest) = .error .invalidData :=
  x509New_trailing k c rest idn sdn s a hwf hi hs hext hval hr hlen

set_option maxRecDepth 100000 in
example : ([0] : List Nat) ≠ [] ∧ (encCert sampleDac ++ [0]).length ≤ MAX_LEN := ⟨by decide, by decide⟩

set_option maxRecDepth 100000 in
/-- the hypothesis of `x509_accepts_only_profile` is satisfiable: the sample DAC is accepted -/
example : ∃ c, x509New .dac (encCert sampleDac) = .ok c := by
  obtain ⟨c, h, _⟩ := x509_parse_encode .dac sampleDac { vid := some 0xFFF1, pid := none }
    { vid := some 0xFFF1, pid := some 0x8000 } (List.replicate 20 1) (some (List.replicate 20 2)) sampleDac_wf
    (by decide) (by decide) (by decide) rfl (by decide)
  exact ⟨c, h⟩

/-- **a Matter vendor / product id that is not four hexadecimal digits is refused** (whatever its string type):
`parse_hex_u16` accepts exactly four hex digits, and an attribute it refuses makes `MatterDnAttrs::parse` fail -/
theorem x509_bad_vendor_id_rejected :
    (∀ s v, parseHexU16 s = some v → s.length = 4 ∧ ∀ b ∈ s, (hexDigit b).isSome) ∧
    (∀ s, s.length ≠ 4 → parseHexU16 s = none) ∧
    (∀ acc tag value, parseHexU16 value = none → dnApply acc (OID_MATTER_VENDOR_ID, (tag, value)) = .error .value) :=
  ⟨fun _ _ h => parseHexU16_sound h, parseHexU16_length, dnApply_vid_rejected⟩
example : parseHexU16 [70, 70, 70, 49] = some 0xFFF1 ∧ parseHexU16 [70, 70, 70] = none ∧ parseHexU16 [70, 70, 70, 71] = none := by
  decide

/-! ### CSR -/

/-- **`CsrRef::new` is total** on arbitrary bytes; the key it hands out (65 octets) is a range of the input, the signed
range (`certificationRequestInfo`) lies inside the input, converting the signature never panics and yields 64 octets -/
theorem csr_parse_total (der : List Nat) :
    Safe (csrNew der) ∧
    ∀ c, csrNew der = .ok c →
      At der c.pk ∧ c.pk.1.length = 65 ∧ c.tbsStart ≤ c.tbsEnd ∧ c.tbsEnd ≤ der.length ∧ Safe c.sig ∧
      ∀ s, c.sig = .ok s → s.length = 64 :=
  csrNew_post der

/-- **CSR round trip**: structure, public key extraction, signature placement. `CsrRef::new` of the PKCS#10 request
built from any subject, an uncompressed P-256 key, any attribute set and a signature `(r, s)` returns the key, the
`certificationRequestInfo` element (tag and length included) as the range that `verify` hashes, and `pad32 r ‖ pad32 s`
as the raw signature. Verification itself is the crypto backend's (symbolic here): it is run on exactly these. -/
theorem csr_parse_encode (subject pk attrs r s : List Nat) (hl : pk.length = 65) (hh : pk.head? = some 0x04)
    (hr : Canon 32 r) (hs : Canon 32 s) (hlen : (encCsr subject pk attrs r s).length ≤ MAX_LEN) :
    ∃ c, csrNew (encCsr subject pk attrs r s) = .ok c ∧ c.pk.1 = pk ∧
      ((encCsr subject pk attrs r s).drop c.tbsStart).take (c.tbsEnd - c.tbsStart) = encCsrInfo subject pk attrs ∧
      c.sig = .ok (padLeft 32 r ++ padLeft 32 s) :=
  csrNew_encCsr hl hh hr hs hlen
set_option maxRecDepth 100000 in
example : (4 :: List.replicate 64 9).length = 65 ∧ (4 :: List.replicate 64 9).head? = some 0x04 ∧ Canon 32 [5] ∧
    (encCsr [0x31, 0x00] (4 :: List.replicate 64 9) [] [5] [6]).length ≤ MAX_LEN :=
  ⟨by decide, by decide, ⟨by decide, by decide, by decide⟩, by decide⟩

end C17

/-! ### certification declaration: TLV content and validation -/
namespace C17
open Codec.Cd

/-- **`CertificationElements::decode` never panics**, whatever the content below 2 GiB (`length < 2^31`: the TLV
container walk counts nesting in an `i32`, C16 `levelStep`); built on the never-panic theorems of the TLV reader (C16) -/
theorem cd_decode_total (content : Tlv.Bytes) (h : content.length < Tlv.I32LIM) : CSafe (decode content) :=
  decode_safe content h

example : ([0x15, 0x18] : Tlv.Bytes).length < Tlv.I32LIM := by decide

/-- **CD content round trip**: the TLV structure the model encoder writes (Matter layout: format version, vendor id,
product id array, device type, certificate id, security level / information, version number, certification type, the
optional DAC-origin pair and authorized-PAA list) decodes to exactly the elements that were written -/
theorem cd_decode_encode (c : Elements) (h : c.Legal) : decode (encodeElements c) = .ok c :=
  decode_encode c h

def sampleCd : Elements :=
  { formatVersion := 1, vendorId := 0xFFF1, productIds := [0x8000, 0x8001], deviceTypeId := 0x1234,
    certificateId := [90, 73, 71, 50, 48, 49, 52, 49, 90, 66, 51, 51, 48, 48, 48, 49, 45, 50, 52],
    securityLevel := 0, securityInformation := 0, versionNumber := 0x2694, certificationType := 0,
    dacOrigin := some (0xFFF1, 0x8000), authorizedPaa := [List.replicate 20 0xAB] }

example : sampleCd.Legal := by
  refine ⟨rfl, by decide, by decide, by decide, by decide, by decide, by decide, by decide, by decide, by decide, by decide,
    by decide, ?_, by decide, by decide⟩
  intro x hx
  simp only [sampleCd, Option.some.injEq] at hx
  subst hx
  decide

/-- **whatever `decode` accepts** has format version 1, 1..100 product ids, a 19-octet certificate id, a defined
certification type and at most 10 authorized PAA key ids of 20 octets — anything else is refused -/
theorem cd_decode_accepts_only (content : Tlv.Bytes) (c : Elements) (h : decode content = .ok c) :
    c.formatVersion = 1 ∧ 1 ≤ c.productIds.length ∧ c.productIds.length ≤ 100 ∧ c.certificateId.length = 19 ∧
    c.certificationType ≤ 2 ∧ c.authorizedPaa.length ≤ 10 ∧ ∀ k ∈ c.authorizedPaa, k.length = 20 :=
  decode_sound h

/-- **`validate` = the rules of the specification**: format version 1; the CD's vendor id is the device's; the device's
product id is listed; with a DAC-origin pair the DAC and PAI vendor ids equal the origin vendor id, the DAC product id
the origin product id and a PAI product id (non-zero) too — without it the DAC and PAI vendor ids equal the CD's, the DAC
product id and a PAI product id are listed; a non-empty authorized-PAA list contains the PAA's subject key identifier -/
theorem cd_validate_spec (c : Elements) (d : DeviceInfo) : validate c d = .ok () ↔ validSpec c d :=
  validate_ok_iff c d
def sampleDevice : DeviceInfo :=
  { vendorId := 0xFFF1, productId := 0x8001, dacVendorId := 0xFFF1, dacProductId := 0x8000, paiVendorId := 0xFFF1,
    paiProductId := 0, paaSkid := List.replicate 20 0xAB }
example : validSpec sampleCd sampleDevice := by
  refine ⟨rfl, rfl, by decide, ⟨rfl, rfl, rfl, Or.inl rfl⟩, Or.inr (by decide)⟩

end C17

/-! ## (G5, audit concern 2) the DER reader of `cert_der_roundtrip` linked to the `der`-crate reading layer, and the
X.509 parser's field readers on the output of `as_asn1`

The statements live (with docstrings and non-vacuity examples) in `Lemmas/CodecDerLink.lean` and
`Lemmas/CodecDerLinkX509.lean`; headline theorems, all in namespace `C17` / `Codec.Der` / `Codec.CertAsn1`:
`Codec.Der.readTree_enc`, `Codec.Der.readTree_sound`, `Codec.Der.readTree_iff_parseDer`, `Codec.Der.fromDerAny_enc_der`,
`Codec.Der.seqItems_encL`, `Codec.CertAsn1.certFieldsOfDer_known`, `C17.cert_der_roundtrip_derrd`,
`Codec.CertAsn1.hexRead_hexUp`, `Codec.CertAsn1.parseHexU16_hexUp`, `Codec.CertAsn1.asn1_tbs_layout`,
`C17.cert_x509_field_readers`; `Lemmas/CodecDerLinkWalk.lean`: `Codec.DerRd.x509New_tbs_refused`, `Codec.CertAsn1.cal_days`,
`Codec.CertAsn1.calOf_agree`, `Codec.CertAsn1.run_validity_asn1`, `C17.cert_x509_tbs_walk`, `Codec.DerRd.fails_extLoop`,
`C17.cert_x509_exts_read`, `C17.cert_x509_exts_eku_refused`; `Lemmas/CodecDerLinkFull.lean`: `Codec.CertAsn1.extOfDer_known`,
`Codec.CertAsn1.certFieldsOfDer_eq_rd`, `C17.cert_der_roundtrip_rd` (no `parseDer` left), `Codec.CertAsn1.attr_integer_read_back`,
`C17.cert_dn_integers_read_back`, and the instances of the `cert_x509_*` theorems on `certSampleX509`. -/
namespace C17
open Codec Codec.Der Codec.CertAsn1

/-- the two DER readers agree on every byte string within `Length::MAX` (restated from `Lemmas/CodecDerLink.lean`) -/
theorem der_readers_agree (l : List Nat) (hb : ∀ b ∈ l, b < 256) (hmax : l.length ≤ Codec.DerRd.MAX_LEN) (d : Der) :
    readTree l = some d ↔ parseDer l = some d ∧ d.known = true :=
  readTree_iff_parseDer l hb hmax d
example : (∀ b ∈ [0x30, 3, 0x02, 1, 5], b < 256) ∧ [0x30, 3, 0x02, 1, 5].length ≤ Codec.DerRd.MAX_LEN := by decide

/-- `cert_der_roundtrip_derrd` applies to `certSample` -/
example : ∃ n, certNode certSample = some n ∧ ∀ buf : List Nat, n.need ≤ buf.length → buf.length < 65536 →
    ∃ d v, asAsn1 certSample.lazy buf = .ok n.enc ∧
      Codec.DerRd.fromDerAny n.enc = .ok (d.tag, d.body) ∧ readTree n.enc = some d ∧ parseDer n.enc = some d ∧
      d.known = true ∧ certFieldsOfDer d = some v ∧ certSample.view = some v :=
  cert_der_roundtrip_derrd certSample (by
    refine ⟨rfl, rfl, rfl, by decide, by decide, ?_, ?_, ?_⟩
    · intro a ha; simp [certSample] at ha; rcases ha with rfl | rfl <;> simp [Attr.WF]
    · intro a ha; simp [certSample] at ha; rcases ha with rfl | rfl | rfl <;> simp [Attr.WF]
    · intro e he; simp [certSample] at he
      rcases he with rfl | rfl | rfl | rfl | rfl <;> simp [XExt.WF])

/-- the sample of `cert_x509_field_readers` is `certSample` with a full-length public key -/
example : certSampleX509 = { certSample with pubkey := 4 :: List.replicate 64 7 } := rfl

end C17
