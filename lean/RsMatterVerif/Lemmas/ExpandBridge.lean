import RsMatterVerif.Lemmas.Expand
/-!
# Bridge between the model's access check and the specification's `permitted` (used by C06)
-/
namespace C06
open Acl Expand

/-! ## the model's access check is the specification's `permitted` -/

theorem and_single_bit (a i : Nat) : a &&& 2 ^ i = 2 ^ i ∨ a &&& 2 ^ i = 0 := by
  cases h : a.testBit i
  · right
    apply Nat.eq_of_testBit_eq
    intro j
    simp only [Nat.testBit_and, Nat.testBit_two_pow, Nat.zero_testBit]
    by_cases hij : i = j
    · subst hij; simp [h]
    · simp [hij]
  · left
    apply Nat.eq_of_testBit_eq
    intro j
    simp only [Nat.testBit_and, Nat.testBit_two_pow]
    by_cases hij : i = j
    · subst hij; simp [h]
    · simp [hij]

theorem contains_eq_declHas (a i : Nat) : contains a (2 ^ i) = declHas a (2 ^ i) := by
  unfold contains declHas
  have hpos : 2 ^ i ≠ 0 := Nat.pos_iff_ne_zero.mp (Nat.two_pow_pos i)
  rcases and_single_bit a i with h | h
  · rw [h]; simp
  · rw [h]; simp [hpos.symm]

theorem contains_read (a : Nat) : contains a READ = declHas a Consts.accRead := contains_eq_declHas a 4
theorem contains_write (a : Nat) : contains a WRITE = declHas a Consts.accWrite := contains_eq_declHas a 5
theorem contains_timed (a : Nat) : contains a Consts.accTimedOnly = declHas a Consts.accTimedOnly :=
  contains_eq_declHas a 8
theorem contains_fabScoped (a : Nat) : contains a Consts.accFabScoped = declHas a Consts.accFabScoped :=
  contains_eq_declHas a 6

theorem find_unique {ls : List Leaf} {l : Leaf} (hl : l ∈ ls) (hnd : (ls.map (·.id)).Nodup) :
    ls.find? (fun a => a.id == l.id) = some l := by
  induction ls with
  | nil => cases hl
  | cons x xs ih =>
    simp only [List.map_cons, List.nodup_cons, List.mem_map, not_exists, not_and] at hnd
    rcases List.mem_cons.mp hl with rfl | hl'
    · simp
    · have : x.id ≠ l.id := fun h => hnd.1 l hl' h.symm
      rw [List.find?_cons_of_neg (by simpa using this)]
      exact ih hl' hnd.2

/-- under the hypotheses of C05, the code's decision for a request equals the specification's -/
theorem allow_eq_grantedB (fabrics : List Fabric) (req : AccessReq)
    (hwf : WF fabrics) (hc : CanonicalPrivs fabrics) (hop : ReadOrWrite req) :
    allow fabrics req = grantedB fabrics req := by
  have h1 := C05.allow_iff_granted fabrics req hwf hc hop
  have h2 := C05.grantedB_iff fabrics req
  cases ha : allow fabrics req <;> cases hg : grantedB fabrics req <;> simp_all

/-- **The access check of the code is the `permitted` of the specification** (through C05's
`allow_iff_granted`), for every existing leaf of a well-formed cluster table. -/
theorem checkAccess_eq_permitted (ctx : Ctx) (op : Operation) (e : Endpoint) (c : Cluster) (l : Leaf)
    (hwf : WF ctx.fabrics) (hc : CanonicalPrivs ctx.fabrics)
    (hl : l ∈ (if op = .invoke then c.cmds else c.attrs))
    (hnd : ((if op = .invoke then c.cmds else c.attrs).map (·.id)).Nodup) :
    checkAccess ctx op e c l.id = (match permitted ctx op e c l with
      | none => .ok ()
      | some s => .error s) := by
  cases op with
  | read =>
    simp only [reduceCtorEq, if_false] at hl hnd
    unfold checkAccess checkAttrAccess permitted
    simp only [find_unique hl hnd, Option.map_some, Option.getD_some, Bool.false_and, Bool.false_eq_true,
      if_false, contains_read, beq_self_eq_true, if_true]
    rw [allow_eq_grantedB _ _ hwf hc ⟨.read, rfl⟩]
    cases declHas l.access Consts.accRead <;>
      cases grantedB ctx.fabrics (mkReq ctx e.id c.id l.id e.deviceTypes READ l.access) <;> simp
  | write =>
    simp only [reduceCtorEq, if_false] at hl hnd
    unfold checkAccess checkAttrAccess permitted
    simp only [find_unique hl hnd, Option.map_some, Option.getD_some, Bool.true_and, if_true,
      contains_write, contains_timed, reduceCtorEq, beq_iff_eq, if_false]
    rw [allow_eq_grantedB _ _ hwf hc ⟨.write, rfl⟩]
    cases ctx.timed <;> cases declHas l.access Consts.accTimedOnly <;>
      cases declHas l.access Consts.accWrite <;>
      cases grantedB ctx.fabrics (mkReq ctx e.id c.id l.id e.deviceTypes WRITE l.access) <;> simp
  | invoke =>
    simp only [if_true] at hl hnd
    unfold checkAccess checkCmdAccess permitted
    simp only [find_unique hl hnd, Option.map_some, Option.getD_some, contains_timed, contains_fabScoped,
      reduceCtorEq, beq_iff_eq, if_false]
    rw [allow_eq_grantedB _ _ hwf hc ⟨.write, rfl⟩]
    cases ctx.timed <;> cases declHas l.access Consts.accTimedOnly <;>
      cases declHas l.access Consts.accFabScoped <;>
      cases hf : (ctx.accessor.fabIdx == 0) <;>
      cases grantedB ctx.fabrics (mkReq ctx e.id c.id l.id e.deviceTypes WRITE l.access) <;> simp

theorem nodeWF_tables {node : Node} (h : nodeWF node = true) {e : Endpoint} (he : e ∈ node)
    {c : Cluster} (hc : c ∈ e.clusters) :
    (c.attrs.map (·.id)).Nodup ∧ (c.cmds.map (·.id)).Nodup := by
  unfold nodeWF at h
  simp only [Bool.and_eq_true, List.all_eq_true, decide_eq_true_iff] at h
  exact (h.2 e he).2 c hc

/-- the answer list of a concrete path `p` for an outcome of `next_for_path` -/
def outs (p : Path) : PathOutcome → List Out
  | .item e c l a => [.item e c l false a]
  | .done => []
  | .err s => [.status p s]

theorem isEndpointAccessible_eq_reachesB (fabrics : List Fabric) (a : Accessor) (ep : Nat) (hwf : WF fabrics) :
    isEndpointAccessible fabrics a ep = reachesB fabrics a ep := by
  have h1 := C05.group_reaches_only_member_endpoints fabrics a ep hwf
  have h2 := C05.reachesB_iff fabrics a ep
  cases h : isEndpointAccessible fabrics a ep <;> cases h' : reachesB fabrics a ep <;> simp_all

theorem find_unique_filter {ls : List Leaf} {l : Leaf} (hl : l ∈ ls.filter (·.enabled))
    (hnd : (ls.map (·.id)).Nodup) :
    (ls.filter (·.enabled)).find? (fun a => a.id == l.id) = some l := by
  apply find_unique hl
  exact List.Nodup.sublist (List.Sublist.map _ List.filter_sublist) hnd


end C06
