import RsMatterVerif.Lemmas.Transport
import RsMatterVerif.Lemmas.Rendezvous
import RsMatterVerif.Lemmas.Handshake
import RsMatterVerif.Lemmas.HandshakeOwn
import RsMatterVerif.Props.C10
/-!
# C20 — unfinished or hostile handshakes cannot leak or exhaust node resources for good

**Run-level theorems** (over all histories of the transition systems `Model/Handshake.lean` and
`Model/Rendezvous.lean`; invariants proved by induction over the history in `Lemmas/Handshake.lean`,
`Lemmas/Rendezvous.lean`, `Lemmas/HandshakeOwn.lean`):
* `reserved_iff_guard`, `reach_capacity_and_ids`, `abandoned_reservation_released`,
  `no_reserved_at_quiescence`, `guarded_sessions_survive_eviction`, `idle_session_admits_reservation`
  (hypothesis of every step: the 28-bit session id counter has not wrapped, `Handshake.noWrap`);
* `rendezvous_single_occupancy`, `placed_is_owner`, `rendezvous_released_on_cancel`,
  `rendezvous_idle_when_no_waiter`, `queued_places_when_free`, `queued_places_after_cancel`;
* `marker_expiry_bounded`, `dead_owner_marker_not_live`, `expired_marker_of_dead_owner_is_cleared`,
  `marker_released_at_quiescence`.

* `owned_iff_handle` (`Lemmas/HandshakeOwn.lean`: an exchange slot is owned iff a live `Exchange` handle
  points to it), hence `live_handles_survive_eviction` (a session a live handle points to is never
  the eviction victim) and `quiescent_no_leak` (no incomplete guard, no handle, closer idle ⇒ every
  session unreserved and without exchanges) — the latter with ONE remaining hypothesis, `NoPending`,
  which is a statement about the receive path and is proved for the receive-path system in C10
  (`C10.empty_slot_no_pending`, `C10.unclaimed_discarded_within`).

The earlier conditional forms are kept: `live_handles_survive_eviction_partial`
(`live_handles_survive_eviction_full`, hypothesis `HandlesOccupied`), `quiescent_no_leak_partial`
(`quiescent_no_leak_full`, hypotheses `OwnedHaveHandles`, `NoPending`).
`two_slots_needed`: the open finding `C20-handshake-needs-two-slots` on the model.

**One-step facts** about single functions of `Model/Transport.lean` on arbitrary tables:
`eviction_never_takes_live_exchange`, `eviction_finds_idle`, `full_table_refuses`, `room_admits`,
`evict_then_room`, `remove_found_shrinks`, `reserve_marks`, `complete_makes_live`,
`owner_drop_frees_or_marks`, `queued_cancel_keeps_slot`, `marker_none_after_clear_or_fail`,
`handler_drop_keeps_marker`; and `C10.closer_finds_dropped` (imported).
-/
namespace C20
open Transport

/-! ## Eviction -/

theorem evictLoop_spec : ∀ (l : List Sess) (k : Nat) (best : Option Nat) (ts i : Nat),
    evictLoop l k best ts = some i →
    best = some i ∨ (k ≤ i ∧ ∃ s, l[i - k]? = some s ∧ s.reserved = false ∧ s.noExchanges = true) := by
  intro l
  induction l with
  | nil => intro k best ts i h; simp only [evictLoop] at h; exact Or.inl h
  | cons x xs ih =>
    intro k best ts i h
    simp only [evictLoop] at h
    split at h
    · rename_i hc
      simp only [Bool.and_eq_true, Bool.not_eq_true'] at hc
      split at h
      · simp only [Option.some.injEq] at h
        subst h
        exact Or.inr ⟨Nat.le_refl _, x, by simp, hc.1.2, hc.2⟩
      · rcases ih (k + 1) (some k) x.lastUse i h with hb | ⟨hk, s, hs, h1, h2⟩
        · simp only [Option.some.injEq] at hb
          subst hb
          exact Or.inr ⟨Nat.le_refl _, x, by simp, hc.1.2, hc.2⟩
        · have : i - k = (i - (k + 1)) + 1 := by omega
          exact Or.inr ⟨by omega, s, by rw [this, List.getElem?_cons_succ]; exact hs, h1, h2⟩
    · rcases ih (k + 1) best ts i h with hb | ⟨hk, s, hs, h1, h2⟩
      · exact Or.inl hb
      · have : i - k = (i - (k + 1)) + 1 := by omega
        exact Or.inr ⟨by omega, s, by rw [this, List.getElem?_cons_succ]; exact hs, h1, h2⟩

/-- **Eviction never takes a session with a live exchange** (nor a reserved one). One-step fact about
the choice function `get_session_for_eviction` on an arbitrary table; the run-level consequences are
`guarded_sessions_survive_eviction` and `live_handles_survive_eviction_partial` below. -/
theorem eviction_never_takes_live_exchange (t : Table) (now i : Nat) (h : t.evictionIdx now = some i) :
    ∃ s, t.sessions[i]? = some s ∧ s.reserved = false ∧ s.noExchanges = true := by
  unfold Table.evictionIdx at h
  rcases evictLoop_spec t.sessions 0 none now i h with hb | ⟨_, s, hs, h1, h2⟩
  · simp at hb
  · exact ⟨s, by simpa using hs, h1, h2⟩

/-- `noExchanges` means every slot is empty -/
theorem noExchanges_slots (s : Sess) (h : s.noExchanges = true) : ∀ i, s.slot i = none := by
  intro i
  simp only [Sess.noExchanges, List.all_eq_true] at h
  simp only [Sess.slot]
  cases hg : s.exchs[i]? with
  | none => rfl
  | some v =>
    have := h v (List.mem_of_getElem? hg)
    cases v with
    | none => rfl
    | some e => simp at this

theorem evictLoop_some_of_best : ∀ (l : List Sess) (k : Nat) (b ts : Nat),
    (evictLoop l k (some b) ts).isSome = true := by
  intro l
  induction l with
  | nil => intro k b ts; simp [evictLoop]
  | cons x xs ih =>
    intro k b ts
    simp only [evictLoop]
    split
    · split
      · rfl
      · exact ih _ _ _
    · exact ih _ _ _

/-- a candidate whose last use lies before the running threshold keeps being one while the threshold
only moves to earlier `last_use` values of *chosen* candidates — so some session is found -/
theorem evictLoop_finds : ∀ (l : List Sess) (k : Nat) (best : Option Nat) (ts : Nat),
    (∃ s ∈ l, s.reserved = false ∧ s.noExchanges = true ∧ (s.expired = true ∨ s.lastUse < ts)) →
    (evictLoop l k best ts).isSome = true := by
  intro l
  induction l with
  | nil => intro k best ts ⟨s, hs, _⟩; simp at hs
  | cons x xs ih =>
    intro k best ts ⟨s, hs, hr, hn, hc⟩
    simp only [evictLoop]
    split
    · split
      · rfl
      · exact evictLoop_some_of_best _ _ _ _
    · rename_i hx
      rcases List.mem_cons.1 hs with h1 | h1
      · subst h1
        exfalso
        apply hx
        simp only [Bool.and_eq_true, Bool.or_eq_true, decide_eq_true_eq, Bool.not_eq_true']
        exact ⟨⟨hc, hr⟩, hn⟩
      · exact ih _ _ _ ⟨s, h1, hr, hn, hc⟩

/-- **Eviction finds an idle session** (one-step, arbitrary table; the comparison `lastUse < now` is
strict): whenever some session is unreserved, carries no exchange and
is expired or was last used strictly before `now`. -/
theorem eviction_finds_idle (t : Table) (now : Nat)
    (h : ∃ s ∈ t.sessions, s.reserved = false ∧ s.noExchanges = true ∧ (s.expired = true ∨ s.lastUse < now)) :
    (t.evictionIdx now).isSome = true :=
  evictLoop_finds t.sessions 0 none now h

/-- non-vacuity, and the tie the hypothesis excludes: a session used at this very instant is not a
candidate (`last_use < now` is strict) unless it is expired -/
example : (({ sessions := [{ uid := 0, ctr := 0, lastUse := 5 }] } : Table).evictionIdx 5,
           ({ sessions := [{ uid := 0, ctr := 0, lastUse := 5 }] } : Table).evictionIdx 6,
           ({ sessions := [{ uid := 0, ctr := 0, lastUse := 5, expired := true }] } : Table).evictionIdx 5)
    = (none, some 0, some 0) := by decide

/-! ## Full table -/

/-- **Full table ⇒ refusal** (one-step, arbitrary table; the transport turns it into a busy answer or an eviction) -/
theorem full_table_refuses (t : Table) (ctr : Nat) (r : Bool) (now port : Nat)
    (h : t.sessions.length ≥ Consts.maxSessions) :
    (t.add ctr r now port).2 = .error .noSpaceSessions ∧ (t.add ctr r now port).1.sessions = t.sessions := by
  unfold Table.add
  simp [h]

/-- room ⇒ the new session is admitted, as the last entry (one-step, arbitrary table) -/
theorem room_admits (t : Table) (ctr : Nat) (r : Bool) (now port : Nat)
    (h : t.sessions.length < Consts.maxSessions) :
    (t.add ctr r now port).2 = .ok t.nextUid ∧
    (t.add ctr r now port).1.sessions.length = t.sessions.length + 1 := by
  unfold Table.add
  have : ¬ t.sessions.length ≥ Consts.maxSessions := by omega
  simp [this]

theorem swapRemove_length (l : List Sess) (i : Nat) (h : i < l.length) :
    (swapRemove l i).length = l.length - 1 := by
  unfold swapRemove
  cases hl : l.getLast? with
  | none =>
    have : l = [] := by simpa using hl
    subst this
    simp at h
  | some last =>
    simp only
    split <;> simp

theorem remove_length (t : Table) (uid : Nat) (h : (t.find uid).isSome = true) :
    (t.remove uid).1.sessions.length = t.sessions.length - 1 ∧ (t.remove uid).2 = true := by
  unfold Table.remove
  cases hf : t.find uid with
  | none => simp [hf] at h
  | some i =>
    simp only
    have hi : i < t.sessions.length := by
      unfold Table.find at hf
      exact (List.findIdx?_eq_some_iff_getElem.1 hf).1
    exact ⟨swapRemove_length _ _ hi, trivial⟩

/-- **Evict, then there is room** (one-step): removing any session of a table that respects the
capacity makes `add` succeed. That the capacity is respected in every reachable state is part of
`Handshake.Inv` (`cap`); the run-level statement is `idle_session_admits_reservation`. -/
theorem evict_then_room (t : Table) (uid ctr : Nat) (r : Bool) (now port : Nat)
    (hfound : (t.find uid).isSome = true) (hcap : t.sessions.length ≤ Consts.maxSessions) :
    ∃ u, ((t.remove uid).1.add ctr r now port).2 = .ok u := by
  have hl := (remove_length t uid hfound).1
  have hpos : 0 < t.sessions.length := by
    cases hf : t.find uid with
    | none => simp [hf] at hfound
    | some i =>
      unfold Table.find at hf
      have := (List.findIdx?_eq_some_iff_getElem.1 hf).1
      omega
  have hlt : (t.remove uid).1.sessions.length < Consts.maxSessions := by omega
  exact ⟨_, (room_admits _ ctr r now port hlt).1⟩

/-! ## Reservations -/

/-- removing a session that is found shrinks the table by one (one-step; this was all the former
`abandoned_reservation_released` said - the real statement is the run-level theorem of that name in
the section "Reservations over all histories" below) -/
theorem remove_found_shrinks (t : Table) (uid : Nat) (hfound : (t.find uid).isSome = true) :
    (t.remove uid).1.sessions.length + 1 = t.sessions.length := by
  have hl := (remove_length t uid hfound).1
  have hpos : 0 < t.sessions.length := by
    cases hf : t.find uid with
    | none => simp [hf] at hfound
    | some i =>
      unfold Table.find at hf
      have := (List.findIdx?_eq_some_iff_getElem.1 hf).1
      omega
  omega

/-- a freshly reserved session is marked reserved (and therefore neither receives nor is evicted);
one-step, arbitrary table -/
theorem reserve_marks (t : Table) (ctr now : Nat) (h : t.sessions.length < Consts.maxSessions) :
    ∃ s, (t.add ctr true now).1.sessions.getLast? = some s ∧ s.reserved = true ∧ s.uid = t.nextUid := by
  unfold Table.add
  have : ¬ t.sessions.length ≥ Consts.maxSessions := by omega
  simp [this]

/-! ## `complete()` makes the session live -/

theorem find_set_self (l : List Sess) (uid i : Nat) (x : Sess) (hx : x.uid = uid)
    (hi : l.findIdx? (·.uid == uid) = some i) : (l.set i x).find? (·.uid == uid) = some x := by
  induction l generalizing i with
  | nil => simp at hi
  | cons a rest ih =>
    rw [List.findIdx?_cons] at hi
    by_cases ha : (a.uid == uid) = true
    · simp only [ha, ↓reduceIte, Option.some.injEq] at hi
      subst hi
      simp [hx]
    · simp only [ha, Bool.false_eq_true, ↓reduceIte, Option.map_eq_some_iff] at hi
      obtain ⟨j, hj, rfl⟩ := hi
      simp only [List.set_cons_succ, List.find?_cons, ha]
      exact ih j hj

theorem setSess_sess (t : Table) (x : Sess) (h : (t.find x.uid).isSome = true) :
    (t.setSess x).sess x.uid = some x := by
  unfold Table.setSess Table.sess
  cases hf : t.find x.uid with
  | none => simp [hf] at h
  | some i =>
    simp only
    exact find_set_self t.sessions x.uid i x rfl hf

theorem find_of_sess (t : Table) (uid : Nat) (s : Sess) (h : t.sess uid = some s) :
    (t.find uid).isSome = true ∧ s.uid = uid := by
  unfold Table.sess at h
  unfold Table.find
  have hp := List.find?_some h
  have hm := List.mem_of_find?_eq_some h
  refine ⟨?_, by simpa using hp⟩
  rw [List.findIdx?_isSome]
  exact List.any_eq_true.2 ⟨s, hm, hp⟩

/-- **The repaired `ReservedSession::complete`** (one-step, arbitrary table): afterwards the session —
if it is still in the table — is no longer reserved, at once and not only when the handshake task has
run again and dropped the handle. This removes the one clause of `Sess.isForRx` that depends on the
handle; the other clauses (session id, peer port, secure mode) are what `reservedUpdate` wrote before -
the theorem says nothing about them; the `example`s below show both steps on a concrete table. -/
theorem complete_makes_live (t : Table) (uid now : Nat) (s : Sess)
    (h : (t.reservedComplete uid now).1.sess uid = some s) : s.reserved = false := by
  unfold Table.reservedComplete Table.get at h
  cases hs : t.sess uid with
  | none =>
    simp only [hs] at h
    cases h
  | some s0 =>
    simp only [hs] at h
    obtain ⟨hf0, hu0⟩ := find_of_sess t uid s0 hs
    let s1 : Sess := { s0 with lastUse := now }
    have hu1 : s1.uid = uid := hu0
    have h1 : (t.setSess s1).sess uid = some s1 := by
      have := setSess_sess t s1 (by rw [hu1]; exact hf0)
      rw [hu1] at this
      exact this
    obtain ⟨hf1, _⟩ := find_of_sess _ uid s1 h1
    let s2 : Sess := { s1 with reserved := false }
    have hu2 : s2.uid = uid := hu0
    have h2 : ((t.setSess s1).setSess s2).sess uid = some s2 := by
      have := setSess_sess (t.setSess s1) s2 (by rw [hu2]; exact hf1)
      rw [hu2] at this
      exact this
    have : some s = some s2 := by rw [← h, ← h2]
    have hs2 : s = s2 := Option.some.inj this
    rw [hs2]

example : ((({ sessions := [{ uid := 3, ctr := 0, reserved := true }] } : Table).reservedComplete 3 10).1.sess 3).map (·.reserved) = some false := by
  decide

/-- `update` then `complete`: the receive path finds the session (and did not before `complete`) -/
example :
    let t0 : Table := { sessions := [{ uid := 3, ctr := 0, reserved := true }] }
    let t1 := (t0.reservedUpdate 3 77 5540 .case 10).1
    let t2 := (t1.reservedComplete 3 10).1
    ((t1.sess 3).map (fun x => x.isForRx 5540 77), (t2.sess 3).map (fun x => x.isForRx 5540 77)) =
      (some false, some true) := by
  decide


/-! ## Exchange slots at quiescence -/

/-- an exchange dropped by its owner leaves its slot free or in a dropped state (never owned) -/
theorem owner_drop_frees_or_marks (s : Sess) (i : Nat) (e : Exch) (hs : s.slot i = some e) :
    (s.removeExch i).1.slot i = none ∨
    ∃ e', (s.removeExch i).1.slot i = some e' ∧ e'.role.isDropped = true := by
  have hlt := slot_lt s i e hs
  unfold Sess.removeExch
  simp only [hs]
  split
  · right
    refine ⟨{ e with role := e.role.setDropped }, by rw [slot_set]; simp [hlt], ?_⟩
    cases e.role <;> rfl
  · left
    rw [slot_set]; simp [hlt]

/-! ## Reservations over all histories (`Model/Handshake.lean`)

`Handshake.Reach s`: `s` is reachable from the empty node by ANY sequence of the ops of
`Model/Handshake.lean` (carrier sessions added, reservations made / updated / completed / dropped,
sessions removed behind the handles' backs, evictions, expiry, exchanges initiated / opened by received
messages / accepted / dropped, closer and accept-deadline sweeps, time), as long as the 28-bit id
counter of `Sessions::add` has not wrapped at the moment of a step (`Handshake.noWrap`: fewer than
2^28 sessions were ever created - after a wrap a fresh session could get the id of a session that is
still alive, and `Sessions::get` / `remove` would pick the wrong one; rs-matter does not guard
against this). `Handshake.Inv` is proved for every reachable state in `Lemmas/Handshake.lean`. -/

open Handshake in
/-- **A session is reserved iff a live incomplete `ReservedSession` holds its id** - in every
reachable state. -/
theorem reserved_iff_guard (s : Sys) (h : Reach s) (x : Sess) (hx : x ∈ s.t.sessions) :
    x.reserved = true ↔ ∃ g ∈ s.guards, g.uid = x.uid ∧ g.complete = false :=
  (inv_reach s h).resv x hx

open Handshake in
/-- the capacity is respected and the internal ids are pairwise different in every reachable state -/
theorem reach_capacity_and_ids (s : Sys) (h : Reach s) :
    s.t.sessions.length ≤ Consts.maxSessions ∧ UidNodup s.t ∧ UidBelow s.t :=
  ⟨(inv_reach s h).cap, (inv_reach s h).nodup, (inv_reach s h).below⟩

open Handshake in
/-- **An abandoned reservation is released** (run level): in every reachable state, when the
`ReservedSession` found under `uid` is dropped without `complete`, exactly the session with that id
leaves the table - it is gone, every other session is still found under its id, unchanged, no guard
for `uid` is left, the table has shrunk by one if the session was still there - and the session that
is removed was reserved (it was never visible to the receive path nor to eviction). -/
theorem abandoned_reservation_released (s : Sys) (h : Reach s) (uid : Nat) (g : Guard)
    (hfind : s.guards.find? (fun g => g.uid == uid) = some g) (hinc : g.complete = false) :
    (step s (.dropGuard uid)).t.sess uid = none ∧
    (∀ u, u ≠ uid → (step s (.dropGuard uid)).t.sess u = s.t.sess u) ∧
    (∀ g' ∈ (step s (.dropGuard uid)).guards, g'.uid ≠ uid) ∧
    (∀ x, s.t.sess uid = some x → x.reserved = true ∧
      (step s (.dropGuard uid)).t.sessions.length + 1 = s.t.sessions.length) := by
  have hi := inv_reach s h
  have hstep : step s (.dropGuard uid) =
      { s with t := (s.t.remove uid).1, guards := s.guards.filter (fun g => g.uid != uid) } := by
    simp only [step, opDropGuard, hfind, hinc, Bool.false_eq_true, ↓reduceIte]
  rw [hstep]
  refine ⟨remove_sess_none s.t hi.nodup uid, fun u hu => remove_sess_other s.t hi.nodup uid u hu, ?_, ?_⟩
  · intro g' hg'
    have := (List.mem_filter.1 hg').2
    simpa using this
  · intro x hx
    obtain ⟨hm, hu⟩ := sess_some_mem s.t uid x hx
    have hgm := List.mem_of_find?_eq_some hfind
    have hgu : g.uid = uid := by simpa using List.find?_some hfind
    exact ⟨(hi.resv x hm).2 ⟨g, hgm, by rw [hgu, hu], hinc⟩, Handshake.remove_length_lt s.t uid x hm hu⟩

open Handshake in
/-- **No reservation outlives its handshake**: in every reachable state in which no incomplete
`ReservedSession` is alive (every handshake task has ended, or has completed its session), no session
is reserved. -/
theorem no_reserved_at_quiescence (s : Sys) (h : Reach s) (hq : ∀ g ∈ s.guards, g.complete = true) :
    ∀ x ∈ s.t.sessions, x.reserved = false := by
  intro x hx
  cases hr : x.reserved with
  | false => rfl
  | true =>
    obtain ⟨g, hg, _, hc⟩ := (reserved_iff_guard s h x hx).1 hr
    rw [hq g hg] at hc
    cases hc

/-- non-vacuity: a carrier session, a reservation that is updated and then abandoned, one that is
completed and dropped; in between the first reserved session is invisible to eviction -/
def exOps : List Handshake.Op :=
  [.add 7 5541, .reserve 9, .update 1 77 5540 .case, .tick 5, .reserve 11, .complete 2, .dropGuard 2]

example :
    ((Handshake.run Handshake.init exOps).t.sessions.map (fun x => (x.uid, x.reserved)),
     (Handshake.run Handshake.init exOps).guards,
     (Handshake.run Handshake.init (exOps ++ [.dropGuard 1])).t.sessions.map (fun x => (x.uid, x.reserved)),
     (Handshake.run Handshake.init (exOps ++ [.dropGuard 1])).guards) =
    ([(0, false), (1, true), (2, false)], [{ uid := 1 }], [(0, false), (2, false)], []) := by decide

/-! ## Eviction and admission over all histories -/

open Handshake in
theorem evictionUid_spec (t : Table) (now v : Nat) (h : t.evictionUid now = some v) :
    ∃ x ∈ t.sessions, x.uid = v ∧ x.reserved = false ∧ x.noExchanges = true := by
  unfold Table.evictionUid at h
  cases hi : t.evictionIdx now with
  | none => simp [hi] at h
  | some i =>
    obtain ⟨x, hx, h1, h2⟩ := eviction_never_takes_live_exchange t now i hi
    simp only [hi, hx, Option.map_some, Option.some.injEq] at h
    exact ⟨x, List.mem_of_getElem? hx, h, h1, h2⟩

open Handshake in
/-- **Eviction never removes a session a live handshake holds** (run level): in every reachable state
the session a live incomplete `ReservedSession` points to survives an `evict` step, unchanged. -/
theorem guarded_sessions_survive_eviction (s : Sys) (h : Reach s) (g : Guard) (hg : g ∈ s.guards)
    (hinc : g.complete = false) : (step s .evict).t.sess g.uid = s.t.sess g.uid := by
  have hi := inv_reach s h
  simp only [step, opEvict]
  cases he : s.t.evictionUid s.now with
  | none => rfl
  | some v =>
    simp only
    obtain ⟨x, hx, hu, hr, _⟩ := evictionUid_spec s.t s.now v he
    refine remove_sess_other s.t hi.nodup v g.uid ?_
    intro heq
    have := (hi.resv x hx).2 ⟨g, hg, by rw [heq, hu], hinc⟩
    rw [hr] at this
    cases this

/-- every live `Exchange` handle points to a session of the table and to a non-empty slot of it -/
def HandlesOccupied (s : Handshake.Sys) : Prop :=
  ∀ h ∈ s.handles, ∃ x ∈ s.t.sessions, x.uid = h.1 ∧ (x.slot h.2).isSome = true

/-- the full statement: `HandlesOccupied` can only be broken by `Sessions::remove` behind a handle's
back (fabric / PASE session removal) or by the closer closing a whole session - never by eviction;
i.e. on histories without `remove` the owned slot of every live handle stays occupied, and `evict`
keeps `HandlesOccupied`. NOT proved at this strength: the first half needs the slot-level invariant
"the slot of a live handle has role Owned, and only `Exchange::drop` changes that role" through
`post_recv`, `accept`, `remove_exch` and the closer, which is not done (the unit-level oracle checks
it on sampled histories: "eviction chose session N which carries a live exchange"). -/
def live_handles_survive_eviction_full : Prop :=
  ∀ s, Handshake.Reach s → HandlesOccupied s → HandlesOccupied (Handshake.step s .evict)

open Handshake in
/-- **Live exchange handles survive eviction**: in every reachable state, if every live handle
points to an occupied slot, an `evict` step removes none of their sessions: every handle still points
to the same session with the same slots. (This is `live_handles_survive_eviction_full`; the name
`_partial` records that `HandlesOccupied` itself is a hypothesis here, not an invariant proved over
all histories - see the docstring of `live_handles_survive_eviction_full`.) -/
theorem live_handles_survive_eviction_partial : live_handles_survive_eviction_full := by
  intro s h hocc hd hhd
  have hi := inv_reach s h
  have hh : hd ∈ s.handles := by
    simp only [step, opEvict] at hhd
    split at hhd <;> exact hhd
  obtain ⟨x, hx, hu, hsl⟩ := hocc hd hh
  simp only [step, opEvict]
  cases he : s.t.evictionUid s.now with
  | none => exact ⟨x, hx, hu, hsl⟩
  | some v =>
    simp only
    obtain ⟨y, hy, hyu, _, hne⟩ := evictionUid_spec s.t s.now v he
    refine ⟨x, (mem_remove s.t hi.nodup v x).2 ⟨hx, ?_⟩, hu, hsl⟩
    intro hxv
    have : x = y := nodup_map_inj (fun (z : Sess) => z.uid) s.t.sessions hi.nodup x hx y hy (by rw [hxv, hyu])
    rw [this, noExchanges_slots y hne hd.2] at hsl
    cases hsl

open Handshake in
/-- **Owned slots and live handles correspond** (every reachable state, `Lemmas/HandshakeOwn.lean`):
an exchange slot of a session of the table is `Initiator(Owned)` / `Responder(Owned)` exactly if a live
`Exchange` handle points to it. Proved by following the owned slots through every step
(`post_recv`, `accept_if`, `initiate_for_session`, `Exchange::drop`, the closer, the accept sweep,
session removal / eviction, reservation ops). -/
theorem owned_iff_handle (s : Sys) (h : Reach s) (x : Sess) (hx : x ∈ s.t.sessions) (i : Nat) :
    ownedSlot (x.slot i) = true ↔ (x.uid, i) ∈ s.handles :=
  ⟨(hinv_reach s h).ownedHave x hx i, fun hh => (hinv_reach s h).haveOwned _ hh x hx rfl⟩

open Handshake in
/-- **Sessions that carry a live exchange are never evicted** (every reachable state, no extra
hypothesis): if a live `Exchange` handle points to a session of the table, an `evict` step
(`get_session_for_eviction` + removal) leaves that session in the table, unchanged. This closes what
`live_handles_survive_eviction_partial` left as the hypothesis `HandlesOccupied`: for handles whose
session is still in the table it is the invariant `owned_iff_handle`. (A handle whose session was
removed behind its back by `Sessions::remove` / by the closer closing the whole session points to
nothing; that is not eviction.) -/
theorem live_handles_survive_eviction (s : Sys) (h : Reach s) (hd : Nat × Nat) (hh : hd ∈ s.handles)
    (x : Sess) (hx : x ∈ s.t.sessions) (hu : x.uid = hd.1) : x ∈ (step s .evict).t.sessions := by
  have hi := inv_reach s h
  have hown := (hinv_reach s h).haveOwned hd hh x hx hu
  simp only [step, opEvict]
  cases he : s.t.evictionUid s.now with
  | none => exact hx
  | some v =>
    simp only
    obtain ⟨y, hy, hyu, _, hne⟩ := evictionUid_spec s.t s.now v he
    refine (mem_remove s.t hi.nodup v x).2 ⟨hx, ?_⟩
    intro hxv
    have : x = y := nodup_map_inj (fun (z : Sess) => z.uid) s.t.sessions hi.nodup x hx y hy (by rw [hxv, hyu])
    rw [this, noExchanges_slots y hne hd.2] at hown
    simp [ownedSlot] at hown

open Handshake in
/-- non-vacuity: a reachable state with a live handle on an owned slot -/
example : (Handshake.run Handshake.init (exOps ++ [.dropGuard 1, .initiate 2])).handles = [(2, 0)] ∧
    ((Handshake.run Handshake.init (exOps ++ [.dropGuard 1, .initiate 2])).t.sessions.map
      (fun x => (x.uid, x.exchs.map (fun o => ownedSlot o)))) = [(0, []), (2, [true])] := by decide

open Handshake in
theorem reserve_ok_guards (s : Sys) (ctr u : Nat) (h : (s.t.add ctr true s.now).2 = .ok u) :
    (step s (.reserve ctr)).guards = { uid := u } :: s.guards := by
  simp only [step, opReserve, h]

open Handshake in
/-- **An idle session admits a reservation** (run level): in every reachable state in which some
session is idle (no exchange, not reserved, and expired or last used strictly before now),
`ReservedSession::reserve` succeeds - directly (`reserve_now`), or after exactly one eviction
(`evict_some_session`, which removes exactly one session). The capacity bound this needs is an
invariant of the reachable states, not a hypothesis. See `two_slots_needed` for why this is not yet
"a handshake succeeds". -/
theorem idle_session_admits_reservation (s : Sys) (h : Reach s) (ctr : Nat)
    (hidle : ∃ x ∈ s.t.sessions, idleSess s.now x = true) :
    (∃ u, (step s (.reserve ctr)).guards = { uid := u } :: s.guards) ∨
    (∃ u, (step (step s .evict) (.reserve ctr)).guards = { uid := u } :: s.guards ∧
      (step s .evict).t.sessions.length + 1 = s.t.sessions.length) := by
  have hi := inv_reach s h
  by_cases hroom : s.t.sessions.length < Consts.maxSessions
  · left
    exact ⟨_, reserve_ok_guards s ctr _ (room_admits s.t ctr true s.now 0 hroom).1⟩
  · right
    obtain ⟨x, hx, hid⟩ := hidle
    simp only [idleSess, Bool.and_eq_true, Bool.not_eq_true', Bool.or_eq_true, decide_eq_true_eq] at hid
    have hsome := eviction_finds_idle s.t s.now ⟨x, hx, hid.1.1, hid.1.2, hid.2⟩
    cases hidx : s.t.evictionIdx s.now with
    | none => simp [hidx] at hsome
    | some i =>
      obtain ⟨y, hy, _, _⟩ := eviction_never_takes_live_exchange s.t s.now i hidx
      have hev : s.t.evictionUid s.now = some y.uid := by
        unfold Table.evictionUid; simp [hidx, hy]
      have hym := List.mem_of_getElem? hy
      have hstep : step s .evict = { s with t := (s.t.remove y.uid).1 } := by
        simp only [step, opEvict, hev]
      have hlen := Handshake.remove_length_lt s.t y.uid y hym rfl
      have hroom' : (s.t.remove y.uid).1.sessions.length < Consts.maxSessions := by
        have := hi.cap; omega
      rw [hstep]
      exact ⟨_, reserve_ok_guards _ ctr _ (room_admits _ ctr true s.now 0 hroom').1, hlen⟩

/-- 15 sessions in use (each carries an owned exchange) -/
def busyTable (n : Nat) : List Sess :=
  (List.range n).map (fun k => { uid := k, ctr := 0, mode := .case, exchs := [some { id := k, role := .io }] })

def okOf (r : Except Err Nat) : Option Nat := match r with | .ok u => some u | .error _ => none
def errOf (r : Except Err Nat) : Option Err := match r with | .ok _ => none | .error e => some e

def twoT0 : Table := { nextUid := Consts.maxSessions - 1, nextExch := 1, sessions := busyTable (Consts.maxSessions - 1) }
/-- the first handshake message: the unsecured carrier session takes the last slot ... -/
def twoT1 : Table := (twoT0.add 1 false 100 5541).1
/-- ... and carries the handshake's exchange (any owned slot; here through `initiate`) -/
def twoT2 : Table := (twoT1.initiate (Consts.maxSessions - 1) 100).1

/-- **The known exception (open finding `C20-handshake-needs-two-slots`)**, on the model: all slots but
one are held by sessions in use; the first handshake message takes the last slot for its unsecured
carrier session (which carries the handshake's exchange); the reservation for the new session then
fails: the table is full, and eviction finds nothing - every session, the carrier included, carries a
live exchange. So "one idle/free slot" does NOT suffice for a handshake, although
`idle_session_admits_reservation` holds: once the carrier occupies the free slot no session is idle. -/
theorem two_slots_needed :
    twoT0.sessions.length + 1 = Consts.maxSessions ∧
    okOf (twoT0.add 1 false 100 5541).2 = some (Consts.maxSessions - 1) ∧
    errOf (twoT2.add 2 true 200).2 = some .noSpaceSessions ∧
    twoT2.evictionIdx 200 = none ∧
    -- with two free slots the same steps succeed
    okOf (((({ twoT0 with sessions := twoT0.sessions.drop 1 } : Table).add 1 false 100 5541).1.initiate
      (Consts.maxSessions - 1) 100).1.add 2 true 200).2 = some Consts.maxSessions := by
  decide

/-! ## Quiescence -/

/-- every exchange slot owned by a task (`Initiator(Owned)` / `Responder(Owned)`) has a live handle -/
def OwnedHaveHandles (s : Handshake.Sys) : Prop :=
  ∀ x ∈ s.t.sessions, ∀ i, Handshake.ownedSlot (x.slot i) = true → (x.uid, i) ∈ s.handles

/-- no exchange is waiting to be accepted. This is what C10 contributes (being proved by ag-G8 as
`RxPath.pending_has_message` / `C10.slot_always_freeable`): in reachable receive-path states an
accept-pending exchange always has its message waiting in the RX slot, and the accept sweep
(`Table.sweepAccept`, `C10.unclaimed_is_discarded`) turns it into a dropped one once the accept
deadline has passed - so after the deadline, with the RX slot empty, no slot is accept-pending. -/
def NoPending (t : Table) : Prop := ∀ x ∈ t.sessions, ∀ i e, x.slot i = some e → e.role ≠ .rp

theorem noExchanges_of_slots (x : Sess) (h : ∀ i, x.slot i = none) : x.noExchanges = true := by
  simp only [Sess.noExchanges, List.all_eq_true]
  intro o ho
  obtain ⟨i, hi⟩ := List.mem_iff_getElem?.1 ho
  have := h i
  simp only [Sess.slot, hi, Option.join_some] at this
  rw [this]; rfl

/-- **Quiescence, full statement**: after ANY history, in a state where every handshake task has
ended or completed its session (no live incomplete `ReservedSession`), no `Exchange` handle is
alive, the closer has nothing left to do and no exchange waits to be accepted, every session of the
table is unreserved and carries no exchange - i.e. every session slot is free or holds a session that
is immediately usable and, once idle, evictable. -/
def quiescent_no_leak_full : Prop :=
  ∀ s, Handshake.Reach s → (∀ g ∈ s.guards, g.complete = true) → s.handles = [] →
    C10.closerIdle s.t → NoPending s.t →
    ∀ x ∈ s.t.sessions, x.reserved = false ∧ x.noExchanges = true

/-- **No leak at quiescence** - proved with one extra hypothesis: `OwnedHaveHandles` (an owned slot
has a live handle), which is an invariant of the real system (an owned slot is created together with
its handle and only the handle's `Drop` changes the role) but is NOT proved here over all histories;
the unit-level oracle `qchk` and the system-level oracle (`xo=0`) sample it. The reservation half
(`x.reserved = false`) is unconditional (`no_reserved_at_quiescence`, over all histories); the
dropped slots are excluded by C10 `closer_finds_dropped`, the accept-pending ones by the C10
hypothesis `NoPending`. -/
theorem quiescent_no_leak_partial (s : Handshake.Sys) (h : Handshake.Reach s)
    (hg : ∀ g ∈ s.guards, g.complete = true) (hh : s.handles = [])
    (hc : C10.closerIdle s.t) (hp : NoPending s.t) (ho : OwnedHaveHandles s) :
    ∀ x ∈ s.t.sessions, x.reserved = false ∧ x.noExchanges = true := by
  intro x hx
  refine ⟨no_reserved_at_quiescence s h hg x hx, noExchanges_of_slots x ?_⟩
  intro i
  cases hs : x.slot i with
  | none => rfl
  | some e =>
    exfalso
    have hd := C10.closer_finds_dropped s.t hc x hx i e hs
    have hnp := hp x hx i e hs
    have hown : Handshake.ownedSlot (x.slot i) = true → False := by
      intro hw
      have := ho x hx i hw
      rw [hh] at this
      cases this
    rw [hs] at hown
    cases hr : e.role <;> simp [hr, Handshake.ownedSlot, RoleSt.isDropped] at hd hnp hown

/-- **No leak at quiescence** (every history): in a reachable state where every handshake task has
ended or completed its session (no live incomplete `ReservedSession`), no `Exchange` handle is alive
and the closer has nothing left to do, every session of the table is unreserved and carries no
exchange — under the ONE remaining hypothesis `NoPending` (no exchange waits to be accepted), which is
not a fact about this transition system (it has no RX slot) but about the receive path: C10 proves it
for the receive-path system (`C10.empty_slot_no_pending`: with the RX slot empty there is no
accept-pending exchange; `C10.unclaimed_discarded_within`: an unclaimed message leaves the slot within
the accept deadline plus the sweeper polls). `OwnedHaveHandles` is no longer a hypothesis
(`owned_iff_handle`). The open finding `C20-handshake-needs-two-slots` (`two_slots_needed`) is about
admission, not about leaks, and is the documented exception to the property's clause "as soon as one
session is idle a new handshake succeeds". -/
theorem quiescent_no_leak (s : Handshake.Sys) (h : Handshake.Reach s)
    (hg : ∀ g ∈ s.guards, g.complete = true) (hh : s.handles = [])
    (hc : C10.closerIdle s.t) (hp : NoPending s.t) :
    ∀ x ∈ s.t.sessions, x.reserved = false ∧ x.noExchanges = true :=
  quiescent_no_leak_partial s h hg hh hc hp (fun x hx i ho => (Handshake.hinv_reach s h).ownedHave x hx i ho)

/-- non-vacuity of the hypotheses on a reachable non-empty state: the history `exOps` (carrier,
abandoned and completed reservation), an exchange on the completed session opened and dropped: no
guard incomplete, no handle, closer idle, nothing pending, every owned slot has a handle. -/
def exQuiet : Handshake.Sys :=
  Handshake.run Handshake.init (exOps ++ [.dropGuard 1, .initiate 2, .tick 3, .dropHandle 2 0, .sweep])

example :
    exQuiet.guards.all (·.complete) = true ∧ exQuiet.handles = [] ∧
    findDropped true exQuiet.t.sessions = none ∧ findDropped false exQuiet.t.sessions = none ∧
    exQuiet.t.sessions.map (fun x => (x.uid, x.reserved, x.exchs)) = [(0, false, []), (2, false, [none])] ∧
    -- while the exchange was open the slot was owned and had its handle
    (Handshake.run Handshake.init (exOps ++ [.dropGuard 1, .initiate 2])).handles = [(2, 0)] := by
  decide

/-! ## Rendezvous slots (mDNS resolve / browse) — over all histories of `Model/Rendezvous.lean`

`Rendezvous.run Rendezvous.init ops` is the state after the history `ops` (arrivals of callers,
placements, responder pick-ups and deposits, consumption, cancellations and time-outs in any order and
any number). The invariant `Rendezvous.Inv` (slot occupied ⇔ exactly one waiter is placed, and it is
the ghost owner) is proved by induction over the history in `Lemmas/Rendezvous.lean`. -/

open Rendezvous in
/-- at most one caller ever holds an armed guard -/
theorem rendezvous_single_occupancy (ops : List Op) : (run init ops).placed.length ≤ 1 := by
  have h := inv_reach ops
  by_cases hs : (run init ops).slot = .idle
  · rw [(h.1 hs).1]; exact Nat.zero_le _
  · obtain ⟨w, _, hp⟩ := h.2 hs
    rw [hp]; exact Nat.le_refl _

open Rendezvous in
/-- a placed waiter is the owner of the request in the slot, and the slot is occupied -/
theorem placed_is_owner (ops : List Op) (w : Nat) (hw : w ∈ (run init ops).placed) :
    (run init ops).owner = some w ∧ (run init ops).placed = [w] ∧ (run init ops).slot ≠ .idle := by
  have h := inv_reach ops
  by_cases hs : (run init ops).slot = .idle
  · rw [(h.1 hs).1] at hw; cases hw
  · obtain ⟨v, ho, hp⟩ := h.2 hs
    rw [hp] at hw
    have : w = v := by simpa using hw
    subst this
    exact ⟨ho, hp, hs⟩

open Rendezvous in
theorem dropWaiter_placed (st : St) (w : Nat) (hp : st.placed = [w]) :
    (dropWaiter st w).slot = .idle ∧ (dropWaiter st w).placed = [] ∧ (dropWaiter st w).queued = st.queued := by
  unfold dropWaiter
  have hc : st.placed.contains w = true := by rw [hp]; simp
  rw [if_pos hc]
  refine ⟨?_, by simp [hp], rfl⟩
  show guardDropSlot st.slot = .idle
  unfold guardDropSlot; split <;> rfl

open Rendezvous in
/-- **Rendezvous released on cancel / time-out** (run level): after ANY history, when the future of
the placed waiter is dropped — cancelled by its caller or because its own timer fired — the slot is
`Idle`, no waiter is placed any more, the queue is untouched, and the request that was discarded is
the waiter's own (the guard never resets somebody else's request). -/
theorem rendezvous_released_on_cancel (ops : List Op) (w : Nat) (hw : w ∈ (run init ops).placed) :
    (run init (ops ++ [.cancel w])).slot = .idle ∧ (run init (ops ++ [.cancel w])).placed = [] ∧
    (run init (ops ++ [.timeout w])).slot = .idle ∧ (run init (ops ++ [.timeout w])).placed = [] ∧
    (run init ops).owner = some w := by
  obtain ⟨ho, hp, _⟩ := placed_is_owner ops w hw
  have hd := dropWaiter_placed _ w hp
  have hrun : ∀ o, run init (ops ++ [o]) = step (run init ops) o := fun o => run_append ops [o] init
  rw [hrun, hrun]
  have hc : (run init ops).placed.contains w = true := by rw [hp]; simp
  simp only [step, timeoutWaiter, hc, ↓reduceIte]
  exact ⟨hd.1, hd.2.1, hd.1, hd.2.1, ho⟩

open Rendezvous in
/-- cancelling a caller that is still queued (it has no guard yet) does not touch the slot -/
theorem queued_cancel_keeps_slot (st : St) (w : Nat) (hq : st.placed.contains w = false) :
    (step st (.cancel w)).slot = st.slot ∧ (step st (.cancel w)).placed = st.placed := by
  simp only [step, dropWaiter, hq, Bool.false_eq_true, ↓reduceIte]
  split <;> exact ⟨rfl, rfl⟩

open Rendezvous in
/-- **No waiter ⇒ idle**: in every reachable state in which no caller holds a guard the slot is
`Idle` — whatever the responder did (pick-ups, deposits for requests long abandoned) and however the
earlier waiters ended. -/
theorem rendezvous_idle_when_no_waiter (ops : List Op) (h : (run init ops).placed = []) :
    (run init ops).slot = .idle ∧ (run init ops).owner = none := by
  have hi := inv_reach ops
  by_cases hs : (run init ops).slot = .idle
  · exact ⟨hs, (hi.1 hs).2⟩
  · obtain ⟨w, _, hp⟩ := hi.2 hs
    rw [hp] at h; cases h

open Rendezvous in
/-- a queued caller places its request as soon as no waiter is placed -/
theorem queued_places_when_free (ops : List Op) (v : Nat) (hfree : (run init ops).placed = [])
    (hv : v ∈ (run init ops).queued) :
    (step (run init ops) (.place v)).slot = .requested ∧ (step (run init ops) (.place v)).owner = some v ∧
    (step (run init ops) (.place v)).placed = [v] := by
  have hs := (rendezvous_idle_when_no_waiter ops hfree).1
  have hc : (run init ops).queued.contains v = true := by simpa using hv
  simp [step, place, hv, hs, hfree]

open Rendezvous in
/-- **the next caller gets the slot**: after any history, once the placed waiter is cancelled (or
timed out) any queued caller places its request -/
theorem queued_places_after_cancel (ops : List Op) (w v : Nat) (hw : w ∈ (run init ops).placed)
    (hv : v ∈ (run init ops).queued) :
    (run init (ops ++ [.cancel w, .place v])).slot = .requested ∧
    (run init (ops ++ [.cancel w, .place v])).owner = some v ∧
    (run init (ops ++ [.cancel w, .place v])).placed = [v] := by
  obtain ⟨_, hp, _⟩ := placed_is_owner ops w hw
  have h1 : run init (ops ++ [.cancel w]) = step (run init ops) (.cancel w) := run_append ops _ init
  have hfree : (run init (ops ++ [.cancel w])).placed = [] := by
    rw [h1]; exact (dropWaiter_placed _ w hp).2.1
  have hq : v ∈ (run init (ops ++ [.cancel w])).queued := by
    rw [h1]; show v ∈ (dropWaiter _ w).queued
    rw [(dropWaiter_placed _ w hp).2.2]; exact hv
  have := queued_places_when_free (ops ++ [.cancel w]) v hfree hq
  have h2 : run init (ops ++ [.cancel w, .place v]) = step (run init (ops ++ [.cancel w])) (.place v) := by
    have : ops ++ [Op.cancel w, Op.place v] = (ops ++ [.cancel w]) ++ [.place v] := by simp
    rw [this]
    exact run_append _ _ init
  rw [h2]; exact this

/-- non-vacuity on a concrete history: two callers, the first places, the responder picks the request
up and deposits; the second stays queued while the first holds the slot (its `place` is refused); the
first is cancelled before consuming: the slot is idle, the second places. -/
def exHist : List Rendezvous.Op := [.arrive 1, .arrive 2, .place 1, .place 2, .pickup, .deposit]

example :
    (Rendezvous.run Rendezvous.init exHist).slot = .resolved ∧
    (Rendezvous.run Rendezvous.init exHist).placed = [1] ∧
    (Rendezvous.run Rendezvous.init exHist).queued = [2] ∧
    (Rendezvous.run Rendezvous.init (exHist ++ [.cancel 1])).slot = .idle ∧
    (Rendezvous.run Rendezvous.init (exHist ++ [.cancel 1, .place 2])).slot = .requested ∧
    (Rendezvous.run Rendezvous.init (exHist ++ [.cancel 1, .place 2])).owner = some 2 ∧
    (Rendezvous.run Rendezvous.init (exHist ++ [.consume 1])).slot = .idle ∧
    -- a queued caller's cancellation leaves the request of the placed one alone
    (Rendezvous.run Rendezvous.init (exHist ++ [.cancel 2])).slot = .resolved ∧
    -- a deposit for a request that was abandoned meanwhile is a no-op
    (Rendezvous.run Rendezvous.init [.arrive 1, .place 1, .pickup, .timeout 1, .deposit]).slot = .idle := by
  decide

/-! ## The PASE in-progress marker — over all histories of `Model/Rendezvous.lean`

`Rendezvous.prun Rendezvous.pinit ops`: any sequence of `update_session_timeout` calls of any
exchanges, `clear_session_timeout`, `record_pake_failure`, handler futures dropped by the executor
(which leaves the marker as it is) and time steps. -/

open Rendezvous in
/-- in every reachable state the marker expires at most one life time (60 s) from now -/
theorem marker_expiry_bounded (ops : List POp) (k : Marker) (h : (prun pinit ops).marker = some k) :
    k.expiry ≤ (prun pinit ops).now + paseTimeoutMs :=
  pinv_run ops pinit pinv_init k h

open Rendezvous in
/-- **A dead owner's marker goes stale**: after any history, if during a further segment of more than
60 s the exchange `ex0` performs no `update_session_timeout` (its handler was dropped, or it ended),
then no marker owned by `ex0` is live at the end of the segment — whatever else happened meanwhile. -/
theorem dead_owner_marker_not_live (ops seg : List POp) (ex0 : Nat)
    (hdead : ∀ o ∈ seg, o.isUpdateOf ex0 = false) (hlong : elapsed seg ≥ paseTimeoutMs + 1)
    (k : Marker) (hk : (prun pinit (ops ++ seg)).marker = some k) (hown : k.owner = ex0) :
    k.expired (prun pinit (ops ++ seg)).now = true := by
  rw [prun_append] at hk ⊢
  have h0 : OwnedBelow ex0 ((prun pinit ops).now + paseTimeoutMs) (prun pinit ops) :=
    fun k hk _ => pinv_run ops pinit pinv_init k hk
  have h1 := ownedBelow_run ex0 _ seg _ hdead h0 k hk hown
  have hn := now_run seg (prun pinit ops)
  simp only [Marker.expired, decide_eq_true_eq]
  omega

open Rendezvous in
/-- **An expired marker of a dead owner is cleared by the next initiator**: under the hypotheses of
`dead_owner_marker_not_live`, a `PBKDFParamRequest` of ANY exchange `ex` (`update ex true`) is refused
with `Busy` only because of a live marker of a third exchange that is neither `ex` nor the dead one —
never because of the dead one's marker. (False for the seeded variant C20-b, see `updateBusyFirst`.) -/
theorem expired_marker_of_dead_owner_is_cleared (ops seg : List POp) (ex0 ex : Nat)
    (hdead : ∀ o ∈ seg, o.isUpdateOf ex0 = false) (hlong : elapsed seg ≥ paseTimeoutMs + 1)
    (hbusy : (update (prun pinit (ops ++ seg)) ex true).2 = .busy) :
    ∃ k, (prun pinit (ops ++ seg)).marker = some k ∧ k.owner ≠ ex0 ∧ k.owner ≠ ex ∧
      k.expired (prun pinit (ops ++ seg)).now = false := by
  generalize hst : prun pinit (ops ++ seg) = st at hbusy
  unfold update decide2 at hbusy
  simp only at hbusy
  split at hbusy
  · rename_i k hc
    obtain ⟨hm, hx⟩ := clearIfExpired_sub _ _ _ hc
    split at hbusy
    · rename_i hne
      refine ⟨k, hm, ?_, by simpa using hne, hx⟩
      intro hown
      have := dead_owner_marker_not_live ops seg ex0 hdead hlong k (by rw [hst]; exact hm) hown
      rw [hst, hx] at this
      cases this
    · cases hbusy
  · split at hbusy <;> cases hbusy

open Rendezvous in
/-- **Quiescence of the marker**: after any history, once no `update_session_timeout` at all has run
for more than 60 s (traffic stopped; handler futures may have been dropped at any await point), the
marker is not live and the `PBKDFParamRequest` of any exchange is let in and makes it the owner. -/
theorem marker_released_at_quiescence (ops seg : List POp) (ex : Nat)
    (hquiet : ∀ o ∈ seg, o.isUpdate = false) (hlong : elapsed seg ≥ paseTimeoutMs + 1) :
    (prun pinit (ops ++ seg)).live = false ∧
    update (prun pinit (ops ++ seg)) ex true =
      ({ prun pinit (ops ++ seg) with marker := some (Marker.new ex (prun pinit (ops ++ seg)).now) }, .ok) := by
  have hl : (prun pinit (ops ++ seg)).live = false := by
    rw [prun_append]
    have h0 : AllBelow ((prun pinit ops).now + paseTimeoutMs) (prun pinit ops) :=
      fun k hk => pinv_run ops pinit pinv_init k hk
    have h1 := allBelow_run _ seg _ hquiet h0
    have hn := now_run seg (prun pinit ops)
    unfold PSt.live
    cases hm : (prun (prun pinit ops) seg).marker with
    | none => rfl
    | some k =>
      have := h1 k hm
      simp only [Marker.expired, Bool.not_eq_false', decide_eq_true_eq]
      omega
  exact ⟨hl, update_new_of_not_live _ ex hl⟩

open Rendezvous in
/-- after `clear_session_timeout` / `record_pake_failure` there is no marker (one step, any state) -/
theorem marker_none_after_clear_or_fail (st : PSt) :
    (pstep st .clear).marker = none ∧ (pstep st .fail).marker = none := ⟨rfl, rfl⟩

open Rendezvous in
/-- a handler future dropped by the executor leaves the marker behind (this is why the expiry matters) -/
theorem handler_drop_keeps_marker (st : PSt) (ex : Nat) : pstep st (.handlerDropped ex) = st := rfl

/-- the seeded change C20-b: `Busy` is answered before the age of the marker is looked at -/
def updateBusyFirst (st : Rendezvous.PSt) (ex : Nat) (new : Bool) : Rendezvous.PSt × Rendezvous.Upd :=
  match st.marker with
  | some k =>
    if k.owner != ex then (st, .busy)
    else if k.expired st.now then ({ st with marker := none }, .sessionNotFound)
    else ({ st with marker := some (Rendezvous.Marker.new ex st.now) }, .ok)
  | none =>
    if new then ({ st with marker := some (Rendezvous.Marker.new ex st.now) }, .ok)
    else (st, .sessionNotFound)

/-- non-vacuity, and the witness that the theorems above separate the code from the seeded variant:
exchange 1 sends `PBKDFParamRequest`, its handler is dropped, 60.001 s pass; exchange 2 is let in by
`update` and becomes the owner - and is refused for good by the variant. Before the expiry exchange 2
is answered `Busy` by both; an own `Pake1` after the expiry is answered `SessionNotFound`. -/
def exPHist : List Rendezvous.POp := [.update 1 true, .handlerDropped 1, .tick 60001]
def exPSt : Rendezvous.PSt := Rendezvous.prun Rendezvous.pinit exPHist

example :
    exPSt.marker.map (·.owner) = some 1 ∧ exPSt.live = false ∧
    (Rendezvous.update exPSt 2 true).2 = .ok ∧
    (Rendezvous.update exPSt 2 true).1.marker.map (·.owner) = some 2 ∧
    (updateBusyFirst exPSt 2 true).2 = .busy ∧
    (Rendezvous.update (Rendezvous.prun Rendezvous.pinit [.update 1 true, .tick 60000]) 2 true).2 = .busy ∧
    (Rendezvous.update exPSt 1 false).2 = .sessionNotFound ∧
    (Rendezvous.prun Rendezvous.pinit [.update 1 true, .fail]).marker = none ∧
    Rendezvous.elapsed exPHist ≥ Rendezvous.paseTimeoutMs + 1 := by
  decide

end C20
