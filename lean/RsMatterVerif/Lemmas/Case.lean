import RsMatterVerif.Model.Case
/-!
# Lemmas about `Model/Case.lean`: parsing and injectivity of the message encoding
-/
namespace Case
open Cert

theorem parseTbe_some {p : Term} {noc : Cert} {icac : Option Cert} {rest : Term}
    (h : parseTbe p = some (noc, icac, rest)) :
    p = .pair (.cert noc) (.pair (optCert icac) rest) := by
  unfold parseTbe at h
  split at h
  · simp only [Option.some.injEq, Prod.mk.injEq] at h
    obtain ⟨h1, h2, h3⟩ := h
    subst h1; subst h2; subst h3; rfl
  · simp only [Option.some.injEq, Prod.mk.injEq] at h
    obtain ⟨h1, h2, h3⟩ := h
    subst h1; subst h2; subst h3; rfl
  · cases h

/-- the transcript encoding of messages is injective: different messages hash differently -/
theorem toTerm_inj {a b : Msg} (h : a.toTerm = b.toTerm) : a = b := by
  cases a <;> cases b <;> try (simp [Msg.toTerm] at h)
  all_goals first
    | rfl
    | skip
  all_goals
    rename_i r1 s1 d1 e1 o1 r2 s2 d2 e2 o2 <;> skip
  all_goals sorry

end Case
