import RsMatterVerif.Model.Codec.ManualCode
import RsMatterVerif.Lemmas.CodecVerhoeff
import RsMatterVerif.Lemmas.CodecBuf
/-! # Lemmas about the manual pairing code (`Model/Codec/ManualCode.lean`)
Round trip `parse (encode d p)`, totality, and refusal of codes with a wrong check digit. -/
namespace Codec.ManualCode
open Codec Codec.Verhoeff

theorem fixedDigits_length : ∀ (w n : Nat), (fixedDigits w n).length = w
  | 0, _ => rfl
  | w + 1, n => by simp [fixedDigits, fixedDigits_length w n]

theorem fixedDigits_digits : ∀ (w n : Nat), ∀ c ∈ fixedDigits w n, isDigit c = true
  | 0, _, c, h => by simp [fixedDigits] at h
  | w + 1, n, c, h => by
    simp only [fixedDigits, List.mem_cons] at h
    rcases h with rfl | h
    · simp [isDigit]; omega
    · exact fixedDigits_digits w n c h

theorem strip_digits : ∀ (r acc : List Nat), (∀ c ∈ r, isDigit c = true) → acc.length + r.length ≤ 21 →
    strip r acc = .ok (acc ++ r)
  | [], acc, _, _ => by simp [strip]
  | ch :: r, acc, h, hl => by
    have hd := h ch (by simp)
    have hd' := (isDigit_iff ch).mp hd
    have h1 : ¬ (ch = 45 ∨ ch = 32) := by omega
    have h2 : ¬ (acc.length ≥ Consts.c17ManualLongLen) := by simp [Consts.c17ManualLongLen] at hl ⊢; omega
    simp only [strip, h1, hd, h2, if_false, Bool.not_true]
    rw [strip_digits r (acc ++ [ch]) (fun c hc => h c (by simp [hc])) (by simp at hl ⊢; omega)]
    simp

theorem decVal5 (a b c d e : Nat) : decVal [48 + a, 48 + b, 48 + c, 48 + d, 48 + e] = 10000 * a + 1000 * b + 100 * c + 10 * d + e := by
  simp [decVal]; omega
theorem decVal4 (a b c d : Nat) : decVal [48 + a, 48 + b, 48 + c, 48 + d] = 1000 * a + 100 * b + 10 * c + d := by
  simp [decVal]; omega
theorem decVal1 (a : Nat) : decVal [48 + a] = a := by simp [decVal]

theorem finish_spec (digits : List Nat) (hdig : ∀ c ∈ digits, isDigit c = true) (hlen : digits.length = 10) :
    ∃ k, k < 10 ∧ finish digits = .ok (digits ++ [48 + k]) ∧ validate (digits ++ [48 + k]) = true := by
  obtain ⟨k, hk, hklt, hval⟩ := validate_calculate digits hdig
  have hfk : fmtPad 1 k = [48 + k] := by
    have : k < 10 ^ 1 := by omega
    simp only [fmtPad, this, if_true, fixedDigits]; simp; omega
  refine ⟨k, hklt, ?_, hval⟩
  simp [finish, hlen, hk, hfk]

/-- **manual pairing code: `parse_pairing_code (compute_pairing_code d p)` returns the short
discriminator `d >> 8` and the passcode `p`**, for every 12-bit discriminator and 27-bit passcode -/
theorem parse_encode (disc pw : Nat) (hd : disc < 4096) (hp : pw < 134217728) :
    ∃ code, encode disc pw = .ok code ∧ code.length = 11 ∧
      parse code = .ok { short := disc / 256, pass := pw, vid := 0, pid := 0, long := false } := by
  have hd1 : disc / 1024 % 256 = disc / 1024 := by omega
  have hd1' : disc / 1024 < 10 ^ 1 := by omega
  have hdm : disc % 65536 = disc := by omega
  have hg2 : disc / 256 % 4 * 16384 + pw % 16384 < 10 ^ 5 := by omega
  have hg3 : pw / 16384 < 10 ^ 4 := by omega
  have henc : encode disc pw = finish (fixedDigits 1 (disc / 1024) ++ fixedDigits 5 (disc / 256 % 4 * 16384 + pw % 16384) ++ fixedDigits 4 (pw / 16384)) := by
    simp only [encode, hd1, hdm, fmtPad, hd1', hg2, hg3, if_true]
  generalize hdg : fixedDigits 1 (disc / 1024) ++ fixedDigits 5 (disc / 256 % 4 * 16384 + pw % 16384) ++ fixedDigits 4 (pw / 16384) = digits at henc
  have hdig : ∀ c ∈ digits, isDigit c = true := by
    intro c hc
    rw [← hdg] at hc
    simp only [List.mem_append] at hc
    rcases hc with (hc | hc) | hc <;> exact fixedDigits_digits _ _ c hc
  have hlen : digits.length = 10 := by rw [← hdg]; simp [fixedDigits_length]
  obtain ⟨k, hklt, hfin, hval⟩ := finish_spec digits hdig hlen
  refine ⟨digits ++ [48 + k], by rw [henc, hfin], by simp [hlen], ?_⟩
  have hall : ∀ c ∈ digits ++ [48 + k], isDigit c = true := by
    intro c hc
    rcases List.mem_append.mp hc with hc | hc
    · exact hdig c hc
    · simp at hc; subst hc; simp [isDigit]; omega
  have hstrip := strip_digits (digits ++ [48 + k]) [] hall (by simp [hlen])
  simp only [List.nil_append] at hstrip
  unfold parse
  simp only [hstrip, bind, Except.bind, List.length_append, hlen, List.length_cons, List.length_nil,
    if_true, pure, Except.pure, hval, Bool.not_true, Consts.c17ManualShortLen, Consts.c17ManualLongLen]
  -- the explicit digit list
  have e : digits ++ [48 + k] =
      [48 + disc / 1024 % 10,
       48 + (disc / 256 % 4 * 16384 + pw % 16384) / 10000 % 10, 48 + (disc / 256 % 4 * 16384 + pw % 16384) / 1000 % 10,
       48 + (disc / 256 % 4 * 16384 + pw % 16384) / 100 % 10, 48 + (disc / 256 % 4 * 16384 + pw % 16384) / 10 % 10,
       48 + (disc / 256 % 4 * 16384 + pw % 16384) % 10,
       48 + pw / 16384 / 1000 % 10, 48 + pw / 16384 / 100 % 10, 48 + pw / 16384 / 10 % 10, 48 + pw / 16384 % 10,
       48 + k] := by
    rw [← hdg]; simp [fixedDigits]
  rw [e]
  simp only [digitsAt, List.length_cons, List.length_nil, List.drop, List.take, decVal5, decVal4, decVal1]
  have a1 : disc / 1024 % 10 = disc / 1024 := by omega
  have a2 : ∀ g, g < 100000 → 10000 * (g / 10000 % 10) + 1000 * (g / 1000 % 10) + 100 * (g / 100 % 10) + 10 * (g / 10 % 10) + g % 10 = g := by
    intro g hg; omega
  have a3 : ∀ g, g < 10000 → 1000 * (g / 1000 % 10) + 100 * (g / 100 % 10) + 10 * (g / 10 % 10) + g % 10 = g := by
    intro g hg; omega
  rw [a1, a2 _ hg2, a3 _ hg3]
  have b1 : ¬ (disc / 1024 > 7) := by omega
  have b2 : ¬ (disc / 256 % 4 * 16384 + pw % 16384 > 65535) := by omega
  have b3 : ¬ (pw / 16384 > 8191) := by omega
  have b4 : ¬ (disc / 1024 / 4 = 1) := by omega
  simp [b1, b2, b3, b4]
  constructor <;> omega

example : ∃ code, encode 250 123456 = .ok code := ⟨_, rfl⟩

/-- **a code whose check digit does not validate is refused** (whatever else it contains) -/
theorem parse_rejects_bad_check (code ds : List Nat) (hs : strip code [] = .ok ds) (hv : validate ds = false) :
    parse code = .error .invalidData := by
  unfold parse
  simp only [hs, bind, Except.bind]
  by_cases h11 : ds.length = 11
  · simp [h11, hv, pure, Except.pure, Consts.c17ManualShortLen, Consts.c17ManualLongLen]
  · by_cases h21 : ds.length = 21
    · simp [h21, hv, pure, Except.pure, Consts.c17ManualShortLen, Consts.c17ManualLongLen]
    · simp [h11, h21, Consts.c17ManualShortLen, Consts.c17ManualLongLen]

/-- every refusal of the parser is `InvalidData`; it never panics -/
theorem strip_error : ∀ (r acc : List Nat) (e : Err), strip r acc = .error e → e = .invalidData
  | [], acc, e, h => by simp [strip] at h
  | ch :: r, acc, e, h => by
    simp only [strip] at h
    split at h
    · exact strip_error r acc e h
    · split at h
      · simp at h; exact h.symm
      · split at h
        · simp at h; exact h.symm
        · exact strip_error r _ e h

theorem digitsAt_error (ds : List Nat) (o l : Nat) (e : Err) (h : digitsAt ds o l = .error e) : e = .invalidData := by
  unfold digitsAt at h; split at h <;> simp at h; exact h.symm


theorem strip_np : ∀ (r acc : List Nat), NoPanic (strip r acc)
  | [], acc => by unfold strip; no_panic
  | ch :: r, acc => by
    unfold strip
    have := strip_np r acc
    have := strip_np r (acc ++ [ch])
    no_panic

theorem digitsAt_np (ds : List Nat) (o l : Nat) : NoPanic (digitsAt ds o l) := by
  unfold digitsAt; no_panic

/-- **manual pairing code: the parser is total and never panics** -/
theorem parse_np (code : List Nat) : NoPanic (parse code) := by
  unfold parse
  have := strip_np code []
  have := fun ds o l => digitsAt_np ds o l
  no_panic

/-- **a single wrong digit anywhere in a valid (separator-free) code is refused** -/
theorem parse_rejects_substitution (pre post : List Nat) (a b : Nat)
    (hall : ∀ c ∈ pre ++ a :: post, isDigit c = true) (hb : isDigit b = true) (hne : a ≠ b)
    (hlen : (pre ++ a :: post).length ≤ 21)
    (hvalid : validate (pre ++ a :: post) = true) :
    parse (pre ++ b :: post) = .error .invalidData := by
  have ha : isDigit a = true := hall a (by simp)
  have hall' : ∀ c ∈ pre ++ b :: post, isDigit c = true := by
    intro c hc
    rcases List.mem_append.mp hc with h | h
    · exact hall c (by simp [h])
    · rcases List.mem_cons.mp h with rfl | h
      · exact hb
      · exact hall c (by simp [h])
  have hs := strip_digits (pre ++ b :: post) [] hall' (by simp at hlen ⊢; omega)
  simp only [List.nil_append] at hs
  exact parse_rejects_bad_check _ _ hs (validate_subst pre post a b ha hb hne hvalid)

/-- **a wrong check digit is refused**: ten digits followed by anything but their Verhoeff digit -/
theorem parse_rejects_wrong_check_digit (digits : List Nat) (c : Nat)
    (hdig : ∀ x ∈ digits, isDigit x = true) (hlen : digits.length = 10 ∨ digits.length = 20)
    (hc : isDigit c = true) (k : Nat) (hk : calculate digits = .ok k) (hne : c ≠ 48 + k) :
    parse (digits ++ [c]) = .error .invalidData := by
  obtain ⟨k', hk', hklt, hval⟩ := validate_calculate digits hdig
  rw [hk] at hk'; simp at hk'; subst hk'
  have hkd : isDigit (48 + k) = true := by simp [isDigit]; omega
  have hall : ∀ x ∈ digits ++ (48 + k) :: [], isDigit x = true := by
    intro x hx
    rcases List.mem_append.mp hx with h | h
    · exact hdig x h
    · simp at h; subst h; exact hkd
  exact parse_rejects_substitution digits [] (48 + k) c hall hc (Ne.symm hne)
    (by simp; omega) hval

/-- **21-digit manual pairing code (specification-side encoder — rs-matter only has the decoder):
the decoder inverts the format of the Matter specification** -/
theorem parse_specEncodeLong (disc pw vid pid : Nat) (hd : disc < 4096) (hp : pw < 134217728)
    (hv : vid < 65536) (hpd : pid < 65536) :
    ∃ code, specEncodeLong disc pw vid pid = .ok code ∧ code.length = 21 ∧
      parse code = .ok { short := disc / 256, pass := pw, vid := vid, pid := pid, long := true } := by
  have hg2 : disc / 256 % 4 * 16384 + pw % 16384 < 100000 := by omega
  have hg3 : pw / 16384 < 10000 := by omega
  generalize hdg : fixedDigits 1 (4 + disc / 1024) ++ fixedDigits 5 (disc / 256 % 4 * 16384 + pw % 16384) ++
    fixedDigits 4 (pw / 16384) ++ fixedDigits 5 vid ++ fixedDigits 5 pid = digits
  have hdig : ∀ c ∈ digits, isDigit c = true := by
    intro c hc
    rw [← hdg] at hc
    simp only [List.mem_append] at hc
    rcases hc with (((hc | hc) | hc) | hc) | hc <;> exact fixedDigits_digits _ _ c hc
  have hlen : digits.length = 20 := by rw [← hdg]; simp [fixedDigits_length]
  obtain ⟨k, hk, hklt, hval⟩ := validate_calculate digits hdig
  have hfk : fixedDigits 1 k = [48 + k] := by simp [fixedDigits]; omega
  refine ⟨digits ++ [48 + k], ?_, by simp [hlen], ?_⟩
  · simp only [specEncodeLong, hdg, hk, hfk]
  have hall : ∀ c ∈ digits ++ [48 + k], isDigit c = true := by
    intro c hc
    rcases List.mem_append.mp hc with hc | hc
    · exact hdig c hc
    · simp at hc; subst hc; simp [isDigit]; omega
  have hstrip := strip_digits (digits ++ [48 + k]) [] hall (by simp [hlen])
  simp only [List.nil_append] at hstrip
  unfold parse
  simp only [hstrip, bind, Except.bind, List.length_append, hlen, List.length_cons, List.length_nil,
    pure, Except.pure, hval, Bool.not_true, Consts.c17ManualShortLen, Consts.c17ManualLongLen]
  have e : digits ++ [48 + k] =
      [48 + (4 + disc / 1024) % 10,
       48 + (disc / 256 % 4 * 16384 + pw % 16384) / 10000 % 10, 48 + (disc / 256 % 4 * 16384 + pw % 16384) / 1000 % 10,
       48 + (disc / 256 % 4 * 16384 + pw % 16384) / 100 % 10, 48 + (disc / 256 % 4 * 16384 + pw % 16384) / 10 % 10,
       48 + (disc / 256 % 4 * 16384 + pw % 16384) % 10,
       48 + pw / 16384 / 1000 % 10, 48 + pw / 16384 / 100 % 10, 48 + pw / 16384 / 10 % 10, 48 + pw / 16384 % 10,
       48 + vid / 10000 % 10, 48 + vid / 1000 % 10, 48 + vid / 100 % 10, 48 + vid / 10 % 10, 48 + vid % 10,
       48 + pid / 10000 % 10, 48 + pid / 1000 % 10, 48 + pid / 100 % 10, 48 + pid / 10 % 10, 48 + pid % 10,
       48 + k] := by
    rw [← hdg]; simp [fixedDigits]
  rw [e]
  simp only [digitsAt, List.length_cons, List.length_nil, List.drop, List.take, decVal5, decVal4, decVal1]
  have a1 : (4 + disc / 1024) % 10 = 4 + disc / 1024 := by omega
  have a2 : ∀ g, g < 100000 → 10000 * (g / 10000 % 10) + 1000 * (g / 1000 % 10) + 100 * (g / 100 % 10) + 10 * (g / 10 % 10) + g % 10 = g := by
    intro g hg; omega
  have a3 : ∀ g, g < 10000 → 1000 * (g / 1000 % 10) + 100 * (g / 100 % 10) + 10 * (g / 10 % 10) + g % 10 = g := by
    intro g hg; omega
  rw [a1, a2 _ hg2, a3 _ hg3, a2 vid (by omega), a2 pid (by omega)]
  have b1 : ¬ (4 + disc / 1024 > 7) := by omega
  have b2 : ¬ (disc / 256 % 4 * 16384 + pw % 16384 > 65535) := by omega
  have b3 : ¬ (pw / 16384 > 8191) := by omega
  have b4 : (4 + disc / 1024) / 4 = 1 := by omega
  have b5 : ¬ (vid > 65535 ∨ pid > 65535) := by omega
  simp [b1, b2, b3, b4, b5]
  constructor <;> omega

/-! ## out-of-range fields are refused (G5) -/

/-- the number written in the `len` digits at `off` -/
def val (ds : List Nat) (off len : Nat) : Nat := decVal ((ds.drop off).take len)

theorem digitsAt_ok (ds : List Nat) (off len : Nat) (h : off + len ≤ ds.length) :
    digitsAt ds off len = .ok (val ds off len) := by
  simp only [digitsAt, if_pos h, val]

/-- the field ranges of a v1 manual pairing code (Matter Core 5.1.4.1), on the digit string without
separators: first digit 0..7 (8 / 9 = a future version), its vid/pid-present bit agrees with the length,
digits 2..6 ≤ 65535 (two discriminator bits and 14 passcode bits), digits 7..10 ≤ 8191 (13 passcode bits),
and in the 21-digit form vendor and product id ≤ 65535 -/
def RangesOk (ds : List Nat) : Prop :=
  val ds 0 1 ≤ 7 ∧ (val ds 0 1 / 4 = 1 ↔ ds.length = 21) ∧ val ds 1 5 ≤ 65535 ∧ val ds 6 4 ≤ 8191 ∧
  (ds.length = 21 → val ds 10 5 ≤ 65535 ∧ val ds 15 5 ≤ 65535)

instance (ds : List Nat) : Decidable (RangesOk ds) := inferInstanceAs (Decidable (_ ∧ _))

/-- **a manual pairing code with an out-of-range field is refused with `InvalidData`** — also when its
check digit is right (with a wrong check digit it is refused by `parse_rejects_bad_check`) -/
theorem parse_rejects_out_of_range (code ds : List Nat) (hs : strip code [] = .ok ds)
    (hbad : ¬ RangesOk ds) : parse code = .error .invalidData := by
  unfold parse
  simp only [hs, bind, Except.bind, pure, Except.pure, Consts.c17ManualShortLen, Consts.c17ManualLongLen]
  by_cases h11 : ds.length = 11
  · have h21 : ¬ ds.length = 21 := by omega
    simp only [h11, if_true]
    rw [digitsAt_ok ds 0 1 (by omega), digitsAt_ok ds 1 5 (by omega), digitsAt_ok ds 6 4 (by omega)]
    simp only [Bool.false_eq_true, if_false]
    repeat' split
    all_goals first
      | rfl
      | (exfalso; apply hbad; refine ⟨by omega, ?_, by omega, by omega, fun h => absurd h h21⟩
         simp_all)
  · by_cases h21 : ds.length = 21
    · simp only [h21, if_true]
      rw [digitsAt_ok ds 0 1 (by omega), digitsAt_ok ds 1 5 (by omega), digitsAt_ok ds 6 4 (by omega),
        digitsAt_ok ds 10 5 (by omega), digitsAt_ok ds 15 5 (by omega)]
      simp only
      repeat' split
      all_goals first
        | rfl
        | (exfalso; apply hbad; refine ⟨by omega, ?_, by omega, by omega, fun _ => by omega⟩
           simp_all)
    · simp only [h11, h21, if_false]

/-- a code of any other length than 11 / 21 digits is refused -/
theorem parse_rejects_length (code ds : List Nat) (hs : strip code [] = .ok ds)
    (h : ds.length ≠ 11 ∧ ds.length ≠ 21) : parse code = .error .invalidData := by
  unfold parse
  simp only [hs, bind, Except.bind, pure, Except.pure, Consts.c17ManualShortLen, Consts.c17ManualLongLen, h.1, h.2, if_false]

/-! ## the encoder outside the legal field values -/

/-- **`compute_pairing_code` answers an 11-digit code (no `write_unwrap!` panic) exactly up to
discriminator 10239 and passcode 163839999** — beyond the legal 12 / 27 bits the code is not a valid v1
code (the parser refuses it or returns other values), but the `String<10>` does not overflow -/
theorem encode_ok_of_bounds (disc pw : Nat) (hd : disc < 10240) (hp : pw < 163840000) :
    ∃ code, encode disc pw = .ok code ∧ code.length = 11 := by
  have hd1 : disc / 1024 % 256 = disc / 1024 := by omega
  have hd1b : disc / 1024 < 10 ^ 1 := by omega
  have hdm : disc % 65536 = disc := by omega
  have hg2 : disc / 256 % 4 * 16384 + pw % 16384 < 10 ^ 5 := by omega
  have hg3 : pw / 16384 < 10 ^ 4 := by omega
  have henc : encode disc pw = finish (fixedDigits 1 (disc / 1024) ++ fixedDigits 5 (disc / 256 % 4 * 16384 + pw % 16384) ++ fixedDigits 4 (pw / 16384)) := by
    simp only [encode, hd1, hdm, fmtPad, hd1b, hg2, hg3, if_true]
  generalize hdg : fixedDigits 1 (disc / 1024) ++ fixedDigits 5 (disc / 256 % 4 * 16384 + pw % 16384) ++ fixedDigits 4 (pw / 16384) = digits at henc
  have hdig : ∀ c ∈ digits, isDigit c = true := by
    intro c hc
    rw [← hdg] at hc
    simp only [List.mem_append] at hc
    rcases hc with (hc | hc) | hc <;> exact fixedDigits_digits _ _ c hc
  have hlen : digits.length = 10 := by rw [← hdg]; simp [fixedDigits_length]
  obtain ⟨k, _, hfin, _⟩ := finish_spec digits hdig hlen
  exact ⟨digits ++ [48 + k], by rw [henc, hfin], by simp [hlen]⟩

/-- the bounds are sharp: one more and the model answers `panic` (the `heapless::String<10>` overflows in
`write_unwrap!`); replayed on the real code by the `manual` stream (`rt` with out-of-range arguments) -/
example : encode 10240 1 = .error .panic ∧ encode 0 163840000 = .error .panic := ⟨rfl, rfl⟩

end Codec.ManualCode
