import RsMatterVerif.Lemmas.Acl
/-!
# C05 — access is granted exactly when the Matter access-control algorithm grants it

`Acl.allow` etc. are the transliterated code (`Model/Acl.lean`, first half); `Acl.Granted`,
`Acl.Reaches` are the specification written from the property text (second half of that file).
Hypotheses used below:
* `WF fabrics` — distinct fabric indices, every entry stamped with its fabric's index, distinct group
  ids per fabric; `wf_*` show that the configuration operations of the API preserve it;
* `CanonicalPrivs fabrics` — stored privileges are the five privileges of the cluster
  (what `From<AccessControlEntryPrivilegeEnum>` produces);
* `ReadOrWrite req` — the operation is `READ` or `WRITE` (what `check_attr_access`,
  `check_cmd_access`, `check_event_access` pass).
-/
namespace C05
open Acl

/-- **C05, main theorem.** For every well-formed configuration and every read / write request,
the access decision of the code is exactly the specification. -/
theorem allow_iff_granted (fabrics : List Fabric) (req : AccessReq)
    (hwf : WF fabrics) (hc : CanonicalPrivs fabrics) (hop : ReadOrWrite req) :
    allow fabrics req = true ↔ Granted fabrics req := by
  unfold allow fabricsAllow allowGroupcastAuxiliary Granted
  by_cases hp : req.accessor.authMode = some AuthMode.pase
  · simp [hp]
  · have hp' : (req.accessor.authMode == some AuthMode.pase) = false := by simp [hp]
    rw [hp']
    simp only [Bool.false_eq_true, if_false, hp, false_or]
    by_cases h0 : req.accessor.fabIdx = 0
    · simp [h0]
    · have h0' : (req.accessor.fabIdx == 0) = false := by simp [h0]
      rw [h0']
      simp only [Bool.false_eq_true, if_false]
      cases hg : fabricsGet fabrics req.accessor.fabIdx with
      | none =>
        have hn := fabricsGet_none hg
        simp only [Bool.or_eq_true]
        constructor
        · intro h
          rcases h with h | h
          · cases h
          · split at h
            · cases h
            · split at h <;> cases h
        · rintro ⟨f, hf, hi, _⟩; exact absurd hi (hn f hf)
      | some f =>
        obtain ⟨hf, hi⟩ := fabricsGet_some_mem hg
        have hfa := fabricAllow_iff f req (hwf.stamped f hf) hi (hc f hf) hop
        have haux := auxGranted_iff f req hop
        constructor
        · intro h
          refine ⟨f, hf, hi, h0, ?_⟩
          rcases (Bool.or_eq_true _ _).mp h with h | h
          · exact Or.inl (hfa.mp h)
          · right
            apply haux.mp
            by_cases ha : req.accessor.auxAclEnabled = true
            · by_cases hm : req.accessor.authMode = some AuthMode.group
              · simp [ha, hm] at h; exact ⟨ha, hm, h⟩
              · simp [ha, hm] at h
            · simp [ha] at h
        · rintro ⟨f', hf', hi', _, h⟩
          have : f' = f := nodup_idx_unique hwf.distinct hf' hf (hi'.trans hi.symm)
          subst this
          rcases h with h | h
          · simp [hfa.mpr h]
          · obtain ⟨ha, hm, hg⟩ := haux.mpr h
            simp [ha, hm, hg]

/-! ## the executable specification used by the driver -/

theorem privOkB_iff (pb : Nat) (o : AccessDesc) : privOkB pb o = true ↔ PrivOk pb o := by
  unfold privOkB PrivOk
  cases h1 : o.targetPerms with
  | none => simp
  | some decl =>
    cases h2 : opOfBits o.operation with
    | none => simp
    | some op =>
      cases h3 : privOfBits pb with
      | none => simp
      | some p =>
        cases h4 : requiredPriv decl op with
        | none => simp [h4]
        | some q => simp [h4]

theorem auxRootExcludedB_iff (e : Entry) (req : AccessReq) :
    auxRootExcludedB e req = true ↔ AuxRootExcluded e req := by
  unfold auxRootExcludedB AuxRootExcluded
  cases h : e.targets with
  | none => simp [and_assoc]
  | some ts => cases ts <;> simp [and_assoc]

theorem entryGrantsB_iff (e : Entry) (req : AccessReq) : entryGrantsB e req = true ↔ EntryGrants e req := by
  unfold entryGrantsB EntryGrants
  simp only [Bool.and_eq_true, decide_eq_true_iff, subjectsOkB_iff, targetsOkB_iff, privOkB_iff,
    Bool.not_eq_true', ← Bool.not_eq_true, auxRootExcludedB_iff, and_assoc]

theorem auxGrantsB_iff (f : Fabric) (req : AccessReq) : auxGrantsB f req = true ↔ AuxGrants f req := by
  unfold auxGrantsB AuxGrants
  simp only [Bool.and_eq_true, decide_eq_true_iff, List.any_eq_true, subjectMatchB_iff, privOkB_iff, and_assoc]
  refine and_congr Iff.rfl (and_congr Iff.rfl ?_)
  constructor
  · rintro ⟨g, hg, h1, h2, h3, h4⟩
    refine ⟨g, hg, h1, ?_, h3, h4⟩
    cases hep : req.object.path.endpoint with
    | none => simp [hep] at h2
    | some ep => simp [hep] at h2; exact ⟨ep, rfl, h2⟩
  · rintro ⟨g, hg, h1, ⟨ep, hep, h2⟩, h3, h4⟩
    refine ⟨g, hg, h1, ?_, h3, h4⟩
    simp [hep, h2]

/-- the executable specification the driver evaluates is the specification -/
theorem grantedB_iff (fabrics : List Fabric) (req : AccessReq) :
    grantedB fabrics req = true ↔ Granted fabrics req := by
  unfold grantedB Granted
  simp only [Bool.or_eq_true, Bool.and_eq_true, decide_eq_true_iff, List.any_eq_true, entryGrantsB_iff,
    auxGrantsB_iff, and_assoc]

theorem reachesB_iff (fabrics : List Fabric) (a : Accessor) (ep : Nat) :
    reachesB fabrics a ep = true ↔ Reaches fabrics a ep := by
  unfold reachesB Reaches
  simp only [Bool.or_eq_true, Bool.and_eq_true, decide_eq_true_iff, List.any_eq_true,
    List.contains_eq_mem, and_assoc]


/-! ## `Access::is_ok` and the privilege lattice -/

/-- `Access::is_ok(decl, op, p)` holds exactly when the declaration offers the operation and the
entry's privilege includes the least privilege the declaration names for it. -/
theorem is_ok_iff_level (decl : Nat) (op : Op) (p : Priv) :
    isOk decl op.bits p.bits = true ↔
      declOffers decl op = true ∧ ∃ q, requiredPriv decl op = some q ∧ p.includes q = true := by
  rw [isOk_eq_spec]
  unfold privSpecB
  cases h : requiredPriv decl op with
  | none => simp
  | some q => simp

theorem requiredPriv_ne_proxyView (decl : Nat) (op : Op) : requiredPriv decl op ≠ some Priv.proxyView := by
  unfold requiredPriv
  cases op <;> simp only <;> (repeat' split) <;> simp

/-- an entry carrying ProxyView authorises no read and no write of any element -/
theorem proxy_view_grants_nothing (decl : Nat) (op : Op) :
    isOk decl op.bits Priv.proxyView.bits = false := by
  rw [Bool.eq_false_iff]
  intro h
  obtain ⟨_, q, hq, hi⟩ := (is_ok_iff_level decl op Priv.proxyView).mp h
  cases q <;> first | exact absurd hq (requiredPriv_ne_proxyView decl op) | cases hi

/-! ## fabric separation -/

/-- An entry stamped with another fabric's index matches no accessor (no hypotheses). -/
theorem other_fabric_never_grants (e : Entry) (req : AccessReq) (aux : Bool)
    (h : e.fabIdx ≠ some req.accessor.fabIdx) : entryAllow e req aux = false := by
  unfold entryAllow matchAccessor
  split
  · rfl
  · cases hf : e.fabIdx with
    | none => simp
    | some i =>
      have : i ≠ req.accessor.fabIdx := fun hh => h (by rw [hf, hh])
      simp [this]

/-- The decision depends only on the fabric with the accessor's index: whatever other fabrics
exist, whatever their entries say, the specification gives the same answer. -/
theorem granted_depends_only_on_own_fabric (fabrics fabrics' : List Fabric) (req : AccessReq)
    (h : ∀ f, f.fabIdx = req.accessor.fabIdx → (f ∈ fabrics ↔ f ∈ fabrics')) :
    Granted fabrics req ↔ Granted fabrics' req := by
  unfold Granted
  refine or_congr Iff.rfl ?_
  constructor
  · rintro ⟨f, hf, hi, r⟩; exact ⟨f, (h f hi).mp hf, hi, r⟩
  · rintro ⟨f, hf, hi, r⟩; exact ⟨f, (h f hi).mpr hf, hi, r⟩

theorem allow_depends_only_on_own_fabric (fabrics fabrics' : List Fabric) (req : AccessReq)
    (hwf : WF fabrics) (hc : CanonicalPrivs fabrics) (hwf' : WF fabrics') (hc' : CanonicalPrivs fabrics')
    (hop : ReadOrWrite req)
    (h : ∀ f, f.fabIdx = req.accessor.fabIdx → (f ∈ fabrics ↔ f ∈ fabrics')) :
    allow fabrics req = allow fabrics' req := by
  have := granted_depends_only_on_own_fabric fabrics fabrics' req h
  rw [← allow_iff_granted fabrics req hwf hc hop, ← allow_iff_granted fabrics' req hwf' hc' hop] at this
  cases h1 : allow fabrics req <;> cases h2 : allow fabrics' req <;> simp_all

/-- an accessor whose fabric does not exist is denied (unless it is the PASE commissioner) -/
theorem missing_fabric_denied (fabrics : List Fabric) (req : AccessReq)
    (hm : ∀ f ∈ fabrics, f.fabIdx ≠ req.accessor.fabIdx)
    (hp : req.accessor.authMode ≠ some AuthMode.pase) : allow fabrics req = false := by
  have hg : fabricsGet fabrics req.accessor.fabIdx = none := by
    unfold fabricsGet
    rw [List.find?_eq_none]
    intro f hf; simpa using hm f hf
  unfold allow fabricsAllow allowGroupcastAuxiliary
  simp only [hg]
  have : (req.accessor.authMode == some AuthMode.pase) = false := by simp [hp]
  simp [this]

/-- fabric index 0 (no fabric) is denied unless the accessor is the PASE commissioner -/
theorem fabric_zero_denied_unless_pase (fabrics : List Fabric) (req : AccessReq)
    (h0 : req.accessor.fabIdx = 0) :
    allow fabrics req = true ↔ req.accessor.authMode = some AuthMode.pase := by
  unfold allow fabricsAllow allowGroupcastAuxiliary
  by_cases hp : req.accessor.authMode = some AuthMode.pase
  · simp [hp]
  · have : (req.accessor.authMode == some AuthMode.pase) = false := by simp [hp]
    simp [this, h0, hp]

/-- the PASE commissioner is always granted -/
theorem pase_always_granted (fabrics : List Fabric) (req : AccessReq)
    (hp : req.accessor.authMode = some AuthMode.pase) : allow fabrics req = true := by
  unfold allow fabricsAllow; simp [hp]

/-! ## null = empty -/

theorem empty_eq_null_subjects (e : Entry) (req : AccessReq) (aux : Bool) :
    entryAllow { e with subjects := some [] } req aux = entryAllow { e with subjects := none } req aux := by
  unfold entryAllow matchAccessor subjectsAllow matchAccessDesc targetsWildcard targetsAllow
  simp

theorem empty_eq_null_targets (e : Entry) (req : AccessReq) (aux : Bool) :
    entryAllow { e with targets := some [] } req aux = entryAllow { e with targets := none } req aux := by
  unfold entryAllow matchAccessor subjectsAllow matchAccessDesc targetsWildcard targetsAllow
  simp


/-! ## CAT version monotonicity -/

/-- the accessor with tag `v` replaced by `v'` -/
def withTag (a : Accessor) (v v' : Nat) : Accessor :=
  { a with subjects := a.subjects.map (fun x => if x = v then v' else x) }

theorem subjectMatch_mono (a : Accessor) (v v' s : Nat)
    (hv : IsCat v) (hv' : IsCat v') (hid : catId v = catId v') (hver : catVersion v ≤ catVersion v')
    (h : SubjectMatch a s) : SubjectMatch (withTag a v v') s := by
  obtain ⟨x, hx, hx0, hm⟩ := h
  have hv'0 : v' ≠ 0 := by
    intro h0; rw [h0] at hv'; exact hv'.2 (by decide)
  by_cases hxv : x = v
  · subst hxv
    refine ⟨v', ?_, hv'0, ?_⟩
    · unfold withTag; simp only [List.mem_map]; exact ⟨x, hx, by simp⟩
    · rcases hm with rfl | ⟨_, hs, hi, hle⟩
      · by_cases he : v' = x
        · exact Or.inl he
        · exact Or.inr ⟨hv', hv, hid.symm, hver⟩
      · exact Or.inr ⟨hv', hs, hid ▸ hi, Nat.le_trans hle hver⟩
  · refine ⟨x, ?_, hx0, hm⟩
    unfold withTag; simp only [List.mem_map]; exact ⟨x, hx, by simp [hxv]⟩

/-- Raising the version of one of the accessor's tags (same identifier) never loses access:
whatever the specification granted before is still granted. -/
theorem cat_version_monotone_spec (fabrics : List Fabric) (req : AccessReq) (v v' : Nat)
    (hv : IsCat v) (hv' : IsCat v') (hid : catId v = catId v') (hver : catVersion v ≤ catVersion v')
    (h : Granted fabrics req) :
    Granted fabrics { req with accessor := withTag req.accessor v v' } := by
  rcases h with h | ⟨f, hf, hi, h0, h⟩
  · exact Or.inl h
  · refine Or.inr ⟨f, hf, hi, h0, ?_⟩
    rcases h with ⟨e, he, hm, hs, ht, hp, hx⟩ | ⟨ha, hm, g, hg, h1, h2, h3, h4⟩
    · refine Or.inl ⟨e, he, hm, ?_, ht, hp, hx⟩
      rcases hs with hs | hs | ⟨ss, hss, s, hsm, hs⟩
      · exact Or.inl hs
      · exact Or.inr (Or.inl hs)
      · exact Or.inr (Or.inr ⟨ss, hss, s, hsm, subjectMatch_mono _ v v' s hv hv' hid hver hs⟩)
    · exact Or.inr ⟨ha, hm, g, hg, h1, h2, subjectMatch_mono _ v v' _ hv hv' hid hver h3, h4⟩

theorem cat_version_monotone (fabrics : List Fabric) (req : AccessReq) (v v' : Nat)
    (hwf : WF fabrics) (hc : CanonicalPrivs fabrics) (hop : ReadOrWrite req)
    (hv : IsCat v) (hv' : IsCat v') (hid : catId v = catId v') (hver : catVersion v ≤ catVersion v')
    (h : allow fabrics req = true) :
    allow fabrics { req with accessor := withTag req.accessor v v' } = true := by
  have hg := (allow_iff_granted fabrics req hwf hc hop).mp h
  exact (allow_iff_granted fabrics { req with accessor := withTag req.accessor v v' } hwf hc hop).mpr
    (cat_version_monotone_spec fabrics req v v' hv hv' hid hver hg)

/-- a lower version than the entry asks for does not match that entry's tag -/
theorem cat_lower_version_no_match (v s : Nat) (hne : v ≠ s) (hlt : catVersion v < catVersion s) :
    slotMatches v s = false := by
  rw [Bool.eq_false_iff, Ne, slotMatches_iff]
  rintro ⟨_, h | ⟨_, _, _, hle⟩⟩
  · exact hne h
  · omega

/-! ## group accessors -/

theorem groupsGet_some_mem {gs : List GroupMapping} {i : Nat} {g : GroupMapping}
    (h : groupsGet gs i = some g) : g ∈ gs ∧ g.groupId = i := by
  unfold groupsGet at h
  have h1 := List.mem_of_find?_eq_some h
  have h2 := List.find?_some h
  simp at h2
  exact ⟨h1, h2⟩

theorem nodup_gid_unique {gs : List GroupMapping} (hd : (gs.map (·.groupId)).Nodup)
    {f g : GroupMapping} (hf : f ∈ gs) (hg : g ∈ gs) (h : f.groupId = g.groupId) : f = g := by
  induction gs with
  | nil => cases hf
  | cons x xs ih =>
    simp only [List.map_cons, List.nodup_cons, List.mem_map, not_exists, not_and] at hd
    rcases List.mem_cons.mp hf with rfl | hf'
    · rcases List.mem_cons.mp hg with rfl | hg'
      · rfl
      · exact absurd h.symm (hd.1 g hg')
    · rcases List.mem_cons.mp hg with rfl | hg'
      · exact absurd h (hd.1 f hf')
      · exact ih hd.2 hf' hg'

/-- "group accessors reach only endpoints that are members of their group" — and, for well-formed
tables, exactly those. -/
theorem group_reaches_only_member_endpoints (fabrics : List Fabric) (a : Accessor) (ep : Nat)
    (hwf : WF fabrics) : isEndpointAccessible fabrics a ep = true ↔ Reaches fabrics a ep := by
  unfold isEndpointAccessible Reaches
  by_cases hm : a.authMode = some AuthMode.group
  · have : (a.authMode != some AuthMode.group) = false := by simp [hm]
    rw [this]
    simp only [Bool.false_eq_true, if_false, hm, ne_eq, not_true_eq_false, false_or]
    by_cases h0 : a.fabIdx = 0
    · simp [h0]
    · have h0' : (a.fabIdx == 0) = false := by simp [h0]
      simp only [h0', Bool.false_eq_true, if_false]
      cases hg : fabricsGet fabrics a.fabIdx with
      | none =>
        have hn := fabricsGet_none hg
        constructor
        · intro h; cases h
        · rintro ⟨f, hf, hi, _⟩; exact absurd hi (hn f hf)
      | some f =>
        obtain ⟨hf, hi⟩ := fabricsGet_some_mem hg
        simp only
        cases hgg : groupsGet f.groups (a.subjects.headD 0 % 65536) with
        | none =>
          constructor
          · intro h; cases h
          · rintro ⟨f', hf', hi', _, g, hg', hgid, _⟩
            have : f' = f := nodup_idx_unique hwf.distinct hf' hf (hi'.trans hi.symm)
            subst this
            unfold groupsGet at hgg
            rw [List.find?_eq_none] at hgg
            have := hgg g hg'
            simp [hgid] at this
        | some g =>
          obtain ⟨hgm, hgid⟩ := groupsGet_some_mem hgg
          simp only [List.contains_eq_mem, decide_eq_true_iff]
          constructor
          · intro h; exact ⟨f, hf, hi, h0, g, hgm, hgid, h⟩
          · rintro ⟨f', hf', hi', _, g', hg', hgid', hep⟩
            have : f' = f := nodup_idx_unique hwf.distinct hf' hf (hi'.trans hi.symm)
            subst this
            have : g' = g := nodup_gid_unique (hwf.groupsDistinct f' hf) hg' hgm (hgid'.trans hgid.symm)
            subst this
            exact hep
  · have : (a.authMode != some AuthMode.group) = true := by simp [hm]
    simp [this, hm]

/-- the "only" direction needs no well-formedness at all -/
theorem group_reaches_only_member_endpoints' (fabrics : List Fabric) (a : Accessor) (ep : Nat)
    (hm : a.authMode = some AuthMode.group) (h : isEndpointAccessible fabrics a ep = true) :
    ∃ f ∈ fabrics, f.fabIdx = a.fabIdx ∧ ∃ g ∈ f.groups,
      g.groupId = (a.subjects.headD 0) % 65536 ∧ ep ∈ g.endpoints := by
  unfold isEndpointAccessible at h
  have : (a.authMode != some AuthMode.group) = false := by simp [hm]
  simp only [this, Bool.false_eq_true, if_false] at h
  split at h
  · cases h
  · cases hg : fabricsGet fabrics a.fabIdx with
    | none => simp [hg] at h
    | some f =>
      obtain ⟨hf, hi⟩ := fabricsGet_some_mem hg
      simp only [hg] at h
      cases hgg : groupsGet f.groups (a.subjects.headD 0 % 65536) with
      | none => rw [hgg] at h; cases h
      | some g =>
        obtain ⟨hgm, hgid⟩ := groupsGet_some_mem hgg
        rw [hgg] at h
        simp only [List.contains_eq_mem, decide_eq_true_iff] at h
        exact ⟨f, hf, hi, g, hgm, hgid, h⟩

end C05
