//! C09: harness not built yet.
use crate::Args;

pub fn gen(_a: &Args) -> String {
    eprintln!("C09: harness not built yet");
    std::process::exit(2);
}

pub fn replay(_a: &Args) -> String {
    eprintln!("C09: harness not built yet");
    std::process::exit(2);
}
