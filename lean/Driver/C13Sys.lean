import Driver.Util
/-! Oracle for the system-level stream of C13 (`harness/src/c13_sys.rs`): the real reporter / responder
tasks of `im.rs` run on the simulated network under virtual time; this file judges the facts the
implementation produced against the text of the property. There is no model on this stream: every
verdict is `ok`, `ORA <reason>` or `BAD <reason>`.

Header: `case <id> sys seed=<n> drop=<pm> dup=<pm> delay=<pm> maxdelay=<ms> strict=<b>`.
Ops: `sub who min max keep sel [hold=k:ms]` | `set attr val` | `run ms` | `adv drop dup delay maxdelay` |
`black who 0|1` | `dropsess who` | `down cold|warm` | `up` | `quiesce ms` | `obs`.
Output of an op: ` ; `-separated facts, times in virtual ms since the start of the case:
`prm who t sid more items` | `est who t sid maxint` | `sfail who t err` | `rep who t sid more items` |
`rej who t sid` | `tab t entries reporting` (entry = id/peer/min/max/ra/rt/fc, `M` = not primed,
`m` = no retry gate) | `dev values` | `subv who alive view` (alive = id:sel,...) | `kv=n` | `n=k`.

Clauses (see docs/C13.md, section "System-level stream"):
 (a) after a quiesce a surviving subscription has the device's final values;
 (b) two successful reports of one subscription are begun at least the minimum interval apart, a
     retried report is not begun before its retry gate (instants = the reporter pass' `now`, recovered
     from the committed `reported_at` / `retry_at`);
 (c) over a clean path the subscriber receives a report before the maximum interval elapses;
 (d) no report is begun at or after last success + maximum interval, an expired subscription does not
     survive a reporter pass, and it does not linger in the table beyond a stated bound;
 (e) a resumed subscription is primed in full, and one that is never primed does not stay for ever.
-/
namespace Driver.C13Sys
open Driver

structure Ent where
  id : Nat
  peer : Nat
  min : Nat
  max : Nat
  /-- `reported_at` in ms, `none` = not yet primed -/
  ra : Option Nat
  /-- `retry_at` in ms, `none` = no retry pending -/
  rt : Option Nat
  fc : Nat

def parseEnt (s : String) : Option Ent :=
  match s.splitOn "/" with
  | [a, b, c, d, e, f, g] =>
    match a.toNat?, b.toNat?, c.toNat?, d.toNat?, g.toNat? with
    | some id, some peer, some mn, some mx, some fc =>
      if e ≠ "M" && e.toNat?.isNone then none else
      some { id := id, peer := peer, min := mn, max := mx, ra := e.toNat?, rt := f.toNat?, fc := fc }
    | _, _, _, _, _ => none
  | _ => none

def parseEnts (s : String) : List Ent :=
  if s = "-" then [] else (s.splitOn ",").filterMap parseEnt

/-- `a=v` pairs of an item list; other items (ballast, globals) are ignored -/
def parsePairs (s : String) : List (Nat × Nat) :=
  if s = "-" then [] else
  (s.splitOn ",").filterMap fun it =>
    match it.splitOn "=" with
    | [a, v] => match a.toNat?, v.toNat? with
      | some a, some v => some (a, v)
      | _, _ => none
    | _ => none

/-- `id:sel` pairs -/
def parseAlive (s : String) : List (Nat × String) :=
  if s = "-" then [] else
  (s.splitOn ",").filterMap fun it =>
    match it.splitOn ":" with
    | [a, v] => a.toNat?.map fun a => (a, v)
    | _ => none

/-- a subscription is still owed a report (clause c) -/
structure Expect where
  who : Nat
  sid : Nat
  since : Nat
  maxInt : Nat
  deadline : Nat

structure St where
  now : Nat := 0
  up : Bool := true
  upAt : Nat := 0
  advOn : Bool := false
  black : List Bool := [false, false]
  /-- per subscriber: the instant since which the path has been clean (`none` = dirty now) -/
  clean : List (Option Nat) := [some 0, some 0]
  everDirty : List Bool := [false, false]
  tab : List Ent := []
  reporting : Option Ent := none
  expects : List Expect := []
  /-- resumed subscriptions (id, peer) that did not yet complete a report -/
  resumed : List (Nat × Nat) := []
  /-- resumed subscription ids of this boot (for the never-expires clause) -/
  resumedIds : List Nat := []
  /-- attribute ids received so far in the running chunk sequence of (who, sid) -/
  chunks : List (Nat × Nat × List Nat) := []
  /-- real instant at which the report in flight (subscription id) was begun -/
  begun : Option (Nat × Nat) := none
  /-- per subscription id: real instant at which its last successful report was begun -/
  lastOk : List (Nat × Nat) := []
  /-- duration of the quiesce that immediately precedes -/
  quiesced : Option Nat := none
  stop : Bool := false

/-- attributes every selection contains -/
def commonAttrs : List Nat := [0, 1, 3, 5, 7]
def attrsOf (sel : String) : List Nat := if sel = "w" then [0, 1, 3, 5, 7, 8] else commonAttrs

/-- how long before a report the path must have been clean for the report to count as the start of a
clean window (longer than the largest adversary delay plus one retransmission budget) -/
def LEAD : Nat := 10000
/-- an expired subscription may stay in the table until the reporter next wakes up: at most one retry
back-off (capped at the maximum interval) or the running attempts to unreachable peers -/
def lingerBound (e : Ent) : Nat := e.max * 1000 + 30000

def initSt (hdr : List String) : St :=
  let rate (k : String) : Nat :=
    (hdr.filterMap fun w => match w.splitOn "=" with
      | [a, v] => if a = k then v.toNat? else none
      | _ => none).headD 0
  let on : Bool := decide (rate "drop" + rate "dup" + rate "delay" > 0)
  { advOn := on, clean := if on then [none, none] else [some 0, some 0], everDirty := [on, on] }

def allEnts (st : St) : List Ent := st.tab ++ st.reporting.toList

def isClean (st : St) (who t : Nat) : Bool :=
  match st.clean.getD who none with
  | none => false
  | some c => (!(st.everDirty.getD who true)) || decide (c + LEAD ≤ t)

def recomputeClean (st : St) : St :=
  let cl := (List.range 2).map fun w =>
    if st.advOn || st.black.getD w false || !st.up then none
    else match st.clean.getD w none with
      | some c => some c
      | none => some st.now
  let ed := (List.range 2).map fun w => st.everDirty.getD w false || (cl.getD w none).isNone
  { st with clean := cl, everDirty := ed }

def cancelWho (st : St) (who : Nat) : St := { st with expects := st.expects.filter (fun e => e.who ≠ who) }

def backoffSecs (fc mx : Nat) : Nat :=
  let shift := Nat.min (fc - 1) 15
  Nat.min (2 * 2 ^ shift) (Nat.max mx 2)

def first (xs : List (Option String)) : Option String :=
  match xs with
  | [] => none
  | some x :: _ => some x
  | none :: r => first r

/-- clause (c): an expectation whose deadline has passed -/
def overdue (st : St) (t : Nat) : St × Option String :=
  match st.expects.find? (fun e => decide (e.deadline < t)) with
  | none => (st, none)
  | some e =>
    -- the sequential reporter may have been busy with a report to another subscriber all the time
    let blocked : Option (Nat × Nat) := match st.reporting, st.begun with
      | some r, some (bid, tb) => if r.id == bid && r.peer != 100 + e.who && decide (tb ≤ e.deadline) then some (bid, tb) else none
      | _, _ => none
    let why := match blocked with
      | some (bid, tb) => s!" (the reporter is blocked in a report to subscription {bid} of another subscriber since {tb})"
      | none => ""
    ({ st with expects := st.expects.filter (fun x => !(x.who == e.who && x.sid == e.sid)) },
     some s!"subscriber {e.who} got no report for subscription {e.sid} within the maximum interval of {e.maxInt} s: the last one at {e.since}, nothing until {t} although the path was clean{why}")

/-- the instant the maximum interval of a subscription is measured from: its last successful report,
for a resumed subscription that was not primed yet the restart (its last success cannot be later) -/
def sinceOf (st : St) (e : Ent) : Option Nat :=
  match e.ra with
  | some x => some x
  | none => if st.resumedIds.contains e.id then some st.upAt else none

/-- clauses (d3) and (e2) at instant `t` -/
def lingering (st : St) (t : Nat) : Option String :=
  first ((allEnts st).map fun e =>
    match sinceOf st e with
    | some x =>
      if decide (x + e.max * 1000 + lingerBound e < t) then
        if e.ra.isSome then
          some s!"subscription {e.id} is still in the table at {t}, its last successful report was begun at {x} and its maximum interval is {e.max} s"
        else
          some s!"resumed subscription {e.id} was never primed and is still in the table {t - x} ms after the restart (maximum interval {e.max} s): it does not expire"
      else none
    | none => none)

def setExpect (st : St) (who sid t maxInt : Nat) : St :=
  let rest := st.expects.filter (fun x => !(x.who == who && x.sid == sid))
  if isClean st who t && maxInt > 0 then
    { st with expects := { who := who, sid := sid, since := t, maxInt := maxInt, deadline := t + maxInt * 1000 } :: rest }
  else { st with expects := rest }

/-- a new sample of the device's table -/
def onTab (st : St) (t : Nat) (ents : List Ent) (rep : Option Ent) : St × Option String :=
  let old := allEnts st
  -- commits: a subscription of the old sample is back in the table with another state
  let commits : List (Option String) := ents.map fun n =>
    match old.find? (fun o => o.id == n.id) with
    | none => none
    | some o =>
      -- the reporter pass' `now` of the attempt that was committed
      let pass : Option Nat :=
        match o.ra, n.ra with
        | some x, some y => if x ≠ y then some y else if n.fc == o.fc + 1 then n.rt.map (fun g => g - backoffSecs n.fc n.max * 1000) else none
        | none, some y => some y
        | _, none => if n.fc == o.fc + 1 then n.rt.map (fun g => g - backoffSecs n.fc n.max * 1000) else none
      match pass with
      | none => none
      | some p =>
        let gate := match o.rt with
          | some g => if decide (p < g) then some s!"a report to subscription {n.id} was begun at {p}, before its retry gate {g}" else none
          | none => none
        let minI := match o.ra with
          | some x => if decide (p < x + o.min * 1000) then some s!"a report to subscription {n.id} was begun at {p}, less than the minimum interval of {o.min} s after the previous successful one at {x}" else none
          | none => none
        let exp := match sinceOf st o with
          | some x => if decide (x + o.max * 1000 ≤ p) then some s!"a report to subscription {n.id} was stamped {p}, not before last success {x} + maximum interval {o.max} s" else none
          | none => none
        let sweep := first (ents.map fun f =>
          if f.id == n.id then none else
          match sinceOf st f with
          | some y => if decide (y + f.max * 1000 ≤ p) then some s!"subscription {f.id} (last success {y}, maximum interval {f.max} s) survived the reporter pass at {p}" else none
          | none => none)
        first [gate, minI, exp, sweep]
  -- a successful commit makes the real begin instant of that report the reference for the next one
  let okIds := ents.filterMap fun n =>
    match old.find? (fun o => o.id == n.id) with
    | some o => if n.ra.isSome && (n.ra != o.ra) then some n.id else none
    | none => none
  let lastOk1 := match st.begun with
    | some (bid, bt) => if okIds.contains bid then (bid, bt) :: st.lastOk.filter (fun x => x.1 != bid) else st.lastOk
    | none => st.lastOk
  -- a report is begun: the in-flight snapshot appears or changes
  let isBegin : Bool := match rep, st.reporting with
    | some e, some o => !(e.id == o.id && e.ra == o.ra && e.rt == o.rt && e.fc == o.fc)
    | some _, none => true
    | none, _ => false
  let beginV : Option String := match rep with
    | some e =>
      if !isBegin then none else
      let late := match sinceOf st e with
        | some x => if decide (x + e.max * 1000 ≤ t) then some s!"a report to subscription {e.id} is begun at {t}, not before last success {x} + maximum interval {e.max} s" else none
        | none => none
      let gate := match e.rt with
        | some g => if decide (t < g) then some s!"a report to subscription {e.id} is begun at {t}, before its retry gate {g}" else none
        | none => none
      let often := match lastOk1.find? (fun x => x.1 == e.id) with
        | some (_, tb) => if decide (t < tb + e.min * 1000) then some s!"a report to subscription {e.id} is begun at {t}, less than the minimum interval of {e.min} s after the previous delivered report was begun at {tb}" else none
        | none => none
      first [late, gate, often]
    | none => none
  let begun1 := match rep with
    | some e => if isBegin then some (e.id, t) else st.begun
    | none => none
  let st1 := { st with tab := ents, reporting := rep, begun := begun1, lastOk := lastOk1 }
  -- expectations of subscriptions the device no longer has end
  let live := (ents ++ rep.toList)
  let st2 := { st1 with expects := st1.expects.filter (fun e => live.any (fun x => x.id == e.sid && x.peer == 100 + e.who)) }
  (st2, first (commits ++ [beginV, lingering st2 t]))

def addChunk (st : St) (who sid : Nat) (attrs : List Nat) : St × List Nat :=
  let cur := (st.chunks.find? (fun c => c.1 == who && c.2.1 == sid)).map (fun c => c.2.2) |>.getD []
  let all := cur ++ attrs
  ({ st with chunks := (who, sid, all) :: st.chunks.filter (fun c => !(c.1 == who && c.2.1 == sid)) }, all)

def onEvent (st : St) (ev : String) : St × Option String :=
  match words ev with
  | ["-"] => (st, none)
  | ["tab", t, ents, rep] =>
    match t.toNat? with
    | some t =>
      let (st1, v1) := overdue st t
      let (st2, v2) := onTab st1 t (parseEnts ents) (parseEnt rep)
      (st2, first [v1, v2])
    | none => (st, some "BAD tab")
  | ["rep", who, t, sid, more, items] =>
    match who.toNat?, t.toNat?, sid.toNat? with
    | some who, some t, some sid =>
      let (st1, v1) := overdue st t
      let (st2, all) := addChunk st1 who sid ((parsePairs items).map (·.1))
      if more = "1" then (st2, v1) else
      let st3 := { st2 with chunks := st2.chunks.filter (fun c => !(c.1 == who && c.2.1 == sid)) }
      -- clause (e1): the first completed report of a resumed subscription is a full priming report
      let v2 :=
        if st3.resumed.contains (sid, 100 + who) then
          match commonAttrs.find? (fun a => !all.contains a) with
          | some a => some s!"the first report to the resumed subscription {sid} of subscriber {who} is not a full priming report: attribute {a} is missing"
          | none => none
        else none
      let st4 := { st3 with resumed := st3.resumed.filter (fun r => !(r.1 == sid && r.2 == 100 + who)) }
      let mx := match (allEnts st4).find? (fun e => e.id == sid && e.peer == 100 + who) with
        | some e => e.max
        | none => (st4.expects.find? (fun e => e.who == who && e.sid == sid)).map (·.maxInt) |>.getD 0
      (setExpect st4 who sid t mx, first [v1, v2])
    | _, _, _ => (st, some "BAD rep")
  | ["prm", _, t, _, _, _] =>
    match t.toNat? with
    | some t => overdue st t
    | none => (st, some "BAD prm")
  | ["est", who, t, sid, mx] =>
    match who.toNat?, t.toNat?, sid.toNat?, mx.toNat? with
    | some who, some t, some sid, some mx =>
      let (st1, v1) := overdue st t
      (setExpect st1 who sid t mx, v1)
    | _, _, _, _ => (st, some "BAD est")
  | ["rej", who, t, sid] =>
    match who.toNat?, t.toNat?, sid.toNat? with
    | some who, some t, some sid =>
      let (st1, v1) := overdue st t
      ({ st1 with resumed := st1.resumed.filter (fun r => !(r.1 == sid && r.2 == 100 + who)),
                  expects := st1.expects.filter (fun x => !(x.who == who && x.sid == sid)) }, v1)
    | _, _, _ => (st, some "BAD rej")
  | "sfail" :: _ => (st, none)
  | ["dev", _] => (st, none)
  | ["res", _] => (st, none)
  | "subv" :: _ => (st, none)
  | ["devexit"] => ({ st with stop := true }, some "the device's run loop exited")
  | ["startup-failed"] => ({ st with stop := true }, some "startup() failed")
  | [w] => if w.startsWith "kv=" || w.startsWith "n=" then (st, none) else (st, some s!"BAD fact {w}")
  | _ => (st, some s!"BAD fact {ev}")

def events (out : String) : List String := (out.splitOn " ; ").map (fun s => s.trimAscii.toString)

def runEvents (st : St) (out : String) : St × Option String :=
  (events out).foldl (fun (acc : St × Option String) ev =>
    let (s, v) := onEvent acc.1 ev
    (s, first [acc.2, v])) (st, none)

/-- the end of an op that let time pass -/
def passTime (st : St) (ms : Nat) (out : String) : St × Option String :=
  let (st1, v1) := runEvents st out
  let st2 := { st1 with now := st1.now + ms }
  let (st3, v2) := overdue st2 st2.now
  (st3, first [v1, v2, if st3.up then lingering st3 st3.now else none])

/-- clause (a) on the output of `obs` -/
def finalCheck (st : St) (out : String) : Option String :=
  let evs := (events out).map words
  let dev := (evs.filterMap fun w => match w with | ["dev", v] => some (parsePairs v) | _ => none).headD []
  let tab := (evs.filterMap fun w => match w with | ["tab", _, e, r] => some (parseEnts e ++ (parseEnt r).toList) | _ => none).headD []
  let maxMax := tab.foldl (fun m e => Nat.max m e.max) 40
  match st.quiesced with
  | none => none
  | some q =>
    if !st.up || decide (q < 2 * maxMax * 1000 + 30000) then none else
    first (evs.map fun w =>
      match w with
      | ["subv", who, alive, view] =>
        match who.toNat? with
        | none => none
        | some who =>
          let view := parsePairs view
          first ((parseAlive alive).map fun (sid, sel) =>
            if tab.any (fun e => e.id == sid && e.peer == 100 + who) then
              first ((attrsOf sel).map fun a =>
                let dv := (dev.find? (fun p => p.1 == a)).map (·.2)
                let sv := (view.find? (fun p => p.1 == a)).map (·.2)
                if dv == sv then none else
                some s!"change lost: subscription {sid} of subscriber {who} survives, traffic has quiesced, but its view of attribute {a} is {sv.getD 0} while the device has {dv.getD 0}")
            else none)
      | _ => none)

def num (s : Option String) : Nat := (s.bind String.toNat?).getD 0

def stepOp (st : St) (ws : List String) (out : String) : St × Option String :=
  if out = "panic" then ({ st with stop := true }, some "the implementation panicked") else
  if out = "walltimeout" then ({ st with stop := true }, some "BAD wall-clock budget of the harness exhausted") else
  let st := match ws.head? with
    | some "obs" => st
    | _ => { st with quiesced := none }
  match ws with
  | "sub" :: _ => runEvents st out
  | "set" :: _ => runEvents st out
  | ["run", ms] => passTime st (num ms) out
  | ["quiesce", ms] =>
    let st1 := recomputeClean { st with advOn := false, black := [false, false] }
    let (st2, v) := passTime st1 (num ms) out
    ({ st2 with quiesced := some (num ms) }, v)
  | ["adv", a, b, c, _] =>
    let on : Bool := decide (num a + num b + num c > 0)
    let st1 := recomputeClean { st with advOn := on, clean := if on then [none, none] else st.clean }
    (if on then { st1 with expects := [] } else st1, none)
  | ["black", who, b] =>
    let w := num who
    let on : Bool := decide (num b ≠ 0)
    let bl : List Bool := (List.range 2).map fun i => if i == w then on else st.black.getD i false
    let cl := (List.range 2).map fun i => if i == w && on then none else st.clean.getD i none
    let st1 := recomputeClean { st with black := bl, clean := cl }
    (if on then cancelWho st1 w else st1, none)
  | ["dropsess", who] =>
    let w := num who
    let cl := (List.range 2).map fun i => if i == w then none else st.clean.getD i none
    let st1 := recomputeClean { st with clean := cl }
    (cancelWho st1 w, none)
  | "down" :: _ =>
    let st1 := recomputeClean { st with up := false, clean := [none, none] }
    ({ st1 with expects := [], tab := [], reporting := none, resumed := [], resumedIds := [], chunks := [], begun := none, lastOk := [] }, none)
  | ["up"] =>
    if st.up then (st, none) else
    let st1 := recomputeClean { st with up := true, upAt := st.now }
    let (st2, v) := runEvents st1 out
    let res := (allEnts st2).filter (fun e => e.ra.isNone)
    ({ st2 with resumed := res.map (fun e => (e.id, e.peer)), resumedIds := res.map (·.id) }, v)
  | ["obs"] =>
    let (st1, v) := runEvents st out
    (st1, first [v, finalCheck st out])
  | _ => (st, some "BAD op")

/-- one line of a system case; the verdict is `ok`, `ORA …` or `BAD …` -/
def step (st : St) (ws : List String) (out : String) : St × String :=
  if st.stop then (st, "ok") else
  let (st', v) := stepOp st ws out
  match v with
  | none => (st', "ok")
  | some why => if why.startsWith "BAD" then (st', why) else (st', s!"ORA {why}")

end Driver.C13Sys
