import RsMatterVerif.Lemmas.IdAlloc
/-!
# Session table plumbing for the id-uniqueness histories (C15)

How `Sessions::get`, the write-back of a session (`Table.setSess`), `Sessions::add`,
`Sessions::remove` (`swap_remove`) change the list of sessions, index by index; and the history of
local session ids: `get_next_sess_id` at the start of a handshake, `ReservedSession::update` at its
end, removal and eviction.
-/
namespace Transport

/-! ## `find` / `sess` / `get` / `setSess` -/

theorem find_coherent (uid : Nat) : ∀ (l : List Sess),
    (l.findIdx? (·.uid == uid) = none ∧ l.find? (·.uid == uid) = none) ∨
    (∃ i s, l.findIdx? (·.uid == uid) = some i ∧ l.find? (·.uid == uid) = some s ∧ l[i]? = some s ∧ s.uid = uid) := by
  intro l
  induction l with
  | nil => left; simp
  | cons x xs ih =>
    by_cases hx : x.uid = uid
    · right
      refine ⟨0, x, ?_, ?_, rfl, hx⟩
      · simp [List.findIdx?_cons, hx]
      · simp [hx]
    · have hb : (x.uid == uid) = false := by simpa using hx
      rcases ih with ⟨h1, h2⟩ | ⟨i, s, h1, h2, h3, h4⟩
      · left
        constructor
        · simp [List.findIdx?_cons, hb, h1]
        · simp [hb, h2]
      · right
        refine ⟨i + 1, s, ?_, ?_, by simpa using h3, h4⟩
        · simp [List.findIdx?_cons, hb, h1]
        · simp [hb, h2]

/-- writing a session with the same uid back into slot `i` keeps `find` pointing at `i` -/
theorem findIdx_set_same (uid : Nat) (l : List Sess) (i : Nat) (x : Sess)
    (h : l.findIdx? (·.uid == uid) = some i) (hx : x.uid = uid) :
    (l.set i x).findIdx? (·.uid == uid) = some i := by
  rw [List.findIdx?_eq_some_iff_getElem] at h ⊢
  obtain ⟨hi, hp, hbefore⟩ := h
  refine ⟨by simpa using hi, by simp [hx], ?_⟩
  intro j hji
  have : ¬ i = j := by omega
  simp only [List.getElem_set, this, ↓reduceIte]
  exact hbefore j hji

theorem findIdx_lt (uid : Nat) (l : List Sess) (i : Nat) (h : l.findIdx? (·.uid == uid) = some i) : i < l.length := by
  rw [List.findIdx?_eq_some_iff_getElem] at h
  exact h.1

/-- `Sessions::get(id)` -/
theorem get_cases (t : Table) (uid now : Nat) :
    (t.get uid now = (t, none)) ∨
    (∃ i s, t.sessions[i]? = some s ∧ s.uid = uid ∧ t.find uid = some i ∧
      t.get uid now = ({ t with sessions := t.sessions.set i { s with lastUse := now } }, some { s with lastUse := now })) := by
  unfold Table.get Table.sess
  rcases find_coherent uid t.sessions with ⟨h1, h2⟩ | ⟨i, s, h1, h2, h3, h4⟩
  · left; rw [h2]
  · right
    refine ⟨i, s, h3, h4, h1, ?_⟩
    rw [h2]
    simp only [Table.setSess, Table.find]
    have : ({ s with lastUse := now } : Sess).uid = uid := h4
    rw [this, h1]

/-- writing a session back after `get` (same uid): slot `i` is replaced -/
theorem setSess_after_get (t : Table) (i : Nat) (s1 s2 : Sess) (uid : Nat)
    (hf : t.find uid = some i) (h1 : s1.uid = uid) (h2 : s2.uid = uid) :
    ({ t with sessions := t.sessions.set i s1 } : Table).setSess s2 =
      { t with sessions := t.sessions.set i s2 } := by
  unfold Table.setSess Table.find
  simp only [h2]
  rw [findIdx_set_same uid t.sessions i s1 hf h1]
  simp

/-! ## `swap_remove` -/

theorem swapRemove_get (l : List Sess) (i a : Nat) (x : Sess) (h : (swapRemove l i)[a]? = some x) :
    a + 1 < l.length ∧ l[if a = i then l.length - 1 else a]? = some x := by
  unfold swapRemove at h
  cases hl : l.getLast? with
  | none =>
    rw [hl] at h
    simp only at h
    have : l = [] := by simpa using hl
    subst this
    simp at h
  | some last =>
    rw [hl] at h
    simp only at h
    have hlast : l[l.length - 1]? = some last := by rw [← List.getLast?_eq_getElem?]; exact hl
    split at h
    · rename_i hi
      rw [List.getElem?_dropLast] at h
      split at h
      · rename_i ha
        have : ¬ a = i := by omega
        simp only [this, ↓reduceIte]
        exact ⟨by omega, h⟩
      · cases h
    · rename_i hi
      rw [List.getElem?_dropLast, List.length_set] at h
      split at h
      · rename_i ha
        rw [List.getElem?_set] at h
        by_cases hai : a = i
        · subst hai
          simp only [↓reduceIte] at h ⊢
          have : a < l.length := by omega
          simp only [this, ↓reduceIte] at h
          rw [← h]
          exact ⟨by omega, hlast⟩
        · have : ¬ i = a := fun hh => hai hh.symm
          simp only [this, ↓reduceIte] at h
          simp only [hai, ↓reduceIte]
          exact ⟨by omega, h⟩
      · cases h

theorem swapRemove_length_le (l : List Sess) (i : Nat) : (swapRemove l i).length ≤ l.length := by
  unfold swapRemove
  split
  · exact Nat.le_refl _
  · split <;> simp

theorem swapRemove_mem (l : List Sess) (i : Nat) (x : Sess) (h : x ∈ swapRemove l i) : x ∈ l := by
  obtain ⟨a, ha⟩ := List.mem_iff_getElem?.1 h
  exact List.mem_iff_getElem?.2 ⟨_, (swapRemove_get l i a x ha).2⟩

/-! ## uid and number of slots of a session are kept by the session-level operations -/

theorem setSess_nextExch (T : Table) (s : Sess) : (T.setSess s).nextExch = T.nextExch := by
  unfold Table.setSess; split <;> rfl

theorem setSess_sessions_of (T : Table) (l : List Sess) (i : Nat) (s1 s2 : Sess) (uid : Nat)
    (hT : T.sessions = l.set i s1) (hf : l.findIdx? (·.uid == uid) = some i) (h1 : s1.uid = uid) (h2 : s2.uid = uid) :
    (T.setSess s2).sessions = l.set i s2 := by
  unfold Table.setSess Table.find
  rw [h2, hT, findIdx_set_same uid l i s1 hf h1]
  simp

theorem setMrp_uid_len (t : Sess) (i : Nat) (m : Mrp) :
    (t.setMrp i m).uid = t.uid ∧ (t.setMrp i m).exchs.length = t.exchs.length := by
  unfold Sess.setMrp
  split
  · exact ⟨rfl, by simp⟩
  · exact ⟨rfl, rfl⟩

theorem addExch_uid_len (t t' : Sess) (id : Nat) (role : RoleSt) (i : Nat) (h : t.addExch id role = some (t', i)) :
    t'.uid = t.uid ∧ (t.exchs.length ≤ Consts.maxExchanges → t'.exchs.length ≤ Consts.maxExchanges) := by
  unfold Sess.addExch at h
  simp only at h
  split at h
  · rename_i hlt
    simp only [Option.some.injEq, Prod.mk.injEq] at h
    obtain ⟨h1, _⟩ := h
    subst h1
    exact ⟨rfl, fun _ => by simp only [List.length_append, List.length_cons, List.length_nil]; omega⟩
  · split at h
    · simp only [Option.some.injEq, Prod.mk.injEq] at h
      obtain ⟨h1, _⟩ := h
      subst h1
      exact ⟨rfl, fun hl => by simpa using hl⟩
    · simp at h

theorem postRecv_uid_len (s : Sess) (h : RxHdr) (now : Nat) :
    (s.postRecv h now).1.uid = s.uid ∧
    (s.exchs.length ≤ Consts.maxExchanges → (s.postRecv h now).1.exchs.length ≤ Consts.maxExchanges) := by
  unfold Sess.postRecv
  simp only
  split
  · exact ⟨rfl, fun hl => hl⟩
  · split
    · split
      · generalize (Mrp.postRecv _ h.ctr h.ack h.reliable now) = P
        obtain ⟨m, err⟩ := P
        cases err <;> exact ⟨(setMrp_uid_len _ _ _).1, fun hl => by rw [(setMrp_uid_len _ _ _).2]; exact hl⟩
      · exact ⟨rfl, fun hl => hl⟩
    · split
      · exact ⟨rfl, fun hl => hl⟩
      · split
        · exact ⟨rfl, fun hl => hl⟩
        · split
          · rename_i s' i ha
            have hadd := addExch_uid_len _ _ _ _ _ ha
            generalize (Mrp.postRecv _ h.ctr h.ack h.reliable now) = P
            obtain ⟨m, err⟩ := P
            cases err <;>
              exact ⟨by rw [(setMrp_uid_len _ _ _).1, hadd.1], fun hl => by rw [(setMrp_uid_len _ _ _).2]; exact hadd.2 hl⟩
          · exact ⟨rfl, fun hl => hl⟩

theorem removeExch_uid_len (s : Sess) (i : Nat) :
    (s.removeExch i).1.uid = s.uid ∧ (s.removeExch i).1.exchs.length = s.exchs.length := by
  unfold Sess.removeExch
  split
  · exact ⟨rfl, rfl⟩
  · split <;> exact ⟨rfl, by simp⟩

theorem preSend_uid_len (s : Sess) (idx : Option Nat) (rel : Bool) (ha sai : Option Nat) :
    (s.preSend idx rel ha sai).1.uid = s.uid ∧ (s.preSend idx rel ha sai).1.exchs.length = s.exchs.length := by
  unfold Sess.preSend
  cases idx with
  | none => exact ⟨rfl, rfl⟩
  | some i =>
    simp only
    split
    · exact ⟨rfl, rfl⟩
    · rename_i e he
      generalize (e.mrp.preSend _ rel ha sai) = P
      obtain ⟨m, oa, err⟩ := P
      cases hrc : Option.map (fun x => x.ctr) e.mrp.retrans <;> (
        cases err with
        | none => exact ⟨(setMrp_uid_len _ _ _).1, (setMrp_uid_len _ _ _).2⟩
        | some er =>
          cases er <;> simp only <;> first
            | exact ⟨(setMrp_uid_len _ _ _).1, (setMrp_uid_len _ _ _).2⟩
            | (split <;> exact ⟨(setMrp_uid_len _ _ _).1, (setMrp_uid_len _ _ _).2⟩))

end Transport

/-! ## The history of local session ids -/
namespace C15
open Transport

/-- the session table plus two ghost components: how many candidates the session-id allocator has
consumed so far, and the ids it has handed out that no `ReservedSession::update` has installed yet
(with the number of the candidate that became the id) -/
structure SidSt where
  t : Table := {}
  tick : Nat := 0
  out : List (Nat × Nat) := []

inductive SidOp
  /-- `Sessions::add` (`reserved = true`: `ReservedSession::reserve_now`) -/
  | add (ctr : Nat) (reserved : Bool) (now port : Nat)
  /-- `get_next_sess_id` at the start of a handshake (PASE / CASE, initiator or responder) -/
  | alloc
  /-- `ReservedSession::update` of session `uid` with the `k`-th id handed out and not yet installed -/
  | install (uid k peerSid : Nat) (mode : Mode) (now : Nat)
  /-- a handshake ends without installing its id -/
  | abandon (k : Nat)
  /-- `ReservedSession::complete` -/
  | complete (uid now : Nat)
  /-- `Sessions::get` -/
  | touch (uid now : Nat)
  /-- `Sessions::remove` -/
  | remove (uid : Nat)
  /-- `get_session_for_eviction` + `remove` -/
  | evict (now : Nat)

/-- candidates one call of the allocator loop consumes -/
def allocCount (live : List Nat) : Nat → Nat → Nat
  | 0, _ => 1
  | fuel + 1, cur => if live.all (· != cur) then 1 else 1 + allocCount live fuel (bump cur)

def stepSid (st : SidSt) : SidOp → SidSt
  | .add ctr rsv now port => { st with t := (st.t.add ctr rsv now port).1 }
  | .alloc =>
    let k := allocCount st.t.liveSessIds 65536 st.t.nextSid
    let r := st.t.nextSessId
    { t := r.1, tick := st.tick + k, out := st.out ++ [(r.2, st.tick + k - 1)] }
  | .install uid k peerSid mode now =>
    match st.out[k]? with
    | none => st
    | some p =>
      let r := st.t.reservedUpdate uid p.1 peerSid mode now
      if r.2 then { st with t := r.1, out := st.out.eraseIdx k } else { st with t := r.1 }
  | .abandon k => { st with out := st.out.eraseIdx k }
  | .complete uid now => { st with t := (st.t.reservedComplete uid now).1 }
  | .touch uid now => { st with t := (st.t.get uid now).1 }
  | .remove uid => { st with t := (st.t.remove uid).1 }
  | .evict now =>
    match st.t.evictionUid now with
    | some u => { st with t := (st.t.remove u).1 }
    | none => st

def runSid : SidSt → List SidOp → SidSt
  | st, [] => st
  | st, op :: ops => runSid (stepSid st op) ops

/-- no id stays handed-out-but-not-installed while the allocator consumes 65535 further candidates
(= comes round to it again): the allocator only looks at the ids INSTALLED in the table -/
def NoStale (st : SidSt) : Prop := ∀ p ∈ st.out, st.tick ≤ p.2 + 65535

/-- `NoStale` holds after every step of the history -/
def staleFree : SidSt → List SidOp → Prop
  | _, [] => True
  | st, op :: ops => NoStale (stepSid st op) ∧ staleFree (stepSid st op) ops

/-- two sessions of the table with the same local id: that id is 0 (unsecured, or not installed yet) -/
def SessUniq (l : List Sess) : Prop :=
  ∀ (a b : Nat) (sa sb : Sess), l[a]? = some sa → l[b]? = some sb → sa.localSid = sb.localSid → sa.localSid ≠ 0 → a = b

theorem allocLoop_count (live : List Nat) : ∀ (fuel cur : Nat),
    1 ≤ allocCount live fuel cur ∧
    allocLoop live fuel cur = (bumpIter (allocCount live fuel cur - 1) cur, bumpIter (allocCount live fuel cur) cur) := by
  intro fuel
  induction fuel with
  | zero => intro cur; simp [allocCount, allocLoop, bumpIter]
  | succ fuel ih =>
    intro cur
    unfold allocCount allocLoop
    split
    · simp [bumpIter]
    · obtain ⟨h1, h2⟩ := ih (bump cur)
      refine ⟨by omega, ?_⟩
      rw [h2]
      have : 1 + allocCount live fuel (bump cur) - 1 = (allocCount live fuel (bump cur) - 1) + 1 := by omega
      rw [this, Nat.add_comm 1]
      simp [bumpIter]

structure SidInv (c0 : Nat) (st : SidSt) : Prop where
  c0r : 1 ≤ c0 ∧ c0 ≤ 65535
  pos : st.t.nextSid = bumpIter st.tick c0
  outPos : ∀ p ∈ st.out, p.2 < st.tick ∧ p.1 = bumpIter p.2 c0
  cap : st.t.sessions.length ≤ Consts.maxSessions
  uniq : SessUniq st.t.sessions
  /-- an id that is handed out and not installed is not the id of a session in the table -/
  outFresh : ∀ p ∈ st.out, ∀ s ∈ st.t.sessions, s.localSid ≠ p.1
  outDistinct : st.out.Pairwise (fun p q => p.1 ≠ q.1)

theorem eraseIdx_mem_ne {α : Type} (f : α → Nat) (l : List α) (k : Nat) (p x : α)
    (hp : l.Pairwise (fun a b => f a ≠ f b)) (hk : l[k]? = some p) (hx : x ∈ l.eraseIdx k) : x ∈ l ∧ f x ≠ f p := by
  have hlt : k < l.length := (List.getElem?_eq_some_iff.1 hk).1
  have hsplit : l = l.take k ++ p :: l.drop (k + 1) := by
    have h1 : l.drop k = p :: l.drop (k + 1) := by
      rw [List.drop_eq_getElem_cons hlt]
      congr
      exact (List.getElem?_eq_some_iff.1 hk).2
    conv => lhs; rw [← List.take_append_drop k l, h1]
  rw [List.eraseIdx_eq_take_drop_succ] at hx
  rw [hsplit] at hp
  rw [List.pairwise_append] at hp
  obtain ⟨_, h2, h3⟩ := hp
  rw [List.pairwise_cons] at h2
  rcases List.mem_append.1 hx with h | h
  · exact ⟨List.mem_of_mem_take h, h3 x h p (List.mem_cons_self ..)⟩
  · exact ⟨List.mem_of_mem_drop h, fun heq => h2.1 x h heq.symm⟩

/-- a session of the table is replaced by one with the same local id -/
theorem sidInv_set_same {c0 : Nat} {st : SidSt} (g : SidInv c0 st) (i : Nat) (s s' : Sess)
    (hs : st.t.sessions[i]? = some s) (hl : s'.localSid = s.localSid) (t' : Table)
    (ht : t'.sessions = st.t.sessions.set i s') (hn : t'.nextSid = st.t.nextSid) :
    SidInv c0 { st with t := t' } := by
  have hget : ∀ (a : Nat) (x : Sess), t'.sessions[a]? = some x →
      ∃ y : Sess, st.t.sessions[a]? = some y ∧ x.localSid = y.localSid := by
    intro a x hx
    rw [ht, List.getElem?_set] at hx
    split at hx
    · rename_i hia
      subst hia
      split at hx
      · cases hx; exact ⟨s, hs, hl⟩
      · cases hx
    · exact ⟨x, hx, rfl⟩
  refine { c0r := g.c0r, pos := by rw [← g.pos]; exact hn, outPos := g.outPos, cap := by simpa [ht] using g.cap,
           uniq := ?_, outFresh := ?_, outDistinct := g.outDistinct }
  · unfold SessUniq
    intro a b sa sb ha hb heq hne
    obtain ⟨ya, hya, ea⟩ := hget a sa ha
    obtain ⟨yb, hyb, eb⟩ := hget b sb hb
    exact g.uniq a b ya yb hya hyb (by rw [← ea, ← eb]; exact heq) (by rw [← ea]; exact hne)
  · intro p hp x hx
    obtain ⟨a, ha⟩ := List.mem_iff_getElem?.1 hx
    obtain ⟨y, hy, e⟩ := hget a x ha
    rw [e]
    exact g.outFresh p hp y (List.mem_iff_getElem?.2 ⟨a, hy⟩)

/-- sessions disappear (remove / eviction): `l'` re-indexes a part of `l` injectively -/
theorem sidInv_sub {c0 : Nat} {st : SidSt} (g : SidInv c0 st) (t' : Table) (σ : Nat → Nat)
    (hget : ∀ a x, t'.sessions[a]? = some x → st.t.sessions[σ a]? = some x)
    (hinj : ∀ a b x y, t'.sessions[a]? = some x → t'.sessions[b]? = some y → σ a = σ b → a = b)
    (hlen : t'.sessions.length ≤ st.t.sessions.length) (hn : t'.nextSid = st.t.nextSid) :
    SidInv c0 { st with t := t' } := by
  refine { c0r := g.c0r, pos := by rw [← g.pos]; exact hn, outPos := g.outPos, cap := Nat.le_trans hlen g.cap,
           uniq := ?_, outFresh := ?_, outDistinct := g.outDistinct }
  · unfold SessUniq
    intro a b sa sb ha hb heq hne
    exact hinj a b sa sb ha hb (g.uniq _ _ sa sb (hget a sa ha) (hget b sb hb) heq hne)
  · intro p hp x hx
    obtain ⟨a, ha⟩ := List.mem_iff_getElem?.1 hx
    exact g.outFresh p hp x (List.mem_iff_getElem?.2 ⟨_, hget a x ha⟩)

theorem sidInv_remove {c0 : Nat} {st : SidSt} (g : SidInv c0 st) (uid : Nat) :
    SidInv c0 { st with t := (st.t.remove uid).1 } := by
  unfold Table.remove
  split
  · rename_i i hi
    refine sidInv_sub g _ (fun a => if a = i then st.t.sessions.length - 1 else a) ?_ ?_ (swapRemove_length_le _ _) rfl
    · intro a x hx
      exact (swapRemove_get st.t.sessions i a x hx).2
    · intro a b x y ha hb hσ
      have h1 := (swapRemove_get st.t.sessions i a x ha).1
      have h2 := (swapRemove_get st.t.sessions i b y hb).1
      split at hσ <;> split at hσ <;> omega
  · exact g

theorem get_sessions_nextSid (t : Table) (uid now : Nat) : (t.get uid now).1.nextSid = t.nextSid := by
  rcases get_cases t uid now with h | ⟨i, s, _, _, _, h⟩ <;> rw [h]

/-- **Every operation preserves the invariant**, provided no handed-out id is stale afterwards. -/
theorem sidInv_step {c0 : Nat} {st : SidSt} (g : SidInv c0 st) (op : SidOp) (hns : NoStale (stepSid st op)) :
    SidInv c0 (stepSid st op) := by
  cases op with
  | add ctr rsv now port =>
    simp only [stepSid]
    unfold Table.add
    simp only
    split
    · exact { c0r := g.c0r, pos := g.pos, outPos := g.outPos, cap := g.cap, uniq := g.uniq, outFresh := g.outFresh,
              outDistinct := g.outDistinct }
    · rename_i hcap
      refine { c0r := g.c0r, pos := g.pos, outPos := g.outPos, cap := ?_, uniq := ?_, outFresh := ?_,
               outDistinct := g.outDistinct }
      · simp only [List.length_append, List.length_cons, List.length_nil]
        simp only [ge_iff_le, Nat.not_le] at hcap
        omega
      · unfold SessUniq
        intro a b sa sb ha hb heq hne
        simp only at ha hb
        rw [List.getElem?_append] at ha hb
        split at ha
        · split at hb
          · exact g.uniq a b sa sb ha hb heq hne
          · exfalso
            have : sb.localSid = 0 := by
              cases hk : b - st.t.sessions.length with
              | zero => rw [hk] at hb; simp at hb; rw [← hb]
              | succ k => rw [hk] at hb; simp at hb
            exact hne (by rw [heq, this])
        · exfalso
          have : sa.localSid = 0 := by
            cases hk : a - st.t.sessions.length with
            | zero => rw [hk] at ha; simp at ha; rw [← ha]
            | succ k => rw [hk] at ha; simp at ha
          exact hne this
      · intro p hp x hx
        simp only at hx
        rcases List.mem_append.1 hx with h | h
        · exact g.outFresh p hp x h
        · simp only [List.mem_singleton] at h
          subst h
          have := (g.outPos p hp).2
          have hr := bumpIter_range p.2 c0 g.c0r.1 g.c0r.2
          simp only
          omega
  | alloc =>
    simp only [stepSid]
    have hnr : 1 ≤ st.t.nextSid ∧ st.t.nextSid ≤ 65535 := by
      rw [g.pos]; exact bumpIter_range _ _ g.c0r.1 g.c0r.2
    have hlen : st.t.liveSessIds.length < 65535 := by
      unfold Table.liveSessIds
      rw [List.length_map]
      have := g.cap
      have : Consts.maxSessions < 65535 := by decide
      omega
    obtain ⟨hk1, hcount⟩ := allocLoop_count st.t.liveSessIds 65536 st.t.nextSid
    have hfresh := allocLoop_fresh st.t.liveSessIds st.t.nextSid hnr.1 hnr.2 hlen
    have hns' : ∀ p ∈ st.out, st.tick + allocCount st.t.liveSessIds 65536 st.t.nextSid ≤ p.2 + 65535 :=
      fun p hp => hns p (List.mem_append_left _ hp)
    generalize hk : allocCount st.t.liveSessIds 65536 st.t.nextSid = k at hk1 hcount hns' ⊢
    have hid : st.t.nextSessId.2 = bumpIter (st.tick + k - 1) c0 := by
      show (allocLoop st.t.liveSessIds 65536 st.t.nextSid).1 = _
      rw [hcount]
      show bumpIter (k - 1) st.t.nextSid = _
      rw [g.pos, ← bumpIter_add]
      have : st.tick + k - 1 = st.tick + (k - 1) := by omega
      rw [this]
    have hnext : st.t.nextSessId.1.nextSid = bumpIter (st.tick + k) c0 := by
      show (allocLoop st.t.liveSessIds 65536 st.t.nextSid).2 = _
      rw [hcount]
      show bumpIter k st.t.nextSid = _
      rw [g.pos, ← bumpIter_add]
    have hsess : st.t.nextSessId.1.sessions = st.t.sessions := rfl
    refine { c0r := g.c0r, pos := hnext, outPos := ?_, cap := g.cap, uniq := g.uniq, outFresh := ?_, outDistinct := ?_ }
    · intro p hp
      rcases List.mem_append.1 hp with h | h
      · have := g.outPos p h
        exact ⟨by simp only; omega, this.2⟩
      · simp only [List.mem_singleton] at h
        subst h
        exact ⟨by simp only; omega, hid⟩
    · intro p hp x hx
      rw [hsess] at hx
      rcases List.mem_append.1 hp with h | h
      · exact g.outFresh p h x hx
      · simp only [List.mem_singleton] at h
        subst h
        intro heq
        apply hfresh
        have heq' : x.localSid = (allocLoop st.t.liveSessIds 65536 st.t.nextSid).1 := heq
        rw [← heq']
        exact List.mem_map.2 ⟨x, hx, rfl⟩
    · rw [List.pairwise_append]
      refine ⟨g.outDistinct, List.pairwise_singleton _ _, ?_⟩
      intro p hp q hq
      simp only [List.mem_singleton] at hq
      subst hq
      simp only
      rw [hid, (g.outPos p hp).2, bumpIter_closed _ c0 g.c0r.1 g.c0r.2, bumpIter_closed _ c0 g.c0r.1 g.c0r.2]
      have h1 := (g.outPos p hp).1
      have h2 : st.tick + k ≤ p.2 + 65535 := hns' p hp
      omega
  | install uid k peerSid mode now =>
    simp only [stepSid]
    cases hk : st.out[k]? with
    | none => exact g
    | some p =>
      simp only
      have hp : p ∈ st.out := List.mem_iff_getElem?.2 ⟨k, hk⟩
      unfold Table.reservedUpdate
      rcases get_cases st.t uid now with h | ⟨i, s, hs, hu, hf, h⟩
      · rw [h]
        simp only [Bool.false_eq_true, ↓reduceIte]
        exact g
      · rw [h]
        simp only [↓reduceIte]
        rw [setSess_after_get st.t i ({ s with lastUse := now })
          ({ ({ s with lastUse := now } : Sess) with localSid := p.1, peerSid := peerSid, mode := mode, port := peerSid })
          uid hf hu hu]
        have hilt : i < st.t.sessions.length := (List.getElem?_eq_some_iff.1 hs).1
        refine { c0r := g.c0r, pos := g.pos, outPos := fun q hq => g.outPos q (List.mem_of_mem_eraseIdx hq),
                 cap := by simpa using g.cap, uniq := ?_, outFresh := ?_,
                 outDistinct := List.Pairwise.sublist (List.eraseIdx_sublist _ _) g.outDistinct }
        · unfold SessUniq
          intro a b sa sb ha hb heq hne
          simp only [List.getElem?_set] at ha hb
          by_cases hai : i = a <;> by_cases hbi : i = b
          · omega
          · exfalso
            simp only [hai, ↓reduceIte] at ha
            have : ¬ a = b := by omega
            simp only [hbi, ↓reduceIte] at hb
            split at ha
            · cases ha
              exact g.outFresh p hp sb (List.mem_iff_getElem?.2 ⟨b, hb⟩) heq.symm
            · cases ha
          · exfalso
            simp only [hbi, ↓reduceIte] at hb
            simp only [hai, ↓reduceIte] at ha
            split at hb
            · cases hb
              exact g.outFresh p hp sa (List.mem_iff_getElem?.2 ⟨a, ha⟩) heq
            · cases hb
          · simp only [hai, hbi, ↓reduceIte] at ha hb
            exact g.uniq a b sa sb ha hb heq hne
        · intro q hq x hx
          obtain ⟨hq1, hq2⟩ := eraseIdx_mem_ne (fun (p : Nat × Nat) => p.1) st.out k p q g.outDistinct hk hq
          simp only at hx
          rcases List.mem_or_eq_of_mem_set hx with h1 | h1
          · exact g.outFresh q hq1 x h1
          · subst h1
            exact fun heq => hq2 heq.symm
  | abandon k =>
    simp only [stepSid]
    exact { c0r := g.c0r, pos := g.pos, outPos := fun q hq => g.outPos q (List.mem_of_mem_eraseIdx hq), cap := g.cap,
            uniq := g.uniq, outFresh := fun q hq => g.outFresh q (List.mem_of_mem_eraseIdx hq),
            outDistinct := List.Pairwise.sublist (List.eraseIdx_sublist _ _) g.outDistinct }
  | complete uid now =>
    simp only [stepSid]
    unfold Table.reservedComplete
    rcases get_cases st.t uid now with h | ⟨i, s, hs, hu, hf, h⟩
    · rw [h]; exact g
    · rw [h]
      simp only
      rw [setSess_after_get st.t i ({ s with lastUse := now })
        ({ ({ s with lastUse := now } : Sess) with reserved := false }) uid hf hu hu]
      exact sidInv_set_same g i s ({ ({ s with lastUse := now } : Sess) with reserved := false }) hs rfl _ rfl rfl
  | touch uid now =>
    simp only [stepSid]
    rcases get_cases st.t uid now with h | ⟨i, s, hs, hu, hf, h⟩
    · rw [h]; exact g
    · rw [h]
      exact sidInv_set_same g i s ({ s with lastUse := now }) hs rfl _ rfl rfl
  | remove uid => exact sidInv_remove g uid
  | evict now =>
    simp only [stepSid]
    split
    · exact sidInv_remove g _
    · exact g

theorem sidInv_run {c0 : Nat} (ops : List SidOp) : ∀ (st : SidSt), SidInv c0 st → staleFree st ops →
    SidInv c0 (runSid st ops) := by
  induction ops with
  | nil => intro st g _; exact g
  | cons op ops ih =>
    intro st g hs
    exact ih _ (sidInv_step g op hs.1) hs.2

end C15
