import RsMatterVerif.Model.Expand
import Driver.C05
import Driver.Util
/-! Driver for C06: the access-control configuration lines are those of C05 (replayed on
`Model/Acl` by `Driver.C05.step`); `node` installs node metadata, `x` runs one request through the
cursor machine of `Model/Expand` (DIS) and compares the implementation's answer with the
declarative `Expand.expected` (ORA). -/
namespace Driver.C06
open Acl Expand

structure St where
  acl : Driver.C05.St := {}
  node : Node := []

def parseLeaf (fm : Nat) (withArray : Bool) (s : String) : Option Leaf :=
  match s.splitOn "." with
  | [i, a, arr] =>
    if withArray then
      match i.toNat?, a.toNat? with
      | some i, some a => some { id := i, access := a, array := arr = "1", enabled := fm.testBit (i % 32) }
      | _, _ => none
    else none
  | [i, a] =>
    if withArray then none else
    match i.toNat?, a.toNat? with
    | some i, some a => some { id := i, access := a, array := false, enabled := fm.testBit (i % 32) }
    | _, _ => none
  | _ => none

def parseCluster (s : String) : Option Cluster :=
  match s.splitOn "^" with
  | [i, fm, attrs, cmds] =>
    match i.toNat?, fm.toNat? with
    | some i, some fm => do
      let av ← if attrs = "-" then some [] else (attrs.splitOn ",").mapM (parseLeaf fm true)
      let cv ← if cmds = "-" then some [] else (cmds.splitOn ",").mapM (parseLeaf fm false)
      pure { id := i, attrs := av, cmds := cv }
    | _, _ => none
  | _ => none

def parseEndpoint (s : String) : Option Endpoint :=
  match s.splitOn "@" with
  | [i, dts, cls] =>
    match i.toNat? with
    | some i => do
      let dv ← if dts = "-" then some [] else (dts.splitOn "+").mapM (·.toNat?)
      let cv ← if cls = "-" then some [] else (cls.splitOn "|").mapM parseCluster
      pure { id := i, deviceTypes := dv, clusters := cv }
    | none => none
  | _ => none

def parseNode (s : String) : Option Node :=
  if s = "-" then some [] else (s.splitOn ";").mapM parseEndpoint

def parsePath (s : String) : Option Path :=
  match s.splitOn "/" with
  | [e, c, l] =>
    match Driver.C05.optNum e, Driver.C05.optNum c, Driver.C05.optNum l with
    | some e, some c, some l => some { endpoint := e, cluster := c, leaf := l }
    | _, _, _ => none
  | _ => none

def parseTriple (s : String) : Option (Nat × Nat × Nat) :=
  match s.splitOn "." with
  | [e, c, l] =>
    match e.toNat?, c.toNat?, l.toNat? with
    | some e, some c, some l => some (e, c, l)
    | _, _, _ => none
  | _ => none

def fmtOpt (o : Option Nat) : String := match o with | some n => toString n | none => "*"

def statusName : Status → String
  | .unsupportedEndpoint => "UnsupportedEndpoint"
  | .unsupportedCluster => "UnsupportedCluster"
  | .unsupportedAttribute => "UnsupportedAttribute"
  | .unsupportedCommand => "UnsupportedCommand"
  | .unsupportedRead => "UnsupportedRead"
  | .unsupportedWrite => "UnsupportedWrite"
  | .needsTimedInteraction => "NeedsTimedInteraction"
  | .unsupportedAccess => "UnsupportedAccess"

def b01 (b : Bool) : String := if b then "1" else "0"

/-- `CmdDetails` does not carry the wildcard flag of the path and has no array flag -/
def fmtOut (op : Operation) : Out → String
  | .item ep cl leaf w a =>
    if op = .invoke then s!"ok {ep} {cl} {leaf} w- a0" else s!"ok {ep} {cl} {leaf} w{b01 w} a{b01 a}"
  | .status p s => s!"st {fmtOpt p.endpoint}/{fmtOpt p.cluster}/{fmtOpt p.leaf} {statusName s}"

def fmtOuts (op : Operation) (l : List Out) : String :=
  if l.isEmpty then "-" else " | ".intercalate (l.map (fmtOut op))

def FUEL : Nat := 100000

def step (st : St) (line : String) : St × String :=
  let (opText, out) := splitArrow line
  match words opText with
  | "case" :: _ => ({}, "case")
  | ["node", spec] =>
    match parseNode spec with
    | none => (st, "BAD node")
    | some n =>
      let m := s!"ok {n.length}"
      if out = m then ({ st with node := n }, "ok") else ({ st with node := n }, s!"DIS {m}")
  | ["x", kind, fab, mode, aux, id, cats, timed, excl, paths] =>
    let op : Operation := if kind = "r" then .read else if kind = "w" then .write else .invoke
    match fab.toNat?, Driver.C05.modeOf mode, id.toNat?, Driver.C05.natList cats,
        (if excl = "-" then some [] else (excl.splitOn ",").mapM parseTriple),
        (((paths.splitOn ";").filter (fun s => s ≠ "" ∧ s ≠ "-")).mapM parsePath) with
    | some fab, some mode, some id, some cats, some excl, some paths =>
      let subj := cats.foldl addCatid (subjectsNew id)
      let acc : Accessor := { fabIdx := fab, auxAclEnabled := aux = "1", subjects := subj, authMode := mode }
      -- only `expand_read` takes a caller-supplied filter
      let excl := if op = .read then excl else []
      let ctx : Ctx := { fabrics := st.acl.fabrics, accessor := acc, timed := (op ≠ .read) && timed = "1",
                         filter := fun e c l => !(excl.contains (e, c, l)) }
      let model := fmtOuts op (expand ctx op st.node paths FUEL)
      let inScope := nodeWF st.node &&
        st.acl.fabrics.all (fun f => f.acl.all (fun e => Driver.C05.canonicalPriv e.privilege))
      let spec := fmtOuts op (expected ctx op st.node paths)
      -- `resume_endpoint_index` debug-asserts `Node`'s documented invariant (endpoints strictly
      -- ascending); a panic on a node violating it is the stated precondition, not a finding
      let sorted : Bool := decide ((st.node.map (·.id)).Pairwise (· < ·))
      if out.startsWith "panic" && !sorted then (st, "ok")
      else if out.startsWith "panic" ∨ (out.splitOn "HANG").length > 1 then (st, s!"ORA {out}")
      else if inScope && spec ≠ out then (st, s!"ORA spec=[{spec}]")
      else if model = out then (st, "ok") else (st, s!"DIS {model}")
    | _, _, _, _, _, _ => (st, "BAD x")
  | _ =>
    let (a, o) := Driver.C05.step st.acl line
    ({ st with acl := a }, o)

def run : IO UInt32 := Driver.runLoop ({} : St) step

end Driver.C06
