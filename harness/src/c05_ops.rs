//! C05, second part (the first-generation production ops `acli`, `aclupd`, .. `reload` are in c05.rs;
//! the ops here carry the error codes, drive the cluster handler and a persistent store, and are
//! followed by table dumps): the PRODUCTION mutators of the access-control configuration and
//! `Accessor::for_session`, driven for real.
//!
//! Ops (all self-contained text; `<fab>` = fabric index, errors are the `ErrorCode` names):
//!   enums v p o m a P C G                              => ok      wire values of the two enumerations
//!   aupd <fab> <idx> <privbits> <c|g|p> <subj> <targs>   => ok|Err            Fabric::acl_update
//!   ainit <fab> r <stamp|-> <privbits> <c|g|p> <subj> <targs>  => <idx>|Err    Fabric::acl_add_init(AclEntry::init(stamp,..).chain(..))
//!   ainit <fab> t <ifab> <wire>                           => <idx>|Err         Fabric::acl_add_init(AclEntry::init_with(ifab, wire))
//!   uinit <fab> <idx> r <stamp|-> <privbits> <m> <subj> <targs> | uinit <fab> <idx> t <ifab> <wire>  => ok|Err   Fabric::acl_update_init
//!   arm <fab> <idx>                                      => ok|Err            Fabric::acl_remove
//!   aclr <fab>                                           => ok|Err            Fabric::acl_remove_all
//!   hw <fab> replace <wire>|<wire>.. (or `-` = empty list) | hw <fab> add <wire> | hw <fab> upd <idx> <wire> | hw <fab> rm <idx>
//!                                                        => ok|Err|panic      AclHandler::set_acl(fabric, value)  (hook verif_set_acl)
//!   gadd <fab> <gid> <ep>                                => new|member|Err    Groups::add
//!   grm <fab> <ep> <gid|*>                               => yes|no|Err        Groups::remove
//!   join <fab> <gid> <eps|-> <replace 0|1> <policy -|0|1>   => ok|Err         Groups::groupcast_join
//!   gcrm <fab> <gid>                                     => yes|no|Err        Groups::groupcast_remove
//!   gauxr <fab> <gid> <0|1>                              => yes|no|Err        Groups::set_has_aux_acl (no existence check)
//!   st <fab>                                             => ok|Err|panic      FabricPersist::store(fabrics.get(fab))
//!   strm <fab>                                           => ok                FabricPersist::remove(fab)
//!   load                                                 => ok|Err            Fabrics::load_persist
//!   rollback <fab>                                       => ok|Err            the fabric part of the fail-safe roll-back (hook verif_add_load)
//!   faba <subject>                                       => <idx>|Err         Fabrics::add(.., case_admin_subject) with real certificates
//!   wipe                                                 => ok|Err            Fabrics::reset_persist
//!   dump                                                 => canonical text of the whole fabric table
//!   sq <c|p|g|x> <sfab> <peer|-> <c1,c2,c3> <gid> <aux> <ep|*> <cl|*> <leaf|*> <opbits> <perms|none> <dts|->
//!                                                        => allow|deny <fab> <mode> <subjects>    Accessor::for_session on a real Session
//!   sr <sfab> <gid> <endpoint>                           => yes|no            for_session(Group session).is_endpoint_accessible
//!
//! <wire> = `<priv|->~<auth|->~<subjects>~<targets>~<aux|->`; subjects: `-` absent | null | e | n,n ;
//! targets: `-` absent | null | e | ep/cl/dt;..  (`-` = null component).
use std::cell::RefCell;
use std::collections::BTreeMap;

use core::num::NonZeroU8;

use rs_matter::acl::{AccessReq, Accessor, AclEntry, AuthMode, Target, MAX_ACL_ENTRIES_PER_FABRIC, MAX_SUBJECTS_PER_ACL_ENTRY, MAX_TARGETS_PER_ACL_ENTRY};
use rs_matter::dm::clusters::acl::{
    AccessControlEntryAuthModeEnum, AccessControlEntryPrivilegeEnum, AccessControlEntryStruct, AclHandler,
};
use rs_matter::cert::gen::{CertGenerator, CertType, IssuerDN, SubjectDN, Validity};
use rs_matter::cert::MAX_CERT_TLV_AND_ASN1_LEN;
use rs_matter::crypto::{test_only_crypto, CanonPkcPublicKey, CanonPkcSecretKey, Crypto, PublicKey, SecretKey, SigningSecretKey};
use rs_matter::dm::{Access, ArrayAttributeWrite, Dataver, DeviceType, Privilege};
use rs_matter::error::{Error, ErrorCode};
use rs_matter::fabric::{FabricPersist, GROUP_ENDPOINTS_PER_FABRIC, MAX_FABRICS, MAX_GROUPS_PER_FABRIC};
use rs_matter::im::GenericPath;
use rs_matter::persist::{KvBlobStore, KvBlobStoreAccess};
use rs_matter::tlv::{TLVArray, TLVElement, TLVTag, TLVWrite};
use rs_matter::transport::network::Address;
use rs_matter::transport::session::{Session, SessionMode};
use rs_matter::utils::init::{Init, IntoFallibleInit};
use rs_matter::utils::storage::WriteBuf;
use rs_matter::Matter;

use super::{mode_of, opt_num, GEntry, GFab};
use crate::proto::Out;
use crate::rng::Rng;

// ------------------------------------------------------------------------ the key-value store

thread_local! {
    static KV: RefCell<BTreeMap<u16, Vec<u8>>> = RefCell::new(BTreeMap::new());
}

pub(crate) fn kv_reset() {
    KV.with(|kv| kv.borrow_mut().clear());
}

struct MemKv;

impl KvBlobStore for MemKv {
    fn load<'a>(&mut self, key: u16, buf: &'a mut [u8]) -> Result<Option<&'a [u8]>, Error> {
        KV.with(|kv| match kv.borrow().get(&key) {
            None => Ok(None),
            Some(d) => {
                if d.len() > buf.len() {
                    return Err(ErrorCode::NoSpace.into());
                }
                buf[..d.len()].copy_from_slice(d);
                Ok(Some(&buf[..d.len()]))
            }
        })
    }
    fn store(&mut self, key: u16, data: &[u8], _buf: &mut [u8]) -> Result<(), Error> {
        KV.with(|kv| kv.borrow_mut().insert(key, data.to_vec()));
        Ok(())
    }
    fn remove(&mut self, key: u16, _buf: &mut [u8]) -> Result<(), Error> {
        KV.with(|kv| kv.borrow_mut().remove(&key));
        Ok(())
    }
}

struct MemKvAccess(RefCell<Vec<u8>>);

impl KvBlobStoreAccess for MemKvAccess {
    fn access<F, R>(&self, f: F) -> R
    where
        F: FnOnce(&mut dyn KvBlobStore, &mut [u8]) -> R,
    {
        let mut buf = self.0.borrow_mut();
        f(&mut MemKv, &mut buf[..])
    }
}

const KV_BUF: usize = 16384;

// ------------------------------------------------------------------------ helpers

fn err_name(e: &Error) -> String {
    match e.code() {
        ErrorCode::NotFound => "NotFound".into(),
        ErrorCode::ResourceExhausted => "ResourceExhausted".into(),
        ErrorCode::ConstraintError => "ConstraintError".into(),
        ErrorCode::BufferTooSmall => "BufferTooSmall".into(),
        other => format!("{:?}", other),
    }
}

fn fab_of(s: &str) -> Option<NonZeroU8> {
    NonZeroU8::new(s.parse::<u8>().ok()?)
}

fn mode_char(m: AuthMode) -> char {
    match m {
        AuthMode::Pase => 'p',
        AuthMode::Case => 'c',
        AuthMode::Group => 'g',
    }
}

fn fmt_opt<T: ToString>(o: &Option<T>, none: &str) -> String {
    o.as_ref().map(|x| x.to_string()).unwrap_or_else(|| none.to_string())
}

/// apply the subjects / targets text of an op to an entry under construction
fn fill_entry(e: &mut AclEntry, subjects: &str, targets: &str) -> Result<(), Error> {
    match subjects {
        "null" => {}
        "e" => e.verif_set_empty_lists(true, false),
        list => {
            for s in list.split(',') {
                let v: u64 = s.parse().map_err(|_| Error::new(ErrorCode::Invalid))?;
                e.add_subject(v)?;
            }
        }
    }
    match targets {
        "null" => {}
        "e" => e.verif_set_empty_lists(false, true),
        list => {
            for t in list.split(';') {
                let mut it = t.split('/');
                let ep: Option<u16> = opt_num(it.next().unwrap_or("-"));
                let cl: Option<u32> = opt_num(it.next().unwrap_or("-"));
                let dt: Option<u32> = opt_num(it.next().unwrap_or("-"));
                e.add_target(Target::new(ep, cl, dt))?;
            }
        }
    }
    Ok(())
}

/// the TLV of one wire entry (`AccessControlEntryStruct`)
fn write_wire(tw: &mut WriteBuf<'_>, tag: &TLVTag, s: &str) -> Result<(), Error> {
    let bad = || Error::new(ErrorCode::Invalid);
    let f: Vec<&str> = s.split('~').collect();
    if f.len() != 5 {
        return Err(bad());
    }
    tw.start_struct(tag)?;
    if f[0] != "-" {
        tw.u8(&TLVTag::Context(1), f[0].parse().map_err(|_| bad())?)?;
    }
    if f[1] != "-" {
        tw.u8(&TLVTag::Context(2), f[1].parse().map_err(|_| bad())?)?;
    }
    match f[2] {
        "-" => {}
        "null" => tw.null(&TLVTag::Context(3))?,
        "e" => {
            tw.start_array(&TLVTag::Context(3))?;
            tw.end_container()?;
        }
        list => {
            tw.start_array(&TLVTag::Context(3))?;
            for x in list.split(',') {
                tw.u64(&TLVTag::Anonymous, x.parse().map_err(|_| bad())?)?;
            }
            tw.end_container()?;
        }
    }
    match f[3] {
        "-" => {}
        "null" => tw.null(&TLVTag::Context(4))?,
        "e" => {
            tw.start_array(&TLVTag::Context(4))?;
            tw.end_container()?;
        }
        list => {
            tw.start_array(&TLVTag::Context(4))?;
            for t in list.split(';') {
                let mut it = t.split('/');
                let ep: Option<u16> = opt_num(it.next().ok_or_else(bad)?);
                let cl: Option<u32> = opt_num(it.next().ok_or_else(bad)?);
                let dt: Option<u32> = opt_num(it.next().ok_or_else(bad)?);
                tw.start_struct(&TLVTag::Anonymous)?;
                match cl {
                    Some(v) => tw.u32(&TLVTag::Context(0), v)?,
                    None => tw.null(&TLVTag::Context(0))?,
                }
                match ep {
                    Some(v) => tw.u16(&TLVTag::Context(1), v)?,
                    None => tw.null(&TLVTag::Context(1))?,
                }
                match dt {
                    Some(v) => tw.u32(&TLVTag::Context(2), v)?,
                    None => tw.null(&TLVTag::Context(2))?,
                }
                tw.end_container()?;
            }
            tw.end_container()?;
        }
    }
    if f[4] != "-" {
        tw.u8(&TLVTag::Context(5), f[4].parse().map_err(|_| bad())?)?;
    }
    tw.end_container()
}

fn wire_bytes(s: &str) -> Option<Vec<u8>> {
    let mut buf = vec![0u8; 4096];
    let mut tw = WriteBuf::new(&mut buf);
    write_wire(&mut tw, &TLVTag::Anonymous, s).ok()?;
    Some(tw.as_slice().to_vec())
}

fn wire_list_bytes(s: &str) -> Option<Vec<u8>> {
    let mut buf = vec![0u8; 8192];
    let mut tw = WriteBuf::new(&mut buf);
    tw.start_array(&TLVTag::Anonymous).ok()?;
    if s != "-" {
        for e in s.split('|') {
            write_wire(&mut tw, &TLVTag::Anonymous, e).ok()?;
        }
    }
    tw.end_container().ok()?;
    Some(tw.as_slice().to_vec())
}

pub(crate) fn dump(matter: &Matter<'_>) -> String {
    matter.with_state(|state| {
        let mut parts: Vec<String> = Vec::new();
        for f in state.fabrics.iter() {
            let entries: Vec<String> = f
                .acl_iter()
                .map(|e| {
                    let subj = match e.subjects().into_option() {
                        None => "null".to_string(),
                        Some(s) if s.is_empty() => "e".to_string(),
                        Some(s) => s.iter().map(|x| x.to_string()).collect::<Vec<_>>().join(","),
                    };
                    let targ = match e.targets().into_option() {
                        None => "null".to_string(),
                        Some(t) if t.is_empty() => "e".to_string(),
                        Some(t) => t
                            .iter()
                            .map(|t| format!("{}/{}/{}", fmt_opt(&t.endpoint, "-"), fmt_opt(&t.cluster, "-"), fmt_opt(&t.device_type, "-")))
                            .collect::<Vec<_>>()
                            .join("+"),
                    };
                    format!(
                        "{}.{}.{}.{}.{}",
                        e.verif_privilege().bits(),
                        mode_char(e.auth_mode()),
                        subj,
                        targ,
                        e.fab_idx.map(|x| x.get().to_string()).unwrap_or_else(|| "-".into())
                    )
                })
                .collect();
            let groups: Vec<String> = f
                .groups()
                .iter()
                .map(|g| {
                    format!(
                        "{}:{}:{}:{}",
                        g.group_id,
                        if g.endpoints.is_empty() { "-".to_string() } else { g.endpoints.iter().map(|x| x.to_string()).collect::<Vec<_>>().join(",") },
                        match g.has_aux_acl {
                            None => "n",
                            Some(false) => "0",
                            Some(true) => "1",
                        },
                        if g.groupcast_managed() { 1 } else { 0 }
                    )
                })
                .collect();
            parts.push(format!("F{}{{{}|{}}}", f.fab_idx().get(), entries.join(";"), groups.join(";")))
        }
        if parts.is_empty() {
            "-".to_string()
        } else {
            parts.join(" ")
        }
    })
}

/// the real table as the generator's view (what the queries are aimed at)
pub(crate) fn snapshot(matter: &Matter<'_>) -> Vec<GFab> {
    matter.with_state(|state| {
        state
            .fabrics
            .iter()
            .map(|f| GFab {
                idx: f.fab_idx().get(),
                entries: f
                    .acl_iter()
                    .map(|e| GEntry {
                        mode: mode_char(e.auth_mode()),
                        subjects: e.subjects().into_option().map(|s| s.to_vec()),
                        targets: e.targets().into_option().map(|t| t.iter().map(|t| (t.endpoint, t.cluster, t.device_type)).collect()),
                    })
                    .collect(),
                groups: f.groups().iter().map(|g| (g.group_id as u64, g.endpoints.iter().copied().collect())).collect(),
            })
            .collect()
    })
}

fn res_unit(r: Result<(), Error>) -> String {
    match r {
        Ok(()) => "ok".into(),
        Err(e) => err_name(&e),
    }
}

fn guarded(f: impl FnOnce() -> String) -> String {
    match std::panic::catch_unwind(std::panic::AssertUnwindSafe(f)) {
        Ok(s) => s,
        Err(_) => "panic".into(),
    }
}

/// a root certificate, a node certificate issued under it and the node's key, made once per run:
/// what `Fabrics::add` (AddNOC) needs to create a fabric with its Administer entry
struct Certs {
    rcac: Vec<u8>,
    noc: Vec<u8>,
    node_key: CanonPkcSecretKey,
}

thread_local! {
    static CERTS: RefCell<Option<std::rc::Rc<Certs>>> = RefCell::new(None);
}

fn certs() -> std::rc::Rc<Certs> {
    CERTS.with(|c| {
        if c.borrow().is_none() {
            let crypto = test_only_crypto();
            let validity = Validity { not_before: 1, not_after: 0 };
            let ca_sk = crypto.generate_secret_key().unwrap();
            let mut ca_pub = CanonPkcPublicKey::new();
            ca_sk.pub_key().unwrap().write_canon(&mut ca_pub).unwrap();
            let mut buf = [0u8; MAX_CERT_TLV_AND_ASN1_LEN];
            let len = CertGenerator::new(&mut buf)
                .generate(&crypto, CertType::Rcac, &[1], validity.clone(), SubjectDN::verif_new(None, None, &[], Some(1)), IssuerDN::verif_new(None, None, false), ca_pub.reference(), None, &ca_sk)
                .unwrap();
            let rcac = buf[..len].to_vec();
            let node_sk = crypto.generate_secret_key().unwrap();
            let mut node_pub = CanonPkcPublicKey::new();
            node_sk.pub_key().unwrap().write_canon(&mut node_pub).unwrap();
            let mut node_key = CanonPkcSecretKey::new();
            node_sk.write_canon(&mut node_key).unwrap();
            let len = CertGenerator::new(&mut buf)
                .generate(&crypto, CertType::Noc, &[0x41, 1], validity, SubjectDN::verif_new(Some(0x77), Some(0x99), &[], None), IssuerDN::verif_new(Some(1), None, true), node_pub.reference(), Some(ca_pub.reference()), &ca_sk)
                .unwrap();
            let noc = buf[..len].to_vec();
            *c.borrow_mut() = Some(std::rc::Rc::new(Certs { rcac, noc, node_key }));
        }
        c.borrow().as_ref().unwrap().clone()
    })
}

pub(crate) fn run_op(matter: &Matter<'_>, w: &[&str], out: &mut Out) -> Option<String> {
    let r = match w {
        ["enums", v, p, o, m, a, pp, cc, gg] => {
            let mine = [
                AccessControlEntryPrivilegeEnum::View as u8,
                AccessControlEntryPrivilegeEnum::ProxyView as u8,
                AccessControlEntryPrivilegeEnum::Operate as u8,
                AccessControlEntryPrivilegeEnum::Manage as u8,
                AccessControlEntryPrivilegeEnum::Administer as u8,
                AccessControlEntryAuthModeEnum::PASE as u8,
                AccessControlEntryAuthModeEnum::CASE as u8,
                AccessControlEntryAuthModeEnum::Group as u8,
            ];
            let theirs: Vec<u8> = [v, p, o, m, a, pp, cc, gg].iter().map(|x| x.parse().unwrap_or(0)).collect();
            if mine.to_vec() == theirs {
                "ok".into()
            } else {
                format!("built-with {:?}", mine)
            }
        }
        ["dump"] => dump(matter),
        ["faba", subject] => {
            let Ok(subject) = subject.parse::<u64>() else { return Some("badop".into()) };
            let c = certs();
            guarded(|| {
                let crypto = test_only_crypto();
                matter.with_state(|state| match state.fabrics.add(&crypto, c.node_key.reference(), &c.rcac, &c.noc, &[], None, 0xFFF1, subject) {
                    Ok(f) => f.fab_idx().get().to_string(),
                    Err(e) => err_name(&e),
                })
            })
        }
        ["wipe"] => guarded(|| {
            let mut buf = vec![0u8; KV_BUF];
            matter.with_state(|state| res_unit(state.fabrics.reset_persist(&mut MemKv, &mut buf)))
        }),
        ["aupd", fab, idx, pb, mode, subjects, targets] => {
            let (Some(fab), Some(mode), Ok(idx), Ok(pb)) = (fab_of(fab), mode_of(mode), idx.parse::<usize>(), pb.parse::<u8>()) else { return Some("badop".into()) };
            let mut e = AclEntry::new(None, Privilege::from_bits_retain(pb), mode);
            if fill_entry(&mut e, subjects, targets).is_err() {
                return Some("badop".into());
            }
            matter.with_state(|state| match state.fabrics.fabric_mut(fab) {
                Err(e) => err_name(&e),
                Ok(f) => res_unit(f.acl_update(idx, e)),
            })
        }
        ["ainit", fab, "r", stamp, pb, mode, subjects, targets] => {
            let (Some(fab), Some(mode), Ok(pb)) = (fab_of(fab), mode_of(mode), pb.parse::<u8>()) else { return Some("badop".into()) };
            let stamp = fab_of(stamp);
            matter.with_state(|state| match state.fabrics.fabric_mut(fab) {
                Err(e) => err_name(&e),
                Ok(f) => {
                    let init = AclEntry::init(stamp, Privilege::from_bits_retain(pb), mode)
                        .into_fallible::<Error>()
                        .chain(|e| fill_entry(e, subjects, targets));
                    match f.acl_add_init(init) {
                        Ok(i) => i.to_string(),
                        Err(e) => err_name(&e),
                    }
                }
            })
        }
        ["ainit", fab, "t", ifab, wire] => {
            let (Some(fab), Some(ifab), Some(bytes)) = (fab_of(fab), fab_of(ifab), wire_bytes(wire)) else { return Some("badop".into()) };
            let entry = AccessControlEntryStruct::new(TLVElement::new(&bytes));
            matter.with_state(|state| match state.fabrics.fabric_mut(fab) {
                Err(e) => err_name(&e),
                Ok(f) => match f.acl_add_init(AclEntry::init_with(ifab, &entry)) {
                    Ok(i) => i.to_string(),
                    Err(e) => err_name(&e),
                },
            })
        }
        ["uinit", fab, idx, "r", stamp, pb, mode, subjects, targets] => {
            let (Some(fab), Some(mode), Ok(idx), Ok(pb)) = (fab_of(fab), mode_of(mode), idx.parse::<usize>(), pb.parse::<u8>()) else { return Some("badop".into()) };
            let stamp = fab_of(stamp);
            matter.with_state(|state| match state.fabrics.fabric_mut(fab) {
                Err(e) => err_name(&e),
                Ok(f) => {
                    let init = AclEntry::init(stamp, Privilege::from_bits_retain(pb), mode)
                        .into_fallible::<Error>()
                        .chain(|e| fill_entry(e, subjects, targets));
                    res_unit(f.acl_update_init(idx, init))
                }
            })
        }
        ["uinit", fab, idx, "t", ifab, wire] => {
            let (Some(fab), Some(ifab), Ok(idx), Some(bytes)) = (fab_of(fab), fab_of(ifab), idx.parse::<usize>(), wire_bytes(wire)) else { return Some("badop".into()) };
            let entry = AccessControlEntryStruct::new(TLVElement::new(&bytes));
            matter.with_state(|state| match state.fabrics.fabric_mut(fab) {
                Err(e) => err_name(&e),
                Ok(f) => res_unit(f.acl_update_init(idx, AclEntry::init_with(ifab, &entry))),
            })
        }
        ["arm", fab, idx] => {
            let (Some(fab), Ok(idx)) = (fab_of(fab), idx.parse::<usize>()) else { return Some("badop".into()) };
            matter.with_state(|state| match state.fabrics.fabric_mut(fab) {
                Err(e) => err_name(&e),
                Ok(f) => res_unit(f.acl_remove(idx)),
            })
        }
        ["aclr", fab] => {
            let Some(fab) = fab_of(fab) else { return Some("badop".into()) };
            matter.with_state(|state| match state.fabrics.fabric_mut(fab) {
                Err(e) => err_name(&e),
                Ok(f) => {
                    f.acl_remove_all();
                    "ok".into()
                }
            })
        }
        ["hw", fab, rest @ ..] => {
            let Some(fab) = fab_of(fab) else { return Some("badop".into()) };
            let handler = AclHandler::new(Dataver::new(0));
            let bytes: Option<Vec<u8>> = match rest {
                ["replace", list] => wire_list_bytes(list),
                ["add", wire] | ["upd", _, wire] => wire_bytes(wire),
                ["rm", _] => Some(Vec::new()),
                _ => None,
            };
            let Some(bytes) = bytes else { return Some("badop".into()) };
            guarded(|| {
                matter.with_state(|state| {
                    let f = match state.fabrics.fabric_mut(fab) {
                        Err(e) => return err_name(&e),
                        Ok(f) => f,
                    };
                    let value = match rest {
                        ["replace", _] => match TLVArray::new(TLVElement::new(&bytes)) {
                            Ok(a) => ArrayAttributeWrite::Replace(a),
                            Err(_) => return "badop".into(),
                        },
                        ["add", _] => ArrayAttributeWrite::Add(AccessControlEntryStruct::new(TLVElement::new(&bytes))),
                        ["upd", idx, _] => ArrayAttributeWrite::Update(idx.parse().unwrap_or(u16::MAX), AccessControlEntryStruct::new(TLVElement::new(&bytes))),
                        ["rm", idx] => ArrayAttributeWrite::Remove(idx.parse().unwrap_or(u16::MAX)),
                        _ => return "badop".into(),
                    };
                    res_unit(handler.verif_set_acl(f, value))
                })
            })
        }
        ["gadd", fab, gid, ep] => {
            let (Some(fab), Ok(gid), Ok(ep)) = (fab_of(fab), gid.parse::<u16>(), ep.parse::<u16>()) else { return Some("badop".into()) };
            matter.with_state(|state| match state.fabrics.fabric_mut(fab) {
                Err(e) => err_name(&e),
                Ok(f) => match f.groups_mut().add(ep, gid, "") {
                    Ok(true) => "member".into(),
                    Ok(false) => "new".into(),
                    Err(e) => err_name(&e),
                },
            })
        }
        ["grm", fab, ep, gid] => {
            let (Some(fab), Ok(ep)) = (fab_of(fab), ep.parse::<u16>()) else { return Some("badop".into()) };
            let gid: Option<u16> = opt_num(gid);
            matter.with_state(|state| match state.fabrics.fabric_mut(fab) {
                Err(e) => err_name(&e),
                Ok(f) => (if f.groups_mut().remove(ep, gid) { "yes" } else { "no" }).into(),
            })
        }
        ["join", fab, gid, eps, replace, policy] => {
            let (Some(fab), Ok(gid)) = (fab_of(fab), gid.parse::<u16>()) else { return Some("badop".into()) };
            let eps: Vec<u16> = if *eps == "-" { Vec::new() } else { eps.split(',').filter_map(|x| x.parse().ok()).collect() };
            use rs_matter::dm::clusters::groupcast::MulticastAddrPolicyEnum;
            let policy = match *policy {
                "0" => Some(MulticastAddrPolicyEnum::IanaAddr),
                "1" => Some(MulticastAddrPolicyEnum::PerGroup),
                _ => None,
            };
            matter.with_state(|state| match state.fabrics.fabric_mut(fab) {
                Err(e) => err_name(&e),
                Ok(f) => res_unit(f.groups_mut().groupcast_join(gid, &eps, *replace == "1", policy)),
            })
        }
        ["gcrm", fab, gid] => {
            let (Some(fab), Ok(gid)) = (fab_of(fab), gid.parse::<u16>()) else { return Some("badop".into()) };
            matter.with_state(|state| match state.fabrics.fabric_mut(fab) {
                Err(e) => err_name(&e),
                Ok(f) => (if f.groups_mut().groupcast_remove(gid) { "yes" } else { "no" }).into(),
            })
        }
        ["gauxr", fab, gid, v] => {
            let (Some(fab), Ok(gid)) = (fab_of(fab), gid.parse::<u16>()) else { return Some("badop".into()) };
            matter.with_state(|state| match state.fabrics.fabric_mut(fab) {
                Err(e) => err_name(&e),
                Ok(f) => (if f.groups_mut().set_has_aux_acl(gid, *v == "1") { "yes" } else { "no" }).into(),
            })
        }
        ["st", fab] => {
            let Some(fab) = fab_of(fab) else { return Some("badop".into()) };
            guarded(|| {
                let access = MemKvAccess(RefCell::new(vec![0u8; KV_BUF]));
                matter.with_state(|state| match state.fabrics.fabric(fab) {
                    Err(e) => err_name(&e),
                    Ok(f) => res_unit(FabricPersist::new(&access).store(f)),
                })
            })
        }
        ["strm", fab] => {
            let Some(fab) = fab_of(fab) else { return Some("badop".into()) };
            let access = MemKvAccess(RefCell::new(vec![0u8; KV_BUF]));
            res_unit(FabricPersist::new(&access).remove(fab))
        }
        ["load"] => guarded(|| {
            let mut buf = vec![0u8; KV_BUF];
            matter.with_state(|state| res_unit(state.fabrics.load_persist(&mut MemKv, &mut buf)))
        }),
        ["rollback", fab] => {
            let Some(fab) = fab_of(fab) else { return Some("badop".into()) };
            guarded(|| {
                let mut buf = vec![0u8; KV_BUF];
                matter.with_state(|state| {
                    // failsafe.rs, expiry of the fail-safe: the fabric is dropped and its stored record reloaded
                    let r: Result<(), Error> = (|| {
                        if state.fabrics.get(fab).is_some() {
                            state.fabrics.remove(fab)?;
                        }
                        state.fabrics.verif_add_load(fab.get(), &mut MemKv, &mut buf)
                    })();
                    res_unit(r)
                })
            })
        }
        ["sq", smode, sfab, peer, cats, gid, aux, ep, cl, leaf, opb, perms, dts] => {
            let Some(session) = make_session(smode, sfab, peer, cats, gid) else { return Some("badop".into()) };
            let aux = *aux == "1";
            let accessor = Accessor::for_session(&session, matter, aux);
            let path = GenericPath::new(opt_num(ep), opt_num(cl), opt_num(leaf));
            let dts: Vec<DeviceType> = if *dts == "-" { Vec::new() } else { dts.split(',').map(|d| DeviceType { dtype: d.parse().unwrap_or(0), drev: 1 }).collect() };
            let mut req = AccessReq::new(&accessor, path, Access::from_bits_retain(opb.parse().unwrap_or(0)), &dts);
            if *perms != "none" {
                req.set_target_perms(Access::from_bits_retain(perms.parse().unwrap_or(0)));
            }
            let allow = match std::panic::catch_unwind(std::panic::AssertUnwindSafe(|| req.allow())) {
                Ok(b) => b,
                Err(_) => return Some("panic".into()),
            };
            out.stat(&format!("sq_mode_{}", smode), 1);
            out.stat(if allow { "sq_allow" } else { "sq_deny" }, 1);
            let subj: String = format!("{}", accessor.subjects()).chars().filter(|c| *c != ' ').collect();
            format!(
                "{} {} {} {}",
                if allow { "allow" } else { "deny" },
                accessor.fab_idx().map(|x| x.get()).unwrap_or(0),
                match accessor.auth_mode() {
                    Some(m) => mode_char(m),
                    None => 'n',
                },
                subj
            )
        }
        ["sr", sfab, gid, endpoint] => {
            let Some(session) = make_session(&"g", sfab, &"-", &"0,0,0", gid) else { return Some("badop".into()) };
            let accessor = Accessor::for_session(&session, matter, false);
            match std::panic::catch_unwind(std::panic::AssertUnwindSafe(|| accessor.is_endpoint_accessible(endpoint.parse().unwrap_or(0)))) {
                Ok(b) => {
                    out.stat(if b { "sr_yes" } else { "sr_no" }, 1);
                    (if b { "yes" } else { "no" }).into()
                }
                Err(_) => "panic".into(),
            }
        }
        _ => return None,
    };
    Some(r)
}

/// a real `Session` in the given mode (`Session::new` + the `verif_set_session_mode` hook)
fn make_session(smode: &str, sfab: &str, peer: &str, cats: &str, gid: &str) -> Option<Session> {
    let peer: Option<u64> = if peer == "-" { None } else { Some(peer.parse().ok()?) };
    let mut s = Session::new(1, 0, false, Address::new(), peer, 300, 300, 4000);
    let sfab: u8 = sfab.parse().ok()?;
    let mode = match smode {
        "c" => {
            let c: Vec<u32> = cats.split(',').map(|x| x.parse().unwrap_or(0)).collect();
            if c.len() != 3 {
                return None;
            }
            SessionMode::Case { fab_idx: NonZeroU8::new(sfab)?, cat_ids: [c[0], c[1], c[2]] }
        }
        "p" => SessionMode::Pase { fab_idx: sfab },
        "g" => SessionMode::Group { fab_idx: NonZeroU8::new(sfab)?, group_id: gid.parse().ok()? },
        "x" => SessionMode::PlainText,
        _ => return None,
    };
    if smode != "x" {
        s.verif_set_session_mode(mode);
    }
    Some(s)
}

// ---------------------------------------------------------------------------------- generator

const H_NODE_IDS: [u64; 5] = [1, 2, 112233, 0xFFFF_FFEF_FFFF_FFFF, 77];
const H_BAD_CASE_SUBJECTS: [u64; 4] = [0, 0xFFFF_FFF0_0000_0000, 0xFFFF_FFFD_0000_0000, 0xFFFF_FFFF_FFFF_0001];
const H_CAT_IDS: [u32; 3] = [1, 2, 0xABCD];
const H_CAT_VERS: [u32; 5] = [1, 2, 3, 0xFFFE, 0xFFFF];
const H_GROUP_IDS: [u64; 5] = [1, 2, 3, 0x100, 0xFFFF];
const H_ENDPOINTS: [u16; 5] = [0, 1, 2, 3, 0xFFFE];
const H_CLUSTERS: [u32; 4] = [6, 8, 0x1F, 0x3E];
const H_DEV_TYPES: [u32; 3] = [0x16, 0x100, 0x101];

fn cat_subject(id: u32, ver: u32) -> u64 {
    rs_matter::acl::NOC_CAT_SUBJECT_PREFIX | (((id as u64) << 16) | ver as u64)
}

fn gen_subjects_text(r: &mut Rng, mode: char, allow_bad: bool, out: &mut Out) -> String {
    match r.below(10) {
        0 => "null".into(),
        1 => "e".into(),
        _ => {
            let n = if allow_bad && r.chance(1, 12) { MAX_SUBJECTS_PER_ACL_ENTRY + 1 } else { *r.pick(&[1usize, 1, 2, 3, MAX_SUBJECTS_PER_ACL_ENTRY]) };
            (0..n)
                .map(|_| {
                    if allow_bad && r.chance(1, 15) {
                        out.stat("hist_wire_bad_subject", 1);
                        if mode == 'g' { *r.pick(&[0u64, 65536, 0x1_0001]) } else { *r.pick(&H_BAD_CASE_SUBJECTS) }
                    } else if mode == 'g' {
                        *r.pick(&H_GROUP_IDS)
                    } else if r.chance(1, 2) {
                        cat_subject(*r.pick(&H_CAT_IDS), *r.pick(&H_CAT_VERS))
                    } else {
                        *r.pick(&H_NODE_IDS)
                    }
                    .to_string()
                })
                .collect::<Vec<_>>()
                .join(",")
        }
    }
}

fn gen_targets_text(r: &mut Rng, wire: bool, allow_bad: bool, out: &mut Out) -> String {
    match r.below(10) {
        0 => "null".into(),
        1 => "e".into(),
        _ => {
            let n = if allow_bad && r.chance(1, 12) { MAX_TARGETS_PER_ACL_ENTRY + 1 } else { *r.pick(&[1usize, 1, 2, MAX_TARGETS_PER_ACL_ENTRY]) };
            (0..n)
                .map(|_| {
                    // wire targets: endpoint and device type exclude each other, one component at least
                    let shape = if wire && !(allow_bad && r.chance(1, 12)) {
                        *r.pick(&[1u64, 2, 3, 4, 6])
                    } else {
                        if wire {
                            out.stat("hist_wire_bad_target_shape", 1);
                        }
                        r.below(8)
                    };
                    let ep = if shape & 1 != 0 { Some(*r.pick(&H_ENDPOINTS)) } else { None };
                    let cl = if shape & 2 != 0 { Some(*r.pick(&H_CLUSTERS)) } else { None };
                    let dt = if shape & 4 != 0 { Some(*r.pick(&H_DEV_TYPES)) } else { None };
                    format!("{}/{}/{}", fmt_opt(&ep, "-"), fmt_opt(&cl, "-"), fmt_opt(&dt, "-"))
                })
                .collect::<Vec<_>>()
                .join(";")
        }
    }
}

/// a wire entry: mostly one the handler accepts, with single-aspect deviations
fn gen_wire(r: &mut Rng, out: &mut Out) -> String {
    let bad = r.chance(1, 4);
    let mode = *r.pick(&['c', 'c', 'g']);
    let mut auth = if mode == 'c' { "2".to_string() } else { "3".to_string() };
    let mut privilege = if mode == 'g' { r.range(1, 4).to_string() } else { r.range(1, 5).to_string() };
    let mut aux = "-".to_string();
    if bad {
        match r.below(8) {
            0 => { out.stat("hist_wire_pase", 1); auth = "1".into() }
            1 => { out.stat("hist_wire_group_admin", 1); auth = "3".into(); privilege = "5".into() }
            2 => { out.stat("hist_wire_bad_enum", 1); if r.chance(1, 2) { auth = r.pick(&["0", "4", "9"]).to_string() } else { privilege = r.pick(&["0", "6", "200"]).to_string() } }
            3 => { out.stat("hist_wire_absent_field", 1); if r.chance(1, 2) { auth = "-".into() } else { privilege = "-".into() } }
            4 => { out.stat("hist_wire_aux_present", 1); aux = r.pick(&["0", "1", "7"]).to_string() }
            _ => {}
        }
    }
    let subjects = if bad && r.chance(1, 16) { out.stat("hist_wire_absent_field", 1); "-".to_string() } else { gen_subjects_text(r, mode, bad, out) };
    let targets = if bad && r.chance(1, 16) { out.stat("hist_wire_absent_field", 1); "-".to_string() } else { gen_targets_text(r, true, bad, out) };
    format!("{}~{}~{}~{}~{}", privilege, auth, subjects, targets, aux)
}

fn gen_raw(r: &mut Rng, out: &mut Out, uniform: bool) -> String {
    let mode = *r.pick(&['c', 'c', 'c', 'g', 'g', 'p']);
    let pb: u8 = if uniform || r.chance(1, 12) {
        out.stat("entry_priv_raw_bits", 1);
        r.below(32) as u8
    } else {
        out.stat("entry_priv_canonical", 1);
        *r.pick(&[Privilege::VIEW.bits(), Privilege::OPERATE.bits(), Privilege::MANAGE.bits(), Privilege::ADMIN.bits(), Privilege::PROXYVIEW.bits()])
    };
    format!("{} {} {} {}", pb, mode, gen_subjects_text(r, mode, false, out), gen_targets_text(r, false, false, out))
}

/// one history case: production mutators chosen against the REAL table (so that most of them
/// hit existing fabrics / indices), each followed by a dump of the table; batches of queries
/// aimed at the entries and groups that really are there
pub(crate) fn gen_hist_case(matter: &Matter<'_>, r: &mut Rng, out: &mut Out, id: u64, thorough: bool) {
    super::reset(matter);
    let uniform = r.chance(1, 8);
    out.case(id, if uniform { "acl hist uniform" } else { "acl hist" });
    let steps = if thorough { r.range(10, 60) } else { r.range(8, 36) };
    let mut allow = false;
    let mut deny = false;
    let emit = |matter: &Matter<'_>, out: &mut Out, op: String, allow: &mut bool, deny: &mut bool| {
        let (o, q) = super::run_op(matter, &op, out);
        out.op(&op, &o);
        if let Some(q) = q {
            if !q.pase {
                *allow |= q.allow;
                *deny |= !q.allow;
            }
        }
        o
    };
    for _ in 0..steps {
        let snap = snapshot(matter);
        let stored: Vec<u8> = KV.with(|kv| kv.borrow().keys().map(|k| *k as u8).collect());
        // the fabric an operation addresses: mostly an existing one
        let pick_fab = |r: &mut Rng| -> u8 {
            if !snap.is_empty() && r.chance(9, 10) {
                snap[r.below(snap.len() as u64) as usize].idx
            } else {
                *r.pick(&[1u8, 2, 3, 7, 200, 255])
            }
        };
        let mut fab = pick_fab(r);
        let sel = r.below(100);
        // operations that address an entry by index: mostly on a fabric that has entries
        let by_index = (16..20).contains(&sel) || (30..40).contains(&sel) || (54..60).contains(&sel);
        let with_acl: Vec<u8> = snap.iter().filter(|f| !f.entries.is_empty()).map(|f| f.idx).collect();
        if by_index && !with_acl.is_empty() && r.chance(5, 6) {
            fab = *r.pick(&with_acl);
        }
        let nacl = snap.iter().find(|f| f.idx == fab).map(|f| f.entries.len()).unwrap_or(0);
        let pick_idx = |r: &mut Rng| -> usize {
            if nacl > 0 && r.chance(5, 6) { r.below(nacl as u64) as usize } else { nacl + r.below(2) as usize }
        };
        let gids: Vec<u64> = snap.iter().find(|f| f.idx == fab).map(|f| f.groups.iter().map(|g| g.0).collect()).unwrap_or_default();
        let pick_gid = |r: &mut Rng| -> u64 {
            if !gids.is_empty() && r.chance(3, 4) { *r.pick(&gids) } else { *r.pick(&H_GROUP_IDS) }
        };
        let other_fab = |r: &mut Rng| -> String {
            match r.below(4) {
                0 => "-".to_string(),
                1 => fab.to_string(),
                _ => r.pick(&[1u8, 2, 3, 9]).to_string(),
            }
        };
        let op: String = if snap.is_empty() || sel < 8 {
            if r.chance(1, 2) {
                out.stat("hist_op_fab_with_admin_entry", 1);
                format!("faba {}", r.pick(&H_NODE_IDS))
            } else {
                out.stat("hist_op_fab", 1);
                "fab".into()
            }
        } else if sel < 11 {
            out.stat("hist_op_rmfab", 1);
            format!("rmfab {}", fab)
        } else if sel < 16 {
            out.stat("hist_op_acl_add", 1);
            format!("acl {} {}", fab, gen_raw(r, out, uniform))
        } else if sel < 20 {
            out.stat("hist_op_acl_update", 1);
            format!("aupd {} {} {}", fab, pick_idx(r), gen_raw(r, out, uniform))
        } else if sel < 24 {
            out.stat("hist_op_acl_add_init_raw", 1);
            format!("ainit {} r {} {}", fab, other_fab(r), gen_raw(r, out, uniform))
        } else if sel < 30 {
            out.stat("hist_op_acl_add_init_wire", 1);
            let ifab = if r.chance(2, 3) { fab } else { *r.pick(&[1u8, 2, 3, 9]) };
            format!("ainit {} t {} {}", fab, ifab, gen_wire(r, out))
        } else if sel < 33 {
            out.stat("hist_op_acl_update_init_raw", 1);
            format!("uinit {} {} r {} {}", fab, pick_idx(r), other_fab(r), gen_raw(r, out, uniform))
        } else if sel < 37 {
            out.stat("hist_op_acl_update_init_wire", 1);
            let ifab = if r.chance(2, 3) { fab } else { *r.pick(&[1u8, 2, 3, 9]) };
            format!("uinit {} {} t {} {}", fab, pick_idx(r), ifab, gen_wire(r, out))
        } else if sel < 40 {
            out.stat("hist_op_acl_remove", 1);
            format!("arm {} {}", fab, pick_idx(r))
        } else if sel < 41 {
            out.stat("hist_op_acl_remove_all", 1);
            format!("aclr {}", fab)
        } else if sel < 48 {
            out.stat("hist_op_handler_replace", 1);
            let n = *r.pick(&[0usize, 1, 1, 2, 3, MAX_ACL_ENTRIES_PER_FABRIC, MAX_ACL_ENTRIES_PER_FABRIC + 1]);
            let l: Vec<String> = (0..n).map(|_| gen_wire(r, out)).collect();
            format!("hw {} replace {}", fab, if l.is_empty() { "-".to_string() } else { l.join("|") })
        } else if sel < 54 {
            out.stat("hist_op_handler_add", 1);
            format!("hw {} add {}", fab, gen_wire(r, out))
        } else if sel < 57 {
            out.stat("hist_op_handler_update", 1);
            format!("hw {} upd {} {}", fab, pick_idx(r), gen_wire(r, out))
        } else if sel < 60 {
            out.stat("hist_op_handler_remove", 1);
            format!("hw {} rm {}", fab, pick_idx(r))
        } else if sel < 65 {
            out.stat("hist_op_group_add", 1);
            format!("gadd {} {} {}", fab, pick_gid(r), r.pick(&H_ENDPOINTS))
        } else if sel < 69 {
            out.stat("hist_op_group_remove", 1);
            format!("grm {} {} {}", fab, r.pick(&H_ENDPOINTS), if r.chance(1, 3) { "*".to_string() } else { pick_gid(r).to_string() })
        } else if sel < 75 {
            out.stat("hist_op_group_join", 1);
            let n = *r.pick(&[0usize, 1, 2, 2, GROUP_ENDPOINTS_PER_FABRIC, GROUP_ENDPOINTS_PER_FABRIC + 1]);
            let eps: Vec<String> = (0..n).map(|_| r.pick(&H_ENDPOINTS).to_string()).collect();
            format!("join {} {} {} {} {}", fab, pick_gid(r), if eps.is_empty() { "-".to_string() } else { eps.join(",") }, r.below(2), r.pick(&["-", "0", "1"]))
        } else if sel < 77 {
            out.stat("hist_op_groupcast_remove", 1);
            format!("gcrm {} {}", fab, pick_gid(r))
        } else if sel < 81 {
            out.stat("hist_op_group_set_aux", 1);
            format!("gauxr {} {} {}", fab, pick_gid(r), if r.chance(3, 4) { 1 } else { 0 })
        } else if sel < 90 {
            out.stat("hist_op_store", 1);
            format!("st {}", fab)
        } else if sel < 92 {
            out.stat("hist_op_store_remove", 1);
            format!("strm {}", if !stored.is_empty() && r.chance(3, 4) { *r.pick(&stored) } else { fab })
        } else if sel < 95 {
            out.stat("hist_op_load", 1);
            "load".into()
        } else if sel < 96 && r.chance(1, 3) {
            out.stat("hist_op_reset_persist", 1);
            "wipe".into()
        } else {
            out.stat("hist_op_reload", 1);
            format!("rollback {}", if !stored.is_empty() && r.chance(1, 2) { *r.pick(&stored) } else { fab })
        };
        let is_handler = op.starts_with("hw ");
        let res = emit(matter, out, op, &mut allow, &mut deny);
        // the handler persists the fabric after a successful write (unless the fail-safe defers it)
        if is_handler && res == "ok" && r.chance(4, 5) {
            emit(matter, out, format!("st {}", fab), &mut allow, &mut deny);
        }
        emit(matter, out, "dump".into(), &mut allow, &mut deny);
        if r.chance(1, 3) {
            let snap = snapshot(matter);
            let mut missing: Vec<u8> = vec![200, 255];
            missing.push(snap.iter().map(|f| f.idx).max().unwrap_or(0).saturating_add(1));
            let mut qs: Vec<String> = Vec::new();
            let nq = r.range(2, 6) as usize;
            super::gen_queries(r, out, &snap, &missing, uniform, nq, &mut qs);
            for q in qs {
                emit(matter, out, q, &mut allow, &mut deny);
            }
            // the same kind of request through a real session
            for _ in 0..r.range(0, 2) {
                let q = gen_session_query(r, &snap, &missing);
                emit(matter, out, q, &mut allow, &mut deny);
            }
        }
    }
    if allow && deny {
        out.buf.push_str("#nt\n");
    }
}

/// a request of a real session: mode x fabric x peer node id x tags, aimed at an entry of the
/// session's fabric
pub(crate) fn gen_session_query(r: &mut Rng, fabs: &[GFab], missing: &[u8]) -> String {
    let gf: Option<&GFab> = if !fabs.is_empty() && r.chance(4, 5) { Some(&fabs[r.below(fabs.len() as u64) as usize]) } else { None };
    let sfab: u8 = match gf {
        Some(f) => f.idx,
        None => *r.pick(missing),
    };
    if r.chance(1, 6) {
        // reachability of a group session
        let gid = match gf {
            Some(f) if !f.groups.is_empty() && r.chance(3, 4) => f.groups[r.below(f.groups.len() as u64) as usize].0,
            _ => *r.pick(&H_GROUP_IDS),
        };
        return format!("sr {} {} {}", sfab, gid, r.pick(&H_ENDPOINTS));
    }
    let smode = *r.pick(&["c", "c", "c", "c", "g", "g", "p", "x"]);
    // (a peer node id shaped like a tag: the certificate's node id is not range-checked)
    let mut peer: Option<u64> = Some(if r.chance(1, 12) { cat_subject(*r.pick(&H_CAT_IDS), *r.pick(&H_CAT_VERS)) } else { *r.pick(&H_NODE_IDS) });
    let mut cats: [u32; 3] = [0, 0, 0];
    for c in cats.iter_mut() {
        if r.chance(1, 2) {
            *c = (*r.pick(&H_CAT_IDS) << 16) | *r.pick(&H_CAT_VERS);
        }
    }
    let mut gid: u64 = *r.pick(&H_GROUP_IDS);
    let mut ep: Option<u16> = Some(*r.pick(&H_ENDPOINTS));
    let mut cl: Option<u32> = Some(*r.pick(&H_CLUSTERS));
    let mut dts: Vec<u32> = Vec::new();
    if let Some(f) = gf {
        let want = if smode == "g" { 'g' } else { 'c' };
        let es: Vec<&GEntry> = f.entries.iter().filter(|e| e.mode == want).collect();
        if !es.is_empty() && r.chance(5, 6) {
            let e = es[r.below(es.len() as u64) as usize];
            if let Some(ss) = &e.subjects {
                if !ss.is_empty() && r.chance(5, 6) {
                    let s = *r.pick(ss);
                    if (s >> 32) == 0xFFFF_FFFD && (s & 0xFFFF_FFFF) != 0 {
                        let ver = (s & 0xFFFF) as u32;
                        let v = match r.below(3) {
                            0 => ver.saturating_add(1).min(0xFFFF),
                            1 => ver,
                            _ => ver.saturating_sub(1),
                        };
                        cats[r.below(3) as usize] = ((((s >> 16) & 0xFFFF) as u32) << 16) | v;
                    } else if smode == "g" {
                        gid = s & 0xFFFF;
                    } else {
                        peer = Some(s);
                    }
                }
            }
            if let Some(ts) = &e.targets {
                if !ts.is_empty() && r.chance(5, 6) {
                    let t = r.pick(ts);
                    if let Some(x) = t.0 { ep = Some(x); }
                    if let Some(x) = t.1 { cl = Some(x); }
                    if let Some(x) = t.2 { dts.push(x); }
                }
            }
        }
    }
    if r.chance(1, 10) {
        peer = None;
    }
    if r.chance(1, 12) {
        ep = None;
    }
    if r.chance(1, 12) {
        cl = None;
    }
    // the fabric index of a PASE session: 0 until AddNOC, then the new fabric's
    let sfab = if smode == "p" && r.chance(1, 2) { 0 } else if (smode == "c" || smode == "g") && sfab == 0 { 1 } else { sfab };
    let opb = if r.chance(1, 2) { Access::READ.bits() } else { Access::WRITE.bits() };
    let perms = r.pick(&super::declared_perms()).to_string();
    format!(
        "sq {} {} {} {},{},{} {} {} {} {} {} {} {} {}",
        smode,
        sfab,
        fmt_opt(&peer, "-"),
        cats[0],
        cats[1],
        cats[2],
        gid,
        if r.chance(1, 5) { 1 } else { 0 },
        fmt_opt(&ep, "*"),
        fmt_opt(&cl, "*"),
        r.below(4),
        opb,
        perms,
        if dts.is_empty() { "-".to_string() } else { dts.iter().map(|c| c.to_string()).collect::<Vec<_>>().join(",") },
    )
}

pub(crate) fn enums_line() -> String {
    "enums 1 2 3 4 5 1 2 3".to_string()
}

#[allow(dead_code)]
pub(crate) fn caps() -> (usize, usize, usize) {
    (MAX_FABRICS, MAX_GROUPS_PER_FABRIC, GROUP_ENDPOINTS_PER_FABRIC)
}
