import Driver.Util
/-! Driver for C19: not built yet. -/
namespace Driver.C19

def run : IO UInt32 := do
  IO.eprintln "C19: driver not built yet"
  return 2

end Driver.C19
