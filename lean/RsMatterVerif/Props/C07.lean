/-! # C07 — property theorems (not built yet) -/
