import RsMatterVerif.Lemmas.SubsLive
/-!
# Delivery in a bounded window (C13): which report carries an owed change, and when it begins

The statements here need **no fairness**: they are about every schedule (history) of table
operations. `Lemmas/SubsLive.lean` has the older, weak eventuality (`eventually_not_owes`), which is
implied by expiry alone.
-/
namespace Subs

/-- no restart of the device at the steps `a ≤ t < b` -/
def NoRestart (sched : Nat → Op) (a b : Nat) : Prop :=
  ∀ t, a ≤ t → t < b → ∀ now ev, sched t ≠ .restart now ev

theorem NoRestart.mono {sched : Nat → Op} {a b a' b' : Nat} (h : NoRestart sched a b) (ha : a ≤ a')
    (hb : b' ≤ b) : NoRestart sched a' b' := fun t h1 h2 => h t (by omega) (by omega)

theorem epoch_const {hz n : Nat} {sched : Nat → Op} {a : Nat} : ∀ (d : Nat), NoRestart sched a (a + d) →
    (stateAt hz n sched (a + d)).epoch = (stateAt hz n sched a).epoch
  | 0, _ => rfl
  | d + 1, h => by
    have ih := epoch_const (hz := hz) (n := n) d (h.mono (Nat.le_refl _) (by omega))
    show ((stateAt hz n sched (a + d)).step (sched (a + d))).epoch = _
    rw [epoch_step _ _ (h (a + d) (by omega) (by omega)), ih]

theorem epoch_const_le {hz n : Nat} {sched : Nat → Op} {a b : Nat} (hab : a ≤ b) (h : NoRestart sched a b) :
    (stateAt hz n sched b).epoch = (stateAt hz n sched a).epoch := by
  have := epoch_const (hz := hz) (n := n) (a := a) (b - a) (by rwa [show a + (b - a) = b by omega])
  rwa [show a + (b - a) = b by omega] at this

/-- within one boot the ghost log only grows -/
theorem log_mono {hz n : Nat} {sched : Nat → Op} {a : Nat} {ip : Nat × Entry}
    (hl : ip ∈ (stateAt hz n sched a).log) : ∀ (d : Nat), NoRestart sched a (a + d) →
    ip ∈ (stateAt hz n sched (a + d)).log
  | 0, _ => hl
  | d + 1, h => by
    have ih := log_mono hl d (h.mono (Nat.le_refl _) (by omega))
    exact log_mono_step (sched (a + d)) (epoch_step _ _ (h (a + d) (by omega) (by omega))) ih

theorem log_mono_le {hz n : Nat} {sched : Nat → Op} {a b : Nat} {ip : Nat × Entry} (hab : a ≤ b)
    (h : NoRestart sched a b) (hl : ip ∈ (stateAt hz n sched a).log) : ip ∈ (stateAt hz n sched b).log := by
  have := log_mono hl (b - a) (by rwa [show a + (b - a) = b by omega])
  rwa [show a + (b - a) = b by omega] at this

/-- **a report begins at step `j`**: the reporter's `report` call of step `j` creates the context `c`
(it was not there before, it is there afterwards) -/
def BeginsAt (hz n : Nat) (sched : Nat → Op) (j : Nat) (c : Ctx) : Prop :=
  ∃ now ev, sched j = .report now ev ∧ c ∉ (stateAt hz n sched j).ctxs ∧ c ∈ (stateAt hz n sched (j + 1)).ctxs

/-- what the context of a report that begins at step `j` carries: a subscription of the table that is
reportable at the clock of the call, the current change-id watermark, the clock and the event
watermark of the call; it occupies the `reporting` slot -/
theorem begins_fields {hz n : Nat} {sched : Nat → Op} {j : Nat} {c : Ctx} (h : BeginsAt hz n sched j c) :
    ∃ now ev, sched j = .report now ev ∧ c.sub ∈ (stateAt hz n sched j).subs ∧
      c.nextAttr = (stateAt hz n sched j).changed.watermark ∧ c.nextReportedAt = now ∧ c.nextEv = ev ∧
      c.sub.isReportable hz now (stateAt hz n sched j).changed.entries ev = true ∧
      (stateAt hz n sched (j + 1)).reporting = some c.sub := by
  obtain ⟨now, ev, hs, hn, hm⟩ := h
  refine ⟨now, ev, hs, ?_⟩
  have hm' : c ∈ ((stateAt hz n sched j).step (sched j)).ctxs := hm
  have hst : stateAt hz n sched (j + 1) = ((stateAt hz n sched j).report now ev).1 := by
    show (stateAt hz n sched j).step (sched j) = _
    rw [hs]; rfl
  rw [hs] at hm'
  simp only [State.step] at hm'
  -- unfold `report` by hand to keep the position of the chosen subscription
  unfold State.report findReportable at hm' hst
  cases hf : (stateAt hz n sched j).subs.findIdx? (fun x => x.isReportable (stateAt hz n sched j).hz now
      (stateAt hz n sched j).changed.entries ev) with
  | none => rw [hf] at hm'; exact absurd hm' hn
  | some i =>
    rw [hf] at hm' hst
    simp only at hm' hst
    cases hsub : (stateAt hz n sched j).subs[i]? with
    | none => rw [hsub] at hm'; exact absurd hm' hn
    | some sub =>
      rw [hsub] at hm' hst
      simp only [List.mem_append, List.mem_singleton] at hm'
      rcases hm' with hm' | hm'
      · exact absurd hm' hn
      · subst hm'
        obtain ⟨hi, hp, _⟩ := List.findIdx?_eq_some_iff_getElem.mp hf
        have hsi : (stateAt hz n sched j).subs[i] = sub := by
          rw [List.getElem?_eq_getElem hi] at hsub; simpa using hsub
        refine ⟨List.mem_of_getElem? hsub, rfl, rfl, rfl, ?_, ?_⟩
        · simp only
          have hp' := hp
          rw [hsi, hz_stateAt hz n sched j] at hp'
          exact hp'
        · rw [hst]

/-- **(a1) the snapshot of a report that begins after a change was recorded covers the change** -/
theorem begin_snapshot_covers {hz n : Nat} {sched : Nat → Op}
    (hw : ∀ k, (stateAt hz n sched k).changed.nextId + 1 < U64) {k j : Nat} {c : Ctx} {i : Nat} {p : Entry}
    (hlog : (i, p) ∈ (stateAt hz n sched k).log) (hkj : k ≤ j) (hnr : NoRestart sched k j)
    (hb : BeginsAt hz n sched j c) : i ≤ c.nextAttr := by
  obtain ⟨now, ev, _, _, hna, _⟩ := begins_fields hb
  obtain ⟨hwf, _, _⟩ := inv_stateAt hz n sched hw j
  have h3 := watermark_eq hwf.nextPos hwf.nextLt
  have h4 := hwf.logBelow (i, p) (log_mono_le hkj hnr hlog)
  simp only at h4
  omega

/-- **(a2) while the context is alive the report's filter selects every attribute the change
touches** (`Cov` in the state at `t` + `owed_in_report`) -/
theorem owed_selected_while_alive {hz n : Nat} {sched : Nat → Op}
    (hw : ∀ k, (stateAt hz n sched k).changed.nextId + 1 < U64) {k t : Nat} {c : Ctx} {i : Nat} {p : Entry}
    (hlog : (i, p) ∈ (stateAt hz n sched k).log) (hkt : k ≤ t) (hnr : NoRestart sched k t)
    (hc : c ∈ (stateAt hz n sched t).ctxs) (hlt : c.sub.seenAttr < i) {ep cl attr : Nat}
    (hm : p.matchesPath ep cl attr = true) : (stateAt hz n sched t).shouldReportAttr c ep cl attr = true := by
  obtain ⟨_, hcov, _⟩ := inv_stateAt hz n sched hw t
  have hl := log_mono_le hkt hnr hlog
  unfold State.shouldReportAttr
  split
  · rfl
  · have hlive : c.sub ∈ (stateAt hz n sched t).live := mem_live.mpr (Or.inr ⟨c, hc, rfl⟩)
    obtain ⟨e, he, h1, h2⟩ := hcov c.sub hlive (i, p) hl hlt
    unfold containsSince
    rw [List.any_eq_true]
    refine ⟨e, he, ?_⟩
    simp only [Bool.and_eq_true, decide_eq_true_eq]
    exact ⟨by simp only at h2; omega, matchesPath_of_covers h1 hm⟩

/-- **(a3) an acknowledged report ends the debt**: if the context whose snapshot covers change `i` ends
with `keep`, the subscription does not owe `i` afterwards -/
theorem keep_ends_debt {hz n : Nat} {sched : Nat → Op}
    (hw : ∀ k, (stateAt hz n sched k).changed.nextId + 1 < U64) {m : Nat} {c : Ctx} {i ep : Nat}
    (hc : c ∈ (stateAt hz n sched m).ctxs) (hs : sched m = .fin c.sub.id .keep) (hge : i ≤ c.nextAttr) :
    ¬ Owes (stateAt hz n sched (m + 1)) ep c.sub.id i := by
  intro ho
  have ho' : Owes ((stateAt hz n sched m).fin c.sub.id .keep).1 ep c.sub.id i := by
    have : stateAt hz n sched (m + 1) = ((stateAt hz n sched m).fin c.sub.id .keep).1 := by
      show (stateAt hz n sched m).step (sched m) = _
      rw [hs]; rfl
    rwa [this] at ho
  obtain ⟨_, hlt⟩ := fin_own (inv_stateAt hz n sched hw m).2.2 hc rfl ho'
  simp only [finSub, Ctx.commit] at hlt
  omega

/-- **(c) a failed report keeps the debt**: if the context ends with `retry` and the subscription is
still alive afterwards, it is back in the table with the same watermark and the same last-success
instant (what it owed it still owes; the next report that begins is covered by (a) again) -/
theorem retry_returns_same {hz n : Nat} {sched : Nat → Op}
    (hw : ∀ k, (stateAt hz n sched k).changed.nextId + 1 < U64) {m : Nat} {c : Ctx} {i ep : Nat}
    (hc : c ∈ (stateAt hz n sched m).ctxs) (hs : sched m = .fin c.sub.id .retry)
    (ho : Owes (stateAt hz n sched (m + 1)) ep c.sub.id i) :
    ∃ x ∈ (stateAt hz n sched (m + 1)).subs, x.id = c.sub.id ∧ x.seenAttr = c.sub.seenAttr ∧
      x.seenEv = c.sub.seenEv ∧ x.reportedAt = c.sub.reportedAt ∧ x.maxInt = c.sub.maxInt ∧
      x.minInt = c.sub.minInt := by
  have hst : stateAt hz n sched (m + 1) = ((stateAt hz n sched m).fin c.sub.id .retry).1 := by
    show (stateAt hz n sched m).step (sched m) = _
    rw [hs]; rfl
  rw [hst] at ho ⊢
  obtain ⟨hm, _⟩ := fin_own (inv_stateAt hz n sched hw m).2.2 hc rfl ho
  exact ⟨_, hm, by simp [finSub, Ctx.commit, Ctx.setKeepRetry], by simp [finSub, Ctx.commit, Ctx.setKeepRetry],
    by simp [finSub, Ctx.commit, Ctx.setKeepRetry], by simp [finSub, Ctx.commit, Ctx.setKeepRetry],
    by simp [finSub, Ctx.commit, Ctx.setKeepRetry], by simp [finSub, Ctx.commit, Ctx.setKeepRetry]⟩

/-! ## (b) progress: when the report of an owing subscription begins -/

/-- `x` is **first in line** at a `report` call: no subscription ahead of it in table order is
reportable (`find_reportable` takes the first reportable position) -/
def FirstInLine (hz : Nat) (subs : List Sub) (x : Sub) (now : Nat) (es : List Entry) (ev : Nat) : Prop :=
  ∃ pre post, subs = pre ++ x :: post ∧ ∀ y ∈ pre, y.isReportable hz now es ev = false

theorem findIdx_first {α} (q : α → Bool) : ∀ (pre : List α) (x : α) (post : List α),
    (∀ y ∈ pre, q y = false) → q x = true → (pre ++ x :: post).findIdx? q = some pre.length
  | [], x, post, _, hx => by simp [List.findIdx?_cons, hx]
  | a :: pre, x, post, hpre, hx => by
    have ha : q a = false := hpre a (by simp)
    have ih := findIdx_first q pre x post (fun y hy => hpre y (List.mem_cons_of_mem _ hy)) hx
    simp only [List.cons_append, List.findIdx?_cons, ha, Bool.false_eq_true, if_false, ih, List.length_cons,
      Option.map_some]

/-- a subscription of the table has no namesake among the contexts -/
theorem uid_table_ctx {s : State} (hu : UID s) {x : Sub} (hx : x ∈ s.subs) {c : Ctx} (hc : c ∈ s.ctxs) :
    c.sub.id ≠ x.id := by
  have h1 := hu.nodup
  simp only [State.live, List.map_append] at h1
  have := (List.nodup_append.mp h1).2.2 x.id (List.mem_map_of_mem hx) c.sub.id
    (by simp only [List.map_map]; exact List.mem_map.mpr ⟨c, hc, rfl⟩)
  exact fun h => this h.symm

/-- a `report` call serves the first reportable subscription of the table: it is taken out of the
table and a context with the current snapshot is created for it -/
theorem report_serves_first {s : State} {now ev : Nat} {x : Sub}
    (hfl : FirstInLine s.hz s.subs x now s.changed.entries ev)
    (hr : x.isReportable s.hz now s.changed.entries ev = true) :
    (s.report now ev).2 = some x.id ∧
    { sub := x, nextAttr := s.changed.watermark, nextEv := ev, nextReportedAt := now, nextRetryAt := 0,
      nextFail := 0 : Ctx } ∈ (s.report now ev).1.ctxs := by
  obtain ⟨pre, post, hsubs, hpre⟩ := hfl
  have hf : findReportable s.hz s.subs now s.changed.entries ev = some pre.length := by
    unfold findReportable
    rw [hsubs]
    exact findIdx_first _ pre x post hpre hr
  have hg : s.subs[pre.length]? = some x := by rw [hsubs]; simp
  unfold State.report
  rw [hf]
  simp only [hg]
  exact ⟨trivial, List.mem_append_right _ (List.mem_singleton.mpr rfl)⟩

/-- **(b) Progress, per reporter call — no fairness assumed.** Let subscription `x` of the table owe
change `(i, p)` recorded by step `k`. At **any** later call `report(now, ev)` of the reporter (step `j`,
no restart in between) at which `x` is still in the table, its gate is open
(`report_allowed_at = max(reported_at + min_interval, retry gate) ≤ now`) and no subscription ahead of
it in the table is reportable, **`x`'s report begins**: a context for `x` is created whose snapshot
covers the change and whose begin instant is `now`. The latency of delivery is therefore the time until
the first reporter call after the gate at which `x` is first in line (and the reporter's wake-up is not
later than the gate: `wake_not_late`); with other reportable subscriptions ahead, each call serves one
of them (`report_progress`) — see `starvation_cycle` for the load under which `x` is overtaken for
ever. -/
theorem owed_report_begins_at_call {hz n : Nat} {sched : Nat → Op}
    (hw : ∀ k, (stateAt hz n sched k).changed.nextId + 1 < U64) {k j : Nat} {x : Sub} {i : Nat} {p : Entry}
    (hlog : (i, p) ∈ (stateAt hz n sched k).log) (hkj : k ≤ j) (hnr : NoRestart sched k j)
    (hx : x ∈ (stateAt hz n sched j).subs) (hlt : x.seenAttr < i) {now ev : Nat}
    (hs : sched j = .report now ev) (hgate : x.reportAllowedAt hz ≤ now)
    (hfirst : FirstInLine hz (stateAt hz n sched j).subs x now (stateAt hz n sched j).changed.entries ev) :
    ∃ c, BeginsAt hz n sched j c ∧ c.sub = x ∧ i ≤ c.nextAttr ∧ c.nextReportedAt = now := by
  obtain ⟨hwf, hcov, hu⟩ := inv_stateAt hz n sched hw j
  have hl := log_mono_le hkj hnr hlog
  -- pending, hence reportable
  obtain ⟨e, he, _, h2⟩ := hcov x (by simp [State.live, hx]) (i, p) hl hlt
  have hpend : x.pending (stateAt hz n sched j).changed.entries ev = true := by
    unfold Sub.pending anySince
    rw [Bool.or_eq_true]; left
    rw [List.any_eq_true]
    exact ⟨e, he, by simp only [decide_eq_true_eq]; simp only at h2; omega⟩
  have hrep : x.isReportable (stateAt hz n sched j).hz now (stateAt hz n sched j).changed.entries ev = true := by
    rw [hz_stateAt]
    simp [Sub.isReportable, hpend, hgate]
  have hfl' : FirstInLine (stateAt hz n sched j).hz (stateAt hz n sched j).subs x now
      (stateAt hz n sched j).changed.entries ev := by rw [hz_stateAt]; exact hfirst
  obtain ⟨_, hmem⟩ := report_serves_first hfl' hrep
  refine ⟨{ sub := x, nextAttr := (stateAt hz n sched j).changed.watermark, nextEv := ev, nextReportedAt := now,
            nextRetryAt := 0, nextFail := 0 }, ⟨now, ev, hs, ?_, ?_⟩, rfl, ?_, rfl⟩
  · intro hc
    exact uid_table_ctx hu hx hc rfl
  · show _ ∈ ((stateAt hz n sched j).step (sched j)).ctxs
    rw [hs]; exact hmem
  · have h3 := watermark_eq hwf.nextPos hwf.nextLt
    have h4 := hwf.logBelow (i, p) hl
    simp only at h4 ⊢
    omega

/-- the only subscription of the table is first in line -/
theorem firstInLine_sole (hz : Nat) (x : Sub) (now : Nat) (es : List Entry) (ev : Nat) :
    FirstInLine hz [x] x now es ev := ⟨[], [], rfl, fun _ h => by cases h⟩

/-! ## tracking the last-success instant of one subscription along a history (timing on runs) -/

theorem reportComplete_live_drop (s : State) (sub : Sub) : (s.reportComplete sub false).live = s.live := by
  unfold State.reportComplete
  simp only [Bool.false_eq_true, if_false]
  repeat' split
  all_goals rfl

/-- where a live subscription comes from after a context ended -/
theorem fin_live_origin {s : State} (hu : UID s) {id : Nat} {f : Fin} {y : Sub}
    (hy : y ∈ (s.fin id f).1.live) :
    (y ∈ s.live ∧ (y.id ≠ id ∨ (s.fin id f).1 = s)) ∨
    (∃ c ∈ s.ctxs, c.sub.id = id ∧ finKeep f = true ∧ y = finSub s.hz c f) := by
  cases hf : s.ctxs.find? (fun c => c.sub.id == id) with
  | none => rw [fin_none hf] at hy; exact Or.inl ⟨hy, Or.inr (fin_none hf)⟩
  | some c =>
    have hcm : c ∈ s.ctxs := List.mem_of_find?_eq_some hf
    have hcp : c.sub.id = id := by simpa using List.find?_some hf
    rw [fin_eq hf] at hy
    have he := live_erase hf
    have hex := uid_excl hu (rem := [c.sub]) (t := { s with ctxs := s.ctxs.eraseP (fun c => c.sub.id == id) })
      (by simpa using he) (List.mem_singleton.mpr rfl)
    have hold : ∀ z ∈ ({ s with ctxs := s.ctxs.eraseP (fun c => c.sub.id == id) } : State).live,
        z ∈ s.live ∧ z.id ≠ id := by
      intro z hz
      exact ⟨he.mem_iff.mp (List.mem_cons_of_mem _ hz), by rw [← hcp]; exact hex z hz⟩
    by_cases hk : finKeep f = true
    case neg =>
      have hk' : finKeep f = false := by simpa using hk
      rw [hk', reportComplete_live_drop] at hy
      obtain ⟨h1, h2⟩ := hold y hy
      exact Or.inl ⟨h1, Or.inl h2⟩
    case pos =>
      rcases reportComplete_live ({ s with ctxs := s.ctxs.eraseP (fun c => c.sub.id == id) })
        (finSub s.hz c f) (finKeep f) with hl | hl
      · rw [hl] at hy
        obtain ⟨h1, h2⟩ := hold y hy
        exact Or.inl ⟨h1, Or.inl h2⟩
      · rcases List.mem_cons.mp (hl.mem_iff.mp hy) with rfl | hy'
        · exact Or.inr ⟨c, hcm, hcp, hk, rfl⟩
        · obtain ⟨h1, h2⟩ := hold y hy'
          exact Or.inl ⟨h1, Or.inl h2⟩

/-- every live subscription with identifier `id` has last-success instant `R` and intervals `mn`, `mx` -/
def KeptIs (s : State) (id R mn mx : Nat) : Prop :=
  ∀ x ∈ s.live, x.id = id → x.reportedAt = R ∧ x.minInt = mn ∧ x.maxInt = mx

theorem nextSubId_step_le (s : State) (op : Op) (hnr : ∀ now ev, op ≠ .restart now ev) :
    s.nextSubId ≤ (s.step op).nextSubId := by
  cases op with
  | change p => exact Nat.le_refl _
  | add now fab peer mn mx ev => simp only [State.step, State.add]; split <;> simp
  | report now ev =>
    simp only [State.step]
    rcases report_shape (s := s) (now := now) (ev := ev) with h1 | ⟨i, sub, _, h1⟩ <;> rw [h1]
    · exact Nat.le_refl _
    · exact Nat.le_refl _
  | fin id f =>
    simp only [State.step]
    cases hf : s.ctxs.find? (fun c => c.sub.id == id) with
    | none => rw [fin_none hf]; exact Nat.le_refl _
    | some c => rw [fin_eq hf, reportComplete_nextSubId]; exact Nat.le_refl _
  | remove p =>
    simp only [State.step]
    obtain ⟨cx, h1⟩ := remove_shape s p
    rw [h1]; exact Nat.le_refl _
  | purge =>
    simp only [State.step, State.purge]
    repeat' split
    all_goals exact Nat.le_refl _
  | persist => exact Nat.le_refl _
  | restart now ev => exact absurd rfl (hnr now ev)

/-- the tracked fields of subscription `id` change only when a report of it is acknowledged
(`fin id keep`): not by a retry, an unsent ending, the reports and endings of other subscriptions,
removals, purges, additions -/
theorem keptIs_step {s : State} (hu : UID s) (op : Op) {id R mn mx : Nat}
    (hnr : ∀ now ev, op ≠ .restart now ev) (hnk : op ≠ .fin id .keep) (hid : id < s.nextSubId)
    (h : KeptIs s id R mn mx) : KeptIs (s.step op) id R mn mx := by
  intro y hy hyid
  cases op with
  | change p => exact h y hy hyid
  | add now fab peer mn' mx' ev =>
    simp only [State.step, State.add] at hy
    split at hy
    · exact h y hy hyid
    · simp only [State.live, List.map_append, List.map_cons, List.map_nil, List.mem_append,
        List.mem_singleton] at hy
      rcases hy with hy | hy | hy
      · exact h y (by simp [State.live, hy]) hyid
      · exact h y (by simp only [State.live, List.mem_append]; right; exact hy) hyid
      · subst hy; simp only at hyid; omega
  | report now ev =>
    simp only [State.step] at hy
    rcases report_shape (s := s) (now := now) (ev := ev) with h1 | ⟨i, sub, hs, h1⟩
    · rw [h1] at hy; exact h y hy hyid
    · rw [h1] at hy; exact h y ((live_reportTo now ev hs).mem_iff.mp hy) hyid
  | fin id' f =>
    simp only [State.step] at hy
    rcases fin_live_origin hu hy with ⟨h1, _⟩ | ⟨c, hc, hcid, hk, rfl⟩
    · exact h y h1 hyid
    · have hidc : c.sub.id = id := by rw [← finSub_id s.hz c f]; exact hyid
      have hcl : c.sub ∈ s.live := mem_live.mpr (Or.inr ⟨c, hc, rfl⟩)
      obtain ⟨a1, a2, a3⟩ := h c.sub hcl hidc
      have hff : id' = id := hcid.symm.trans hidc
      subst hff
      cases f with
      | keep => exact absurd rfl hnk
      | drop => cases hk
      | retry => exact ⟨by simp [finSub, Ctx.commit, Ctx.setKeepRetry, a1], by simp [finSub, Ctx.commit, Ctx.setKeepRetry, a2],
          by simp [finSub, Ctx.commit, Ctx.setKeepRetry, a3]⟩
      | unsent => exact ⟨by simp [finSub, Ctx.commit, Ctx.setKeepUnsent, a1], by simp [finSub, Ctx.commit, Ctx.setKeepUnsent, a2],
          by simp [finSub, Ctx.commit, Ctx.setKeepUnsent, a3]⟩
  | remove p =>
    simp only [State.step] at hy
    obtain ⟨cx, h1⟩ := remove_shape s p
    rw [h1] at hy
    obtain ⟨rem, hr⟩ := removeLoop_perm p (s.subs.length + 1) s.subs s.count
    have : y ∈ s.live := by
      simp only [rmTo, State.live, List.mem_append] at hy ⊢
      rcases hy with hy | hy
      · left; exact hr.mem_iff.mp (List.mem_append_right _ hy)
      · right; exact hy
    exact h y this hyid
  | purge =>
    simp only [State.step, State.purge] at hy
    have : y ∈ s.live := by
      repeat' split at hy
      all_goals exact hy
    exact h y this hyid
  | persist => exact h y hy hyid
  | restart now ev => exact absurd rfl (hnr now ev)

/-- … along a history: between two steps without a restart and without an acknowledged report of
subscription `id` -/
theorem keptIs_run {hz n : Nat} {sched : Nat → Op}
    (hw : ∀ k, (stateAt hz n sched k).changed.nextId + 1 < U64) {a : Nat} {id R mn mx : Nat}
    (hid : id < (stateAt hz n sched a).nextSubId) (h : KeptIs (stateAt hz n sched a) id R mn mx) :
    ∀ (d : Nat), NoRestart sched a (a + d) → (∀ t, a ≤ t → t < a + d → sched t ≠ .fin id .keep) →
      KeptIs (stateAt hz n sched (a + d)) id R mn mx ∧ id < (stateAt hz n sched (a + d)).nextSubId
  | 0, _, _ => ⟨h, hid⟩
  | d + 1, hnr, hnk => by
    obtain ⟨ih1, ih2⟩ := keptIs_run hw hid h d (hnr.mono (Nat.le_refl _) (by omega))
      (fun t h1 h2 => hnk t h1 (by omega))
    have hr := hnr (a + d) (by omega) (by omega)
    refine ⟨keptIs_step (inv_stateAt hz n sched hw (a + d)).2.2 (sched (a + d)) hr
      (hnk (a + d) (by omega) (by omega)) ih2 ih1, ?_⟩
    exact Nat.lt_of_lt_of_le ih2 (nextSubId_step_le _ _ hr)

/-- after an acknowledged report the subscription's last-success instant is the instant that report
**began** (`next_reported_at`, the clock of the `report` call) -/
theorem keptIs_after_keep {hz n : Nat} {sched : Nat → Op}
    (hw : ∀ k, (stateAt hz n sched k).changed.nextId + 1 < U64) {m : Nat} {c : Ctx}
    (hc : c ∈ (stateAt hz n sched m).ctxs) (hs : sched m = .fin c.sub.id .keep) :
    KeptIs (stateAt hz n sched (m + 1)) c.sub.id c.nextReportedAt c.sub.minInt c.sub.maxInt ∧
    c.sub.id < (stateAt hz n sched (m + 1)).nextSubId := by
  obtain ⟨_, _, hu⟩ := inv_stateAt hz n sched hw m
  have hst : stateAt hz n sched (m + 1) = ((stateAt hz n sched m).fin c.sub.id .keep).1 := by
    show (stateAt hz n sched m).step (sched m) = _
    rw [hs]; rfl
  constructor
  · intro y hy hyid
    rw [hst] at hy
    rcases fin_live_origin hu hy with ⟨h1, h2⟩ | ⟨c', hc', hcid, _, rfl⟩
    · rcases h2 with h2 | h2
      · exact absurd hyid h2
      · -- the `fin` found no context: impossible, `c` is one
        exfalso
        have hnone : (stateAt hz n sched m).ctxs.find? (fun c' => c'.sub.id == c.sub.id) ≠ none := by
          intro hn
          have := List.find?_eq_none.mp hn c hc
          simp at this
        cases hf : (stateAt hz n sched m).ctxs.find? (fun c' => c'.sub.id == c.sub.id) with
        | none => exact hnone hf
        | some c2 =>
          have hlen := length_eraseP_find hf
          have : ((stateAt hz n sched m).fin c.sub.id .keep).1.ctxs.length = (stateAt hz n sched m).ctxs.length := by
            rw [h2]
          rw [fin_eq hf, (reportComplete_fields _ _ _).1] at this
          simp only at this
          omega
    · have : c' = c := uid_ctx_inj hu hc' hc hcid
      subst this
      simp [finSub, Ctx.commit]
  · have h1 := hu.below c.sub (mem_live.mpr (Or.inr ⟨c, hc, rfl⟩))
    have h2 := nextSubId_step_le (stateAt hz n sched m) (sched m) (by rw [hs]; intro _ _ h; cases h)
    exact Nat.lt_of_lt_of_le h1 h2

/-- **Minimum interval, on runs.** For every history: if a report of subscription `id` was acknowledged
(its context `c1` ended with `keep` at step `m1`; it had begun at the instant `c1.next_reported_at`) and
the next report of that subscription begins at step `j2` (no acknowledged report of it and no restart in
between — failed and unsent attempts may lie in between), then the two report **begins** are at least
the subscription's minimum interval apart. -/
theorem min_interval_between_report_begins {hz n : Nat} {sched : Nat → Op}
    (hw : ∀ k, (stateAt hz n sched k).changed.nextId + 1 < U64) {m1 j2 : Nat} {c1 c2 : Ctx}
    (hc1 : c1 ∈ (stateAt hz n sched m1).ctxs) (hs1 : sched m1 = .fin c1.sub.id .keep) (hlt : m1 < j2)
    (hnr : NoRestart sched (m1 + 1) j2)
    (hnk : ∀ t, m1 < t → t < j2 → sched t ≠ .fin c1.sub.id .keep)
    (hb : BeginsAt hz n sched j2 c2) (hid : c2.sub.id = c1.sub.id)
    (hprimed : c1.nextReportedAt ≠ IMAX) (hno : c1.nextReportedAt + c1.sub.minInt * hz ≤ IMAX) :
    c1.nextReportedAt + c1.sub.minInt * hz ≤ c2.nextReportedAt := by
  obtain ⟨k1, k2⟩ := keptIs_after_keep hw hc1 hs1
  have hrun := keptIs_run hw k2 k1 (j2 - (m1 + 1)) (by rwa [show m1 + 1 + (j2 - (m1 + 1)) = j2 by omega])
    (fun t h1 h2 => hnk t (by omega) (by omega))
  rw [show m1 + 1 + (j2 - (m1 + 1)) = j2 by omega] at hrun
  obtain ⟨now, ev, _, hsub, _, hnow, _, hrep, _⟩ := begins_fields hb
  obtain ⟨a1, a2, _⟩ := hrun.1 c2.sub (mem_live.mpr (Or.inl hsub)) hid
  simp only [Sub.isReportable, Bool.and_eq_true, decide_eq_true_eq] at hrep
  have h1 := hrep.1
  have h2 : c2.sub.reportedAt + c2.sub.minInt * hz ≤ c2.sub.reportAllowedAt hz := by
    unfold Sub.reportAllowedAt
    rw [a1, a2]
    simp only [hprimed, if_false, checkedAdd, hno, if_true]
    exact Nat.le_max_left _ _
  rw [a1, a2] at h2
  omega

/-! ## the `reporting` slot and `debug_assert!(self.reporting.is_none())` -/

/-- **the `reporting` slot is occupied only while the context of that report is alive**: it holds the
subscription a live context carries -/
def RepCtx (s : State) : Prop := ∀ r, s.reporting = some r → ∃ c ∈ s.ctxs, c.sub = r

theorem reportComplete_reporting_some {s : State} {sub r : Sub} {keep : Bool}
    (h : (s.reportComplete sub keep).reporting = some r) : s.reporting = some r ∧ r.id ≠ sub.id := by
  unfold State.reportComplete at h
  cases hr : s.reporting with
  | none =>
    simp only [hr, Bool.false_and, Bool.false_eq_true, if_false] at h
    split at h <;> simp at h
  | some r0 =>
    simp only [hr] at h
    by_cases hid : (r0.id == sub.id) = true
    · simp only [hid, Bool.true_and, if_true] at h
      repeat' split at h
      all_goals simp at h
    · have hid' : (r0.id == sub.id) = false := by simpa using hid
      simp only [hid', Bool.false_and, Bool.false_eq_true, if_false] at h
      have : r0 = r := by
        split at h <;> simpa using h
      subst this
      exact ⟨rfl, by simpa using hid'⟩

theorem resumeAll_reporting (now ev : Nat) : ∀ (rs : List Rec) (s : State),
    (rs.foldl (fun st r => st.resumeOne r now ev) s).reporting = s.reporting := by
  intro rs
  induction rs with
  | nil => intro s; rfl
  | cons r rs ih =>
    intro s
    simp only [List.foldl_cons]
    rw [ih]
    unfold State.resumeOne
    split <;> rfl

theorem repCtx_step {s : State} (hu : UID s) (op : Op) (h : RepCtx s) : RepCtx (s.step op) := by
  intro r hr
  cases op with
  | change p => exact h r hr
  | add now fab peer mn mx ev =>
    simp only [State.step, State.add] at hr ⊢
    split at hr
    · rename_i hc; simp only [hc, if_true]; exact h r hr
    · rename_i hc
      simp only [hc, if_false]
      obtain ⟨c, hcm, hcs⟩ := h r hr
      exact ⟨c, List.mem_append_left _ hcm, hcs⟩
  | report now ev =>
    simp only [State.step] at hr ⊢
    rcases report_shape (s := s) (now := now) (ev := ev) with h1 | ⟨i, sub, _, h1⟩
    · rw [h1] at hr ⊢; exact h r hr
    · rw [h1] at hr ⊢
      simp only [reportTo, Option.some.injEq] at hr
      subst hr
      exact ⟨_, List.mem_append_right _ (List.mem_singleton.mpr rfl), rfl⟩
  | fin id f =>
    simp only [State.step] at hr ⊢
    cases hf : s.ctxs.find? (fun c => c.sub.id == id) with
    | none => rw [fin_none hf] at hr ⊢; exact h r hr
    | some c' =>
      rw [fin_eq hf] at hr ⊢
      obtain ⟨h1, h2⟩ := reportComplete_reporting_some hr
      obtain ⟨c, hcm, hcs⟩ := h r h1
      have hc'p : c'.sub.id = id := by simpa using List.find?_some hf
      rw [(reportComplete_fields _ _ _).1]
      refine ⟨c, ?_, hcs⟩
      have hpc : ¬ ((fun c : Ctx => c.sub.id == id) c = true) := by
        simp only [beq_iff_eq]
        intro hh
        apply h2
        rw [finSub_id, hc'p, ← hh, hcs]
      exact (List.mem_eraseP_of_neg (p := fun c : Ctx => c.sub.id == id) (a := c) hpc).mpr hcm
  | remove p =>
    simp only [State.step] at hr ⊢
    obtain ⟨cx, h1⟩ := remove_shape s p
    rw [h1] at hr ⊢
    exact h r hr
  | purge =>
    simp only [State.step, State.purge] at hr ⊢
    repeat' split at hr
    all_goals (repeat' split)
    all_goals exact h r hr
  | persist => exact h r hr
  | restart now ev =>
    simp only [State.step] at hr
    rw [restart_eq, resumeAll_reporting] at hr
    simp [State.fresh, State.new] at hr

theorem repCtx_stateAt {hz n : Nat} {sched : Nat → Op}
    (hw : ∀ k, (stateAt hz n sched k).changed.nextId + 1 < U64) : ∀ k, RepCtx (stateAt hz n sched k)
  | 0 => by intro r hr; simp [stateAt, State.new] at hr
  | k + 1 => repCtx_step (inv_stateAt hz n sched hw k).2.2 (sched k) (repCtx_stateAt hw k)

/-- when the reporter's context ends, the `reporting` slot is empty again — whatever the ending -/
theorem fin_clears_reporting {s : State} (hu : UID s) {c : Ctx} (hc : c ∈ s.ctxs) (hr : s.reporting = some c.sub)
    (f : Fin) : (s.fin c.sub.id f).1.reporting = none := by
  cases hf : s.ctxs.find? (fun c' => c'.sub.id == c.sub.id) with
  | none =>
    have := List.find?_eq_none.mp hf c hc
    simp at this
  | some c' =>
    have hc'm : c' ∈ s.ctxs := List.mem_of_find?_eq_some hf
    have hc'p : c'.sub.id = c.sub.id := by simpa using List.find?_some hf
    have : c' = c := uid_ctx_inj hu hc'm hc hc'p
    subst this
    rw [fin_eq hf]
    unfold State.reportComplete
    simp only [hr, finSub_id, beq_self_eq_true, Bool.true_and, if_true]
    repeat' split
    all_goals rfl

/-- **Expiry, on runs.** For every history: after an acknowledged report of subscription `id` (begun at
the instant `R = c1.next_reported_at`), with no acknowledged report of it since, an expiry sweep of the
reporter (`remove(|sub| sub.is_expired(now) || …)`) at an instant `now ≥ R + max_interval` leaves no
subscription `id` in the table; if the subscription is being reported on at that moment, the in-flight
report is marked cancelled (and `cancelled_report_ends`: dropped when its context ends, whatever the
ending). Failed and unsent attempts in between do not postpone this. -/
theorem unacknowledged_expires_by_max {hz n : Nat} {sched : Nat → Op}
    (hw : ∀ k, (stateAt hz n sched k).changed.nextId + 1 < U64) {m1 t : Nat} {c1 : Ctx}
    (hc1 : c1 ∈ (stateAt hz n sched m1).ctxs) (hs1 : sched m1 = .fin c1.sub.id .keep) (hlt : m1 < t)
    (hnr : NoRestart sched (m1 + 1) t)
    (hnk : ∀ u, m1 < u → u < t → sched u ≠ .fin c1.sub.id .keep)
    {pr : Sub → Bool} {now : Nat} (hs : sched t = .remove pr)
    (hp : ∀ x : Sub, x.isExpired hz now = true → pr x = true)
    (hprimed : c1.nextReportedAt ≠ IMAX) (hnow : c1.nextReportedAt + c1.sub.maxInt * hz ≤ now)
    (hle : now ≤ IMAX) :
    (∀ x ∈ (stateAt hz n sched (t + 1)).subs, x.id ≠ c1.sub.id) ∧
    (∀ r, (stateAt hz n sched t).reporting = some r → r.id = c1.sub.id →
      (stateAt hz n sched (t + 1)).cancelled = true ∧ (stateAt hz n sched (t + 1)).reporting = some r) := by
  obtain ⟨k1, k2⟩ := keptIs_after_keep hw hc1 hs1
  have hrun := keptIs_run hw k2 k1 (t - (m1 + 1)) (by rwa [show m1 + 1 + (t - (m1 + 1)) = t by omega])
    (fun u h1 h2 => hnk u (by omega) (by omega))
  rw [show m1 + 1 + (t - (m1 + 1)) = t by omega] at hrun
  have hexp : ∀ x ∈ (stateAt hz n sched t).live, x.id = c1.sub.id → pr x = true := by
    intro x hx hid
    obtain ⟨a1, _, a3⟩ := hrun.1 x hx hid
    apply hp
    have h1 : x.reportedAt + x.maxInt * hz ≤ IMAX := by rw [a1, a3]; omega
    have h2 : x.reportedAt + x.maxInt * hz ≤ now := by rw [a1, a3]; exact hnow
    have h3 : x.reportedAt ≠ IMAX := by rw [a1]; exact hprimed
    simp [Sub.isExpired, checkedAdd, h1, h2, h3]
  have hst : stateAt hz n sched (t + 1) = ((stateAt hz n sched t).remove pr).1 := by
    show (stateAt hz n sched t).step (sched t) = _
    rw [hs]; rfl
  constructor
  · intro x hx hid
    rw [hst] at hx
    obtain ⟨cx, h1⟩ := remove_shape (stateAt hz n sched t) pr
    rw [h1] at hx
    simp only [rmTo] at hx
    have hno := removeLoop_all pr _ (stateAt hz n sched t).subs (stateAt hz n sched t).count (by omega) x hx
    obtain ⟨rem, hperm⟩ := removeLoop_perm pr ((stateAt hz n sched t).subs.length + 1)
      (stateAt hz n sched t).subs (stateAt hz n sched t).count
    have hmem : x ∈ (stateAt hz n sched t).subs := hperm.subset (List.mem_append_right _ hx)
    have := hexp x (by simp [State.live, hmem]) hid
    rw [this] at hno; cases hno
  · intro r hr hid
    obtain ⟨c, hcm, hcs⟩ := repCtx_stateAt hw t r hr
    have hlive : r ∈ (stateAt hz n sched t).live := mem_live.mpr (Or.inr ⟨c, hcm, hcs⟩)
    have hpr := hexp r hlive hid
    rw [hst]
    unfold State.remove
    simp only [hr]
    cases hc : (stateAt hz n sched t).cancelled <;> simp [hpr]

/-- **the reporter is one sequential task** (`process_subscriptions` of `im.rs`): it calls `report`
again only after the context of the report it began before has been dropped -/
def SeqReporter (hz n : Nat) (sched : Nat → Op) : Prop :=
  ∀ j now ev, sched j = .report now ev →
    ∀ j' now' ev' id, j' < j → sched j' = .report now' ev' →
      ((stateAt hz n sched j').report now' ev').2 = some id → ∃ m f, j' < m ∧ m < j ∧ sched m = .fin id f

/-- the slot is occupied since a `report` call that has not been followed by the end of its context -/
def RepSince (hz n : Nat) (sched : Nat → Op) (j : Nat) : Prop :=
  ∀ r, (stateAt hz n sched j).reporting = some r →
    ∃ j' now' ev', j' < j ∧ sched j' = .report now' ev' ∧
      ((stateAt hz n sched j').report now' ev').2 = some r.id ∧
      ∀ m f, j' < m → m < j → sched m ≠ .fin r.id f

theorem repSince_stateAt {hz n : Nat} {sched : Nat → Op}
    (hw : ∀ k, (stateAt hz n sched k).changed.nextId + 1 < U64) : ∀ j, RepSince hz n sched j
  | 0 => by intro r hr; simp [stateAt, State.new] at hr
  | j + 1 => by
    have ih := repSince_stateAt hw j
    have hu := (inv_stateAt hz n sched hw j).2.2
    have hrc := repCtx_stateAt hw j
    intro r hr
    have hr' : ((stateAt hz n sched j).step (sched j)).reporting = some r := hr
    -- the slot was occupied before the step by the same report, and the step is not its `fin`
    have keep : (stateAt hz n sched j).reporting = some r → (∀ f, sched j ≠ .fin r.id f) →
        ∃ j' now' ev', j' < j + 1 ∧ sched j' = .report now' ev' ∧
          ((stateAt hz n sched j').report now' ev').2 = some r.id ∧
          ∀ m f, j' < m → m < j + 1 → sched m ≠ .fin r.id f := by
      intro h1 h2
      obtain ⟨j', now', ev', a1, a2, a3, a4⟩ := ih r h1
      refine ⟨j', now', ev', by omega, a2, a3, ?_⟩
      intro m f b1 b2
      by_cases hm : m = j
      · subst hm; exact h2 f
      · exact a4 m f b1 (by omega)
    cases hop : sched j with
    | change p => rw [hop] at hr'; exact keep hr' (fun f h => by rw [hop] at h; cases h)
    | add now fab peer mn mx ev =>
      rw [hop] at hr'
      have : ((stateAt hz n sched j).add now fab peer mn mx ev).1.reporting = (stateAt hz n sched j).reporting := by
        unfold State.add; split <;> rfl
      simp only [State.step] at hr'
      rw [this] at hr'
      exact keep hr' (fun f h => by rw [hop] at h; cases h)
    | report now ev =>
      rw [hop] at hr'
      simp only [State.step] at hr'
      unfold State.report at hr'
      cases hf : findReportable (stateAt hz n sched j).hz (stateAt hz n sched j).subs now
          (stateAt hz n sched j).changed.entries ev with
      | none => rw [hf] at hr'; exact keep hr' (fun f h => by rw [hop] at h; cases h)
      | some i =>
        rw [hf] at hr'
        simp only at hr'
        cases hs : (stateAt hz n sched j).subs[i]? with
        | none => rw [hs] at hr'; exact keep hr' (fun f h => by rw [hop] at h; cases h)
        | some sub =>
          rw [hs] at hr'
          simp only [Option.some.injEq] at hr'
          subst hr'
          refine ⟨j, now, ev, by omega, hop, ?_, fun m f b1 b2 => by omega⟩
          unfold State.report
          rw [hf]; simp only [hs]
    | fin id f =>
      rw [hop] at hr'
      simp only [State.step] at hr'
      cases hf : (stateAt hz n sched j).ctxs.find? (fun c => c.sub.id == id) with
      | none =>
        rw [fin_none hf] at hr'
        refine keep hr' ?_
        intro f' h
        rw [hop] at h
        injection h with h1 _
        obtain ⟨c, hcm, hcs⟩ := hrc r hr'
        have := List.find?_eq_none.mp hf c hcm
        simp [hcs, h1] at this
      | some c' =>
        rw [fin_eq hf] at hr'
        obtain ⟨h1, h2⟩ := reportComplete_reporting_some hr'
        have hc'p : c'.sub.id = id := by simpa using List.find?_some hf
        refine keep h1 ?_
        intro f' h
        rw [hop] at h
        injection h with h3 _
        apply h2
        rw [finSub_id, hc'p, h3]
    | remove p =>
      rw [hop] at hr'
      simp only [State.step] at hr'
      obtain ⟨cx, h1⟩ := remove_shape (stateAt hz n sched j) p
      rw [h1] at hr'
      exact keep hr' (fun f h => by rw [hop] at h; cases h)
    | purge =>
      rw [hop] at hr'
      have : (stateAt hz n sched j).purge.reporting = (stateAt hz n sched j).reporting := by
        unfold State.purge
        repeat' split
        all_goals rfl
      simp only [State.step] at hr'
      rw [this] at hr'
      exact keep hr' (fun f h => by rw [hop] at h; cases h)
    | persist => rw [hop] at hr'; exact keep hr' (fun f h => by rw [hop] at h; cases h)
    | restart now ev =>
      rw [hop] at hr'
      simp only [State.step] at hr'
      rw [restart_eq, resumeAll_reporting] at hr'
      simp [State.fresh, State.new] at hr'

/-- **`debug_assert!(self.reporting.is_none())` in `SubscriptionsInner::report` cannot fire** when the
reporter is one sequential task: whenever it calls `report`, the slot is empty (this is the clause
`Fair.seq`, derived instead of assumed) -/
theorem reporting_none_at_report {hz n : Nat} {sched : Nat → Op}
    (hw : ∀ k, (stateAt hz n sched k).changed.nextId + 1 < U64) (hseq : SeqReporter hz n sched)
    (j now ev : Nat) (hs : sched j = .report now ev) : (stateAt hz n sched j).reporting = none := by
  cases hr : (stateAt hz n sched j).reporting with
  | none => rfl
  | some r =>
    exfalso
    obtain ⟨j', now', ev', a1, a2, a3, a4⟩ := repSince_stateAt hw j r hr
    obtain ⟨m, f, b1, b2, b3⟩ := hseq j now ev hs j' now' ev' r.id a1 a2 a3
    exact a4 m f b1 b2 b3

/-! ## the debt lasts until a report that covers it is committed -/

/-- a property `Q` of the live subscription `id` survives every operation, provided the endings of its
own contexts that put it back into the table (`keep`, `retry`, `unsent`) preserve it -/
theorem field_step {s : State} (hu : UID s) (op : Op) {id : Nat} (Q : Sub → Prop)
    (hnr : ∀ now ev, op ≠ .restart now ev) (hid : id < s.nextSubId)
    (hfin : ∀ f c, op = .fin id f → finKeep f = true → c ∈ s.ctxs → c.sub.id = id → Q c.sub →
      Q (finSub s.hz c f))
    (h : ∀ x ∈ s.live, x.id = id → Q x) : ∀ y ∈ (s.step op).live, y.id = id → Q y := by
  intro y hy hyid
  cases op with
  | change p => exact h y hy hyid
  | add now fab peer mn' mx' ev =>
    simp only [State.step, State.add] at hy
    split at hy
    · exact h y hy hyid
    · simp only [State.live, List.map_append, List.map_cons, List.map_nil, List.mem_append,
        List.mem_singleton] at hy
      rcases hy with hy | hy | hy
      · exact h y (by simp [State.live, hy]) hyid
      · exact h y (by simp only [State.live, List.mem_append]; right; exact hy) hyid
      · subst hy; simp only at hyid; omega
  | report now ev =>
    simp only [State.step] at hy
    rcases report_shape (s := s) (now := now) (ev := ev) with h1 | ⟨i, sub, hs, h1⟩
    · rw [h1] at hy; exact h y hy hyid
    · rw [h1] at hy; exact h y ((live_reportTo now ev hs).mem_iff.mp hy) hyid
  | fin id' f =>
    simp only [State.step] at hy
    rcases fin_live_origin hu hy with ⟨h1, _⟩ | ⟨c, hc, hcid, hk, rfl⟩
    · exact h y h1 hyid
    · have hidc : c.sub.id = id := by rw [← finSub_id s.hz c f]; exact hyid
      have hcl : c.sub ∈ s.live := mem_live.mpr (Or.inr ⟨c, hc, rfl⟩)
      have hff : id' = id := hcid.symm.trans hidc
      subst hff
      exact hfin f c rfl hk hc hidc (h c.sub hcl hidc)
  | remove p =>
    simp only [State.step] at hy
    obtain ⟨cx, h1⟩ := remove_shape s p
    rw [h1] at hy
    obtain ⟨rem, hr⟩ := removeLoop_perm p (s.subs.length + 1) s.subs s.count
    have : y ∈ s.live := by
      simp only [rmTo, State.live, List.mem_append] at hy ⊢
      rcases hy with hy | hy
      · left; exact hr.mem_iff.mp (List.mem_append_right _ hy)
      · right; exact hy
    exact h y this hyid
  | purge =>
    simp only [State.step, State.purge] at hy
    have : y ∈ s.live := by
      repeat' split at hy
      all_goals exact hy
    exact h y this hyid
  | persist => exact h y hy hyid
  | restart now ev => exact absurd rfl (hnr now ev)

/-- **at the moment a change is recorded every live subscription owes it**, and every context that is
alive at that moment (a priming, a report begun earlier) has a snapshot below it -/
theorem recorded_change_is_owed {s : State} (hwf : WF s) (p : Entry) :
    (s.changed.nextId, p) ∈ (s.change p).log ∧
    (∀ x ∈ (s.change p).live, x.seenAttr < s.changed.nextId) ∧
    (∀ c ∈ (s.change p).ctxs, c.nextAttr < s.changed.nextId) :=
  ⟨by simp [State.change], fun x hx => hwf.seenBelow x hx, fun c hc => (hwf.ctxMono c hc).2⟩

/-- **the debt lasts until a covering report is committed**: if every live subscription `id` owes
change `i` at step `k`, it still owes it at step `t` — unless, in between, a context of it whose
snapshot is `≥ i` ended with `keep` or `unsent` (failed reports, the reports and purges of others,
acknowledged reports whose snapshot predates the change do not end the debt) -/
theorem owes_until_covering_commit {hz n : Nat} {sched : Nat → Op}
    (hw : ∀ k, (stateAt hz n sched k).changed.nextId + 1 < U64) {k id i : Nat}
    (hid : id < (stateAt hz n sched k).nextSubId)
    (h0 : ∀ x ∈ (stateAt hz n sched k).live, x.id = id → x.seenAttr < i) :
    ∀ (d : Nat), NoRestart sched k (k + d) →
      (∀ u, k ≤ u → u < k + d → ∀ f c, sched u = .fin id f → c ∈ (stateAt hz n sched u).ctxs →
        c.sub.id = id → f = .retry ∨ f = .drop ∨ c.nextAttr < i) →
      (∀ x ∈ (stateAt hz n sched (k + d)).live, x.id = id → x.seenAttr < i) ∧
      id < (stateAt hz n sched (k + d)).nextSubId
  | 0, _, _ => ⟨h0, hid⟩
  | d + 1, hnr, hfin => by
    obtain ⟨ih1, ih2⟩ := owes_until_covering_commit hw hid h0 d (hnr.mono (Nat.le_refl _) (by omega))
      (fun u h1 h2 => hfin u h1 (by omega))
    have hr := hnr (k + d) (by omega) (by omega)
    refine ⟨field_step (inv_stateAt hz n sched hw (k + d)).2.2 (sched (k + d)) (fun x => x.seenAttr < i) hr ih2
      ?_ ih1, Nat.lt_of_lt_of_le ih2 (nextSubId_step_le _ _ hr)⟩
    intro f c hop hk hc hcid hq
    rcases hfin (k + d) (by omega) (by omega) f c hop hc hcid with h | h | h
    · subst h; simpa [finSub, Ctx.commit, Ctx.setKeepRetry] using hq
    · subst h; cases hk
    · cases f with
      | keep => simpa [finSub, Ctx.commit] using h
      | unsent => simpa [finSub, Ctx.commit, Ctx.setKeepUnsent] using h
      | retry => simpa [finSub, Ctx.commit, Ctx.setKeepRetry] using hq
      | drop => cases hk

end Subs
