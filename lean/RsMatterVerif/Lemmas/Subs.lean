import RsMatterVerif.Model.Subs
/-! # Lemmas about `Model/Subs.lean` (C13) -/
namespace Subs


theorem covAxis_refl (a w : Nat) : covAxis a a w = true := by
  unfold covAxis; split <;> simp_all

theorem covAxis_trans {a b c w : Nat} (h1 : covAxis a b w = true) (h2 : covAxis b c w = true) :
    covAxis a c w = true := by
  unfold covAxis at *
  split at h1
  · simp_all
  · split at h1
    · simp at h1
    · split at h2
      · simp_all
      · split at h2
        · simp at h2
        · simp_all

theorem covers_refl (a : Entry) : covers a a = true := by
  simp [covers, covAxis_refl]

theorem covers_trans {a b c : Entry} (h1 : covers a b = true) (h2 : covers b c = true) :
    covers a c = true := by
  simp only [covers, Bool.and_eq_true] at *
  exact ⟨⟨covAxis_trans h1.1.1 h2.1.1, covAxis_trans h1.1.2 h2.1.2⟩, covAxis_trans h1.2 h2.2⟩

theorem covers_id_irrel (a b : Entry) (i j : Nat) :
    covers { a with id := i } { b with id := j } = covers a b := by
  simp [covers]

/-- `matches` on a concrete path is `covers` of the path as an entry -/
theorem matchesPath_of_covers {e p : Entry} {ep cl attr : Nat}
    (h1 : covers e p = true) (h2 : p.matchesPath ep cl attr = true) :
    e.matchesPath ep cl attr = true := by
  simp only [covers, covAxis, Entry.matchesPath, Bool.and_eq_true, Bool.or_eq_true, beq_iff_eq] at *
  obtain ⟨⟨a1, a2⟩, a3⟩ := h1
  obtain ⟨⟨b1, b2⟩, b3⟩ := h2
  refine ⟨⟨?_, ?_⟩, ?_⟩
  · split at a1
    · left; assumption
    · split at a1
      · simp at a1
      · simp at a1; rcases b1 with b1 | b1
        · contradiction
        · right; omega
  · split at a2
    · left; assumption
    · split at a2
      · simp at a2
      · simp at a2; rcases b2 with b2 | b2
        · contradiction
        · right; omega
  · split at a3
    · left; assumption
    · split at a3
      · simp at a3
      · simp at a3; rcases b3 with b3 | b3
        · contradiction
        · right; omega

theorem mem_getLast_dropLast {α} (rest : List α) (l : α) (h : rest.getLast? = some l) (x : α) :
    x ∈ l :: rest.dropLast ↔ x ∈ rest := by
  obtain ⟨ys, rfl⟩ := List.getLast?_eq_some_iff.mp h
  simp only [List.dropLast_concat, List.mem_cons, List.mem_append, List.mem_nil_iff, or_false]
  exact Or.comm

theorem length_getLast_dropLast {α} (rest : List α) (l : α) (h : rest.getLast? = some l) :
    (l :: rest.dropLast).length = rest.length := by
  obtain ⟨ys, rfl⟩ := List.getLast?_eq_some_iff.mp h
  simp

theorem mem_swapRemoveAux {α} (p : α → Bool) (x : α) : ∀ (f : Nat) (es : List α), es.length ≤ f →
    (x ∈ swapRemoveAux p f es ↔ x ∈ es ∧ p x = false) := by
  intro f
  induction f with
  | zero =>
    intro es h
    have : es = [] := by cases es <;> simp_all
    subst this; simp [swapRemoveAux]
  | succ f ih =>
    intro es h
    cases es with
    | nil => simp [swapRemoveAux]
    | cons y rest =>
      simp only [swapRemoveAux]
      by_cases hp : p y = true
      · simp only [hp, if_true]
        cases hl : rest.getLast? with
        | none =>
          have : rest = [] := by simpa using hl
          subst this
          simp
          intro hx; subst hx; simp [hp]
        | some l =>
          simp only
          have hlen := length_getLast_dropLast rest l hl
          rw [ih (l :: rest.dropLast) (by simp at h; omega)]
          rw [mem_getLast_dropLast rest l hl]
          simp
          intro hx hpx
          subst hpx
          rw [hp] at hx; cases hx
      · simp only [hp]
        simp
        rw [ih rest (by simp at h; omega)]
        constructor
        · rintro (rfl | ⟨h1, h2⟩)
          · exact ⟨Or.inl rfl, by simpa using hp⟩
          · exact ⟨Or.inr h1, h2⟩
        · rintro ⟨h1 | h1, h2⟩
          · left; exact h1
          · right; exact ⟨h1, h2⟩

theorem length_swapRemoveAux {α} (p : α → Bool) : ∀ (f : Nat) (es : List α), es.length ≤ f →
    (swapRemoveAux p f es).length ≤ es.length := by
  intro f
  induction f with
  | zero => intro es h; simp [swapRemoveAux]
  | succ f ih =>
    intro es h
    cases es with
    | nil => simp [swapRemoveAux]
    | cons y rest =>
      simp only [swapRemoveAux]
      split
      · cases hl : rest.getLast? with
        | none => simp
        | some l =>
          simp only
          have hlen := length_getLast_dropLast rest l hl
          have := ih (l :: rest.dropLast) (by simp at h; omega)
          simp at *; omega
      · have := ih rest (by simp at h; omega)
        simp; omega


/-- some entry of `es` covers `p` with an id at least `i` -/
def Covered (es : List Entry) (i : Nat) (p : Entry) : Prop :=
  ∃ e ∈ es, covers e p = true ∧ i ≤ e.id

/-- every entry of `old` is covered by an entry of `new` with an id at least as large -/
def Dominates (new old : List Entry) : Prop :=
  ∀ e ∈ old, ∃ e' ∈ new, covers e' e = true ∧ e.id ≤ e'.id

theorem Covered.mono {n o : List Entry} {i : Nat} {p : Entry} (h : Dominates n o)
    (hc : Covered o i p) : Covered n i p := by
  obtain ⟨e, he, hcov, hi⟩ := hc
  obtain ⟨e', he', hcov', hi'⟩ := h e he
  exact ⟨e', he', covers_trans hcov' hcov, by omega⟩

theorem Dominates.refl (es : List Entry) : Dominates es es :=
  fun e he => ⟨e, he, covers_refl e, Nat.le_refl _⟩

theorem Dominates.trans {a b c : List Entry} (h1 : Dominates a b) (h2 : Dominates b c) :
    Dominates a c := by
  intro e he
  obtain ⟨e1, he1, hc1, hi1⟩ := h2 e he
  obtain ⟨e2, he2, hc2, hi2⟩ := h1 e1 he1
  exact ⟨e2, he2, covers_trans hc2 hc1, by omega⟩

theorem refreshFirst_none {new : Entry} {id : Nat} : ∀ {es : List Entry},
    refreshFirst new id es = none → ∀ e ∈ es, covers e new = false := by
  intro es
  induction es with
  | nil => intro _ e he; simp at he
  | cons x xs ih =>
    intro h e he
    simp only [refreshFirst] at h
    split at h
    · simp at h
    · rename_i hx
      cases hr : refreshFirst new id xs with
      | some r => rw [hr] at h; simp at h
      | none =>
        rcases List.mem_cons.mp he with rfl | he
        · simpa using hx
        · exact ih hr e he

theorem refreshFirst_some {new : Entry} {id : Nat} : ∀ {es r : List Entry},
    refreshFirst new id es = some r → (∀ e ∈ es, e.id ≤ id) →
    Dominates r es ∧ Covered r id new ∧ r.length = es.length ∧
      (∀ e ∈ r, e.id = id ∨ e ∈ es) := by
  intro es
  induction es with
  | nil => intro r h; simp [refreshFirst] at h
  | cons x xs ih =>
    intro r h hid
    simp only [refreshFirst] at h
    split at h
    · rename_i hx
      simp at h; subst h
      refine ⟨?_, ?_, by simp, ?_⟩
      · intro e he
        rcases List.mem_cons.mp he with rfl | he
        · refine ⟨{ e with id := id }, by simp, ?_, hid e (by simp)⟩
          have := covers_id_irrel e e id e.id
          rw [show ({ e with id := e.id } : Entry) = e from rfl] at this
          rw [this]; exact covers_refl e
        · exact ⟨e, by simp [he], covers_refl e, Nat.le_refl _⟩
      · refine ⟨{ x with id := id }, by simp, ?_, Nat.le_refl _⟩
        have := covers_id_irrel x new id new.id
        rw [show ({ new with id := new.id } : Entry) = new from rfl] at this
        rw [this]; exact hx
      · intro e he
        rcases List.mem_cons.mp he with rfl | he
        · left; rfl
        · right; simp [he]
    · cases hr : refreshFirst new id xs with
      | none => rw [hr] at h; simp at h
      | some r' =>
        rw [hr] at h; simp at h; subst h
        obtain ⟨hd, hc, hl, hm⟩ := ih hr (fun e he => hid e (by simp [he]))
        refine ⟨?_, ?_, by simp [hl], ?_⟩
        · intro e he
          rcases List.mem_cons.mp he with rfl | he
          · exact ⟨e, by simp, covers_refl e, Nat.le_refl _⟩
          · obtain ⟨e', he', h1, h2⟩ := hd e he
            exact ⟨e', by simp [he'], h1, h2⟩
        · obtain ⟨e, he, h1, h2⟩ := hc
          exact ⟨e, by simp [he], h1, h2⟩
        · intro e he
          rcases List.mem_cons.mp he with rfl | he
          · right; simp
          · rcases hm e he with h1 | h1
            · left; exact h1
            · right; simp [h1]



theorem mem_swapRemoveAll {α} (p : α → Bool) (es : List α) (x : α) :
    x ∈ swapRemoveAll p es ↔ x ∈ es ∧ p x = false :=
  mem_swapRemoveAux p x es.length es (Nat.le_refl _)

theorem countP_getLast_dropLast {α} (q : α → Bool) (rest : List α) (l : α) (h : rest.getLast? = some l) :
    (l :: rest.dropLast).countP q = rest.countP q := by
  obtain ⟨ys, rfl⟩ := List.getLast?_eq_some_iff.mp h
  simp [List.countP_cons, List.countP_append]

theorem length_swapRemoveAux_eq {α} (p : α → Bool) : ∀ (f : Nat) (es : List α), es.length ≤ f →
    (swapRemoveAux p f es).length = es.countP (fun x => !p x) := by
  intro f
  induction f with
  | zero =>
    intro es h
    have : es = [] := by cases es <;> simp_all
    subst this; simp [swapRemoveAux]
  | succ f ih =>
    intro es h
    cases es with
    | nil => simp [swapRemoveAux]
    | cons y rest =>
      simp only [swapRemoveAux]
      by_cases hp : p y = true
      · simp only [hp, if_true]
        cases hl : rest.getLast? with
        | none =>
          have : rest = [] := by simpa using hl
          subst this
          simp [hp]
        | some l =>
          simp only
          have hlen := length_getLast_dropLast rest l hl
          rw [ih (l :: rest.dropLast) (by simp at h; omega)]
          rw [countP_getLast_dropLast _ rest l hl]
          simp [hp]
      · simp only [hp]
        simp [List.countP_cons, hp]
        exact ih rest (by simp at h; omega)

theorem length_swapRemoveAll_le {α} (p : α → Bool) (es : List α) :
    (swapRemoveAll p es).length ≤ es.length := by
  unfold swapRemoveAll
  rw [length_swapRemoveAux_eq p es.length es (Nat.le_refl _)]
  exact List.countP_le_length

theorem length_swapRemoveAll_lt {α} (p : α → Bool) (es : List α) (x : α) (hx : x ∈ es) (hp : p x = true) :
    (swapRemoveAll p es).length < es.length := by
  unfold swapRemoveAll
  rw [length_swapRemoveAux_eq p es.length es (Nat.le_refl _)]
  have h1 := @List.countP_le_length _ (fun x => !p x) es
  have h2 : es.countP (fun x => !p x) ≠ es.length := by
    intro h3
    have := List.countP_eq_length.mp h3 x hx
    simp [hp] at this
  omega

theorem foldl_maxId_ge (es : List Entry) : ∀ m : Nat,
    m ≤ es.foldl (fun m e => if e.id > m then e.id else m) m ∧
    ∀ e ∈ es, e.id ≤ es.foldl (fun m e => if e.id > m then e.id else m) m := by
  induction es with
  | nil => intro m; simp
  | cons x xs ih =>
    intro m
    simp only [List.foldl_cons]
    obtain ⟨h1, h2⟩ := ih (if x.id > m then x.id else m)
    have hm : m ≤ (if x.id > m then x.id else m) ∧ x.id ≤ (if x.id > m then x.id else m) := by
      split <;> omega
    constructor
    · omega
    · intro e he
      rcases List.mem_cons.mp he with rfl | he
      · omega
      · exact h2 e he

theorem foldl_maxId_le (es : List Entry) (b : Nat) : ∀ m : Nat, m ≤ b → (∀ e ∈ es, e.id ≤ b) →
    es.foldl (fun m e => if e.id > m then e.id else m) m ≤ b := by
  induction es with
  | nil => intro m hm _; simpa using hm
  | cons x xs ih =>
    intro m hm h
    simp only [List.foldl_cons]
    apply ih
    · have := h x (by simp)
      split <;> omega
    · intro e he; exact h e (by simp [he])

theorem le_maxId {es : List Entry} {e : Entry} (h : e ∈ es) : e.id ≤ maxId es :=
  (foldl_maxId_ge es 0).2 e h

theorem maxId_le {es : List Entry} {b : Nat} (h : ∀ e ∈ es, e.id ≤ b) : maxId es ≤ b :=
  foldl_maxId_le es b 0 (Nat.zero_le _) h

theorem coarsen_covers {p c : Entry} {level : Nat} (h : coarsen p level = some c) : covers c p = true := by
  unfold coarsen at h
  split at h
  · split at h
    · simp at h
    · simp at h; subst h
      simp [covers, covAxis]
  · split at h
    · simp at h
    · simp at h; subst h
      simp [covers, covAxis]

theorem bestPivot_mem (level : Nat) (all : List Entry) : ∀ (l : List Entry) (best : Option Entry) (cnt : Nat) (p : Entry),
    bestPivot level all l best cnt = some p → p ∈ l ∨ best = some p := by
  intro l
  induction l with
  | nil => intro best cnt p h; right; simpa [bestPivot] using h
  | cons x xs ih =>
    intro best cnt p h
    simp only [bestPivot] at h
    split at h
    · rcases ih _ _ _ h with h1 | h1
      · left; simp [h1]
      · right; exact h1
    · split at h
      · rcases ih _ _ _ h with h1 | h1
        · left; simp [h1]
        · left; simp at h1; simp [h1]
      · rcases ih _ _ _ h with h1 | h1
        · left; simp [h1]
        · right; exact h1

theorem promoteLargestGroup_some {es es' : List Entry} {level b : Nat}
    (h : promoteLargestGroup es level = some es') (hb : ∀ e ∈ es, e.id ≤ b) :
    Dominates es' es ∧ (∀ e ∈ es', e.id ≤ b) ∧ es'.length ≤ es.length := by
  unfold promoteLargestGroup at h
  split at h
  · simp at h
  · rename_i p hp
    split at h
    · simp at h
    · rename_i c hc
      simp at h; subst h
      have hpm : p ∈ es := by
        rcases bestPivot_mem level es es none 1 p hp with h1 | h1
        · exact h1
        · simp at h1
      have hcp := coarsen_covers hc
      refine ⟨?_, ?_, ?_⟩
      · intro e he
        by_cases hce : covers c e = true
        · refine ⟨{ c with id := maxId (es.filter fun e => covers c e) }, by simp, ?_, ?_⟩
          · have := covers_id_irrel c e (maxId (es.filter fun e => covers c e)) e.id
            rw [show ({ e with id := e.id } : Entry) = e from rfl] at this
            rw [this]; exact hce
          · exact le_maxId (by simp [he, hce])
        · refine ⟨e, ?_, covers_refl e, Nat.le_refl _⟩
          simp only [List.mem_append]
          left
          rw [mem_swapRemoveAll]
          exact ⟨he, by simpa using hce⟩
      · intro e he
        simp only [List.mem_append, List.mem_singleton] at he
        rcases he with he | he
        · rw [mem_swapRemoveAll] at he
          exact hb e he.1
        · subst he
          simp only
          apply maxId_le
          intro e he
          exact hb e (List.mem_filter.mp he).1
      · have := length_swapRemoveAll_lt (fun e => covers c e) es p hpm hcp
        simp; omega



theorem cap_pos : 1 ≤ CAP := by decide

theorem covered_of_eq_covers {es : List Entry} {i : Nat} {p q : Entry}
    (h : ∀ e, covers e p = covers e q) (hc : Covered es i p) : Covered es i q := by
  obtain ⟨e, he, h1, h2⟩ := hc
  exact ⟨e, he, by rw [← h e]; exact h1, h2⟩

theorem promoteAndInsert_spec (new : Entry) : ∀ (fuel : Nat) (es : List Entry),
    (∀ e ∈ es, e.id ≤ new.id) → es.length ≤ CAP →
    Dominates (promoteAndInsert new fuel es) es ∧ Covered (promoteAndInsert new fuel es) new.id new ∧
    (∀ e ∈ promoteAndInsert new fuel es, e.id ≤ new.id) ∧ (promoteAndInsert new fuel es).length ≤ CAP := by
  intro fuel
  have glob : ∀ es : List Entry, (∀ e ∈ es, e.id ≤ new.id) →
      Dominates [({ ep := WEP, cl := WCL, attr := WAT, id := new.id } : Entry)] es ∧
      Covered [({ ep := WEP, cl := WCL, attr := WAT, id := new.id } : Entry)] new.id new ∧
      (∀ e ∈ [({ ep := WEP, cl := WCL, attr := WAT, id := new.id } : Entry)], e.id ≤ new.id) ∧
      [({ ep := WEP, cl := WCL, attr := WAT, id := new.id } : Entry)].length ≤ CAP := by
    intro es hb
    refine ⟨?_, ?_, ?_, by simpa using cap_pos⟩
    · intro e he
      exact ⟨({ ep := WEP, cl := WCL, attr := WAT, id := new.id } : Entry), by simp, by simp [covers, covAxis], hb e he⟩
    · exact ⟨({ ep := WEP, cl := WCL, attr := WAT, id := new.id } : Entry), by simp, by simp [covers, covAxis], Nat.le_refl _⟩
    · intro e he; simp at he; subst he; exact Nat.le_refl _
  induction fuel with
  | zero => intro es hb _; simpa [promoteAndInsert] using glob es hb
  | succ fuel ih =>
    intro es hb hcap
    simp only [promoteAndInsert]
    cases hr : refreshFirst new new.id es with
    | some r =>
      simp only
      obtain ⟨h1, h2, h3, h4⟩ := refreshFirst_some hr hb
      refine ⟨h1, h2, ?_, by omega⟩
      intro e he
      rcases h4 e he with h5 | h5
      · omega
      · exact hb e h5
    | none =>
      simp only
      split
      · rename_i hlt
        refine ⟨?_, ?_, ?_, by simp; omega⟩
        · intro e he; exact ⟨e, by simp [he], covers_refl e, Nat.le_refl _⟩
        · exact ⟨new, by simp, covers_refl new, Nat.le_refl _⟩
        · intro e he
          simp at he
          rcases he with he | he
          · exact hb e he
          · subst he; exact Nat.le_refl _
      · cases h1 : promoteLargestGroup es 1 with
        | some es' =>
          simp only
          obtain ⟨d1, b1, l1⟩ := promoteLargestGroup_some h1 hb
          obtain ⟨a1, a2, a3, a4⟩ := ih es' b1 (by omega)
          exact ⟨Dominates.trans a1 d1, a2, a3, a4⟩
        | none =>
          simp only
          cases h2 : promoteLargestGroup es 2 with
          | some es' =>
            simp only
            obtain ⟨d1, b1, l1⟩ := promoteLargestGroup_some h2 hb
            obtain ⟨a1, a2, a3, a4⟩ := ih es' b1 (by omega)
            exact ⟨Dominates.trans a1 d1, a2, a3, a4⟩
          | none =>
            simp only
            exact glob es hb

/-- What `record_raw` guarantees (no wrap of the change id). -/
theorem recordRaw_spec (c : Changed) (p : Entry) (hb : ∀ e ∈ c.entries, e.id < c.nextId)
    (hcap : c.entries.length ≤ CAP) (hw : c.nextId + 1 < U64) :
    (c.recordRaw p).nextId = c.nextId + 1 ∧
    Dominates (c.recordRaw p).entries c.entries ∧
    Covered (c.recordRaw p).entries c.nextId p ∧
    (∀ e ∈ (c.recordRaw p).entries, e.id < c.nextId + 1) ∧
    (c.recordRaw p).entries.length ≤ CAP := by
  have hnext : max ((c.nextId + 1) % U64) 1 = c.nextId + 1 := by
    rw [Nat.mod_eq_of_lt hw]; omega
  have hb' : ∀ e ∈ c.entries, e.id ≤ c.nextId := fun e he => Nat.le_of_lt (hb e he)
  have hcv : ∀ e, covers e ({ p with id := c.nextId } : Entry) = covers e p := by
    intro e
    have := covers_id_irrel e p e.id c.nextId
    rw [show ({ e with id := e.id } : Entry) = e from rfl] at this
    exact this
  unfold Changed.recordRaw
  simp only [hnext]
  cases hr : refreshFirst ({ p with id := c.nextId } : Entry) c.nextId c.entries with
  | some r =>
    simp only
    obtain ⟨h1, h2, h3, h4⟩ := refreshFirst_some hr hb'
    refine ⟨trivial, h1, covered_of_eq_covers hcv h2, ?_, by omega⟩
    intro e he
    rcases h4 e he with h5 | h5
    · omega
    · have := hb e h5; omega
  | none =>
    simp only
    have hdom : Dominates (swapRemoveAll (fun e => covers ({ p with id := c.nextId } : Entry) e) c.entries ++ [({ p with id := c.nextId } : Entry)]) c.entries := by
      intro e he
      by_cases hce : covers ({ p with id := c.nextId } : Entry) e = true
      · exact ⟨({ p with id := c.nextId } : Entry), by simp, hce, hb' e he⟩
      · refine ⟨e, ?_, covers_refl e, Nat.le_refl _⟩
        simp only [List.mem_append]; left
        rw [mem_swapRemoveAll]; exact ⟨he, by simpa using hce⟩
    have hsub : ∀ e ∈ swapRemoveAll (fun e => covers ({ p with id := c.nextId } : Entry) e) c.entries, e ∈ c.entries :=
      fun e he => ((mem_swapRemoveAll _ _ _).mp he).1
    have hlen := length_swapRemoveAll_le (fun e => covers ({ p with id := c.nextId } : Entry) e) c.entries
    split
    · rename_i hlt
      refine ⟨rfl, hdom, ?_, ?_, by simp; omega⟩
      · exact ⟨({ p with id := c.nextId } : Entry), by simp, by simp [covers, covAxis_refl], Nat.le_refl _⟩
      · intro e he
        simp only [List.mem_append, List.mem_singleton] at he
        rcases he with he | he
        · have := hb e (hsub e he); omega
        · subst he; simp
    · obtain ⟨a1, a2, a3, a4⟩ := promoteAndInsert_spec ({ p with id := c.nextId } : Entry) (CAP + 2)
        (swapRemoveAll (fun e => covers ({ p with id := c.nextId } : Entry) e) c.entries)
        (fun e he => hb' e (hsub e he)) (by omega)
      refine ⟨rfl, ?_, covered_of_eq_covers hcv a2, ?_, a4⟩
      · intro e he
        by_cases hce : covers ({ p with id := c.nextId } : Entry) e = true
        · obtain ⟨e', he', h1, h2⟩ := a2
          exact ⟨e', he', covers_trans h1 hce, by have := hb' e he; simp at h2; omega⟩
        · exact a1 e (by rw [mem_swapRemoveAll]; exact ⟨he, by simpa using hce⟩)
      · intro e he
        have := a3 e he
        simp at this; omega



/-! ## list helpers -/

theorem mem_swapRemove {α} {es : List α} {i : Nat} {x : α} (h : x ∈ swapRemove es i) : x ∈ es := by
  unfold swapRemove at h
  cases hl : es.getLast? with
  | none => rw [hl] at h; exact h
  | some l =>
    rw [hl] at h
    simp only at h
    split at h
    · exact List.dropLast_subset _ h
    · have := List.dropLast_subset _ h
      rcases List.mem_or_eq_of_mem_set this with h1 | h1
      · exact h1
      · subst h1; exact List.mem_of_getLast? hl

theorem length_swapRemove {α} {es : List α} {i : Nat} (h : i < es.length) :
    (swapRemove es i).length + 1 = es.length := by
  unfold swapRemove
  cases hl : es.getLast? with
  | none => have : es = [] := by simpa using hl
            subst this; simp at h
  | some l =>
    simp only
    split <;> simp <;> omega

theorem minList_le : ∀ {l : List Nat} {m : Nat}, minList l = some m → ∀ x ∈ l, m ≤ x := by
  intro l
  induction l with
  | nil => intro m h; simp [minList] at h
  | cons y ys ih =>
    intro m h x hx
    simp only [minList] at h
    cases hr : minList ys with
    | none =>
      rw [hr] at h; simp at h; subst h
      have : ys = [] := by
        cases ys with
        | nil => rfl
        | cons z zs => simp only [minList] at hr; split at hr <;> simp at hr
      subst this; simp at hx; omega
    | some m' =>
      rw [hr] at h; simp at h; subst h
      rcases List.mem_cons.mp hx with rfl | hx
      · exact Nat.min_le_left _ _
      · exact Nat.le_trans (Nat.min_le_right _ _) (ih hr x hx)

theorem minList_mem : ∀ {l : List Nat} {m : Nat}, minList l = some m → m ∈ l := by
  intro l
  induction l with
  | nil => intro m h; simp [minList] at h
  | cons y ys ih =>
    intro m h
    simp only [minList] at h
    cases hr : minList ys with
    | none => rw [hr] at h; simp at h; subst h; simp
    | some m' =>
      rw [hr] at h; simp at h; subst h
      have := ih hr
      by_cases hle : y ≤ m'
      · simp [Nat.min_eq_left hle]
      · simp [Nat.min_eq_right (by omega : m' ≤ y), this]

theorem minList_none : ∀ {l : List Nat}, minList l = none → l = [] := by
  intro l h
  cases l with
  | nil => rfl
  | cons z zs => simp only [minList] at h; split at h <;> simp at h

theorem covered_purgeUpTo {es : List Entry} {i m : Nat} {p : Entry} (h : Covered es i p) (hm : m < i) :
    Covered (purgeUpTo es m) i p := by
  unfold purgeUpTo
  split
  · exact h
  · obtain ⟨e, he, h1, h2⟩ := h
    refine ⟨e, ?_, h1, h2⟩
    rw [mem_swapRemoveAll]
    exact ⟨he, by simp; omega⟩

theorem mem_purgeUpTo {es : List Entry} {m : Nat} {e : Entry} (h : e ∈ purgeUpTo es m) : e ∈ es := by
  unfold purgeUpTo at h
  split at h
  · exact h
  · exact ((mem_swapRemoveAll _ _ _).mp h).1

theorem length_purgeUpTo (es : List Entry) (m : Nat) : (purgeUpTo es m).length ≤ es.length := by
  unfold purgeUpTo
  split
  · exact Nat.le_refl _
  · exact length_swapRemoveAll_le _ _

/-- the table loop of `remove` only removes, and keeps `count - len` constant -/
theorem removeLoop_spec (p : Sub → Bool) : ∀ (fuel : Nat) (subs : List Sub) (count : Nat),
    subs.length ≤ count →
    (∀ x ∈ (removeLoop p fuel subs count).1, x ∈ subs) ∧
    (removeLoop p fuel subs count).2.1 + subs.length = count + (removeLoop p fuel subs count).1.length := by
  intro fuel
  induction fuel with
  | zero => intro subs count _; simp [removeLoop]
  | succ fuel ih =>
    intro subs count hc
    simp only [removeLoop]
    cases hf : subs.findIdx? p with
    | none => simp
    | some i =>
      simp only
      have hi : i < subs.length := by
        have := List.findIdx?_eq_some_iff_findIdx_eq.mp hf
        exact this.1
      have hl := length_swapRemove hi
      obtain ⟨h1, h2⟩ := ih (swapRemove subs i) (count - 1) (by omega)
      exact ⟨fun x hx => mem_swapRemove (h1 x hx), by omega⟩

/-- with enough fuel nothing matching the predicate is left in the table -/
theorem removeLoop_all (p : Sub → Bool) : ∀ (fuel : Nat) (subs : List Sub) (count : Nat),
    subs.length < fuel → ∀ x ∈ (removeLoop p fuel subs count).1, p x = false := by
  intro fuel
  induction fuel with
  | zero => intro subs count h; omega
  | succ fuel ih =>
    intro subs count h
    simp only [removeLoop]
    cases hf : subs.findIdx? p with
    | none =>
      simp only
      intro x hx
      have := List.findIdx?_eq_none_iff.mp hf x hx
      simpa using this
    | some i =>
      simp only
      have hi : i < subs.length := (List.findIdx?_eq_some_iff_findIdx_eq.mp hf).1
      have hl := length_swapRemove hi
      exact ih (swapRemove subs i) (count - 1) (by omega)



/-- the live subscriptions: in the table, or outside it in a report context (priming / reporting) -/
def State.live (s : State) : List Sub := s.subs ++ s.ctxs.map (·.sub)

/-- **Coverage invariant.** Every recorded change `(i, p)` that a live subscription has not yet
seen (`seenAttr < i`) is covered by a pending entry whose id is at least `i`. -/
def Cov (s : State) : Prop :=
  ∀ x ∈ s.live, ∀ ip ∈ s.log, x.seenAttr < ip.1 → Covered s.changed.entries ip.1 ip.2

/-- well-formedness of the table state -/
structure WF (s : State) : Prop where
  idsBelow : ∀ e ∈ s.changed.entries, e.id < s.changed.nextId
  logBelow : ∀ ip ∈ s.log, ip.1 < s.changed.nextId
  nextPos : 1 ≤ s.changed.nextId
  nextLt : s.changed.nextId < U64
  seenBelow : ∀ x ∈ s.live, x.seenAttr < s.changed.nextId
  ctxMono : ∀ c ∈ s.ctxs, c.sub.seenAttr ≤ c.nextAttr ∧ c.nextAttr < s.changed.nextId
  cap : s.changed.entries.length ≤ CAP
  count : s.count = s.subs.length + s.ctxs.length

theorem mem_live {s : State} {x : Sub} : x ∈ s.live ↔ x ∈ s.subs ∨ ∃ c ∈ s.ctxs, c.sub = x := by
  unfold State.live
  rw [List.mem_append, List.mem_map]

theorem imax_succ : IMAX + 1 = U64 := by decide

theorem watermark_eq {c : Changed} (h1 : 1 ≤ c.nextId) (h2 : c.nextId < U64) :
    c.watermark + 1 = c.nextId := by
  unfold Changed.watermark
  have h3 := imax_succ
  have : c.nextId + IMAX = (c.nextId - 1) + U64 := by omega
  rw [this, Nat.add_mod_right, Nat.mod_eq_of_lt (by omega)]
  omega

theorem wf_init (hz n : Nat) : WF (State.new hz n) := by
  refine ⟨?_, ?_, ?_, ?_, ?_, ?_, ?_, ?_⟩ <;> simp [State.new, Changed.new, State.live]
  decide

theorem cov_init (hz n : Nat) : Cov (State.new hz n) := by
  intro x hx; simp [State.new, State.live] at hx

/-! ### change -/
theorem wf_change {s : State} (p : Entry) (h : WF s) (hw : s.changed.nextId + 1 < U64) :
    WF (s.change p) := by
  obtain ⟨a1, a2, a3, a4, a5⟩ := recordRaw_spec s.changed p h.idsBelow h.cap hw
  refine ⟨?_, ?_, ?_, ?_, ?_, ?_, ?_, ?_⟩
  · intro e he; simp only [State.change] at he ⊢; rw [a1]; exact a4 e he
  · intro ip hip
    simp only [State.change] at hip ⊢
    rw [a1]
    rcases List.mem_cons.mp hip with rfl | hip
    · simp
    · have := h.logBelow ip hip; omega
  · simp only [State.change]; omega
  · simp only [State.change]; omega
  · intro x hx
    simp only [State.change] at ⊢
    have : x ∈ s.live := by simpa [State.live, State.change] using hx
    have := h.seenBelow x this; omega
  · intro c hc
    simp only [State.change] at hc ⊢
    have := h.ctxMono c hc; omega
  · simpa [State.change] using a5
  · simpa [State.change] using h.count

theorem cov_change {s : State} (p : Entry) (h : WF s) (hc : Cov s) (hw : s.changed.nextId + 1 < U64) :
    Cov (s.change p) := by
  obtain ⟨a1, a2, a3, a4, a5⟩ := recordRaw_spec s.changed p h.idsBelow h.cap hw
  intro x hx ip hip hlt
  have hx' : x ∈ s.live := by simpa [State.live, State.change] using hx
  simp only [State.change] at hip ⊢
  rcases List.mem_cons.mp hip with rfl | hip
  · exact a3
  · exact Covered.mono a2 (hc x hx' ip hip hlt)

/-! ### add -/
theorem wf_add {s : State} (now fab peer mn mx ev : Nat) (h : WF s) :
    WF (s.add now fab peer mn mx ev).1 := by
  unfold State.add
  split
  · exact h
  · have hwm := watermark_eq h.nextPos h.nextLt
    refine ⟨h.idsBelow, h.logBelow, h.nextPos, h.nextLt, ?_, ?_, h.cap, ?_⟩
    · intro x hx
      simp only [State.live, List.map_append, List.mem_append, List.mem_map, List.mem_singleton] at hx
      rcases hx with hx | ⟨c, hc, rfl⟩ | ⟨c, rfl, rfl⟩
      · exact h.seenBelow x (by simp [State.live, hx])
      · exact h.seenBelow _ (by simp only [State.live, List.mem_append, List.mem_map]; right; exact ⟨c, hc, rfl⟩)
      · simp only; omega
    · intro c hc
      simp only [List.mem_append, List.mem_singleton] at hc
      rcases hc with hc | rfl
      · exact h.ctxMono c hc
      · simp only; omega
    · simp only [List.length_append, List.length_singleton]; have := h.count; omega

theorem cov_add {s : State} (now fab peer mn mx ev : Nat) (h : WF s) (hc : Cov s) :
    Cov (s.add now fab peer mn mx ev).1 := by
  unfold State.add
  split
  · exact hc
  · have hwm := watermark_eq h.nextPos h.nextLt
    intro x hx ip hip hlt
    simp only [State.live, List.map_append, List.mem_append, List.mem_map, List.mem_singleton] at hx
    simp only at hip ⊢
    rcases hx with hx | ⟨c, hcm, rfl⟩ | ⟨c, rfl, rfl⟩
    · exact hc x (by simp [State.live, hx]) ip hip hlt
    · exact hc _ (by simp only [State.live, List.mem_append, List.mem_map]; right; exact ⟨c, hcm, rfl⟩) ip hip hlt
    · have := h.logBelow ip hip
      simp only at hlt
      omega



/-! ### report -/
/-- the state after a report of the subscription at index `i` has begun -/
def reportTo (s : State) (i : Nat) (sub : Sub) (now ev : Nat) : State :=
  let ctx : Ctx := { sub := sub, nextAttr := s.changed.watermark, nextEv := ev,
                     nextReportedAt := now, nextRetryAt := 0, nextFail := 0 }
  { s with subs := swapRemove s.subs i, reporting := some sub, ctxs := s.ctxs ++ [ctx] }

theorem report_shape {s : State} {now ev : Nat} :
    (s.report now ev).1 = s ∨
    ∃ i sub, s.subs[i]? = some sub ∧ (s.report now ev).1 = reportTo s i sub now ev := by
  unfold State.report
  split
  · left; rfl
  · rename_i i _
    split
    · left; rfl
    · rename_i sub hs
      right; exact ⟨i, sub, hs, rfl⟩

theorem wf_report {s : State} (now ev : Nat) (h : WF s) : WF (s.report now ev).1 := by
  rcases report_shape (s := s) (now := now) (ev := ev) with h1 | ⟨i, sub, hs, h1⟩
  · rw [h1]; exact h
  · rw [h1]; unfold reportTo
    have hwm := watermark_eq h.nextPos h.nextLt
    have hi : i < s.subs.length := (List.getElem?_eq_some_iff.mp hs).1
    have hmem : sub ∈ s.subs := List.mem_of_getElem? hs
    have hsb := h.seenBelow sub (by simp [State.live, hmem])
    refine ⟨h.idsBelow, h.logBelow, h.nextPos, h.nextLt, ?_, ?_, h.cap, ?_⟩
    · intro x hx
      simp only [State.live, List.map_append, List.mem_append, List.mem_map, List.mem_singleton] at hx
      rcases hx with hx | ⟨c, hc, rfl⟩ | ⟨c, rfl, rfl⟩
      · exact h.seenBelow x (by simp [State.live, mem_swapRemove hx])
      · exact h.seenBelow _ (by simp only [State.live, List.mem_append, List.mem_map]; right; exact ⟨c, hc, rfl⟩)
      · exact hsb
    · intro c hc
      simp only [List.mem_append, List.mem_singleton] at hc
      rcases hc with hc | rfl
      · exact h.ctxMono c hc
      · simp only; omega
    · have := length_swapRemove hi
      have := h.count
      simp only [List.length_append, List.length_singleton]; omega

theorem cov_report {s : State} (now ev : Nat) (hc : Cov s) : Cov (s.report now ev).1 := by
  rcases report_shape (s := s) (now := now) (ev := ev) with h1 | ⟨i, sub, hs, h1⟩
  · rw [h1]; exact hc
  · rw [h1]; unfold reportTo
    have hmem : sub ∈ s.subs := List.mem_of_getElem? hs
    intro x hx ip hip hlt
    simp only [State.live, List.map_append, List.mem_append, List.mem_map, List.mem_singleton] at hx
    simp only at hip ⊢
    rcases hx with hx | ⟨c, hcm, rfl⟩ | ⟨c, rfl, rfl⟩
    · exact hc x (by simp [State.live, mem_swapRemove hx]) ip hip hlt
    · exact hc _ (by simp only [State.live, List.mem_append, List.mem_map]; right; exact ⟨c, hcm, rfl⟩) ip hip hlt
    · exact hc _ (by simp [State.live, hmem]) ip hip hlt

/-! ### the end of a report context -/
def rcKeep (s : State) (sub : Sub) (r : Option Sub) (cx : Bool) : State :=
  { s with reporting := r, cancelled := cx, subs := s.subs ++ [sub] }
def rcDrop (s : State) (r : Option Sub) (cx : Bool) : State :=
  { s with reporting := r, cancelled := cx, count := s.count - 1 }

theorem reportComplete_shape (s : State) (sub : Sub) (keep : Bool) :
    (∃ r cx, s.reportComplete sub keep = rcKeep s sub r cx) ∨
    (∃ r cx, s.reportComplete sub keep = rcDrop s r cx) := by
  unfold State.reportComplete
  simp only
  repeat' split
  all_goals first | (left; exact ⟨_, _, rfl⟩) | (right; exact ⟨_, _, rfl⟩)

theorem commit_seen (hz : Nat) (c : Ctx) (f : Fin) :
    let c' := match f with | .retry => c.setKeepRetry hz | .unsent => c.setKeepUnsent | _ => c
    c'.commit.seenAttr = (match f with | .retry => c.sub.seenAttr | _ => c.nextAttr) := by
  cases f <;> simp [Ctx.commit, Ctx.setKeepRetry, Ctx.setKeepUnsent]

theorem length_eraseP_find {α} {l : List α} {p : α → Bool} {c : α} (h : l.find? p = some c) :
    (l.eraseP p).length + 1 = l.length := by
  have hm := List.mem_of_find?_eq_some h
  have hp := List.find?_some h
  have := List.length_eraseP_of_mem hm hp
  have : 0 < l.length := List.length_pos_of_mem hm
  omega


theorem fin_shape {s : State} {id : Nat} {f : Fin} :
    (s.fin id f).1 = s ∨
    ∃ c ∈ s.ctxs, ∃ sub' : Sub, (sub'.seenAttr = c.nextAttr ∨ sub'.seenAttr = c.sub.seenAttr) ∧
      ((∃ r cx, (s.fin id f).1 = rcKeep { s with ctxs := s.ctxs.eraseP (fun c => c.sub.id == id) } sub' r cx) ∨
       (∃ r cx, (s.fin id f).1 = rcDrop { s with ctxs := s.ctxs.eraseP (fun c => c.sub.id == id) } r cx)) ∧
      (s.ctxs.eraseP (fun c => c.sub.id == id)).length + 1 = s.ctxs.length := by
  unfold State.fin
  split
  · left; rfl
  · rename_i c hc
    right
    refine ⟨c, List.mem_of_find?_eq_some hc, (match f with | .retry => c.setKeepRetry s.hz | .unsent => c.setKeepUnsent | _ => c).commit, ?_, ?_, length_eraseP_find hc⟩
    rotate_left
    · simp only
      rcases reportComplete_shape ({ s with ctxs := s.ctxs.eraseP (fun c => c.sub.id == id) })
        ((match f with | .retry => c.setKeepRetry s.hz | .unsent => c.setKeepUnsent | _ => c).commit)
        (match f with | .drop => false | _ => true) with ⟨r, cx, h⟩ | ⟨r, cx, h⟩
      · left; exact ⟨r, cx, h⟩
      · right; exact ⟨r, cx, h⟩
    · cases f <;> simp [Ctx.commit, Ctx.setKeepRetry, Ctx.setKeepUnsent]



theorem wf_fin {s : State} (id : Nat) (f : Fin) (h : WF s) : WF (s.fin id f).1 := by
  rcases fin_shape (s := s) (id := id) (f := f) with h1 | ⟨c, hcm, sub', hseen, hsh, hlen⟩
  · rw [h1]; exact h
  · have hcmono := h.ctxMono c hcm
    have hsub : ∀ c' ∈ s.ctxs.eraseP (fun c => c.sub.id == id), c' ∈ s.ctxs :=
      fun c' hc' => List.mem_of_mem_eraseP hc'
    have hcnt := h.count
    have hpos : 0 < s.ctxs.length := List.length_pos_of_mem hcm
    rcases hsh with ⟨r, cx, h1⟩ | ⟨r, cx, h1⟩
    · rw [h1]; unfold rcKeep
      refine ⟨h.idsBelow, h.logBelow, h.nextPos, h.nextLt, ?_, ?_, h.cap, ?_⟩
      · intro x hx
        simp only [State.live, List.mem_append, List.mem_map, List.mem_singleton] at hx
        rcases hx with (hx | rfl) | ⟨c', hc', rfl⟩
        · exact h.seenBelow x (by simp [State.live, hx])
        · simp only; rcases hseen with hs | hs <;> omega
        · exact h.seenBelow _ (by simp only [State.live, List.mem_append, List.mem_map]; right; exact ⟨c', hsub c' hc', rfl⟩)
      · intro c' hc'; exact h.ctxMono c' (hsub c' hc')
      · simp only [List.length_append, List.length_singleton]; omega
    · rw [h1]; unfold rcDrop
      refine ⟨h.idsBelow, h.logBelow, h.nextPos, h.nextLt, ?_, ?_, h.cap, ?_⟩
      · intro x hx
        simp only [State.live, List.mem_append, List.mem_map] at hx
        rcases hx with hx | ⟨c', hc', rfl⟩
        · exact h.seenBelow x (by simp [State.live, hx])
        · exact h.seenBelow _ (by simp only [State.live, List.mem_append, List.mem_map]; right; exact ⟨c', hsub c' hc', rfl⟩)
      · intro c' hc'; exact h.ctxMono c' (hsub c' hc')
      · simp only; omega

theorem cov_fin {s : State} (id : Nat) (f : Fin) (h : WF s) (hc : Cov s) : Cov (s.fin id f).1 := by
  rcases fin_shape (s := s) (id := id) (f := f) with h1 | ⟨c, hcm, sub', hseen, hsh, hlen⟩
  · rw [h1]; exact hc
  · have hcmono := h.ctxMono c hcm
    have hsub : ∀ c' ∈ s.ctxs.eraseP (fun c => c.sub.id == id), c' ∈ s.ctxs :=
      fun c' hc' => List.mem_of_mem_eraseP hc'
    have hlive : c.sub ∈ s.live := by
      simp only [State.live, List.mem_append, List.mem_map]; right; exact ⟨c, hcm, rfl⟩
    rcases hsh with ⟨r, cx, h1⟩ | ⟨r, cx, h1⟩
    · rw [h1]; unfold rcKeep
      intro x hx ip hip hlt
      simp only [State.live, List.mem_append, List.mem_map, List.mem_singleton] at hx
      simp only at hip ⊢
      rcases hx with (hx | rfl) | ⟨c', hc', rfl⟩
      · exact hc x (by simp [State.live, hx]) ip hip hlt
      · exact hc c.sub hlive ip hip (by rcases hseen with hs | hs <;> omega)
      · exact hc _ (by simp only [State.live, List.mem_append, List.mem_map]; right; exact ⟨c', hsub c' hc', rfl⟩) ip hip hlt
    · rw [h1]; unfold rcDrop
      intro x hx ip hip hlt
      simp only [State.live, List.mem_append, List.mem_map] at hx
      simp only at hip ⊢
      rcases hx with hx | ⟨c', hc', rfl⟩
      · exact hc x (by simp [State.live, hx]) ip hip hlt
      · exact hc _ (by simp only [State.live, List.mem_append, List.mem_map]; right; exact ⟨c', hsub c' hc', rfl⟩) ip hip hlt

/-! ### remove -/
def rmTo (s : State) (subs : List Sub) (count : Nat) (cx : Bool) : State :=
  { s with subs := subs, count := count, cancelled := cx }

theorem remove_shape (s : State) (p : Sub → Bool) :
    ∃ cx, (s.remove p).1 = rmTo s (removeLoop p (s.subs.length + 1) s.subs s.count).1
      (removeLoop p (s.subs.length + 1) s.subs s.count).2.1 cx := by
  unfold State.remove
  simp only
  repeat' split
  all_goals exact ⟨_, rfl⟩

theorem wf_remove {s : State} (p : Sub → Bool) (h : WF s) : WF (s.remove p).1 := by
  obtain ⟨cx, h1⟩ := remove_shape s p
  rw [h1]; unfold rmTo
  obtain ⟨a1, a2⟩ := removeLoop_spec p (s.subs.length + 1) s.subs s.count (by have := h.count; omega)
  refine ⟨h.idsBelow, h.logBelow, h.nextPos, h.nextLt, ?_, h.ctxMono, h.cap, ?_⟩
  · intro x hx
    simp only [State.live, List.mem_append, List.mem_map] at hx
    rcases hx with hx | ⟨c', hc', rfl⟩
    · exact h.seenBelow x (by simp [State.live, a1 x hx])
    · exact h.seenBelow _ (by simp only [State.live, List.mem_append, List.mem_map]; right; exact ⟨c', hc', rfl⟩)
  · simp only; have := h.count; omega

theorem cov_remove {s : State} (p : Sub → Bool) (h : WF s) (hc : Cov s) : Cov (s.remove p).1 := by
  obtain ⟨cx, h1⟩ := remove_shape s p
  rw [h1]; unfold rmTo
  obtain ⟨a1, a2⟩ := removeLoop_spec p (s.subs.length + 1) s.subs s.count (by have := h.count; omega)
  intro x hx ip hip hlt
  simp only [State.live, List.mem_append, List.mem_map] at hx
  simp only at hip ⊢
  rcases hx with hx | ⟨c', hc', rfl⟩
  · exact hc x (by simp [State.live, a1 x hx]) ip hip hlt
  · exact hc _ (by simp only [State.live, List.mem_append, List.mem_map]; right; exact ⟨c', hc', rfl⟩) ip hip hlt

/-! ### purge -/
theorem wf_purge {s : State} (h : WF s) : WF s.purge := by
  unfold State.purge
  split
  · exact h
  · split
    · exact ⟨fun e he => h.idsBelow e (mem_purgeUpTo he), h.logBelow, h.nextPos, h.nextLt, h.seenBelow,
        h.ctxMono, Nat.le_trans (length_purgeUpTo _ _) h.cap, h.count⟩
    · exact ⟨fun e he => by simp at he, h.logBelow, h.nextPos, h.nextLt, h.seenBelow,
        h.ctxMono, by simp, h.count⟩

/-- `purge_reported_changes` of the repaired code keeps the coverage invariant: it runs only when
no subscription is outside the table, and then stays below the watermark of every live subscription. -/
theorem cov_purge {s : State} (h : WF s) (hc : Cov s) : Cov s.purge := by
  unfold State.purge
  split
  · exact hc
  · rename_i hcnt
    have hctx : s.ctxs = [] := by
      have := h.count
      have h0 : s.ctxs.length = 0 := by
        have : s.count = s.subs.length := by simpa using hcnt
        omega
      exact List.length_eq_zero_iff.mp h0
    split
    · rename_i m hm
      intro x hx ip hip hlt
      have hxs : x ∈ s.subs := by simpa [State.live, hctx] using hx
      have hmx : m ≤ x.seenAttr := minList_le hm x.seenAttr (List.mem_map.mpr ⟨x, hxs, rfl⟩)
      simp only at hip ⊢
      exact covered_purgeUpTo (hc x (by simp [State.live, hxs]) ip hip hlt) (by omega)
    · rename_i hm
      have : s.subs = [] := by
        have := minList_none hm
        simpa using this
      intro x hx
      simp [State.live, hctx, this] at hx

/-! ### persist / restart -/
theorem wf_persist {s : State} (h : WF s) : WF s.persist :=
  ⟨h.idsBelow, h.logBelow, h.nextPos, h.nextLt, h.seenBelow, h.ctxMono, h.cap, h.count⟩

theorem cov_persist {s : State} (hc : Cov s) : Cov s.persist := hc

theorem wf_resumeOne {s : State} (r : Rec) (now ev : Nat) (h : WF s) : WF (s.resumeOne r now ev) := by
  unfold State.resumeOne
  split
  · exact h
  · have hwm := watermark_eq h.nextPos h.nextLt
    refine ⟨h.idsBelow, h.logBelow, h.nextPos, h.nextLt, ?_, h.ctxMono, h.cap, ?_⟩
    · intro x hx
      simp only [State.live, List.mem_append, List.mem_map, List.mem_singleton] at hx
      rcases hx with (hx | rfl) | ⟨c, hc, rfl⟩
      · exact h.seenBelow x (by simp [State.live, hx])
      · simp only; omega
      · exact h.seenBelow _ (by simp only [State.live, List.mem_append, List.mem_map]; right; exact ⟨c, hc, rfl⟩)
    · simp only [List.length_append, List.length_singleton]; have := h.count; omega

theorem cov_resumeOne {s : State} (r : Rec) (now ev : Nat) (h : WF s) (hc : Cov s) :
    Cov (s.resumeOne r now ev) := by
  unfold State.resumeOne
  split
  · exact hc
  · have hwm := watermark_eq h.nextPos h.nextLt
    intro x hx ip hip hlt
    simp only [State.live, List.mem_append, List.mem_map, List.mem_singleton] at hx
    simp only at hip ⊢
    rcases hx with (hx | rfl) | ⟨c, hcm, rfl⟩
    · exact hc x (by simp [State.live, hx]) ip hip hlt
    · have := h.logBelow ip hip
      simp only at hlt
      omega
    · exact hc _ (by simp only [State.live, List.mem_append, List.mem_map]; right; exact ⟨c, hcm, rfl⟩) ip hip hlt

theorem inv_resumeAll (now ev : Nat) : ∀ (rs : List Rec) (s : State), WF s → Cov s →
    WF (rs.foldl (fun st r => st.resumeOne r now ev) s) ∧
    Cov (rs.foldl (fun st r => st.resumeOne r now ev) s) := by
  intro rs
  induction rs with
  | nil => intro s h hc; exact ⟨h, hc⟩
  | cons r rs ih =>
    intro s h hc
    simp only [List.foldl_cons]
    exact ih _ (wf_resumeOne r now ev h) (cov_resumeOne r now ev h hc)

/-- the fresh table of a restart (before `load_persist`) -/
def State.fresh (s : State) : State := { State.new s.hz s.n with kv := s.kv, epoch := s.epoch + 1 }

theorem wf_fresh (s : State) : WF s.fresh := by
  refine ⟨?_, ?_, ?_, ?_, ?_, ?_, ?_, ?_⟩ <;> simp [State.fresh, State.new, Changed.new, State.live]
  decide

theorem cov_fresh (s : State) : Cov s.fresh := by
  intro x hx; simp [State.fresh, State.new, State.live] at hx

theorem restart_eq (s : State) (now ev : Nat) :
    s.restart now ev = (s.kv.take s.n).foldl (fun st r => st.resumeOne r now ev) s.fresh := rfl

theorem inv_restart (s : State) (now ev : Nat) : WF (s.restart now ev) ∧ Cov (s.restart now ev) := by
  rw [restart_eq]
  exact inv_resumeAll now ev _ _ (wf_fresh s) (cov_fresh s)

/-- **(1) The coverage invariant and well-formedness are preserved by every operation.**
The only side condition is that change ids do not wrap. -/
theorem inv_step {s : State} (op : Op) (h : WF s) (hc : Cov s) (hw : s.changed.nextId + 1 < U64) :
    WF (s.step op) ∧ Cov (s.step op) := by
  cases op with
  | change p => exact ⟨wf_change p h hw, cov_change p h hc hw⟩
  | add now fab peer mn mx ev => exact ⟨wf_add now fab peer mn mx ev h, cov_add now fab peer mn mx ev h hc⟩
  | report now ev => exact ⟨wf_report now ev h, cov_report now ev hc⟩
  | fin id f => exact ⟨wf_fin id f h, cov_fin id f h hc⟩
  | remove p => exact ⟨wf_remove p h, cov_remove p h hc⟩
  | purge => exact ⟨wf_purge h, cov_purge h hc⟩
  | persist => exact ⟨wf_persist h, cov_persist hc⟩
  | restart now ev => exact inv_restart s now ev



theorem bestPivot_count (level : Nat) (all : List Entry) : ∀ (l : List Entry) (best : Option Entry) (cnt : Nat) (p : Entry),
    1 ≤ cnt → (∀ b c, best = some b → coarsen b level = some c → 1 < groupCount c all) →
    bestPivot level all l best cnt = some p → ∀ c, coarsen p level = some c → 1 < groupCount c all := by
  intro l
  induction l with
  | nil =>
    intro best cnt p _ hb h c hc
    simp only [bestPivot] at h
    exact hb p c h hc
  | cons x xs ih =>
    intro best cnt p hcnt hb h c hc
    simp only [bestPivot] at h
    split at h
    · exact ih best cnt p hcnt hb h c hc
    · rename_i cx hcx
      split at h
      · rename_i hgt
        refine ih (some x) (groupCount cx all) p (by omega) ?_ h c hc
        intro b c' hb' hc'
        simp at hb'; subst hb'
        rw [hcx] at hc'; simp at hc'; subst hc'
        omega
      · exact ih best cnt p hcnt hb h c hc

theorem length_swapRemoveAll_eq {α} (p : α → Bool) (es : List α) :
    (swapRemoveAll p es).length + (es.filter p).length = es.length := by
  unfold swapRemoveAll
  rw [length_swapRemoveAux_eq p es.length es (Nat.le_refl _)]
  have := List.length_eq_countP_add_countP p (l := es)
  rw [List.countP_eq_length_filter] at this
  have h2 : es.countP (fun x => !p x) = es.countP (fun a => ¬ p a = true) := by
    congr 1; funext a; cases p a <;> simp
  omega

/-- a promotion frees at least one slot -/
theorem promoteLargestGroup_shrinks {es es' : List Entry} {level : Nat}
    (h : promoteLargestGroup es level = some es') : es'.length + 1 ≤ es.length := by
  unfold promoteLargestGroup at h
  split at h
  · simp at h
  · rename_i p hp
    split at h
    · simp at h
    · rename_i c hc
      simp at h; subst h
      have hcount := bestPivot_count level es es none 1 p (Nat.le_refl _) (by intro b c hb; simp at hb) hp c hc
      have hlen := length_swapRemoveAll_eq (fun e => covers c e) es
      unfold groupCount at hcount
      simp only [List.length_append, List.length_singleton]
      omega

/-- the fuel of `promoteAndInsert` is never exhausted: two rounds always suffice -/
theorem promoteAndInsert_fuel (new : Entry) (es : List Entry) (hcap : es.length ≤ CAP) (f : Nat) :
    promoteAndInsert new (f + 2) es = promoteAndInsert new 2 es := by
  have one : ∀ (g : Nat) (es' : List Entry), es'.length < CAP →
      promoteAndInsert new (g + 1) es' = promoteAndInsert new 1 es' := by
    intro g es' hl
    simp only [promoteAndInsert]
    cases refreshFirst new new.id es' with
    | some r => rfl
    | none => simp only [hl, if_true]
  rw [show f + 2 = (f + 1) + 1 from rfl, show (2 : Nat) = 1 + 1 from rfl, promoteAndInsert, promoteAndInsert]
  cases refreshFirst new new.id es with
  | some r => rfl
  | none =>
    simp only
    split
    · rfl
    · cases h1 : promoteLargestGroup es 1 with
      | some es' =>
        simp only
        have := promoteLargestGroup_shrinks h1
        rw [one f es' (by omega), show (1 : Nat) = 0 + 1 from rfl, one 0 es' (by omega)]
      | none =>
        simp only
        cases h2 : promoteLargestGroup es 2 with
        | some es' =>
          simp only
          have := promoteLargestGroup_shrinks h2
          rw [one f es' (by omega), show (1 : Nat) = 0 + 1 from rfl, one 0 es' (by omega)]
        | none => rfl


end Subs
