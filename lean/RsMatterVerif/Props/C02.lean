/-! # C02 — property theorems (not built yet) -/
