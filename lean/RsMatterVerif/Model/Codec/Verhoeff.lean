import RsMatterVerif.Model.Codec.Buf
/-!
# Model of the `verhoeff` crate (v1.0.0, `impl Verhoeff for str`) as used by `pairing/code.rs` / `pairing/qr.rs`
-/
namespace Codec.Verhoeff

/-- `D`: multiplication table of the dihedral group D5 -/
def dTab : List (List Nat) := [
  [0, 1, 2, 3, 4, 5, 6, 7, 8, 9],
  [1, 2, 3, 4, 0, 6, 7, 8, 9, 5],
  [2, 3, 4, 0, 1, 7, 8, 9, 5, 6],
  [3, 4, 0, 1, 2, 8, 9, 5, 6, 7],
  [4, 0, 1, 2, 3, 9, 5, 6, 7, 8],
  [5, 9, 8, 7, 6, 0, 4, 3, 2, 1],
  [6, 5, 9, 8, 7, 1, 0, 4, 3, 2],
  [7, 6, 5, 9, 8, 2, 1, 0, 4, 3],
  [8, 7, 6, 5, 9, 3, 2, 1, 0, 4],
  [9, 8, 7, 6, 5, 4, 3, 2, 1, 0]]

/-- `P`: the position permutations -/
def pTab : List (List Nat) := [
  [0, 1, 2, 3, 4, 5, 6, 7, 8, 9],
  [1, 5, 7, 6, 2, 8, 3, 0, 9, 4],
  [5, 8, 0, 3, 7, 9, 6, 1, 4, 2],
  [8, 9, 1, 6, 0, 4, 3, 5, 2, 7],
  [9, 4, 5, 3, 1, 2, 6, 8, 7, 0],
  [4, 2, 8, 6, 5, 7, 3, 9, 0, 1],
  [2, 7, 9, 3, 8, 0, 6, 4, 1, 5],
  [7, 0, 4, 6, 9, 1, 3, 2, 5, 8]]

/-- `INV` -/
def invTab : List Nat := [0, 4, 3, 2, 1, 5, 6, 7, 8, 9]

/-- `D[c][x]`; an out-of-range index (a Rust panic) is mapped to 10, which is not a digit:
`Lemmas` prove the result is `< 10` whenever `c, x < 10`, i.e. the lookups are always in range. -/
def d (c x : Nat) : Nat := ((dTab[c]?).bind (·[x]?)).getD 10
/-- `P[i % 8][x]` -/
def p (i x : Nat) : Nat := ((pTab[i % 8]?).bind (·[x]?)).getD 10
/-- `INV[c]` -/
def inv (c : Nat) : Nat := (invTab[c]?).getD 10

def isDigit (b : Nat) : Bool := 48 ≤ b && b ≤ 57

/-- the running checksum over the digits *in reverse order* (`self.bytes().rev().enumerate()`),
position offset `i` (0 for validate, 1 for calculate); `none` = a non-digit byte was met. -/
def fold : List Nat → Nat → Nat → Option Nat
  | [], _, c => some c
  | b :: r, i, c => if isDigit b then fold r (i + 1) (d c (p i (b - 48))) else none

/-- `validate_verhoeff_check_digit` -/
def validate (s : List Nat) : Bool :=
  match fold s.reverse 0 0 with
  | some c => c == 0
  | none => false

/-- `calculate_verhoeff_check_digit`: `assert!` on non-digits -/
def calculate (s : List Nat) : Except Err Nat :=
  match fold s.reverse 1 0 with
  | some c => .ok (inv c)
  | none => .error .panic

end Codec.Verhoeff
