import RsMatterVerif.Model.Codec.BtpHdr
import RsMatterVerif.Model.Codec.Bdx
import RsMatterVerif.Lemmas.CodecBuf
/-! # Lemmas about the BTP packet header / handshake and the BDX messages: round trips and totality -/
namespace Codec.BtpHdr
open Codec

theorem and_mask_le {x m : Nat} (h : x &&& m = x) : x ≤ m := by
  rw [← h]; exact Nat.and_le_right

theorem next_cons (b : Nat) (r : List Nat) : next (b :: r) = .ok (b, r) := rfl
theorem next_np (l : List Nat) : NoPanic (next l) := by cases l <;> simp [next, NoPanic]

theorem le16_split (x : Nat) (h : x < 65536) : x % 256 + 256 * (x / 256 % 256) = x := by omega

/-- **BTP header: decode ∘ encode** returns the same observable fields and exactly the payload -/
theorem decode_encode (h h0 : Hdr) (rest : List Nat) (hwf : WF h) :
    ∃ h', decode h0 (encodeBytes h ++ rest) = .ok (h', rest) ∧ view h' = view h := by
  obtain ⟨flags, op, ack, seq, len⟩ := h
  obtain ⟨hf, hop, hack, hseq, hlen⟩ := hwf
  simp only at hf hop hack hseq hlen
  have hf' : flags ≤ 0x6F := and_mask_le hf
  have e1 : flags % 256 = flags := by omega
  have e2 : op % 256 = op := by omega
  have e3 : ack % 256 = ack := by omega
  have e4 : seq % 256 = seq := by omega
  have e5 := le16_split len hlen
  cases hm : contains flags MANAGEMENT <;> cases ha : contains flags ACK <;>
    cases hh : contains flags HANDSHAKE <;> cases hb : contains flags BEGINNING <;>
    simp [decode, encodeBytes, view, hm, ha, hh, hb, e1, e2, e3, e4, e5, hf, next_cons, le16,
      bind, Except.bind, pure, Except.pure]

/-- **BTP header: the decoder is total and never panics** -/
theorem decode_np (h0 : Hdr) (l : List Nat) : NoPanic (decode h0 l) := by
  unfold decode
  have := next_np
  no_panic

/-- `len()` is the length of the encoding -/
theorem len_encode (h : Hdr) : (encodeBytes h).length = len h := by
  simp only [encodeBytes, len]
  cases contains h.flags MANAGEMENT <;> cases contains h.flags ACK <;>
    cases contains h.flags HANDSHAKE <;> cases contains h.flags BEGINNING <;> simp

theorem req_decode_encode (r : Req) (rest : List Nat) (hwf : Req.WF r) :
    Req.decode (Req.encodeBytes r ++ rest) = .ok (r, rest) := by
  obtain ⟨v, m, w⟩ := r
  obtain ⟨hv, hm, hw⟩ := hwf
  simp only at hv hm hw
  have e1 := fromLe_le32 v hv
  have e2 := le16_split m hm
  have e3 : w % 256 = w := by omega
  simp only [le32] at e1
  simp [Req.decode, Req.encodeBytes, le32, le16, next_cons, bind, Except.bind, pure, Except.pure, e1, e2, e3]

theorem req_decode_np (l : List Nat) : NoPanic (Req.decode l) := by
  unfold Req.decode; have := next_np; no_panic

theorem resp_decode_encode (r : Resp) (rest : List Nat) (hwf : Resp.WF r) :
    Resp.decode (Resp.encodeBytes r ++ rest) = .ok (r, rest) := by
  obtain ⟨v, m, w⟩ := r
  obtain ⟨hv, hm, hw⟩ := hwf
  simp only at hv hm hw
  have e1 : v % 256 = v := by omega
  have e2 := le16_split m hm
  have e3 : w % 256 = w := by omega
  simp [Resp.decode, Resp.encodeBytes, le16, next_cons, bind, Except.bind, pure, Except.pure, e1, e2, e3]

theorem resp_decode_np (l : List Nat) : NoPanic (Resp.decode l) := by
  unfold Resp.decode; have := next_np; no_panic

example : WF { flags := 0x0D, opcode := 0, ackNum := 3, seqNum := 4, msgLen := 300 } := by decide

end Codec.BtpHdr

namespace Codec.Bdx
open Codec

theorem tc_roundtrip (t : TransferControl) (h : t.version < 16) :
    TransferControl.fromByte t.toByte = t := by
  obtain ⟨v, s, r, a⟩ := t
  simp only at h
  cases s <;> cases r <;> cases a <;>
    simp [TransferControl.fromByte, TransferControl.toByte, bit, Consts.c17BdxSenderDriveBit, Consts.c17BdxReceiverDriveBit, Consts.c17BdxAsyncBit, Consts.c17BdxDefLenBit, Consts.c17BdxStartOffsetBit, Consts.c17BdxWideRangeBit] <;> omega

theorem tc_toByte_lt (t : TransferControl) : t.toByte < 256 := by
  obtain ⟨v, s, r, a⟩ := t
  cases s <;> cases r <;> cases a <;> simp [TransferControl.toByte, Consts.c17BdxSenderDriveBit, Consts.c17BdxReceiverDriveBit, Consts.c17BdxAsyncBit, Consts.c17BdxDefLenBit, Consts.c17BdxStartOffsetBit, Consts.c17BdxWideRangeBit] <;> omega

theorem rc_roundtrip (r : RangeControl) : RangeControl.fromByte r.toByte = r := by
  obtain ⟨d, s, w⟩ := r
  cases d <;> cases s <;> cases w <;> simp [RangeControl.fromByte, RangeControl.toByte, bit, Consts.c17BdxSenderDriveBit, Consts.c17BdxReceiverDriveBit, Consts.c17BdxAsyncBit, Consts.c17BdxDefLenBit, Consts.c17BdxStartOffsetBit, Consts.c17BdxWideRangeBit]

theorem rdRange_wr (wide : Bool) (x : Nat) (rest : List Nat) (h1 : wide = false → x < 4294967296)
    (h2 : x < 18446744073709551616) : rdRange wide (wrRange wide x ++ rest) = .ok (x, rest) := by
  cases wide with
  | true => simp [rdRange, wrRange, Rd.u64_le _ _ h2]
  | false =>
    have := h1 rfl
    have e : x % 4294967296 = x := by omega
    simp [rdRange, wrRange, e, Rd.u32_le _ _ this]

theorem rdRange_np (w : Bool) (l : List Nat) : NoPanic (rdRange w l) := by
  unfold rdRange; have := Rd.u64_np; have := Rd.u32_np; no_panic

/-- **BDX TransferInit (SendInit / ReceiveInit): `parse (write t) = t`** -/
theorem init_parse_write (t : TransferInit) (hwf : TransferInit.WF t) :
    TransferInit.parse t.writeBytes = .ok t := by
  obtain ⟨tc, rc, mbs, so, len, fd, md⟩ := t
  obtain ⟨hv, hm, ⟨s1, s2, s3⟩, ⟨l1, l2, l3⟩, hfd⟩ := hwf
  simp only at hv hm s1 s2 s3 l1 l2 l3 hfd
  have efd : fd.length % 65536 = fd.length := by omega
  obtain ⟨d, s, w⟩ := rc
  simp only at s1 s2 l1 l2
  have hso : ∀ rest, rdRange w (wrRange w so ++ rest) = .ok (so, rest) := fun rest => rdRange_wr w so rest s2 s3
  have hlen : ∀ rest, rdRange w (wrRange w len ++ rest) = .ok (len, rest) := fun rest => rdRange_wr w len rest l2 l3
  cases s <;> cases d <;>
    simp at s1 l1 <;> (try subst s1) <;> (try subst l1) <;>
    simp [TransferInit.parse, TransferInit.writeBytes, Rd.u8_cons, rc_roundtrip, tc_roundtrip _ hv,
      Rd.u16_le _ _ hm, Rd.u16_le _ _ hfd, efd, hso, hlen,
      bind, Except.bind, pure, Except.pure, List.append_assoc]

theorem init_parse_np (l : List Nat) : NoPanic (TransferInit.parse l) := by
  unfold TransferInit.parse
  have := Rd.u8_np; have := Rd.u16_np; have := rdRange_np
  no_panic

/-- **BDX TransferAccept (SendAccept / ReceiveAccept): `parse (write t) = t`** -/
theorem accept_parse_write (t : TransferAccept) (hwf : TransferAccept.WF t) :
    TransferAccept.parse t.receive t.writeBytes = .ok t := by
  obtain ⟨recv, tc, rc, mbs, len, md⟩ := t
  obtain ⟨hv, hm, hr⟩ := hwf
  simp only at hv hm hr
  cases recv with
  | false =>
    simp at hr
    obtain ⟨r1, r2⟩ := hr
    subst r1; subst r2
    simp [TransferAccept.parse, TransferAccept.writeBytes, Rd.u8_cons, tc_roundtrip _ hv, Rd.u16_le _ _ hm,
      bind, Except.bind, pure, Except.pure]
  | true =>
    simp at hr
    obtain ⟨⟨l1, l2, l3⟩, hs⟩ := hr
    obtain ⟨d, s, w⟩ := rc
    simp only at l1 l2 hs
    subst hs
    have hlen : ∀ rest, rdRange w (wrRange w len ++ rest) = .ok (len, rest) := fun rest => rdRange_wr w len rest l2 l3
    cases d <;> simp at l1 <;> (try subst l1) <;>
      simp [TransferAccept.parse, TransferAccept.writeBytes, Rd.u8_cons, rc_roundtrip, tc_roundtrip _ hv,
        Rd.u16_le _ _ hm, hlen, bind, Except.bind, pure, Except.pure, List.append_assoc]

theorem accept_parse_np (r : Bool) (l : List Nat) : NoPanic (TransferAccept.parse r l) := by
  unfold TransferAccept.parse
  have := Rd.u8_np; have := Rd.u16_np; have := rdRange_np
  no_panic

theorem block_parse_write (b : Block) (h : b.counter < 4294967296) : Block.parse b.writeBytes = .ok b := by
  simp [Block.parse, Block.writeBytes, Rd.u32_le _ _ h, bind, Except.bind, pure, Except.pure]

theorem block_parse_np (l : List Nat) : NoPanic (Block.parse l) := by
  unfold Block.parse; have := Rd.u32_np; no_panic

theorem blockQuery_roundtrip (c : Nat) (rest : List Nat) (h : c < 4294967296) :
    blockQueryParse (le32 c ++ rest) = .ok c := by
  simp [blockQueryParse, Rd.u32_le _ _ h, bind, Except.bind, pure, Except.pure]

theorem blockQuerySkip_roundtrip (c s : Nat) (rest : List Nat) (h : c < 4294967296) (h' : s < 18446744073709551616) :
    blockQuerySkipParse (le32 c ++ le64 s ++ rest) = .ok (c, s) := by
  simp [blockQuerySkipParse, Rd.u32_le _ _ h, Rd.u64_le _ _ h', bind, Except.bind, pure, Except.pure, List.append_assoc]

theorem blockQuery_np (l : List Nat) : NoPanic (blockQueryParse l) := by
  unfold blockQueryParse; have := Rd.u32_np; no_panic
theorem blockQuerySkip_np (l : List Nat) : NoPanic (blockQuerySkipParse l) := by
  unfold blockQuerySkipParse; have := Rd.u32_np; have := Rd.u64_np; no_panic

def sampleInit : TransferInit :=
  { tc := { version := 0, senderDrive := true, receiverDrive := false, asyncMode := false }
    rc := { defLen := true, startOffset := false, wideRange := false }
    maxBlockSize := 1024
    startOffset := 0
    length := 5000
    fileDesignator := [1, 2]
    metadata := [] }
example : TransferInit.WF sampleInit := by
  refine ⟨by decide, by decide, ⟨by decide, by decide, by decide⟩, ⟨by decide, by decide, by decide⟩, by decide⟩

end Codec.Bdx
