import RsMatterVerif.Model.Codec.CmsCd
import RsMatterVerif.Lemmas.CodecDerRead
/-!
# Lemmas about `CmsSignedData::parse` (`Model/Codec/CmsCd.lean`)

`Post x Q`: the computation `x` is `Safe` (no panic, no exhausted fuel) and every value it returns satisfies `Q`.
Composite decoders are handled by `Post.bind` over the `Post` facts of the reading primitives.
-/
namespace Codec.DerRd

def Post {α : Type} (x : Except E α) (Q : α → Prop) : Prop := Safe x ∧ ∀ a, x = .ok a → Q a

namespace Post
variable {α β : Type}

theorem pure {a : α} {Q : α → Prop} (h : Q a) : Post (Pure.pure a : Except E α) Q :=
  ⟨Safe.pure a, fun b hb => by
    have : a = b := by simpa [Pure.pure, Except.pure] using hb
    exact this ▸ h⟩

theorem ok {a : α} {Q : α → Prop} (h : Q a) : Post (.ok a : Except E α) Q :=
  ⟨Safe.ok a, fun b hb => by injection hb with hb; exact hb ▸ h⟩

theorem err {e : E} {Q : α → Prop} (h : e ≠ .panic ∧ e ≠ .endless) : Post (.error e : Except E α) Q :=
  ⟨Safe.err h, fun _ hb => by simp at hb⟩

theorem bind {x : Except E α} {f : α → Except E β} {Q : α → Prop} {R : β → Prop}
    (hx : Post x Q) (hf : ∀ a, Q a → Post (f a) R) : Post (x >>= f) R := by
  cases x with
  | error e =>
    refine ⟨Safe.bind hx.1 (fun a ha => by simp at ha), fun b hb => ?_⟩
    simp [Bind.bind, Except.bind] at hb
  | ok a =>
    have := hf a (hx.2 a rfl)
    simpa [Bind.bind, Except.bind] using this

theorem weaken {x : Except E α} {Q Q' : α → Prop} (h : Post x Q) (hq : ∀ a, Q a → Q' a) : Post x Q' :=
  ⟨h.1, fun a ha => hq a (h.2 a ha)⟩

theorem of_safe {x : Except E α} (h : Safe x) : Post x (fun _ => True) := ⟨h, fun _ _ => trivial⟩

theorem and_eq {x : Except E α} {Q : α → Prop} (h : Post x Q) : Post x (fun a => Q a ∧ x = .ok a) :=
  ⟨h.1, fun a ha => ⟨h.2 a ha, ha⟩⟩

end Post

/-! ## what `Step` implies -/

theorem Step.facts {r r' : Rdr} {k : Nat} (h : Step r r' k) :
    r'.offset = r.offset + k ∧ r'.input = r.input ∧ r'.inputLen = r.inputLen ∧ r'.position = r.position + k ∧
    r'.shape = r.shape := by
  induction r generalizing r' with
  | slice b p =>
    cases r' with
    | nested _ _ _ => exact absurd h (by simp [Step])
    | slice b' p' =>
      simp only [Step] at h
      obtain ⟨h1, h2⟩ := h
      subst h1 h2
      exact ⟨rfl, rfl, rfl, rfl, rfl⟩
  | nested i n p ih =>
    cases r' with
    | slice _ _ => exact absurd h (by simp [Step])
    | nested i' n' p' =>
      simp only [Step] at h
      obtain ⟨h1, h2, h3⟩ := h
      subst h1 h2
      obtain ⟨f1, f2, _, _, f5⟩ := ih h3
      exact ⟨f1, f2, rfl, rfl, by simp [Rdr.shape, f5]⟩

/-! ## `Post` facts of the reading primitives -/

/-- a value and the offset where it starts: a range of `input` -/
def At (input : List Nat) (p : List Nat × Nat) : Prop :=
  p.2 + p.1.length ≤ input.length ∧ p.1 = (input.drop p.2).take p.1.length

theorem At.trans {msg sd v : List Nat} {o1 o2 : Nat} (h1 : At msg (sd, o1)) (h2 : At sd (v, o2)) :
    At msg (v, o1 + o2) := by
  obtain ⟨a1, a2⟩ := h1
  obtain ⟨b1, b2⟩ := h2
  show o1 + o2 + v.length ≤ msg.length ∧ v = (msg.drop (o1 + o2)).take v.length
  have a1 : o1 + sd.length ≤ msg.length := a1
  have b1 : o2 + v.length ≤ sd.length := b1
  have a2 : sd = (msg.drop o1).take sd.length := a2
  have b2 : v = (sd.drop o2).take v.length := b2
  refine ⟨by omega, ?_⟩
  have hv : v = (((msg.drop o1).take sd.length).drop o2).take v.length := by rw [← a2]; exact b2
  rw [List.drop_take, List.take_take, List.drop_drop, Nat.min_eq_left (by omega)] at hv
  exact hv

theorem headerDecode_post {r : Rdr} (h : r.WF) : Post (headerDecode r) (fun x => ∃ k, Adv r x.2 k) :=
  ⟨headerDecode_safe h, fun x hx => by
    obtain ⟨⟨tag, len⟩, r1⟩ := x
    obtain ⟨k, _, ha, _⟩ := headerDecode_adv h hx
    exact ⟨k, ha⟩⟩

theorem anyDecode_post {r : Rdr} (h : r.WF) : Post (anyDecode r) (fun x => ∃ k, Adv r x.2 k) :=
  ⟨anyDecode_safe h, fun x hx => by
    obtain ⟨⟨tag, v⟩, r1⟩ := x
    obtain ⟨hl, _, _, _, ha⟩ := anyDecode_spec h hx
    exact ⟨_, ha⟩⟩

theorem readSlice_post {r : Rdr} (h : r.WF) (len : Nat) :
    Post (r.readSlice len) (fun x => Adv r x.2 len ∧ At r.input (x.1, r.offset) ∧ x.1.length = len) :=
  ⟨readSlice_safe h len, fun x hx => by
    obtain ⟨s, r1⟩ := x
    obtain ⟨h1, h2, _⟩ := readSlice_spec h hx
    have ha := readSlice_adv h hx
    refine ⟨ha, ⟨?_, by simpa [h2] using h1⟩, h2⟩
    have := ha.wf.offset_le
    rw [ha.off, ha.input] at this
    simpa [h2] using this⟩

theorem readSliceAt_post {r : Rdr} (h : r.WF) (len : Nat) :
    Post (readSliceAt r len) (fun x => Adv r x.2 len ∧ At r.input x.1 ∧ x.1.1.length = len) := by
  unfold readSliceAt
  refine Post.bind (readSlice_post h len) (fun x hx => ?_)
  obtain ⟨s, r1⟩ := x
  exact Post.pure hx


theorem expectOid_post (c : List Nat) {r : Rdr} (h : r.WF) : Post (expectOid c r) (fun r' => ∃ k, Adv r r' k) := by
  unfold expectOid
  refine Post.bind (headerDecode_post h) (fun x hx => ?_)
  obtain ⟨⟨tag, len⟩, r1⟩ := x
  obtain ⟨k, ha⟩ := hx
  simp only
  split
  · exact Post.err (by decide)
  · split
    · exact Post.err (by decide)
    · refine Post.bind (readSlice_post ha.wf len) (fun y hy => ?_)
      obtain ⟨v, r2⟩ := y
      simp only
      split
      · exact Post.pure ⟨_, ha.trans hy.1⟩
      · exact Post.err (by decide)

theorem expectU8_post (val : Nat) {r : Rdr} (h : r.WF) : Post (expectU8 val r) (fun r' => ∃ k, Adv r r' k) := by
  unfold expectU8
  refine Post.bind (headerDecode_post h) (fun x hx => ?_)
  obtain ⟨⟨tag, len⟩, r1⟩ := x
  obtain ⟨k, ha⟩ := hx
  simp only
  split
  · exact Post.err (by decide)
  · split
    · exact Post.err (by decide)
    · refine Post.bind (readSlice_post ha.wf len) (fun y hy => ?_)
      obtain ⟨v, r2⟩ := y
      simp only
      split
      · exact Post.pure ⟨_, ha.trans hy.1⟩
      · exact Post.err (by decide)

theorem octetStringDecode_post {r : Rdr} (h : r.WF) :
    Post (octetStringDecode r) (fun x => (∃ k, Adv r x.2 k) ∧ At r.input x.1) := by
  unfold octetStringDecode
  refine Post.bind (headerDecode_post h) (fun x hx => ?_)
  obtain ⟨⟨tag, len⟩, r1⟩ := x
  obtain ⟨k, ha⟩ := hx
  simp only
  split
  · exact Post.err (by decide)
  · refine Post.weaken (readSliceAt_post ha.wf len) (fun y hy => ?_)
    exact ⟨⟨_, ha.trans hy.1⟩, by rw [← ha.input]; exact hy.2.1⟩

theorem peekByte_safe {r : Rdr} (h : r.WF) : Safe r.peekByte := by
  induction r with
  | slice b p => exact Safe.ok _
  | nested i n p ih =>
    unfold Rdr.peekByte
    rw [isFinished_ok h]
    refine Safe.bind (Safe.ok _) (fun fin _ => ?_)
    split
    · exact Safe.pure _
    · exact ih h.1

theorem nestedNew_post {r : Rdr} (h : r.WF) (len : Nat) :
    Post (nestedNew r len) (fun n => n = .nested r len 0 ∧ n.WF) :=
  ⟨nestedNew_safe h len, fun _ hn => nestedNew_ok h hn⟩

/-- `read_nested`: if the body is a well-behaved action on the nested reader, so is the whole on the outer one -/
theorem readNested_post {α : Type} {r : Rdr} (h : r.WF) (len : Nat) {f : Rdr → Except E (α × Rdr)} {P : α → Prop}
    (hf : ∀ n, n.WF → n.input = r.input → Post (f n) (fun x => (∃ k, Adv n x.2 k) ∧ P x.1)) :
    Post (readNested r len f) (fun x => (∃ k, Adv r x.2 k) ∧ P x.1) := by
  unfold readNested
  refine Post.bind (nestedNew_post h len) (fun n hn => ?_)
  obtain ⟨hn, hnwf⟩ := hn
  subst hn
  refine Post.bind (hf _ hnwf rfl) (fun x hx => ?_)
  obtain ⟨a, n'⟩ := x
  obtain ⟨⟨k, ha⟩, hp⟩ := hx
  simp only
  refine Post.bind (Post.of_safe (finish_safe ha.wf)) (fun _ _ => ?_)
  have hstep := ha.step
  match n', hstep, ha with
  | .nested i' len' p', hstep, ha =>
    simp only [Step] at hstep
    obtain ⟨_, _, hs⟩ := hstep
    obtain ⟨f1, f2, f3, f4, f5⟩ := hs.facts
    exact Post.pure ⟨⟨k, ⟨f1, f2, ha.wf.1, f3, f4, f5, hs⟩⟩, hp⟩
  | .slice _ _, hstep, _ => exact absurd hstep (by simp [Step])

/-- `from_der` of a SEQUENCE type -/
theorem fromDerSeq_post {α : Type} (bytes : List Nat) {dv : Rdr → Nat → Except E (α × Rdr)} {P : α → Prop}
    (hdv : ∀ r len, r.WF → r.input = bytes → Post (dv r len) (fun x => (∃ k, Adv r x.2 k) ∧ P x.1)) :
    Post (fromDerSeq bytes dv) P := by
  unfold fromDerSeq
  refine Post.bind (Post.and_eq (Post.of_safe (new_safe bytes))) (fun r hr => ?_)
  obtain ⟨hreq, hwf⟩ := new_ok hr.2
  refine Post.bind (headerDecode_post hwf) (fun x hx => ?_)
  obtain ⟨⟨tag, len⟩, r1⟩ := x
  obtain ⟨k, ha⟩ := hx
  simp only
  split
  · exact Post.err (by decide)
  · refine Post.bind (hdv r1 len ha.wf (by rw [ha.input, hreq]; rfl)) (fun y hy => ?_)
    obtain ⟨a, r2⟩ := y
    obtain ⟨⟨k2, ha2⟩, hp⟩ := hy
    simp only
    exact Post.bind (Post.of_safe (finish_safe ha2.wf)) (fun _ _ => Post.pure hp)


theorem algIdDecode_post (c : List Nat) {r : Rdr} (h : r.WF) : Post (algIdDecode c r) (fun r' => ∃ k, Adv r r' k) := by
  unfold algIdDecode
  refine Post.bind (headerDecode_post h) (fun x hx => ?_)
  obtain ⟨⟨tag, len⟩, r1⟩ := x
  obtain ⟨k, ha⟩ := hx
  simp only
  split
  · exact Post.err (by decide)
  · refine Post.bind (readNested_post (P := fun _ => True) ha.wf len (fun n hn _ => ?_)) (fun y hy => ?_)
    · refine Post.bind (expectOid_post c hn) (fun n1 hn1 => ?_)
      obtain ⟨k1, ha1⟩ := hn1
      refine Post.bind (Post.of_safe (peekByte_safe ha1.wf)) (fun ob _ => ?_)
      cases ob with
      | none => exact Post.pure ⟨⟨_, ha1⟩, trivial⟩
      | some b =>
        simp only
        refine Post.bind (Post.of_safe (tagOfByte_safe b)) (fun _ _ => ?_)
        refine Post.bind (anyDecode_post ha1.wf) (fun z hz => ?_)
        obtain ⟨a, n2⟩ := z
        obtain ⟨k2, ha2⟩ := hz
        exact Post.pure ⟨⟨_, ha1.trans ha2⟩, trivial⟩
    · obtain ⟨u, r2⟩ := y
      obtain ⟨⟨k2, ha2⟩, _⟩ := hy
      exact Post.pure ⟨_, ha.trans ha2⟩

theorem contentInfoValue_post {r : Rdr} (h : r.WF) (len : Nat) :
    Post (contentInfoValue r len) (fun x => (∃ k, Adv r x.2 k) ∧ At r.input x.1) := by
  unfold contentInfoValue
  refine readNested_post h len (fun n hn hin => ?_)
  refine Post.bind (expectOid_post _ hn) (fun n1 hn1 => ?_)
  obtain ⟨k1, ha1⟩ := hn1
  refine Post.bind (headerDecode_post ha1.wf) (fun x hx => ?_)
  obtain ⟨⟨tag, clen⟩, n2⟩ := x
  obtain ⟨k2, ha2⟩ := hx
  simp only
  split
  · exact Post.err (by decide)
  · refine Post.weaken (readSliceAt_post ha2.wf clen) (fun y hy => ?_)
    refine ⟨⟨_, (ha1.trans ha2).trans hy.1⟩, ?_⟩
    rw [← hin, ← ha1.input, ← ha2.input]; exact hy.2.1

theorem encapDecode_post {r : Rdr} (h : r.WF) :
    Post (encapDecode r) (fun x => (∃ k, Adv r x.2 k) ∧ At r.input x.1) := by
  unfold encapDecode
  refine Post.bind (headerDecode_post h) (fun x hx => ?_)
  obtain ⟨⟨tag, len⟩, r1⟩ := x
  obtain ⟨k, ha⟩ := hx
  simp only
  split
  · exact Post.err (by decide)
  · refine Post.weaken (readNested_post (P := fun v => At r.input v) ha.wf len (fun n hn hin => ?_)) (fun y hy => ?_)
    · refine Post.bind (expectOid_post _ hn) (fun n1 hn1 => ?_)
      obtain ⟨k1, ha1⟩ := hn1
      refine Post.bind (headerDecode_post ha1.wf) (fun z hz => ?_)
      obtain ⟨⟨ctag, clen⟩, n2⟩ := z
      obtain ⟨k2, ha2⟩ := hz
      simp only
      split
      · exact Post.err (by decide)
      · refine Post.weaken (readNested_post (P := fun v => At r.input v) ha2.wf clen (fun m hm him => ?_)) (fun w hw => ?_)
        · refine Post.weaken (octetStringDecode_post hm) (fun w hw => ⟨hw.1, ?_⟩)
          rw [← ha.input, ← hin, ← ha1.input, ← ha2.input, ← him]; exact hw.2
        · obtain ⟨⟨k3, ha3⟩, hp⟩ := hw
          exact ⟨⟨_, (ha1.trans ha2).trans ha3⟩, hp⟩
    · obtain ⟨⟨k4, ha4⟩, hp⟩ := hy
      exact ⟨⟨_, ha.trans ha4⟩, hp⟩

theorem signedDataValue_post {r : Rdr} (h : r.WF) (len : Nat) :
    Post (signedDataValue r len) (fun x => (∃ k, Adv r x.2 k) ∧ At r.input x.1.1 ∧ At r.input x.1.2) := by
  unfold signedDataValue
  refine readNested_post (P := fun (v : (List Nat × Nat) × (List Nat × Nat)) => At r.input v.1 ∧ At r.input v.2) h len (fun n hn hin => ?_)
  refine Post.bind (expectU8_post 3 hn) (fun n1 hn1 => ?_)
  obtain ⟨k1, ha1⟩ := hn1
  refine Post.bind (anyDecode_post ha1.wf) (fun x hx => ?_)
  obtain ⟨⟨dtag, dv⟩, n2⟩ := x
  obtain ⟨k2, ha2⟩ := hx
  simp only
  split
  · exact Post.err (by decide)
  · refine Post.bind (encapDecode_post ha2.wf) (fun y hy => ?_)
    obtain ⟨econtent, n3⟩ := y
    obtain ⟨⟨k3, ha3⟩, hat3⟩ := hy
    refine Post.bind (headerDecode_post ha3.wf) (fun z hz => ?_)
    obtain ⟨⟨stag, slen⟩, n4⟩ := z
    obtain ⟨k4, ha4⟩ := hz
    refine Post.bind (readSliceAt_post ha4.wf slen) (fun w hw => ?_)
    obtain ⟨sv, n5⟩ := w
    obtain ⟨ha5, hat5, _⟩ := hw
    refine Post.bind (Post.of_safe (lenNew_safe _)) (fun _ _ => ?_)
    simp only
    split
    · exact Post.err (by decide)
    · refine Post.pure ⟨⟨_, (((ha1.trans ha2).trans ha3).trans ha4).trans ha5⟩, ?_, ?_⟩
      · rw [← hin, ← ha1.input, ← ha2.input]; exact hat3
      · rw [← hin, ← ha1.input, ← ha2.input, ← ha3.input, ← ha4.input]; exact hat5

theorem signerInfoValue_post {r : Rdr} (h : r.WF) (len : Nat) :
    Post (signerInfoValue r len)
      (fun x => (∃ k, Adv r x.2 k) ∧ At r.input x.1.1 ∧ At r.input x.1.2 ∧ x.1.1.1.length = KEY_IDENTIFIER_LEN) := by
  unfold signerInfoValue
  refine readNested_post (P := fun (v : (List Nat × Nat) × (List Nat × Nat)) => At r.input v.1 ∧ At r.input v.2 ∧ v.1.1.length = KEY_IDENTIFIER_LEN) h len
    (fun n hn hin => ?_)
  refine Post.bind (expectU8_post 3 hn) (fun n1 hn1 => ?_)
  obtain ⟨k1, ha1⟩ := hn1
  refine Post.bind (headerDecode_post ha1.wf) (fun x hx => ?_)
  obtain ⟨⟨ktag, klen⟩, n2⟩ := x
  obtain ⟨k2, ha2⟩ := hx
  simp only
  split
  · exact Post.err (by decide)
  · refine Post.bind (readSliceAt_post ha2.wf klen) (fun y hy => ?_)
    obtain ⟨ski, n3⟩ := y
    obtain ⟨ha3, hat3, _⟩ := hy
    simp only
    split
    · exact Post.err (by decide)
    · rename_i hlen
      refine Post.bind (algIdDecode_post _ ha3.wf) (fun n4 hn4 => ?_)
      obtain ⟨k4, ha4⟩ := hn4
      refine Post.bind (algIdDecode_post _ ha4.wf) (fun n5 hn5 => ?_)
      obtain ⟨k5, ha5⟩ := hn5
      refine Post.bind (octetStringDecode_post ha5.wf) (fun z hz => ?_)
      obtain ⟨sig, n6⟩ := z
      obtain ⟨⟨k6, ha6⟩, hat6⟩ := hz
      refine Post.pure ⟨⟨_, ((((ha1.trans ha2).trans ha3).trans ha4).trans ha5).trans ha6⟩, ?_, ?_, ?_⟩
      · rw [← hin, ← ha1.input, ← ha2.input]; exact hat3
      · rw [← hin, ← ha1.input, ← ha2.input, ← ha3.input, ← ha4.input, ← ha5.input]; exact hat6
      · simpa using hlen

theorem mapCdInvalid_post {α : Type} {x : Except E α} {Q : α → Prop} (h : Post x Q) : Post (mapCdInvalid x) Q := by
  cases x with
  | ok y => exact Post.ok (h.2 y rfl)
  | error e =>
    have := (safe_iff _).1 h.1
    unfold mapCdInvalid
    simp only
    rw [if_neg (fun he => this.1 (by rw [he])), if_neg (fun he => this.2 (by rw [he]))]
    exact Post.err (by decide)

theorem ecdsaDerToRaw_length {der out : List Nat} (h : ecdsaDerToRaw der = .ok out) : out.length = 64 := by
  unfold ecdsaDerToRaw at h
  cases h1 : mapInvalid (Rdr.new der) with
  | error e => simp [h1, Bind.bind, Except.bind] at h
  | ok r =>
    simp only [h1, Bind.bind, Except.bind] at h
    cases h2 : mapInvalid (headerDecode r) with
    | error e => simp [h2] at h
    | ok x =>
      obtain ⟨⟨tag, len⟩, r1⟩ := x
      simp only [h2] at h
      split at h
      · simp at h
      · cases h3 : mapInvalid (anyDecode r1) with
        | error e => simp [h3] at h
        | ok y =>
          obtain ⟨⟨rt, rv⟩, r2⟩ := y
          simp only [h3] at h
          split at h
          · simp at h
          · cases h4 : mapInvalid (anyDecode r2) with
            | error e => simp [h4] at h
            | ok z =>
              obtain ⟨⟨st, sv⟩, r3⟩ := z
              simp only [h4] at h
              split at h
              · simp at h
              · cases h5 : copyIntegerToFixed P256_FE_LEN rv with
                | error e => simp [h5] at h
                | ok a =>
                  simp only [h5] at h
                  cases h6 : copyIntegerToFixed P256_FE_LEN sv with
                  | error e => simp [h6] at h
                  | ok b =>
                    simp [h6, Pure.pure, Except.pure] at h
                    subst h
                    simp [copyIntegerToFixed_length h5, copyIntegerToFixed_length h6, P256_FE_LEN]

/-- **`CmsSignedData::parse` is total** (no panic, no exhausted fuel, on arbitrary bytes) **and the slices it
returns are ranges of the message**: `signer_key_id` (20 bytes) and `cd_content` lie inside the input at the
reported offsets; the raw signature has 64 bytes -/
theorem cmsParse_post (msg : List Nat) :
    Post (cmsParse msg) (fun c => At msg (c.kid, c.kidOff) ∧ At msg (c.cd, c.cdOff) ∧
      c.kid.length = KEY_IDENTIFIER_LEN ∧ c.sig.length = 64) := by
  unfold cmsParse
  refine Post.bind (mapCdInvalid_post (fromDerSeq_post (P := fun v => At msg v) msg (fun r len hr hin => ?_)))
    (fun x hx => ?_)
  · refine Post.weaken (contentInfoValue_post hr len) (fun y hy => ⟨hy.1, ?_⟩)
    rw [← hin]; exact hy.2
  · obtain ⟨sd, sdOff⟩ := x
    refine Post.bind (mapCdInvalid_post (fromDerSeq_post (P := fun (v : (List Nat × Nat) × (List Nat × Nat)) => At sd v.1 ∧ At sd v.2) sd
      (fun r len hr hin => ?_))) (fun y hy => ?_)
    · refine Post.weaken (signedDataValue_post hr len) (fun y hy => ⟨hy.1, ?_⟩)
      rw [← hin]; exact hy.2
    · obtain ⟨⟨cd, cdOff⟩, ⟨si, siOff⟩⟩ := y
      refine Post.bind (mapCdInvalid_post (fromDerSeq_post
        (P := fun (v : (List Nat × Nat) × (List Nat × Nat)) => At si v.1 ∧ At si v.2 ∧ v.1.1.length = KEY_IDENTIFIER_LEN) si
        (fun r len hr hin => ?_))) (fun z hz => ?_)
      · refine Post.weaken (signerInfoValue_post hr len) (fun y hy => ⟨hy.1, ?_⟩)
        rw [← hin]; exact hy.2
      · obtain ⟨⟨kid, kidOff⟩, ⟨sig, sigOff⟩⟩ := z
        refine Post.bind (Post.and_eq (Post.of_safe (ecdsaDerToRaw_safe sig))) (fun raw hraw => ?_)
        refine Post.pure ⟨?_, ?_, hz.2.2, ecdsaDerToRaw_length hraw.2⟩
        · exact (hx.trans hy.2).trans hz.1
        · exact hx.trans hy.1

end Codec.DerRd
