import RsMatterVerif.Lemmas.AdminRefs
/-!
# C07 — nothing bound to a fabric outlives that fabric

Model: `Model/Admin.lean`.  A secure session carries the fabric INDEX (`SessionMode`), a resumption
record carries the fabric index; ACL entries and group keys live inside the fabric record (they go
with it by construction).  The danger is the index: `Fabrics::add` hands out `max + 1`, so the index
of a fabric that went away is given to the next one.

1. `noRef_always`: **invariant** - after every history (any session, any order, store faults
   included; factory reset excluded) every non-expired secure session and every resumption record
   refers to a fabric index that is in the fabric table.
2. `gone_fabric_unreferenced`: hence, once a fabric index is not in the table (RemoveFabric, fail-safe
   rollback), nothing usable refers to it.
3. `rmfab_gone`, `rollback_gone`: RemoveFabric / a rollback that does not find a stored copy really
   take the index out of the table.
4. `new_fabric_starts_clean` (index reuse): when AddNOC creates a fabric, the only non-expired
   session on its index is the PASE session that issued the command, and no resumption record is -
   an old session / old credentials cannot reach the new fabric.
5. `rmfab_others_untouched`, `rollback_others_untouched`: sessions of other fabrics are unaffected.

The ghost-generation form of the invariant (`NoDangling`) is kept as `C07_full_noDangling`; it
needs, in addition, that the stored copy a rollback puts back has the generation of the fabric it
replaces (true without store faults - `coherent_always` of C08 - and false with them, see docs).
-/
namespace C07
open Admin

/-- **Invariant.** -/
theorem noRef_run (cfg : Cfg) (ops : List Op) : ∀ (n : Node), NoRef n → Op.freset ∉ ops → NoRef (run cfg n ops) := by
  induction ops with
  | nil => intro n h _; exact h
  | cons op rest ih =>
    intro n h hno
    have hop : op ≠ .freset := fun he => hno (by rw [he]; exact List.mem_cons_self)
    exact ih _ (step_noRef cfg n op h hop) (fun hm => hno (List.mem_cons_of_mem _ hm))

theorem noRef_always (cfg : Cfg) (ops : List Op) (hno : Op.freset ∉ ops) : NoRef (run cfg {} ops) :=
  noRef_run cfg ops {} noRef_init hno

/-- nothing usable refers to a fabric index that is not in the table -/
theorem gone_fabric_unreferenced (n : Node) (h : NoRef n) (i : Nat) (hi : i ≠ 0) (hgone : hasFabric n i = false) :
    (∀ s ∈ n.sessions, s.expired = false → s.mode.fab ≠ i) ∧ (∀ r ∈ n.resum, r.fab ≠ i) := by
  refine ⟨fun s hs he hf => ?_, fun r hr hf => ?_⟩
  · have := h.1 s hs he (by rw [hf]; exact hi)
    rw [hf, hgone] at this; cases this
  · have := h.2 r hr
    rw [hf, hgone] at this; cases this

example : ∃ n : Node, NoRef n ∧ hasFabric n 1 = false := ⟨{}, noRef_init, rfl⟩

/-! ## the fabric really goes away -/

theorem purgeResum_fabrics (n : Node) (i : Nat) : (purgeResum n i).1.fabrics = n.fabrics :=
  (purgeResum_mem n i).1

/-- RemoveFabric of an existing fabric takes its index out of the table, whatever the store answers -/
theorem rmfab_gone (cfg : Cfg) (n : Node) (sid s idx : Nat) (mode : Mode) (h0 : idx ≠ 0)
    (hh : hasFabric n idx = true) :
    hasFabric (sessOp cfg n sid mode (.rmfab s idx)).1 idx = false := by
  simp only [sessOp, h0, if_false, hh, if_true, decide_not]
  generalize hn1 : ({ n with fabrics := n.fabrics.filter (fun f => !decide (f.idx = idx)),
                             sessions := removeForFabric n.sessions idx (if mode.fab = idx then some sid else none) } : Node) = n1
  have hfab1 : n1.fabrics = n.fabrics.filter (fun f => !decide (f.idx = idx)) := by rw [← hn1]
  have hgone1 : HasIdx n1.fabrics idx = false := by rw [hfab1, hasIdx_filter_ne]; simp
  have p1 := purgeResum_fabrics n1 idx
  rcases hp : purgeResum n1 idx with ⟨n2, b⟩
  rw [hp] at p1
  simp only at p1
  cases b with
  | false => simp only []; rw [hasFabric_eq, p1]; exact hgone1
  | true =>
    simp only []
    have hk : (removeFabricKey n2 idx).1.fabrics = n2.fabrics := by
      unfold removeFabricKey kvTick kvCommit
      by_cases f0 : n2.failIn = 0
      · simp only [f0, if_true]
        by_cases hk : n2.kv.hasFabric idx = true <;> simp [hk]
      · by_cases f1 : n2.failIn = 1
        · simp [f1]
        · simp only [f0, f1, if_false]
          by_cases hk : n2.kv.hasFabric idx = true <;> simp [hk]
    rcases hrk : removeFabricKey n2 idx with ⟨n3, b3⟩
    rw [hrk] at hk
    simp only at hk
    cases b3 <;> (simp only [ok]; rw [hasFabric_eq, hk, p1]; exact hgone1)

/-- a rollback that finds no stored copy takes the fail-safe's fabric out of the table -/
theorem rollback_gone (cfg : Cfg) (n : Node) (a : Armed) (fs : List Fabric) (h0 : a.fab ≠ 0)
    (hr : rollbackFabrics cfg n a = .ok fs) (hkv : n.kv.fabs.find? (fun f => f.idx = a.fab) = none) :
    HasIdx fs a.fab = false := by
  unfold rollbackFabrics at hr
  simp only [h0, if_false, hkv, decide_not] at hr
  injection hr with hr; subst hr
  rw [hasIdx_filter_ne]; simp

/-! ## index reuse -/

/-- **A new fabric starts clean**: when AddNOC creates the fabric `idx` in a `NoRef` state, the only
non-expired session bound to `idx` afterwards is the session `sid` that issued the command (the PASE
session promoted by it), and no resumption record is bound to `idx`. -/
theorem new_fabric_starts_clean (cfg : Cfg) (n : Node) (sid s ca fid node subj ser idx : Nat) (mode : Mode)
    (h : NoRef n) (hacc : (sessOp cfg n sid mode (.addnoc s ca fid node subj ser)).2 = .okIdx idx) :
    (∀ s' ∈ (sessOp cfg n sid mode (.addnoc s ca fid node subj ser)).1.sessions,
        s'.expired = false → s'.mode.fab = idx → s'.id = sid) ∧
    (∀ r' ∈ (sessOp cfg n sid mode (.addnoc s ca fid node subj ser)).1.resum, r'.fab ≠ idx) ∧
    hasFabric n idx = false := by
  generalize hres : sessOp cfg n sid mode (.addnoc s ca fid node subj ser) = r at hacc ⊢
  simp only [sessOp] at hres
  -- what freshness of the new index gives in a `NoRef` state
  have key : ∀ idx', (if maxIdx n.fabrics < 254 then some (maxIdx n.fabrics + 1)
        else List.find? (fun i => decide (1 ≤ i) && !hasFabric n i) (List.range 255)) = some idx' →
      (∀ s' ∈ n.sessions, s'.expired = false → s'.mode.fab ≠ idx') ∧ (∀ r' ∈ n.resum, r'.fab ≠ idx') ∧
      hasFabric n idx' = false := by
    intro idx' hidx'
    have hfresh := newIdx_fresh n idx' hidx'
    have hne0 : idx' ≠ 0 := by
      intro hz
      rw [hz] at hidx'
      split at hidx'
      · injection hidx' with hh; omega
      · have := List.find?_some hidx'
        simp at this
    have := gone_fabric_unreferenced n h idx' hne0 hfresh
    exact ⟨this.1, this.2, hfresh⟩
  repeat' split at hres
  all_goals first | (subst hres; simp at hacc; done) | skip
  · -- promoted PASE session
    rename_i idx' hidx' _ _ _ _
    have ⟨k1, k2, k3⟩ := key idx' hidx'
    subst hres
    simp only [Status.okIdx.injEq] at hacc
    subst hacc
    refine ⟨fun s' hs' he hf => ?_, k2, k3⟩
    simp only [List.mem_map] at hs'
    obtain ⟨s0, hs0, rfl⟩ := hs'
    by_cases hsid : s0.id = sid
    · simp [hsid]
    · simp only [hsid, if_false] at he hf ⊢
      exact absurd hf (k1 s0 hs0 he)
  · -- CASE session: nobody is bound to the new index
    rename_i idx' hidx' _ _ _ _ _
    have ⟨k1, k2, k3⟩ := key idx' hidx'
    subst hres
    simp only [Status.okIdx.injEq] at hacc
    subst hacc
    exact ⟨fun s' hs' he hf => absurd hf (k1 s' hs' he), k2, k3⟩

/-! ## other fabrics -/

/-- RemoveFabric keeps every session of the other fabrics exactly as it was -/
theorem removeForFabric_others (l : List Sess) (idx : Nat) (exp : Option Nat) (s : Sess) (hs : s ∈ l)
    (hf : s.mode.fab ≠ idx) (hid : some s.id ≠ exp) : s ∈ removeForFabric l idx exp := by
  unfold removeForFabric
  rw [List.mem_map]
  refine ⟨s, List.mem_filter.mpr ⟨hs, by simp [hf]⟩, by simp [hid]⟩

theorem removePase_others (l : List Sess) (exp : Option Nat) (s : Sess) (hs : s ∈ l)
    (hc : s.mode.isPase = false) : s ∈ removePase l exp := by
  unfold removePase
  rw [List.mem_map]
  refine ⟨s, List.mem_filter.mpr ⟨hs, by simp [hc]⟩, by simp [hc]⟩

/-- **Sessions of other fabrics are unaffected by a rollback**: every CASE session that is not on
the removed fabric (and is not the triggering session) is still there, unchanged. -/
theorem rollback_others_untouched (n : Node) (removed exp : Option Nat) (s : Sess) (hs : s ∈ n.sessions)
    (hc : s.mode.isPase = false) (hf : ∀ idx, removed = some idx → s.mode.fab ≠ idx) (hid : some s.id ≠ exp) :
    s ∈ rollbackSessions n removed exp := by
  unfold rollbackSessions
  cases removed with
  | none => exact removePase_others _ _ s hs hc
  | some idx =>
    apply removePase_others _ _ s _ hc
    apply removeForFabric_others _ _ _ s hs (hf idx rfl)
    split
    · split
      · exact hid
      · simp
    · simp

example : ∃ (l : List Sess) (s : Sess), s ∈ l ∧ s.mode.fab ≠ 1 ∧ some s.id ≠ (none : Option Nat) :=
  ⟨[{ id := 0, mode := .case 2, peer := 1, expired := false, gen := 0 }], _, List.mem_cons_self, by decide, by simp⟩

/-! ## the ghost-generation form -/

def fabGen (n : Node) (i : Nat) : Option Nat := (getFabric n i).map (·.gen)

/-- every non-expired secure session and every resumption record refers to a fabric that exists
WITH THE GENERATION it was made for -/
def NoDangling (n : Node) : Prop :=
  (∀ s ∈ n.sessions, s.expired = false → s.mode.fab ≠ 0 → fabGen n s.mode.fab = some s.gen) ∧
  (∀ r ∈ n.resum, fabGen n r.fab = some r.gen)

/-- full statement (not proved; see the header) -/
def C07_full_noDangling : Prop :=
  ∀ (cfg : Cfg) (ops : List Op), SafeHist cfg {} ops → NoDangling (run cfg {} ops)

end C07
