import RsMatterVerif.Model.Codec.Buf
import Driver.Util
/-! Helpers shared by the C17 driver files. -/
namespace Driver.C17U
open Codec

def words (s : String) : List String := Driver.words s

def exErr (e : Err) : String := if e = .panic then "panic" else s!"err {e.name}"

def isPanic (out : String) : Bool :=
  out = "panic" || out.endsWith " panic" || out.startsWith "mismatch" || out = "err Endless" || out = "timeout"

def optS (o : Option Nat) : String := match o with | some x => toString x | none => "-"

def nats (ws : List String) : Option (List Nat) := ws.mapM (·.toNat?)

/-- first word and the rest of the line -/
def splitFirst (s : String) : String × String :=
  match words s with
  | [] => ("", "")
  | w :: r => (w, " ".intercalate r)

/-- ORA beats DIS beats ok -/
def verdict (model out : String) (ora : Option String) : String :=
  match ora with
  | some why => s!"ORA {why}"
  | none => if model = out then "ok" else s!"DIS {model}"

/-- hex of UTF-8 bytes → code points -/
def unhexStr (h : String) : Option (List Nat) := do
  let bs ← unhex h
  let ba : ByteArray := ⟨(bs.map (fun b => b.toUInt8)).toArray⟩
  let s ← String.fromUTF8? ba
  pure (s.toList.map Char.toNat)

end Driver.C17U
