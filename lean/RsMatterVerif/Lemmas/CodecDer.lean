import RsMatterVerif.Model.Codec.Der
import RsMatterVerif.Lemmas.CodecBuf
/-!
# Lemmas about the DER writer / reader model (`Model/Codec/Der.lean`)

* length octets: `decLen (encLen n) = n` for `n < 2^32`, the reader accepts the minimal encoding only
  (`decLen_canonical`), the writer's `lenBytes` is `encLen` for every length it supports (`< 65536`);
* reader: `parseOne (enc d ++ rest) = (d, rest)` for every well-formed tree (structural induction), and
  conversely whatever the reader accepts *is* the canonical encoding of the tree it returns (`parse_sound`);
* writer: closed forms of the level-0 operations (`encode_len`, `append_tlv`, `add_compound`, the shifting
  `end_compound`), the writer invariant, absence of panics, and "the output of a balanced operation
  sequence is the encoding of its tree".
-/
namespace Codec.Der
open Codec

/-! ## length octets -/

theorem lenBytes_eq_encLen (n : Nat) (h : n < 65536) : lenBytes n = encLen n := by
  unfold lenBytes encLen
  split
  · rfl
  · split
    · rfl
    · have : n / 256 % 256 = n / 256 := by omega
      rw [this]

theorem decLen_encLen (n : Nat) (rest : List Nat) (h : n < 4294967296) :
    decLen (encLen n ++ rest) = some (n, rest) := by
  unfold encLen
  split
  · simp [decLen, *]
  · split
    · simp [decLen, beVal]; omega
    · split
      · simp [decLen, beVal]; omega
      · split
        · simp [decLen, beVal]; omega
        · simp [decLen, beVal]; omega

theorem encLen_1 (x : Nat) (h : 128 ≤ x) (h' : x < 256) : encLen x = [129, x] := by
  simp [encLen, show ¬ x < 128 by omega, h']
theorem encLen_2 (x y : Nat) (h : 1 ≤ x) (hx : x < 256) (hy : y < 256) : encLen (x * 256 + y) = [130, x, y] := by
  simp [encLen, show ¬ x * 256 + y < 128 by omega, show ¬ x * 256 + y < 256 by omega, show x * 256 + y < 65536 by omega]
  omega
theorem encLen_3 (x y z : Nat) (h : 1 ≤ x) (hx : x < 256) (hy : y < 256) (hz : z < 256) :
    encLen (x * 65536 + y * 256 + z) = [131, x, y, z] := by
  simp [encLen, show ¬ x * 65536 + y * 256 + z < 128 by omega, show ¬ x * 65536 + y * 256 + z < 256 by omega,
    show ¬ x * 65536 + y * 256 + z < 65536 by omega, show x * 65536 + y * 256 + z < 16777216 by omega]
  omega
theorem encLen_4 (x y z u : Nat) (h : 1 ≤ x) (hx : x < 256) (hy : y < 256) (hz : z < 256) (hu : u < 256) :
    encLen (x * 16777216 + y * 65536 + z * 256 + u) = [132, x, y, z, u] := by
  simp [encLen, show ¬ x * 16777216 + y * 65536 + z * 256 + u < 128 by omega,
    show ¬ x * 16777216 + y * 65536 + z * 256 + u < 256 by omega,
    show ¬ x * 16777216 + y * 65536 + z * 256 + u < 65536 by omega,
    show ¬ x * 16777216 + y * 65536 + z * 256 + u < 16777216 by omega]
  omega

theorem decLen_canonical (l rest : List Nat) (n : Nat) (hb : ∀ b ∈ l, b < 256)
    (h : decLen l = some (n, rest)) : n < 4294967296 ∧ l = encLen n ++ rest := by
  match l, hb, h with
  | [], _, h => simp [decLen] at h
  | b :: r, hb, h =>
    simp only [decLen] at h
    split at h
    · rename_i h1
      simp only [Option.some.injEq, Prod.mk.injEq] at h
      obtain ⟨rfl, rfl⟩ := h
      refine ⟨by omega, ?_⟩
      simp [encLen, h1]
    · split at h
      · simp at h
      · rename_i h1 h2
        split at h
        · simp at h
        · rename_i h3
          split at h
          · simp at h
          · rename_i h4
            simp only [Option.some.injEq, Prod.mk.injEq] at h
            obtain ⟨rfl, rfl⟩ := h
            have hk : b = 129 ∨ b = 130 ∨ b = 131 ∨ b = 132 := by omega
            rcases hk with rfl | rfl | rfl | rfl
            · rcases r with _ | ⟨x, r'⟩
              · simp at h3
              · have := hb x (by simp)
                simp [beVal] at h4 ⊢
                refine ⟨by omega, ?_⟩
                rw [encLen_1 x (by omega) (by omega)]; rfl
            · rcases r with _ | ⟨x, _ | ⟨y, r'⟩⟩
              · simp at h3
              · simp at h3
              · have := hb x (by simp); have := hb y (by simp)
                simp [beVal] at h4 ⊢
                refine ⟨by omega, ?_⟩
                rw [encLen_2 x y (by omega) (by omega) (by omega)]; rfl
            · rcases r with _ | ⟨x, _ | ⟨y, _ | ⟨z, r'⟩⟩⟩
              · simp at h3
              · simp at h3
              · simp at h3
              · have := hb x (by simp); have := hb y (by simp); have := hb z (by simp)
                simp [beVal] at h4 ⊢
                refine ⟨by omega, ?_⟩
                rw [← Nat.add_assoc, encLen_3 x y z (by omega) (by omega) (by omega) (by omega)]; rfl
            · rcases r with _ | ⟨x, _ | ⟨y, _ | ⟨z, _ | ⟨u, r'⟩⟩⟩⟩
              · simp at h3
              · simp at h3
              · simp at h3
              · simp at h3
              · have := hb x (by simp); have := hb y (by simp); have := hb z (by simp); have := hb u (by simp)
                simp [beVal] at h4 ⊢
                refine ⟨by omega, ?_⟩
                rw [← Nat.add_assoc, ← Nat.add_assoc, encLen_4 x y z u (by omega) (by omega) (by omega) (by omega) (by omega)]; rfl

/-! ## the reader inverts the encoder -/

mutual
def Der.WF : Der → Prop
  | .prim t c => tagOk t = true ∧ tagConstructed t = false ∧ c.length < 4294967296
  | .cons t cs => tagOk t = true ∧ tagConstructed t = true ∧ (Der.encL cs).length < 4294967296 ∧ Der.WFL cs
def Der.WFL : List Der → Prop
  | [] => True
  | d :: r => d.WF ∧ Der.WFL r
end

mutual
def Der.fuel : Der → Nat
  | .prim _ _ => 1
  | .cons _ cs => 1 + Der.fuelL cs
def Der.fuelL : List Der → Nat
  | [] => 1
  | d :: r => 1 + max d.fuel (Der.fuelL r)
end

theorem enc_ne_nil (d : Der) : ∃ t r, d.enc = t :: r := by
  cases d <;> simp [Der.enc]

mutual
theorem parseOne_enc (d : Der) (hw : d.WF) (fuel : Nat) (hf : d.fuel ≤ fuel) (rest : List Nat) :
    parseOne fuel (d.enc ++ rest) = some (d, rest) := by
  match d, hw, fuel, hf with
  | .prim t c, hw, fuel + 1, hf =>
    obtain ⟨h1, h2, h3⟩ := hw
    simp only [Der.enc, List.cons_append, List.append_assoc, parseOne, h1, decLen_encLen _ _ h3]
    simp [h2]
  | .cons t cs, hw, fuel + 1, hf =>
    obtain ⟨h1, h2, h3, h4⟩ := hw
    simp only [Der.enc, List.cons_append, List.append_assoc, parseOne, h1, decLen_encLen _ _ h3]
    have := parseMany_encL cs h4 fuel (by simp [Der.fuel] at hf; omega)
    simp [h2, this]
  | .prim t c, hw, 0, hf => simp [Der.fuel] at hf
  | .cons t cs, hw, 0, hf => simp [Der.fuel] at hf
theorem parseMany_encL (cs : List Der) (hw : Der.WFL cs) (fuel : Nat) (hf : Der.fuelL cs ≤ fuel) :
    parseMany fuel (Der.encL cs) = some cs := by
  match cs, hw, fuel, hf with
  | [], _, fuel + 1, _ => simp [Der.encL, parseMany]
  | [], _, 0, hf => simp [Der.fuelL] at hf
  | d :: r, hw, 0, hf => simp [Der.fuelL] at hf
  | d :: r, hw, fuel + 1, hf =>
    obtain ⟨h1, h2⟩ := hw
    simp only [Der.fuelL] at hf
    obtain ⟨t, r', he⟩ := enc_ne_nil d
    have e1 := parseOne_enc d h1 fuel (by omega) (Der.encL r)
    have e2 := parseMany_encL r h2 fuel (by omega)
    simp only [Der.encL]
    rw [he] at e1 ⊢
    simp only [List.cons_append, parseMany] at e1 ⊢
    rw [e1]; simp [e2]
end

theorem encLen_length_pos (n : Nat) : 1 ≤ (encLen n).length := by
  unfold encLen; repeat' split
  all_goals simp

mutual
theorem fuel_le (d : Der) : d.fuel ≤ 2 * d.enc.length ∧ 2 ≤ d.enc.length := by
  match d with
  | .prim t c =>
    have := encLen_length_pos c.length
    simp [Der.fuel, Der.enc]; omega
  | .cons t cs =>
    have := encLen_length_pos (Der.encL cs).length
    have := fuelL_le cs
    simp [Der.fuel, Der.enc]; omega
theorem fuelL_le (cs : List Der) : Der.fuelL cs ≤ 2 * (Der.encL cs).length + 1 := by
  match cs with
  | [] => simp [Der.fuelL, Der.encL]
  | d :: r =>
    have := fuel_le d
    have := fuelL_le r
    simp [Der.fuelL, Der.encL]; omega
end

/-- the reader accepts canonical encodings only -/
theorem parse_sound (fuel : Nat) :
    (∀ l d rest, (∀ b ∈ l, b < 256) → parseOne fuel l = some (d, rest) → d.WF ∧ l = d.enc ++ rest) ∧
    (∀ l ds, (∀ b ∈ l, b < 256) → parseMany fuel l = some ds → Der.WFL ds ∧ l = Der.encL ds) := by
  induction fuel with
  | zero => constructor <;> intros <;> simp_all [parseOne, parseMany]
  | succ fuel ih =>
    obtain ⟨ih1, ih2⟩ := ih
    constructor
    · intro l d rest hb h
      match l, hb, h with
      | [], _, h => simp [parseOne] at h
      | tag :: r, hb, h =>
        simp only [parseOne] at h
        split at h
        · simp at h
        · rename_i ht
          split at h
          · simp at h
          · rename_i len r' hd
            have hbr : ∀ b ∈ r, b < 256 := fun b hb' => hb b (by simp [hb'])
            obtain ⟨hl, hr⟩ := decLen_canonical r r' len hbr hd
            split at h
            · simp at h
            · rename_i hlen
              have hsplit : r' = r'.take len ++ r'.drop len := (List.take_append_drop len r').symm
              have hlen' : (r'.take len).length = len := by simp; omega
              split at h
              · rename_i hc
                split at h
                · rename_i cs hm
                  simp only [Option.some.injEq, Prod.mk.injEq] at h
                  obtain ⟨rfl, rfl⟩ := h
                  have hbt : ∀ b ∈ r'.take len, b < 256 := by
                    intro b hb'
                    have : b ∈ r' := List.mem_of_mem_take hb'
                    exact hbr b (by rw [hr]; simp [this])
                  obtain ⟨w, e⟩ := ih2 _ _ hbt hm
                  refine ⟨⟨by simpa using ht, hc, by rw [← e, hlen']; exact hl, w⟩, ?_⟩
                  simp only [Der.enc, ← e, hlen', List.cons_append, List.append_assoc, List.take_append_drop]
                  rw [hr]
                · simp at h
              · rename_i hc
                simp only [Option.some.injEq, Prod.mk.injEq] at h
                obtain ⟨rfl, rfl⟩ := h
                refine ⟨⟨by simpa using ht, by simpa using hc, by rw [hlen']; exact hl⟩, ?_⟩
                simp only [Der.enc, hlen', List.cons_append, List.append_assoc, List.take_append_drop]
                rw [hr]
    · intro l ds hb h
      match l, hb, h with
      | [], _, h =>
        simp [parseMany] at h; subst h; simp [Der.WFL, Der.encL]
      | b :: l', hb, h =>
        simp only [parseMany] at h
        split at h
        · simp at h
        · rename_i d rest h1
          split at h
          · simp at h
          · rename_i ds' h2
            simp only [Option.some.injEq] at h
            subst h
            obtain ⟨w1, e1⟩ := ih1 _ _ _ hb h1
            have hbr : ∀ x ∈ rest, x < 256 := by
              intro x hx; exact hb x (by rw [e1]; simp [hx])
            obtain ⟨w2, e2⟩ := ih2 _ _ hbr h2
            exact ⟨⟨w1, w2⟩, by rw [e1, e2]; simp [Der.encL]⟩

/-! ## writer: closed forms -/

theorem reserve_eq : RESERVE_LEN_BYTES = 3 := rfl

theorem splice_length (b : List Nat) (p : Nat) (x : List Nat) (h : p + x.length ≤ b.length) :
    (splice b p x).length = b.length := by
  simp [splice]; omega

theorem set_eq_splice (b : List Nat) (i v : Nat) (h : i < b.length) : b.set i v = splice b i [v] := by
  simp only [splice, List.length_singleton]
  rw [List.set_eq_take_append_cons_drop]
  simp [h]

theorem splice_splice (b : List Nat) (p : Nat) (x y : List Nat) (h : p + x.length + y.length ≤ b.length) :
    splice (splice b p x) (p + x.length) y = splice b p (x ++ y) := by
  have h1 : (b.take p).length = p := by simp; omega
  simp only [splice]
  have e1 : List.take (p + x.length) (List.take p b ++ x ++ List.drop (p + x.length) b) = List.take p b ++ x := by
    rw [List.take_append_of_le_length (by simp; omega)]
    rw [List.take_of_length_le (by simp; omega)]
  have e2 : List.drop (p + x.length + y.length) (List.take p b ++ x ++ List.drop (p + x.length) b)
      = List.drop (p + (x ++ y).length) b := by
    have : p + x.length + y.length = (List.take p b ++ x).length + y.length := by simp; omega
    rw [this, List.drop_length_add_append]
    simp; congr 1; omega
  rw [e1, e2]; simp

theorem wr_eq (b : List Nat) (i v : Nat) (h : i < b.length) : wr b i v = .ok (splice b i [v]) := by
  simp [wr, h, set_eq_splice]

theorem blit_eq (b : List Nat) (p : Nat) (x : List Nat) (h : p + x.length ≤ b.length) :
    WBuf.blit b p x = .ok (splice b p x) := by
  simp [WBuf.blit, h, splice]

theorem lenBytes_length (n : Nat) : (lenBytes n).length = if n < 128 then 1 else if n < 256 then 2 else 3 := by
  unfold lenBytes; split
  · rfl
  · split <;> rfl

theorem encodeLen_eq (b : List Nat) (p len : Nat) (hl : len < 65536) (h : p + (lenBytes len).length ≤ b.length) :
    encodeLen b p len = .ok (splice b p (lenBytes len), p + (lenBytes len).length) := by
  rw [lenBytes_length] at h
  unfold encodeLen bytesToEncodeLen lenBytes
  by_cases h1 : len < 128
  · simp only [h1, if_true] at h ⊢
    simp [bind, Except.bind, pure, Except.pure, RBuf.csub, encLoop, wr_eq b p _ (by omega)]
    rw [Nat.mod_eq_of_lt (by omega)]
  · by_cases h2 : len < 256
    · simp only [h1, h2, if_true, if_false] at h ⊢
      have e := splice_splice b p [129] [len % 256] (by simp; omega)
      simp [bind, Except.bind, pure, Except.pure, RBuf.csub, encLoop, wr_eq b p _ (by omega),
        wr_eq (splice b p [129]) (p + 1) _ (by rw [splice_length _ _ _ (by simp; omega)]; omega)]
      simp at e
      rw [e, Nat.mod_eq_of_lt (by omega)]
    · simp only [h1, h2, hl, if_true, if_false] at h ⊢
      have e := splice_splice b p [130] [len / 256 % 256] (by simp; omega)
      have e' := splice_splice b p [130, len / 256 % 256] [len % 256] (by simp; omega)
      simp [bind, Except.bind, pure, Except.pure, RBuf.csub, encLoop, wr_eq b p _ (by omega),
        wr_eq (splice b p [130]) (p + 1) _ (by rw [splice_length _ _ _ (by simp; omega)]; omega)]
      simp at e e'
      rw [e, wr_eq _ (p + 1 + 1) _ (by rw [splice_length _ _ _ (by simp; omega)]; omega)]
      rw [show p + 1 + 1 = p + 2 by omega, e']


theorem take_splice_le (b : List Nat) (p k : Nat) (x : List Nat) (hk : k ≤ p) (hp : p ≤ b.length) :
    (splice b p x).take k = b.take k := by
  simp only [splice, List.append_assoc]
  rw [List.take_append_of_le_length (by simp; omega), List.take_take]
  congr 1; omega

theorem drop_splice_ge (b : List Nat) (p k : Nat) (x : List Nat) (hk : p + x.length ≤ k) (hp : p + x.length ≤ b.length) :
    (splice b p x).drop k = b.drop k := by
  simp only [splice]
  have : k = (List.take p b ++ x).length + (k - (p + x.length)) := by simp; omega
  rw [this, List.drop_length_add_append, List.drop_drop]
  congr 1; simp; omega

theorem lenBytes_length_le (n : Nat) : 1 ≤ (lenBytes n).length ∧ (lenBytes n).length ≤ 3 := by
  rw [lenBytes_length]; repeat' split
  all_goals omega

theorem take_take_drop (S : List Nat) (a L : Nat) : S.take a ++ (S.drop a).take L ++ S.drop (a + L) = S := by
  rw [List.append_assoc, ← List.drop_drop, List.take_append_drop, List.take_append_drop]


/-! ### level 1 -/

/-- `append_tlv` with content `c`, closed form -/
def W.tlvL (w : W) (tag : Nat) (c : List Nat) : Except Err W :=
  if c.length < 65536 ∧ w.offset + (1 + (lenBytes c.length).length + c.length) ≤ w.buf.length then
    .ok { w with buf := splice w.buf w.offset (tag :: (lenBytes c.length ++ c))
                 offset := w.offset + (1 + (lenBytes c.length).length + c.length) }
  else .error .bufferTooSmall

def W.rawL (w : W) (data : List Nat) : Except Err W :=
  if w.offset + data.length ≤ w.buf.length then
    .ok { w with buf := splice w.buf w.offset data, offset := w.offset + data.length }
  else .error .bufferTooSmall

def W.startL (w : W) (tag : Nat) : Except Err W :=
  if w.offset + 4 ≤ w.buf.length then
    if w.cur < w.depth.length then
      if w.cur + 1 ≥ MAX_DEPTH then .error .bufferTooSmall
      else .ok { buf := w.buf.set w.offset tag, offset := w.offset + 4, depth := w.depth.set w.cur (w.offset + 4)
                 cur := w.cur + 1 }
    else .error .panic
  else .error .bufferTooSmall

/-- the buffer after `end_compound`: length octets at `top - 3`, the content moved down behind them -/
def stopBuf (buf : List Nat) (top len : Nat) : List Nat :=
  buf.take (top - 3) ++ lenBytes len ++ (buf.drop top).take len ++ buf.drop (top - 3 + (lenBytes len).length + len)

def W.stopL (w : W) : Except Err W :=
  if w.cur = 0 then .error .invalid
  else
    let top := w.depth.getD (w.cur - 1) 0
    let len := w.offset - top
    if len ≥ 65536 then .error .bufferTooSmall
    else .ok { w with buf := stopBuf w.buf top len, cur := w.cur - 1, offset := top - 3 + (lenBytes len).length + len }

def W.stepLow (w : W) : Low → Except Err W
  | .tlv t c => w.tlvL t c
  | .start t => w.startL t
  | .stop => w.stopL
  | .raw d => w.rawL d
  | .panic => .error .panic

theorem appendTlv_eq (w : W) (tag : Nat) (c : List Nat) (f : List Nat → Nat → Except Err (List Nat))
    (hf : ∀ b off, off + c.length ≤ b.length → f b off = .ok (splice b off c)) :
    w.appendTlv tag c.length f = w.tlvL tag c := by
  unfold W.appendTlv W.tlvL
  by_cases hl : c.length < 65536
  · have hn : bytesToEncodeLen c.length = .ok (lenBytes c.length).length := by
      rw [lenBytes_length]; unfold bytesToEncodeLen
      by_cases h1 : c.length < 128
      · simp [h1]
      · by_cases h2 : c.length < 256
        · simp [h1, h2]
        · simp [h1, h2, hl]
    simp only [hn, bind, Except.bind, hl, true_and]
    by_cases hfit : w.offset + (1 + (lenBytes c.length).length + c.length) ≤ w.buf.length
    · simp only [hfit, if_true]
      have l1 : (splice w.buf w.offset [tag]).length = w.buf.length := splice_length _ _ _ (by simp; omega)
      rw [wr_eq _ _ _ (by omega)]
      simp only []
      rw [encodeLen_eq _ _ _ hl (by rw [l1]; omega)]
      simp only []
      have e1 := splice_splice w.buf w.offset [tag] (lenBytes c.length) (by simp; omega)
      simp only [List.length_singleton, List.singleton_append] at e1
      rw [e1]
      have l2 : (splice w.buf w.offset (tag :: lenBytes c.length)).length = w.buf.length :=
        splice_length _ _ _ (by simp; omega)
      rw [hf _ _ (by rw [l2]; omega)]
      have e2 := splice_splice w.buf w.offset (tag :: lenBytes c.length) c (by simp; omega)
      simp only [List.length_cons, List.cons_append] at e2
      rw [show w.offset + 1 + (lenBytes c.length).length = w.offset + ((lenBytes c.length).length + 1) by omega, e2]
      simp only [pure, Except.pure]
      rw [show w.offset + ((lenBytes c.length).length + 1) + c.length = w.offset + (1 + (lenBytes c.length).length + c.length) by omega]
    · simp [hfit]
  · have hn : bytesToEncodeLen c.length = .error .bufferTooSmall := by
      unfold bytesToEncodeLen
      simp [show ¬ c.length < 128 by omega, show ¬ c.length < 256 by omega, hl]
    simp [hn, bind, Except.bind, hl]

theorem addCompound_eq (w : W) (tag : Nat) : w.addCompound tag = w.startL tag := by
  unfold W.addCompound W.startL W.appendWith
  rw [reserve_eq]
  by_cases h : w.offset + 4 ≤ w.buf.length
  · simp only [show w.offset + (1 + 3) ≤ w.buf.length by omega, h, if_true, bind, Except.bind]
    simp only [wr, show w.offset < w.buf.length by omega, if_true, pure, Except.pure]
    by_cases hc : w.cur < w.depth.length
    · simp only [hc, if_true]
    · simp [hc]
  · simp [show ¬ w.offset + (1 + 3) ≤ w.buf.length by omega, h, bind, Except.bind]
theorem endCompound_eq (w : W) (hc : w.cur ≤ w.depth.length) (ho : w.offset ≤ w.buf.length)
    (ht : w.cur ≠ 0 → 3 ≤ w.depth.getD (w.cur - 1) 0 ∧ w.depth.getD (w.cur - 1) 0 ≤ w.offset) :
    w.endCompound = w.stopL := by
  unfold W.endCompound W.stopL
  by_cases h0 : w.cur = 0
  · simp [h0]
  · obtain ⟨ht1, ht2⟩ := ht h0
    simp only [h0, if_false]
    have hi : w.cur - 1 < w.depth.length := by omega
    have hg : w.depth.getD (w.cur - 1) 0 = w.depth[w.cur - 1] := by
      simp [List.getD, List.getElem?_eq_getElem hi]
    obtain ⟨top, htop⟩ : ∃ t, w.depth[w.cur - 1]'hi = t := ⟨_, rfl⟩
    rw [hg, htop] at ht1 ht2
    simp only [RBuf.csub, show 1 ≤ w.cur by omega, if_true, bind, Except.bind, index_eq _ _ hi, hg, htop, ht2, reserve_eq, ht1]
    by_cases hl : w.offset - top ≥ 65536
    · have : encodeLen w.buf (top - 3) (w.offset - top) = .error .bufferTooSmall := by
        simp [encodeLen, bytesToEncodeLen, show ¬ w.offset - top < 128 by omega, show ¬ w.offset - top < 256 by omega,
          show ¬ w.offset - top < 65536 by omega, bind, Except.bind]
      simp [this, hl]
    · have hn := lenBytes_length (w.offset - top)
      obtain ⟨hn1, hn3⟩ := lenBytes_length_le (w.offset - top)
      rw [encodeLen_eq _ _ _ (by omega) (by omega)]
      simp only [hl, if_false, show top - 3 + (lenBytes (w.offset - top)).length ≤ top by omega, if_true]
      have hsl : (splice w.buf (top - 3) (lenBytes (w.offset - top))).length = w.buf.length :=
        splice_length _ _ _ (by omega)
      have hbuf : (if top - (top - 3 + (lenBytes (w.offset - top)).length) > 0 then
            shiftLoop (top - (top - 3 + (lenBytes (w.offset - top)).length)) (w.offset - top)
              (splice w.buf (top - 3) (lenBytes (w.offset - top))) (top - 3 + (lenBytes (w.offset - top)).length)
          else pure (splice w.buf (top - 3) (lenBytes (w.offset - top))))
          = .ok (stopBuf w.buf top (w.offset - top)) := by
        have hclosed := shiftLoop_eq (top - (top - 3 + (lenBytes (w.offset - top)).length)) (w.offset - top)
              (splice w.buf (top - 3) (lenBytes (w.offset - top))) (top - 3 + (lenBytes (w.offset - top)).length)
              (by rw [hsl]; omega)
        have hres : List.take (top - 3 + (lenBytes (w.offset - top)).length) (splice w.buf (top - 3) (lenBytes (w.offset - top))) ++
              List.take (w.offset - top) (List.drop (top - 3 + (lenBytes (w.offset - top)).length + (top - (top - 3 + (lenBytes (w.offset - top)).length)))
                (splice w.buf (top - 3) (lenBytes (w.offset - top)))) ++
              List.drop (top - 3 + (lenBytes (w.offset - top)).length + (w.offset - top)) (splice w.buf (top - 3) (lenBytes (w.offset - top)))
            = stopBuf w.buf top (w.offset - top) := by
          unfold stopBuf
          rw [show top - 3 + (lenBytes (w.offset - top)).length + (top - (top - 3 + (lenBytes (w.offset - top)).length)) = top by omega]
          rw [drop_splice_ge _ _ _ _ (by omega) (by omega), drop_splice_ge _ _ _ _ (by omega) (by omega)]
          congr 2
          simp only [splice]
          have : top - 3 + (lenBytes (w.offset - top)).length = (List.take (top - 3) w.buf ++ lenBytes (w.offset - top)).length := by
            simp; omega
          rw [this, List.take_append_length]
        by_cases hs : top - (top - 3 + (lenBytes (w.offset - top)).length) > 0
        · simp only [hs, if_true]; rw [hclosed, hres]
        · simp only [hs, if_false, pure, Except.pure]
          rw [← hres]
          have h3 : (lenBytes (w.offset - top)).length = 3 := by omega
          rw [show top - 3 + (lenBytes (w.offset - top)).length + (top - (top - 3 + (lenBytes (w.offset - top)).length)) = top - 3 + (lenBytes (w.offset - top)).length by omega]
          rw [take_take_drop]
      rw [hbuf]
      simp only [show top - (top - 3 + (lenBytes (w.offset - top)).length) ≤ w.offset by omega, if_true, pure, Except.pure]
      congr 2
      omega


theorem stripLen_ok (s : List Nat) : ∀ n, n ≤ s.length → ∃ k, stripLen s n = .ok k ∧ k ≤ n := by
  intro n
  induction n with
  | zero => intro _; exact ⟨0, rfl, Nat.le_refl _⟩
  | succ n ih =>
    intro h
    simp only [stripLen, index_eq s n (by omega), bind, Except.bind]
    split
    · obtain ⟨k, hk, hle⟩ := ih (by omega)
      exact ⟨k, hk, by omega⟩
    · exact ⟨n + 1, rfl, Nat.le_refl _⟩

theorem bitstrParts_ok (t : Bool) (s : List Nat) :
    ∃ s' nz, bitstrParts t s = .ok (s', nz) ∧ s'.length ≤ s.length := by
  unfold bitstrParts
  cases t with
  | false =>
    simp only [Bool.false_eq_true, if_false, pure, Except.pure, bind, Except.bind, RBuf.slice]
    simp
  | true =>
    obtain ⟨k, hk, hle⟩ := stripLen_ok s s.length (Nat.le_refl _)
    simp only [if_true, hk, bind, Except.bind]
    by_cases h0 : k > 0
    · simp only [h0, if_true, RBuf.csub, show 1 ≤ k by omega, bind, Except.bind, index_eq s (k - 1) (by omega),
        pure, Except.pure, RBuf.slice]
      simp [hle]
    · simp only [h0, if_false, pure, Except.pure, RBuf.slice]
      simp [hle]

theorem bitstrContent_spec (t : Bool) (s : List Nat) :
    ∃ s' nz, bitstrParts t s = .ok (s', nz) ∧ bitstrContent t s = nz :: s' := by
  obtain ⟨s', nz, h, _⟩ := bitstrParts_ok t s
  exact ⟨s', nz, h, by simp [bitstrContent, h]⟩

/-- every `CertConsumer` operation is its low-level closed form, provided the stack of open compounds is sane -/
theorem step_eq_low (w : W) (op : Op) (hc : w.cur ≤ w.depth.length) (ho : w.offset ≤ w.buf.length)
    (ht : w.cur ≠ 0 → 3 ≤ w.depth.getD (w.cur - 1) 0 ∧ w.depth.getD (w.cur - 1) 0 ≤ w.offset) :
    w.step op = w.stepLow op.low := by
  have hstr : ∀ tag s, w.writeStr tag s = w.tlvL tag s := by
    intro tag s
    exact appendTlv_eq w tag s _ (fun b off h => blit_eq b off s h)
  cases op with
  | startSeq | startOstr | startSet => exact addCompound_eq w _
  | startCtx id => exact addCompound_eq w _
  | endSeq | endOstr | endSet | endCtx => exact endCompound_eq w hc ho ht
  | integer i | printstr i | utf8str i | ostr i | oid i => exact hstr _ _
  | ctx id v => exact hstr _ _
  | bool b =>
    simp only [W.step, Op.low, W.stepLow]
    exact appendTlv_eq w 1 [if b then 0xFF else 0x00] _ (fun buf off h => wr_eq buf off _ (by simp at h; omega))
  | bitstr t s =>
    obtain ⟨s', nz, h1, h2⟩ := bitstrContent_spec t s
    simp only [W.step, Op.low, W.stepLow, W.bitstr, h1, h2]
    show (w.appendTlv 3 (s'.length + 1) fun b off => do let b ← wr b off nz; WBuf.blit b (off + 1) s') = _
    have := appendTlv_eq w 3 (nz :: s') (fun b off => do let b ← wr b off nz; WBuf.blit b (off + 1) s') (by
      intro b off h
      simp only [List.length_cons] at h
      rw [wr_eq b off nz (by omega)]
      simp only [bind, Except.bind]
      rw [blit_eq _ _ _ (by rw [splice_length _ _ _ (by simp; omega)]; omega)]
      have := splice_splice b off [nz] s' (by simp; omega)
      simp only [List.length_singleton, List.singleton_append] at this
      rw [this])
    exact this
  | utctime e =>
    simp only [W.step, Op.low, W.utctime]
    cases hts : timeStr e with
    | none => rfl
    | some p => obtain ⟨tag, s⟩ := p; exact hstr _ _
  | raw data =>
    simp only [W.step, Op.low, W.stepLow, W.appendWith, W.rawL]
    by_cases h : w.offset + data.length ≤ w.buf.length
    · simp [h, blit_eq _ _ _ h, bind, Except.bind, pure, Except.pure]
    · simp [h]


/-! ## the writer invariant -/

theorem getD_set (d : List Nat) (i j v : Nat) :
    (d.set i v).getD j 0 = if i = j ∧ i < d.length then v else d.getD j 0 := by
  simp only [List.getD_eq_getElem?_getD, List.getElem?_set]
  by_cases h : i = j
  · subst h
    by_cases h2 : i < d.length
    · simp [h2]
    · simp [h2]
  · simp [h]

theorem stopBuf_length (buf : List Nat) (top len : Nat) (h3 : 3 ≤ top) (h : top + len ≤ buf.length) :
    (stopBuf buf top len).length = buf.length := by
  obtain ⟨h1, h2⟩ := lenBytes_length_le len
  simp [stopBuf]; omega

/-- the writer invariant: what `new` establishes and every successful operation preserves -/
structure Inv (w : W) : Prop where
  dlen : w.depth.length = MAX_DEPTH
  cur : w.cur < MAX_DEPTH
  off : w.offset ≤ w.buf.length
  lo : ∀ i, i < w.cur → 4 ≤ w.depth.getD i 0 ∧ w.depth.getD i 0 ≤ w.offset
  mono : ∀ i j, i < j → j < w.cur → w.depth.getD i 0 + 4 ≤ w.depth.getD j 0

theorem Inv.new (buf : List Nat) : Inv (W.new buf) :=
  ⟨by simp [W.new], by simp [W.new]; decide, by simp [W.new], by intro i h; simp [W.new] at h,
   by intro i j _ h; simp [W.new] at h⟩

theorem Inv.step_eq {w : W} (h : Inv w) (op : Op) : w.step op = w.stepLow op.low :=
  step_eq_low w op (by have := h.dlen; have := h.cur; omega) h.off (by
    intro h0
    have := h.lo (w.cur - 1) (by omega)
    omega)

theorem Inv.stepLow {w w' : W} (h : Inv w) (l : Low) (hs : w.stepLow l = .ok w') : Inv w' := by
  cases l with
  | tlv t c =>
    simp only [W.stepLow, W.tlvL] at hs
    split at hs
    · rename_i hc
      simp only [Except.ok.injEq] at hs; subst hs
      refine ⟨h.dlen, h.cur, ?_, ?_, h.mono⟩
      · simp only []; rw [splice_length _ _ _ (by simp; omega)]; omega
      · intro i hi; have := h.lo i hi; simp only []; omega
    · simp at hs
  | raw d =>
    simp only [W.stepLow, W.rawL] at hs
    split at hs
    · rename_i hc
      simp only [Except.ok.injEq] at hs; subst hs
      refine ⟨h.dlen, h.cur, ?_, ?_, h.mono⟩
      · simp only []; rw [splice_length _ _ _ (by omega)]; omega
      · intro i hi; have := h.lo i hi; simp only []; omega
    · simp at hs
  | start t =>
    simp only [W.stepLow, W.startL] at hs
    split at hs
    · rename_i hfit
      split at hs
      · rename_i hcur
        split at hs
        · simp at hs
        · rename_i hd
          simp only [Except.ok.injEq] at hs; subst hs
          refine ⟨by simp [h.dlen], by simp only []; omega, by simp; omega, ?_, ?_⟩
          · intro i hi
            simp only [getD_set] at hi ⊢
            by_cases he : w.cur = i
            · rw [if_pos ⟨he, hcur⟩]; omega
            · have := h.lo i (by omega)
              rw [if_neg (fun hh => he hh.1)]; omega
          · intro i j hij hj
            simp only [getD_set] at hj ⊢
            have hi : ¬ w.cur = i := by omega
            rw [if_neg (fun hh => hi hh.1)]
            by_cases he : w.cur = j
            · have := h.lo i (by omega)
              rw [if_pos ⟨he, hcur⟩]; omega
            · have := h.mono i j hij (by omega)
              rw [if_neg (fun hh => he hh.1)]; omega
      · simp at hs
    · simp at hs
  | stop =>
    simp only [W.stepLow, W.stopL] at hs
    split at hs
    · simp at hs
    · rename_i h0
      split at hs
      · simp at hs
      · rename_i hl
        simp only [Except.ok.injEq] at hs; subst hs
        obtain ⟨l1, l2⟩ := h.lo (w.cur - 1) (by omega)
        obtain ⟨n1, n2⟩ := lenBytes_length_le (w.offset - w.depth.getD (w.cur - 1) 0)
        have ho := h.off
        refine ⟨h.dlen, by simp only []; have := h.cur; omega, ?_, ?_, ?_⟩
        · simp only []; rw [stopBuf_length _ _ _ (by omega) (by omega)]; omega
        · intro i hi
          simp only [] at hi ⊢
          have := h.lo i (by omega)
          have := h.mono i (w.cur - 1) (by omega) (by omega)
          omega
        · intro i j hij hj
          simp only [] at hj ⊢
          exact h.mono i j hij (by omega)
  | panic => simp [W.stepLow] at hs

theorem Inv.noPanic {w : W} (h : Inv w) (l : Low) (hl : l ≠ .panic) : NoPanic (w.stepLow l) := by
  cases l with
  | tlv t c => simp only [W.stepLow, W.tlvL]; split <;> simp [NoPanic]
  | raw d => simp only [W.stepLow, W.rawL]; split <;> simp [NoPanic]
  | start t =>
    simp only [W.stepLow, W.startL]
    have : w.cur < w.depth.length := by rw [h.dlen]; exact h.cur
    simp only [this, if_true]
    repeat' split
    all_goals simp [NoPanic]
  | stop =>
    simp only [W.stepLow, W.stopL]
    repeat' split
    all_goals simp [NoPanic]
  | panic => exact absurd rfl hl


/-! ## runs -/

def W.runLow (w : W) : List Low → Except Err W
  | [] => .ok w
  | l :: r => do
    let w ← w.stepLow l
    w.runLow r

theorem runLow_append (w : W) (a b : List Low) :
    w.runLow (a ++ b) = (w.runLow a >>= fun w' => w'.runLow b) := by
  induction a generalizing w with
  | nil => simp [W.runLow, bind, Except.bind]
  | cons l r ih =>
    simp only [List.cons_append, W.runLow, bind, Except.bind]
    cases h : w.stepLow l with
    | error e => rfl
    | ok w1 => simp only []; rw [ih]; rfl

theorem Inv.run_eq {w : W} (h : Inv w) (ops : List Op) : w.run ops = w.runLow (ops.map Op.low) := by
  induction ops generalizing w with
  | nil => rfl
  | cons op r ih =>
    simp only [W.run, List.map_cons, W.runLow, h.step_eq op, bind, Except.bind]
    cases hs : w.stepLow op.low with
    | error e => rfl
    | ok w1 => exact ih (h.stepLow _ hs)

def Op.argsOk : Op → Prop
  | .utctime e => MATTER_EPOCH_SECS + e ≤ MAX_UNIX
  | _ => True

theorem low_ne_panic (op : Op) (h : op.argsOk) : op.low ≠ .panic := by
  cases op <;> simp [Op.low]
  rename_i e
  simp only [Op.argsOk] at h
  have : timeStr e ≠ none := by
    simp [timeStr, show ¬ (MATTER_EPOCH_SECS + e > MAX_UNIX) by omega]
    split <;> simp
  cases ht : timeStr e with
  | none => exact absurd ht this
  | some p => simp

theorem Inv.run_noPanic {w : W} (h : Inv w) (ops : List Op) (ha : ∀ op ∈ ops, op.argsOk) : NoPanic (w.run ops) := by
  induction ops generalizing w with
  | nil => simp [W.run, NoPanic, pure, Except.pure]
  | cons op r ih =>
    have hp := h.noPanic op.low (low_ne_panic op (ha op (by simp)))
    simp only [W.run, h.step_eq op, bind, Except.bind]
    cases hs : w.stepLow op.low with
    | error e => rw [hs] at hp; exact hp
    | ok w1 => exact ih (h.stepLow _ hs) (fun o ho => ha o (by simp [ho]))


/-! ## balanced operation sequences: the output is the encoding of the tree -/

theorem take_splice (b : List Nat) (p : Nat) (x : List Nat) (h : p + x.length ≤ b.length) :
    (splice b p x).take (p + x.length) = b.take p ++ x := by
  simp only [splice]
  have : p + x.length = (List.take p b ++ x).length := by simp; omega
  rw [this, List.take_append_length]

/-- what running the operations of a tree (forest) with encoding `e` does to the writer -/
structure Post (w w' : W) (e : List Nat) : Prop where
  out : w'.buf.take w'.offset = w.buf.take w.offset ++ e
  off : w'.offset = w.offset + e.length
  len : w'.buf.length = w.buf.length
  cur : w'.cur = w.cur
  dlen : w'.depth.length = w.depth.length
  frame : ∀ i, i < w.cur → w'.depth.getD i 0 = w.depth.getD i 0

theorem Post.refl (w : W) : Post w w [] := ⟨by simp, by simp, rfl, rfl, rfl, fun _ _ => rfl⟩

theorem Post.trans {w w1 w2 : W} {e1 e2 : List Nat} (h1 : Post w w1 e1) (h2 : Post w1 w2 e2) :
    Post w w2 (e1 ++ e2) :=
  ⟨by rw [h2.out, h1.out, List.append_assoc], by rw [h2.off, h1.off]; simp; omega, by rw [h2.len, h1.len],
   by rw [h2.cur, h1.cur], by rw [h2.dlen, h1.dlen],
   fun i hi => by rw [h2.frame i (by rw [h1.cur]; exact hi), h1.frame i hi]⟩

theorem stop_post (w w2 : W) (t : Nat) (E : List Nat)
    (hoff : w.offset + 4 ≤ w.buf.length) (hcur : w.cur < w.depth.length)
    (hE : E.length < 65536)
    (h2 : Post { buf := w.buf.set w.offset t, offset := w.offset + 4, depth := w.depth.set w.cur (w.offset + 4), cur := w.cur + 1 } w2 E)
    (hfit : w2.offset ≤ w2.buf.length) :
    ∃ w3, w2.stopL = .ok w3 ∧ Post w w3 (t :: (lenBytes E.length ++ E)) := by
  have hcur2 : w2.cur = w.cur + 1 := h2.cur
  have htop : w2.depth.getD (w2.cur - 1) 0 = w.offset + 4 := by
    rw [hcur2, show w.cur + 1 - 1 = w.cur by omega, h2.frame w.cur (by simp), getD_set]
    simp [hcur]
  have hoff2 : w2.offset = w.offset + 4 + E.length := h2.off
  have hlen2 : w2.buf.length = w.buf.length := by rw [h2.len]; simp
  have hL : w2.offset - (w.offset + 4) = E.length := by omega
  obtain ⟨n1, n3⟩ := lenBytes_length_le E.length
  refine ⟨{ w2 with buf := stopBuf w2.buf (w.offset + 4) E.length, cur := w2.cur - 1, offset := w.offset + 4 - 3 + (lenBytes E.length).length + E.length }, ?_, ?_⟩
  · simp only [W.stopL, show w2.cur ≠ 0 by omega, if_false, htop, hL, show ¬ E.length ≥ 65536 by omega]
  · have hout := h2.out
    simp only [] at hout
    rw [hoff2] at hout
    have hX : (List.take (w.offset + 4) (w.buf.set w.offset t)).length = w.offset + 4 := by simp; omega
    -- the three pieces of the new prefix
    have p1 : List.take (w.offset + 4 - 3) w2.buf = List.take w.offset w.buf ++ [t] := by
      have : List.take (w.offset + 1) w2.buf = List.take (w.offset + 1) (List.take (w.offset + 4 + E.length) w2.buf) := by
        rw [List.take_take]; congr 1; omega
      rw [show w.offset + 4 - 3 = w.offset + 1 by omega, this, hout,
        List.take_append_of_le_length (by rw [hX]; omega), List.take_take,
        show min (w.offset + 1) (w.offset + 4) = w.offset + 1 by omega, set_eq_splice _ _ _ (by omega)]
      exact take_splice w.buf w.offset [t] (by simp; omega)
    have p2 : List.take E.length (List.drop (w.offset + 4) w2.buf) = E := by
      rw [List.take_drop, hout]
      have := List.drop_length_add_append (l₁ := List.take (w.offset + 4) (w.buf.set w.offset t)) (l₂ := E) 0
      rw [hX] at this
      simpa using this
    refine ⟨?_, ?_, ?_, by simp only []; omega, by simp only []; rw [h2.dlen]; simp, ?_⟩
    · simp only [stopBuf, p1, p2]
      have : w.offset + 4 - 3 + (lenBytes E.length).length + E.length
          = (List.take w.offset w.buf ++ [t] ++ lenBytes E.length ++ E).length := by simp; omega
      rw [this, List.take_append_length]
      simp
    · simp only [List.length_cons, List.length_append]; omega
    · simp only []; rw [stopBuf_length _ _ _ (by omega) (by omega), hlen2]
    · intro i hi
      simp only []
      rw [h2.frame i (by simp; omega), getD_set]
      simp; omega


theorem enc_prim_length (t : Nat) (c : List Nat) : (Node.prim t c).enc.length = 1 + (lenBytes c.length).length + c.length := by
  simp [Node.enc]; omega

mutual
theorem need_ge (n : Node) : n.enc.length ≤ n.need := by
  match n with
  | .prim t c => simp [Node.need]
  | .raw b => simp [Node.need, Node.enc]
  | .cons t cs =>
    have := needL_ge cs
    obtain ⟨_, h3⟩ := lenBytes_length_le (Node.encL cs).length
    simp [Node.need, Node.enc, reserve_eq]; omega
theorem needL_ge (cs : List Node) : (Node.encL cs).length ≤ Node.needL cs := by
  match cs with
  | [] => simp [Node.encL]
  | n :: r =>
    have := needL_ge r
    simp [Node.encL, Node.needL]; omega
end

mutual
theorem runNode (n : Node) (w : W) (hd : w.depth.length = MAX_DEPTH) (hh : w.cur + n.height < MAX_DEPTH)
    (hl : n.lenOk) (hfit : w.offset + n.need ≤ w.buf.length) :
    ∃ w', w.runLow n.lows = .ok w' ∧ Post w w' n.enc := by
  match n, hh, hl, hfit with
  | .prim t c, hh, hl, hfit =>
    simp only [Node.need, enc_prim_length] at hfit
    simp only [Node.lenOk] at hl
    refine ⟨{ w with buf := splice w.buf w.offset (t :: (lenBytes c.length ++ c)), offset := w.offset + (1 + (lenBytes c.length).length + c.length) }, ?_, ?_⟩
    · simp [Node.lows, W.runLow, W.stepLow, W.tlvL, hl, hfit, bind, Except.bind]
    · refine ⟨?_, by simp [Node.enc]; omega, by simp only []; exact splice_length _ _ _ (by simp; omega), rfl, rfl, fun _ _ => rfl⟩
      simp only [Node.enc]
      have := take_splice w.buf w.offset (t :: (lenBytes c.length ++ c)) (by simp; omega)
      simp only [List.length_cons, List.length_append] at this
      rw [show w.offset + (1 + (lenBytes c.length).length + c.length) = w.offset + ((lenBytes c.length).length + c.length + 1) by omega]
      exact this
  | .raw b, hh, hl, hfit =>
    simp only [Node.need] at hfit
    refine ⟨{ w with buf := splice w.buf w.offset b, offset := w.offset + b.length }, ?_, ?_⟩
    · simp [Node.lows, W.runLow, W.stepLow, W.rawL, hfit, bind, Except.bind]
    · exact ⟨by simp only [Node.enc]; exact take_splice _ _ _ hfit, by simp [Node.enc],
        by simp only []; exact splice_length _ _ _ hfit, rfl, rfl, fun _ _ => rfl⟩
  | .cons t cs, hh, hl, hfit =>
    simp only [Node.need, reserve_eq] at hfit
    simp only [Node.height] at hh
    obtain ⟨hl1, hl2⟩ := hl
    have hoff : w.offset + 4 ≤ w.buf.length := by omega
    have hcur : w.cur < w.depth.length := by omega
    obtain ⟨w2, hr2, hp2⟩ := runNodes cs
      { buf := w.buf.set w.offset t, offset := w.offset + 4, depth := w.depth.set w.cur (w.offset + 4), cur := w.cur + 1 }
      (by simp [hd]) (by simp only []; omega) hl2 (by simp; omega)
    obtain ⟨w3, hr3, hp3⟩ := stop_post w w2 t (Node.encL cs) hoff hcur hl1 hp2 (by
      rw [hp2.off, hp2.len]; simp
      have := needL_ge cs; omega)
    refine ⟨w3, ?_, by simpa [Node.enc] using hp3⟩
    have hstart : w.stepLow (.start t) = .ok
        { buf := w.buf.set w.offset t, offset := w.offset + 4, depth := w.depth.set w.cur (w.offset + 4), cur := w.cur + 1 } := by
      simp [W.stepLow, W.startL, hoff, hcur]; omega
    simp only [Node.lows, W.runLow, hstart, bind, Except.bind, runLow_append, hr2]
    simp [W.stepLow, hr3]
theorem runNodes (cs : List Node) (w : W) (hd : w.depth.length = MAX_DEPTH) (hh : w.cur + Node.heightL cs < MAX_DEPTH)
    (hl : Node.lenOkL cs) (hfit : w.offset + Node.needL cs ≤ w.buf.length) :
    ∃ w', w.runLow (Node.lowsL cs) = .ok w' ∧ Post w w' (Node.encL cs) := by
  match cs, hh, hl, hfit with
  | [], _, _, _ => exact ⟨w, rfl, Post.refl w⟩
  | n :: r, hh, hl, hfit =>
    simp only [Node.heightL] at hh
    simp only [Node.needL] at hfit
    obtain ⟨hl1, hl2⟩ := hl
    obtain ⟨w1, hr1, hp1⟩ := runNode n w hd (by omega) hl1 (by omega)
    obtain ⟨w2, hr2, hp2⟩ := runNodes r w1 (by rw [hp1.dlen, hd]) (by rw [hp1.cur]; omega) hl2 (by
      rw [hp1.off, hp1.len]; omega)
    exact ⟨w2, by simp only [Node.lowsL, runLow_append, hr1, bind, Except.bind, hr2], by
      simpa [Node.encL] using hp1.trans hp2⟩
end


theorem lowsL_append (a b : List Node) : Node.lowsL (a ++ b) = Node.lowsL a ++ Node.lowsL b := by
  induction a with
  | nil => simp [Node.lowsL]
  | cons n r ih => simp [Node.lowsL, ih]

/-- the operations already consumed, given the stack of open compounds and the current siblings -/
def prefixLows : List (Nat × List Node) → List Node → List Low
  | [], acc => Node.lowsL acc.reverse
  | (t, outer) :: st, acc => prefixLows st outer ++ [.start t] ++ Node.lowsL acc.reverse

theorem prefixLows_cons (st : List (Nat × List Node)) (n : Node) (acc : List Node) :
    prefixLows st (n :: acc) = prefixLows st acc ++ n.lows := by
  cases st with
  | nil => simp [prefixLows, lowsL_append, Node.lowsL]
  | cons p st => obtain ⟨t, outer⟩ := p; simp [prefixLows, lowsL_append, Node.lowsL]

theorem forestAux_lows : ∀ (l : List Low) (st : List (Nat × List Node)) (acc ns : List Node),
    forestAux l st acc = some ns → Node.lowsL ns = prefixLows st acc ++ l := by
  intro l
  induction l with
  | nil =>
    intro st acc ns h
    cases st with
    | nil => simp [forestAux] at h; subst h; simp [prefixLows]
    | cons p st => simp [forestAux] at h
  | cons x r ih =>
    intro st acc ns h
    cases x with
    | tlv t c =>
      simp only [forestAux] at h
      rw [ih _ _ _ h, prefixLows_cons]; simp [Node.lows]
    | raw b =>
      simp only [forestAux] at h
      rw [ih _ _ _ h, prefixLows_cons]; simp [Node.lows]
    | start t =>
      simp only [forestAux] at h
      rw [ih _ _ _ h]; simp [prefixLows, Node.lowsL]
    | stop =>
      cases st with
      | nil => simp [forestAux] at h
      | cons p st =>
        obtain ⟨t, outer⟩ := p
        simp only [forestAux] at h
        rw [ih _ _ _ h, prefixLows_cons]; simp [prefixLows, Node.lows]
    | panic => simp [forestAux] at h

/-- a balanced operation sequence performs exactly the operations of its forest -/
theorem forest_lows (ops : List Op) (ns : List Node) (h : forest ops = some ns) :
    ops.map Op.low = Node.lowsL ns := by
  have := forestAux_lows _ _ _ _ h
  simpa [prefixLows, Node.lowsL] using this.symm

/-- a sequence that performs the operations of a forest writes the forest's encoding -/
theorem run_of_lows (buf : List Nat) (ops : List Op) (ns : List Node) (hb : ops.map Op.low = Node.lowsL ns)
    (hh : Node.heightL ns < MAX_DEPTH) (hl : Node.lenOkL ns) (hfit : Node.needL ns ≤ buf.length) :
    ∃ w, (W.new buf).run ops = .ok w ∧ w.asSlice = .ok (Node.encL ns) := by
  rw [(Inv.new buf).run_eq, hb]
  obtain ⟨w, hr, hp⟩ := runNodes ns (W.new buf) (by simp [W.new]) (by simpa [W.new] using hh) hl (by simpa [W.new] using hfit)
  refine ⟨w, hr, ?_⟩
  have hout := hp.out
  simp only [W.new, List.take_zero, List.nil_append] at hout
  have hoff := hp.off
  have hlen := hp.len
  simp only [W.new] at hoff hlen
  have := needL_ge ns
  simp only [W.asSlice, RBuf.slice, Nat.zero_le, true_and, List.drop_zero, Nat.sub_zero, hout]
  rw [if_pos (by omega)]

/-- **writer output = encoding of the tree**, for every balanced operation sequence that fits -/
theorem run_balanced (buf : List Nat) (ops : List Op) (ns : List Node) (hb : forest ops = some ns)
    (hh : Node.heightL ns < MAX_DEPTH) (hl : Node.lenOkL ns) (hfit : Node.needL ns ≤ buf.length) :
    ∃ w, (W.new buf).run ops = .ok w ∧ w.asSlice = .ok (Node.encL ns) :=
  run_of_lows buf ops ns (forest_lows ops ns hb) hh hl hfit

/-! ## the reader on the writer's output -/

mutual
/-- tags the reader can make sense of: low tag numbers, primitive tags on leaves; the children of a
compound with a *primitive* tag (the wrapping OCTET STRING) are content, not DER structure; `raw` bytes are bytes -/
def Node.tagsOk : Node → Prop
  | .prim t _ => tagOk t = true ∧ tagConstructed t = false
  | .cons t cs => tagOk t = true ∧ (tagConstructed t = true → Node.tagsOkL cs)
  | .raw b => ∀ x ∈ b, x < 256
def Node.tagsOkL : List Node → Prop
  | [] => True
  | n :: r => n.tagsOk ∧ Node.tagsOkL r
end

theorem Der.WFL_append (a b : List Der) (ha : Der.WFL a) (hb : Der.WFL b) : Der.WFL (a ++ b) := by
  induction a with
  | nil => simpa using hb
  | cons d r ih => exact ⟨ha.1, ih ha.2⟩

theorem Der.encL_append (a b : List Der) : Der.encL (a ++ b) = Der.encL a ++ Der.encL b := by
  induction a with
  | nil => simp [Der.encL]
  | cons d r ih => simp [Der.encL, ih]

mutual
theorem toDer_enc (n : Node) (hl : n.lenOk) (ht : n.tagsOk) (ds : List Der) (h : n.toDer = some ds) :
    Der.WFL ds ∧ Der.encL ds = n.enc := by
  match n, hl, ht, h with
  | .prim t c, hl, ht, h =>
    simp only [Node.toDer, Option.some.injEq] at h; subst h
    simp only [Node.lenOk] at hl
    refine ⟨⟨⟨ht.1, ht.2, by omega⟩, trivial⟩, ?_⟩
    simp [Der.encL, Der.enc, Node.enc, lenBytes_eq_encLen _ hl]
  | .raw b, _, ht, h =>
    simp only [Node.toDer, parseAll] at h
    obtain ⟨hw, he⟩ := (parse_sound (fuelFor b)).2 b ds ht h
    exact ⟨hw, by simp [Node.enc, he]⟩
  | .cons t cs, hl, ht, h =>
    obtain ⟨hl1, hl2⟩ := hl
    simp only [Node.toDer] at h
    by_cases hc : tagConstructed t = true
    · simp only [hc, if_true] at h
      cases hcs : Node.toDerL cs with
      | none => simp [hcs] at h
      | some ds' =>
        simp only [hcs, Option.some.injEq] at h; subst h
        obtain ⟨hw, he⟩ := toDerL_enc cs hl2 (ht.2 hc) ds' hcs
        refine ⟨⟨⟨ht.1, hc, by rw [he]; omega, hw⟩, trivial⟩, ?_⟩
        simp [Der.encL, Der.enc, Node.enc, he, lenBytes_eq_encLen _ hl1]
    · simp only [hc] at h
      simp only [Bool.false_eq_true, if_false, Option.some.injEq] at h; subst h
      refine ⟨⟨⟨ht.1, by simpa using hc, by omega⟩, trivial⟩, ?_⟩
      simp [Der.encL, Der.enc, Node.enc, lenBytes_eq_encLen _ hl1]
theorem toDerL_enc (cs : List Node) (hl : Node.lenOkL cs) (ht : Node.tagsOkL cs) (ds : List Der)
    (h : Node.toDerL cs = some ds) : Der.WFL ds ∧ Der.encL ds = Node.encL cs := by
  match cs, hl, ht, h with
  | [], _, _, h => simp only [Node.toDerL, Option.some.injEq] at h; subst h; exact ⟨trivial, rfl⟩
  | n :: r, hl, ht, h =>
    simp only [Node.toDerL] at h
    cases h1 : n.toDer with
    | none => simp [h1] at h
    | some a =>
      cases h2 : Node.toDerL r with
      | none => simp [h1, h2] at h
      | some b =>
        simp only [h1, h2, Option.some.injEq] at h; subst h
        obtain ⟨w1, e1⟩ := toDer_enc n hl.1 ht.1 a h1
        obtain ⟨w2, e2⟩ := toDerL_enc r hl.2 ht.2 b h2
        exact ⟨Der.WFL_append _ _ w1 w2, by rw [Der.encL_append, e1, e2]; simp [Node.encL]⟩
end

/-- the reader, on the encoding of a well-formed forest -/
theorem parseAll_encL (ds : List Der) (hw : Der.WFL ds) : parseAll (Der.encL ds) = some ds :=
  parseMany_encL ds hw _ (by have := fuelL_le ds; simp only [fuelFor]; omega)

theorem parseDer_enc (d : Der) (hw : d.WF) : parseDer d.enc = some d := by
  have := parseOne_enc d hw (fuelFor d.enc) (by have := fuel_le d; simp only [fuelFor]; omega) []
  simp only [List.append_nil] at this
  simp [parseDer, this]

/-- **the writer's output parses back to the tree of the operations** -/
theorem parse_run_balanced (buf : List Nat) (ops : List Op) (ns : List Node) (ds : List Der)
    (hb : forest ops = some ns) (hh : Node.heightL ns < MAX_DEPTH) (hl : Node.lenOkL ns)
    (hfit : Node.needL ns ≤ buf.length) (ht : Node.tagsOkL ns) (hd : Node.toDerL ns = some ds) :
    ∃ w out, (W.new buf).run ops = .ok w ∧ w.asSlice = .ok out ∧ parseAll out = some ds := by
  obtain ⟨w, hr, hs⟩ := run_balanced buf ops ns hb hh hl hfit
  obtain ⟨hw, he⟩ := toDerL_enc ns hl ht ds hd
  exact ⟨w, _, hr, hs, by rw [← he]; exact parseAll_encL ds hw⟩

mutual
/-- a tree the writer writes into less than 64 KiB has only lengths the writer can encode -/
theorem lenOk_of_need (n : Node) (h : n.need < 65536) : n.lenOk := by
  match n, h with
  | .prim t c, h => simp [Node.need, Node.enc] at h; simp only [Node.lenOk]; omega
  | .raw b, _ => trivial
  | .cons t cs, h =>
    simp only [Node.need, reserve_eq] at h
    have := needL_ge cs
    exact ⟨by omega, lenOkL_of_needL cs (by omega)⟩
theorem lenOkL_of_needL (cs : List Node) (h : Node.needL cs < 65536) : Node.lenOkL cs := by
  match cs, h with
  | [], _ => trivial
  | n :: r, h =>
    simp only [Node.needL] at h
    exact ⟨lenOk_of_need n (by omega), lenOkL_of_needL r (by omega)⟩
end


/-! ## errors; exactness of the buffer requirement -/
theorem stepLow_errors (w : W) (l : Low) (e : Err) (hw : Inv w) (hl : l ≠ .panic) (h : w.stepLow l = .error e) :
    e = .bufferTooSmall ∨ e = .invalid := by
  cases l with
  | tlv t c => simp only [W.stepLow, W.tlvL] at h; split at h <;> simp at h; exact Or.inl h.symm
  | raw d => simp only [W.stepLow, W.rawL] at h; split at h <;> simp at h; exact Or.inl h.symm
  | start t =>
    simp only [W.stepLow, W.startL] at h
    have : w.cur < w.depth.length := by rw [hw.dlen]; exact hw.cur
    simp only [this, if_true] at h
    repeat' split at h
    all_goals simp at h
    all_goals exact Or.inl h.symm
  | stop =>
    simp only [W.stepLow, W.stopL] at h
    repeat' split at h
    all_goals simp at h
    · exact Or.inr h.symm
    · exact Or.inl h.symm
  | panic => exact absurd rfl hl

/-- the only errors of the writer are `BufferTooSmall` (no room, length ≥ 65536, depth limit) and `Invalid`
(an end without a start) -/
theorem Inv.run_errors {w : W} (h : Inv w) (ops : List Op) (ha : ∀ op ∈ ops, op.argsOk) (e : Err)
    (he : w.run ops = .error e) : e = .bufferTooSmall ∨ e = .invalid := by
  induction ops generalizing w with
  | nil => simp [W.run, pure, Except.pure] at he
  | cons op r ih =>
    simp only [W.run, h.step_eq op, bind, Except.bind] at he
    cases hs : w.stepLow op.low with
    | error e' =>
      rw [hs] at he; simp only [Except.error.injEq] at he; subst he
      exact stepLow_errors w op.low e' h (low_ne_panic op (ha op (by simp))) hs
    | ok w1 =>
      rw [hs] at he
      exact ih (h.stepLow _ hs) (fun o ho => ha o (by simp [ho])) he

theorem runLow_append_error (w : W) (a b : List Low) (e : Err) (h : w.runLow a = .error e) :
    w.runLow (a ++ b) = .error e := by
  rw [runLow_append, h]; rfl

theorem runLow_append_ok (w w1 : W) (a b : List Low) (h : w.runLow a = .ok w1) :
    w.runLow (a ++ b) = w1.runLow b := by
  rw [runLow_append, h]; rfl

mutual
/-- `need` is exact: with less room the writer answers `BufferTooSmall` -/
theorem runNode_noSpace (n : Node) (w : W) (hd : w.depth.length = MAX_DEPTH) (hh : w.cur + n.height < MAX_DEPTH)
    (_ho : w.offset ≤ w.buf.length) (hl : n.lenOk) (hfit : w.buf.length < w.offset + n.need) :
    w.runLow n.lows = .error .bufferTooSmall := by
  match n, hh, hl, hfit with
  | .prim t c, hh, hl, hfit =>
    simp only [Node.need, enc_prim_length] at hfit
    have : ¬ (c.length < 65536 ∧ w.offset + (1 + (lenBytes c.length).length + c.length) ≤ w.buf.length) := by omega
    simp [Node.lows, W.runLow, W.stepLow, W.tlvL, bind, Except.bind, this]
  | .raw b, hh, hl, hfit =>
    simp only [Node.need] at hfit
    have : ¬ (w.offset + b.length ≤ w.buf.length) := by omega
    simp [Node.lows, W.runLow, W.stepLow, W.rawL, bind, Except.bind, this]
  | .cons t cs, hh, hl, hfit =>
    simp only [Node.need, reserve_eq] at hfit
    simp only [Node.height] at hh
    obtain ⟨hl1, hl2⟩ := hl
    by_cases hoff : w.offset + 4 ≤ w.buf.length
    · have hcur : w.cur < w.depth.length := by omega
      have hstart : w.stepLow (.start t) = .ok
          { buf := w.buf.set w.offset t, offset := w.offset + 4, depth := w.depth.set w.cur (w.offset + 4), cur := w.cur + 1 } := by
        simp [W.stepLow, W.startL, hoff, hcur]; omega
      have := runNodes_noSpace cs
        { buf := w.buf.set w.offset t, offset := w.offset + 4, depth := w.depth.set w.cur (w.offset + 4), cur := w.cur + 1 }
        (by simp [hd]) (by simp only []; omega) (by simp; omega) hl2 (by simp; omega)
      simp only [Node.lows, W.runLow, hstart, bind, Except.bind]
      exact runLow_append_error _ _ _ _ this
    · simp [Node.lows, W.runLow, W.stepLow, W.startL, hoff, bind, Except.bind]
theorem runNodes_noSpace (cs : List Node) (w : W) (hd : w.depth.length = MAX_DEPTH)
    (hh : w.cur + Node.heightL cs < MAX_DEPTH) (ho : w.offset ≤ w.buf.length) (hl : Node.lenOkL cs)
    (hfit : w.buf.length < w.offset + Node.needL cs) :
    w.runLow (Node.lowsL cs) = .error .bufferTooSmall := by
  match cs, hh, hl, hfit with
  | [], _, _, hfit => simp only [Node.needL] at hfit; omega
  | n :: r, hh, hl, hfit =>
    simp only [Node.heightL] at hh
    simp only [Node.needL] at hfit
    obtain ⟨hl1, hl2⟩ := hl
    by_cases hn : w.buf.length < w.offset + n.need
    · simp only [Node.lowsL]
      exact runLow_append_error _ _ _ _ (runNode_noSpace n w hd (by omega) ho hl1 hn)
    · obtain ⟨w1, hr1, hp1⟩ := runNode n w hd (by omega) hl1 (by omega)
      simp only [Node.lowsL]
      rw [runLow_append_ok _ _ _ _ hr1]
      have := need_ge n
      exact runNodes_noSpace r w1 (by rw [hp1.dlen, hd]) (by rw [hp1.cur]; omega) (by rw [hp1.off, hp1.len]; omega) hl2
        (by rw [hp1.off, hp1.len]; omega)
end

/-- the buffer requirement of `run_balanced` is exact -/
theorem run_balanced_noSpace (buf : List Nat) (ops : List Op) (ns : List Node) (hb : forest ops = some ns)
    (hh : Node.heightL ns < MAX_DEPTH) (hl : Node.lenOkL ns) (hfit : buf.length < Node.needL ns) :
    (W.new buf).run ops = .error .bufferTooSmall := by
  rw [(Inv.new buf).run_eq, forest_lows ops ns hb]
  exact runNodes_noSpace ns (W.new buf) (by simp [W.new]) (by simpa [W.new] using hh) (by simp [W.new]) hl
    (by simpa [W.new] using hfit)


/-! ## BIT STRING of named bits -/
/-- `stripLen` cuts exactly the trailing zero bytes: what is cut is zeros, what is kept does not end in zero -/
theorem stripLen_spec (s : List Nat) : ∀ n, n ≤ s.length → ∃ k, stripLen s n = .ok k ∧ k ≤ n ∧
    (∀ i, k ≤ i → i < n → s[i]? = some 0) ∧ (0 < k → s[k - 1]? ≠ some 0) := by
  intro n
  induction n with
  | zero => intro _; exact ⟨0, rfl, Nat.le_refl _, fun i h1 h2 => by omega, fun h => by omega⟩
  | succ n ih =>
    intro h
    simp only [stripLen, index_eq s n (by omega), bind, Except.bind]
    split
    · rename_i h0
      obtain ⟨k, hk, hle, hz, hnz⟩ := ih (by omega)
      refine ⟨k, hk, by omega, ?_, hnz⟩
      intro i h1 h2
      by_cases hi : i = n
      · subst hi; rw [List.getElem?_eq_getElem (by omega), h0]
      · exact hz i h1 (by omega)
    · rename_i h0
      refine ⟨n + 1, rfl, Nat.le_refl _, fun i h1 h2 => by omega, fun _ => ?_⟩
      simp only [Nat.add_sub_cancel, List.getElem?_eq_getElem (show n < s.length by omega)]
      intro hc; injection hc with hc; exact h0 hc

/-- **BIT STRING of named bits** (`bitstr(truncate = true, s)`): the content is the unused-bits count followed by
`s` without its trailing zero bytes; the kept bytes do not end in a zero byte and the count is the number of
trailing zero bits of the last kept byte (0 for the empty string) — DER's canonical form of a named bit list -/
theorem bitstrContent_true_spec (s : List Nat) :
    ∃ k u, k ≤ s.length ∧ bitstrContent true s = u :: s.take k ∧ (∀ i, k ≤ i → i < s.length → s[i]? = some 0) ∧
      (k = 0 → u = 0) ∧ (0 < k → ∃ x, s[k - 1]? = some x ∧ x ≠ 0 ∧ u = tz 8 x) := by
  obtain ⟨k, hk, hle, hz, hnz⟩ := stripLen_spec s s.length (Nat.le_refl _)
  by_cases h0 : 0 < k
  · have hx : k - 1 < s.length := by omega
    refine ⟨k, tz 8 s[k - 1], hle, ?_, hz, fun h => by omega, fun _ => ⟨s[k - 1], List.getElem?_eq_getElem hx, ?_, rfl⟩⟩
    · simp [bitstrContent, bitstrParts, hk, h0, RBuf.csub, show 1 ≤ k by omega, index_eq s (k - 1) hx, RBuf.slice, hle,
        bind, Except.bind, pure, Except.pure]
    · have := hnz h0
      rw [List.getElem?_eq_getElem hx] at this
      intro hc; exact this (by rw [hc])
  · have : k = 0 := by omega
    subst this
    refine ⟨0, 0, Nat.zero_le _, ?_, hz, fun _ => rfl, fun h => by omega⟩
    simp [bitstrContent, bitstrParts, hk, RBuf.slice, bind, Except.bind, pure, Except.pure]

end Codec.Der
