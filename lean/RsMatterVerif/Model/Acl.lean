import RsMatterVerif.Generated.Consts
/-!
# Model of the access-control decision (`acl.rs`, `fabric.rs`, `dm/types/privilege.rs`)

Transliteration, branch by branch, of
* `privilege.rs`: `Privilege` / `Access` bit sets and `Access::is_ok`;
* `acl.rs`: `is_noc_cat`, `get_noc_cat_id`, `get_noc_cat_version`, `AccessorSubjects::{new, add_catid,
  matches}`, `Accessor::is_endpoint_accessible`, `AccessReq::{allow, allow_groupcast_auxiliary}`,
  `AclEntry::{allow, match_accessor, match_access_desc, add_subject, add_target}`;
* `fabric.rs`: `Fabric::{acl_add, allow}`, `Fabrics::{add_with_post_init, remove, get, allow}`,
  `Groups::{get, add, set_has_aux_acl}`.

`u64`/`u32`/`u16`/`u8` values are `Nat` (no arithmetic that could wrap is performed by this code;
the one narrowing cast, `subjects[0] as u16`, is an explicit `% 65536`).
The second half of the file is the *specification* (`Granted`), written from the text of property C05
and not from the code; `Props/C05.lean` proves the two equal.
Import-free apart from the generated constants, so that the driver links.
-/
namespace Acl

/-! ## `privilege.rs` -/

/-- `Privilege::VIEW` … `Privilege::PROXYVIEW` (the composite constants, as written in the source) -/
def PRIV_VIEW : Nat := Consts.privV
def PRIV_OPERATE : Nat := Consts.privV ||| Consts.privO
def PRIV_MANAGE : Nat := Consts.privV ||| Consts.privO ||| Consts.privM
def PRIV_ADMIN : Nat := Consts.privV ||| Consts.privO ||| Consts.privM ||| Consts.privA
def PRIV_PROXYVIEW : Nat := Consts.privP

def READ : Nat := Consts.accRead
def WRITE : Nat := Consts.accWrite
/-- `Access::READ_PRIVILEGE_MASK` -/
def READ_PRIVILEGE_MASK : Nat :=
  Consts.accNeedView ||| Consts.accNeedManage ||| Consts.accNeedOperate ||| Consts.accNeedAdmin
/-- `Access::WRITE_PRIVILEGE_MASK` -/
def WRITE_PRIVILEGE_MASK : Nat :=
  Consts.accNeedManage ||| Consts.accNeedOperate ||| Consts.accNeedAdmin

/-- bitflags `a.contains(b)` -/
def contains (a b : Nat) : Bool := (a &&& b) == b

/-- `Access::is_ok(&self, operation, privilege)` -/
def isOk (self operation privilege : Nat) : Bool :=
  if contains operation READ then
    let required := self &&& READ_PRIVILEGE_MASK
    if required == 0 then false
    else if (privilege &&& required) == 0 then false
    else contains self operation
  else if contains operation WRITE then
    let required := self &&& WRITE_PRIVILEGE_MASK
    if required == 0 then false
    else if (privilege &&& required) == 0 then false
    else contains self operation
  else false

/-! ## `acl.rs`: subjects -/

inductive AuthMode | pase | case | group
deriving DecidableEq, Repr, Inhabited

/-- `is_noc_cat` -/
def isNocCat (id : Nat) : Bool :=
  ((id &&& Consts.nocCatSubjectMask) == Consts.nocCatSubjectPrefix)
    && ((id &&& (Consts.nocCatIdMask ||| Consts.nocCatVersionMask)) > 0)

/-- `get_noc_cat_id` -/
def getNocCatId (id : Nat) : Nat := (id &&& Consts.nocCatIdMask) >>> Consts.nocCatIdShift
/-- `get_noc_cat_version` -/
def getNocCatVersion (id : Nat) : Nat := id &&& Consts.nocCatVersionMask

/-- `MAX_ACCESSOR_SUBJECTS` -/
def MAX_ACCESSOR_SUBJECTS : Nat := 1 + Consts.maxCatIdsPerNoc

/-- `AccessorSubjects::new(id)`: slot 0 is the node id, the others are 0 (= unused). -/
def subjectsNew (id : Nat) : List Nat := id :: List.replicate (MAX_ACCESSOR_SUBJECTS - 1) 0

/-- `AccessorSubjects::add_catid`: the first slot holding 0 receives `PREFIX | subject`;
no free slot: `ResourceExhausted`, unchanged (callers ignore the error). -/
def addCatid : List Nat → Nat → List Nat
  | [], _ => []
  | v :: rest, subject =>
    if v == 0 then (Consts.nocCatSubjectPrefix ||| subject) :: rest
    else v :: addCatid rest subject

/-- one iteration of the loop in `AccessorSubjects::matches` -/
def slotMatches (v aclSubject : Nat) : Bool :=
  if v == 0 then false
  else if v == aclSubject then true
  else isNocCat v && isNocCat aclSubject
    && (getNocCatId v == getNocCatId aclSubject)
    && (getNocCatVersion v ≥ getNocCatVersion aclSubject)

/-- `AccessorSubjects::matches` -/
def subjectsMatches (slots : List Nat) (aclSubject : Nat) : Bool :=
  slots.any (fun v => slotMatches v aclSubject)

/-! ## structures -/

structure Target where
  cluster : Option Nat
  endpoint : Option Nat
  deviceType : Option Nat
deriving DecidableEq, Repr, Inhabited

structure Entry where
  privilege : Nat
  authMode : AuthMode
  /-- `Nullable<Vec<u64>>` -/
  subjects : Option (List Nat)
  /-- `Nullable<Vec<Target>>` -/
  targets : Option (List Target)
  fabIdx : Option Nat
deriving DecidableEq, Repr, Inhabited

structure GroupMapping where
  groupId : Nat
  endpoints : List Nat
  hasAuxAcl : Option Bool
  /-- `GroupEndpointMapping::groupcast_managed()` = `mcast_policy.is_some()`: the membership was
  created or taken over by the Groupcast cluster (`groupcast_join`); `Groups::remove` keeps such an
  entry even with no endpoints left. Irrelevant for the access decision. -/
  managed : Bool := false
deriving DecidableEq, Repr, Inhabited

/-- `GroupEndpointMapping::has_aux_acl` -/
def GroupMapping.hasAux (g : GroupMapping) : Bool := g.hasAuxAcl.getD false

structure Fabric where
  fabIdx : Nat
  acl : List Entry
  groups : List GroupMapping
deriving Repr, Inhabited

structure Accessor where
  fabIdx : Nat
  auxAclEnabled : Bool
  /-- the `MAX_ACCESSOR_SUBJECTS` slots of `AccessorSubjects` -/
  subjects : List Nat
  authMode : Option AuthMode
deriving Repr, Inhabited

/-- `GenericPath` -/
structure Path where
  endpoint : Option Nat
  cluster : Option Nat
  leaf : Option Nat
deriving DecidableEq, Repr, Inhabited

/-- `AccessDesc` (`device_types`: only the `dtype` of each) -/
structure AccessDesc where
  path : Path
  targetPerms : Option Nat
  operation : Nat
  deviceTypes : List Nat
deriving Repr, Inhabited

structure AccessReq where
  accessor : Accessor
  object : AccessDesc
deriving Repr, Inhabited

/-! ## `acl.rs`: entry matching -/

/-- the `is_none_or(..)` over the subjects in `AclEntry::match_accessor` -/
def subjectsAllow (e : Entry) (a : Accessor) : Bool :=
  match e.subjects with
  | none => true
  | some subjects => subjects.isEmpty || subjects.any (fun s => subjectsMatches a.subjects s)

/-- `AclEntry::match_accessor` -/
def matchAccessor (e : Entry) (a : Accessor) : Bool :=
  if some e.authMode != a.authMode then false
  else
    subjectsAllow e a && (match e.fabIdx with
      | some f => f == a.fabIdx
      | none => false)

/-- the closure over one target in `AclEntry::match_access_desc` -/
def targetMatches (t : Target) (o : AccessDesc) : Bool :=
  let endpointMatch := t.endpoint.isNone || t.endpoint == o.path.endpoint
  let clusterMatch := t.cluster.isNone || t.cluster == o.path.cluster
  let deviceTypeMatch := match t.deviceType with
    | some dt => o.deviceTypes.any (fun d => d == dt)
    | none => true
  endpointMatch && clusterMatch && deviceTypeMatch

/-- `targets.as_opt_ref().is_none_or(|t| t.is_empty())` -/
def targetsWildcard (e : Entry) : Bool :=
  match e.targets with
  | none => true
  | some ts => ts.isEmpty

/-- the `is_none_or(..)` over the targets in `AclEntry::match_access_desc` -/
def targetsAllow (e : Entry) (o : AccessDesc) : Bool :=
  match e.targets with
  | none => true
  | some ts => ts.isEmpty || ts.any (fun t => targetMatches t o)

/-- `object.target_perms.is_some_and(|access| access.is_ok(object.operation, privilege))`
(written as `if let Some(access) = … { access.is_ok(..) } else { false }` in `match_access_desc`) -/
def permsOk (o : AccessDesc) (privilege : Nat) : Bool :=
  match o.targetPerms with
  | some access => isOk access o.operation privilege
  | none => false

/-- `AclEntry::match_access_desc` -/
def matchAccessDesc (e : Entry) (o : AccessDesc) (auxAclEnabled : Bool) : Bool :=
  if auxAclEnabled && e.authMode == AuthMode.group
      && o.path.endpoint == some Consts.rootEndpointId && targetsWildcard e then false
  else
    if targetsAllow e o then permsOk o e.privilege
    else false

/-- `AclEntry::allow` -/
def entryAllow (e : Entry) (req : AccessReq) (auxAclEnabled : Bool) : Bool :=
  matchAccessor e req.accessor && matchAccessDesc e req.object auxAclEnabled

/-! ## `fabric.rs` -/

/-- `Fabric::allow` -/
def fabricAllow (f : Fabric) (req : AccessReq) (auxAclEnabled : Bool) : Bool :=
  f.acl.any (fun e => entryAllow e req auxAclEnabled)

/-- `Fabrics::get`: the first fabric with that index -/
def fabricsGet (fabrics : List Fabric) (fabIdx : Nat) : Option Fabric :=
  fabrics.find? (fun f => f.fabIdx == fabIdx)

/-- `Fabrics::allow` -/
def fabricsAllow (fabrics : List Fabric) (req : AccessReq) (auxAclEnabled : Bool) : Bool :=
  if req.accessor.authMode == some AuthMode.pase then true
  else if req.accessor.fabIdx == 0 then false   -- `NonZeroU8::new` fails
  else match fabricsGet fabrics req.accessor.fabIdx with
    | none => false
    | some fabric => fabricAllow fabric req auxAclEnabled

/-- the part of `AccessReq::allow_groupcast_auxiliary` after the fabric lookup -/
def auxGrantedBy (fabric : Fabric) (req : AccessReq) : Bool :=
  match req.object.path.endpoint with
  | none => false
  | some endpoint =>
    let granted := fabric.groups.any (fun entry =>
      entry.hasAux && entry.endpoints.contains endpoint
        && subjectsMatches req.accessor.subjects entry.groupId)
    granted && permsOk req.object PRIV_OPERATE

/-- `AccessReq::allow_groupcast_auxiliary` (feature `groups`) -/
def allowGroupcastAuxiliary (fabrics : List Fabric) (req : AccessReq) : Bool :=
  if !req.accessor.auxAclEnabled then false
  else if req.accessor.authMode != some AuthMode.group then false
  else if req.accessor.fabIdx == 0 then false
  else match fabricsGet fabrics req.accessor.fabIdx with
    | none => false
    | some fabric => auxGrantedBy fabric req

/-- `AccessReq::allow` -/
def allow (fabrics : List Fabric) (req : AccessReq) : Bool :=
  fabricsAllow fabrics req req.accessor.auxAclEnabled || allowGroupcastAuxiliary fabrics req

/-- `Groups::get` -/
def groupsGet (groups : List GroupMapping) (groupId : Nat) : Option GroupMapping :=
  groups.find? (fun e => e.groupId == groupId)

/-- `Accessor::is_endpoint_accessible` (feature `groups`) -/
def isEndpointAccessible (fabrics : List Fabric) (a : Accessor) (endpointId : Nat) : Bool :=
  if a.authMode != some AuthMode.group then true
  else
    let groupId := (a.subjects.headD 0) % 65536      -- `self.subjects.0[0] as u16`
    if a.fabIdx == 0 then false
    else match fabricsGet fabrics a.fabIdx with
      | none => false
      | some fabric =>
        match groupsGet fabric.groups groupId with
        | some e => e.endpoints.contains endpointId
        | none => false

/-! ## configuration operations (how fabrics, entries and group tables come into being) -/

/-- `AclEntry::add_subject` : `none` = `ResourceExhausted` -/
def Entry.addSubject (e : Entry) (s : Nat) : Option Entry :=
  let cur := e.subjects.getD []
  if cur.length < Consts.maxSubjectsPerAclEntry then some { e with subjects := some (cur ++ [s]) }
  else none

/-- `AclEntry::add_target` -/
def Entry.addTarget (e : Entry) (t : Target) : Option Entry :=
  let cur := e.targets.getD []
  if cur.length < Consts.maxTargetsPerAclEntry then some { e with targets := some (cur ++ [t]) }
  else none

/-- `Fabric::acl_add`: rejects PASE entries, stamps the fabric index, bounded list.
Returns the new fabric and the entry's index. -/
def Fabric.aclAdd (f : Fabric) (e : Entry) : Option (Fabric × Nat) :=
  if e.authMode == AuthMode.pase then none
  else if f.acl.length < Consts.maxAclEntriesPerFabric then
    some ({ f with acl := f.acl ++ [{ e with fabIdx := some f.fabIdx }] }, f.acl.length)
  else none

/-- the index chosen by `Fabrics::add_with_post_init` -/
def nextFabIdx (fabrics : List Fabric) : Option Nat :=
  let maxIdx := (fabrics.map (·.fabIdx)).foldl max 0
  if maxIdx < 254 then some (maxIdx + 1)
  else (List.range' 1 254).find? (fun i => fabrics.all (fun f => f.fabIdx != i))

/-- `Fabrics::add_with_post_init(|_| Ok(()))` -/
def fabricsAdd (fabrics : List Fabric) : Option (List Fabric × Nat) :=
  match nextFabIdx fabrics with
  | none => none
  | some i =>
    if fabrics.length < Consts.maxFabrics then some (fabrics ++ [{ fabIdx := i, acl := [], groups := [] }], i)
    else none

/-- `Fabrics::remove` -/
def fabricsRemove (fabrics : List Fabric) (fabIdx : Nat) : Option (List Fabric) :=
  match fabricsGet fabrics fabIdx with
  | none => none
  | some _ => some (fabrics.filter (fun f => f.fabIdx != fabIdx))

/-- the in-place update of the (first) entry with that group id in `Groups::add` -/
def groupsAddUpd : List GroupMapping → Nat → Nat → Option (List GroupMapping)
  | [], _, _ => some []
  | e :: rest, endpointId, groupId =>
    if e.groupId == groupId then
      if e.endpoints.contains endpointId then some (e :: rest)
      else if e.endpoints.length < Consts.groupEndpointsPerFabric then
        some ({ e with endpoints := e.endpoints ++ [endpointId] } :: rest)
      else none
    else (groupsAddUpd rest endpointId groupId).map (e :: ·)

/-- `Groups::add(endpoint_id, group_id, "")` : `none` = `ResourceExhausted` -/
def groupsAdd (groups : List GroupMapping) (endpointId groupId : Nat) : Option (List GroupMapping) :=
  match groups.find? (fun e => e.groupId == groupId) with
  | some _ => groupsAddUpd groups endpointId groupId
  | none =>
    if groups.length < Consts.maxGroupsPerFabric then
      -- pushed with an empty endpoint list, then the endpoint is pushed (capacity ≥ 1)
      if 0 < Consts.groupEndpointsPerFabric then
        some (groups ++ [{ groupId := groupId, endpoints := [endpointId], hasAuxAcl := none }])
      else none
    else none

/-- `Groups::set_has_aux_acl`; second component: "changed" -/
def groupsSetHasAux : List GroupMapping → Nat → Bool → List GroupMapping × Option Bool
  | [], _, _ => ([], none)
  | e :: rest, groupId, v =>
    if e.groupId == groupId then
      ({ e with hasAuxAcl := some v } :: rest, some (e.hasAux != v))
    else
      let r := groupsSetHasAux rest groupId v
      (e :: r.1, r.2)

/-- replace the first fabric with index `fabIdx` (`Fabrics::fabric_mut` + mutation) -/
def fabricsUpdate (fabrics : List Fabric) (fabIdx : Nat) (g : Fabric → Fabric) : List Fabric :=
  match fabrics with
  | [] => []
  | f :: rest => if f.fabIdx == fabIdx then g f :: rest else f :: fabricsUpdate rest fabIdx g

/-- `fabrics.fabric_mut(fab)?.acl_add(entry)` -/
def fabricsAclAdd (fabrics : List Fabric) (fab : Nat) (e : Entry) : Option (List Fabric × Nat) :=
  match fabricsGet fabrics fab with
  | none => none
  | some f =>
    match f.aclAdd e with
    | none => none
    | some (f', i) => some (fabricsUpdate fabrics fab (fun _ => f'), i)

/-- `fabrics.fabric_mut(fab)?.groups_mut().add(ep, gid, "")` -/
def fabricsGroupAdd (fabrics : List Fabric) (fab ep gid : Nat) : Option (List Fabric) :=
  match fabricsGet fabrics fab with
  | none => none
  | some f =>
    match groupsAdd f.groups ep gid with
    | none => none
    | some gs => some (fabricsUpdate fabrics fab (fun _ => { f with groups := gs }))

/-- `fabrics.fabric_mut(fab)?.groups_mut().set_has_aux_acl(gid, v)` for an existing group -/
def fabricsSetHasAux (fabrics : List Fabric) (fab gid : Nat) (v : Bool) : Option (List Fabric × Bool) :=
  match fabricsGet fabrics fab with
  | none => none
  | some f =>
    match groupsSetHasAux f.groups gid v with
    | (gs, some changed) => some (fabricsUpdate fabrics fab (fun _ => { f with groups := gs }), changed)
    | (_, none) => none

/-! ### the PRODUCTION mutators

`Fabric::acl_add` above is the API / test entry point. What runs on a commissioned node: the Access
Control cluster handler (`dm/clusters/acl.rs:115-131`: `acl_remove_all`, `acl_add_init`,
`acl_update_init`, `acl_remove`), the Groups cluster (`Groups::add`, `Groups::remove`), the Groupcast
cluster (`groupcast_join`, `groupcast_remove`) and start-up (`Fabrics::load_persist`). -/

/-- `Fabric::acl_add_init`: like `acl_add` but WITHOUT the rejection of PASE entries (commented out
in the Rust); stamps the fabric index after the push; bounded list. -/
def Fabric.aclAddInit (f : Fabric) (e : Entry) : Option (Fabric × Nat) :=
  if f.acl.length < Consts.maxAclEntriesPerFabric then
    some ({ f with acl := f.acl ++ [{ e with fabIdx := some f.fabIdx }] }, f.acl.length)
  else none

/-- `Fabric::acl_update` and `acl_update_init`: replace entry `idx`, stamped with the fabric index;
`none` = `NotFound` -/
def Fabric.aclUpdate (f : Fabric) (idx : Nat) (e : Entry) : Option Fabric :=
  if f.acl.length ≤ idx then none
  else some { f with acl := f.acl.set idx { e with fabIdx := some f.fabIdx } }

/-- `Fabric::acl_remove`; `none` = `NotFound` -/
def Fabric.aclRemove (f : Fabric) (idx : Nat) : Option Fabric :=
  if f.acl.length ≤ idx then none else some { f with acl := f.acl.eraseIdx idx }

/-- `Fabric::acl_remove_all` -/
def Fabric.aclRemoveAll (f : Fabric) : Fabric := { f with acl := [] }

/-- `fabrics.fabric_mut(fab)?` + a fallible mutation of that fabric -/
def fabricsMutate (fabrics : List Fabric) (fab : Nat) (g : Fabric → Option Fabric) : Option (List Fabric) :=
  match fabricsGet fabrics fab with
  | none => none
  | some f =>
    match g f with
    | none => none
    | some f' => some (fabricsUpdate fabrics fab (fun _ => f'))

def fabricsAclAddInit (fabrics : List Fabric) (fab : Nat) (e : Entry) : Option (List Fabric × Nat) :=
  match fabricsGet fabrics fab with
  | none => none
  | some f =>
    match f.aclAddInit e with
    | none => none
    | some (f', i) => some (fabricsUpdate fabrics fab (fun _ => f'), i)

def fabricsAclUpdate (fabrics : List Fabric) (fab idx : Nat) (e : Entry) : Option (List Fabric) :=
  fabricsMutate fabrics fab (fun f => f.aclUpdate idx e)
def fabricsAclRemove (fabrics : List Fabric) (fab idx : Nat) : Option (List Fabric) :=
  fabricsMutate fabrics fab (fun f => f.aclRemove idx)
def fabricsAclRemoveAll (fabrics : List Fabric) (fab : Nat) : Option (List Fabric) :=
  fabricsMutate fabrics fab (fun f => some f.aclRemoveAll)

/-- `group_id.is_some_and(|id| id != entry.group_id)` negated: the entry is concerned -/
def groupHit (gid : Option Nat) (e : GroupMapping) : Bool :=
  match gid with
  | some id => id == e.groupId
  | none => true

/-- `Groups::remove(endpoint_id, group_id)`: the endpoint leaves the group (`none`: every group);
entries left without endpoints are dropped unless Groupcast-managed. Second component: "removed". -/
def groupsRemove (groups : List GroupMapping) (ep : Nat) (gid : Option Nat) : List GroupMapping × Bool :=
  let removed := groups.any (fun e => groupHit gid e && e.endpoints.contains ep)
  let upd := groups.map (fun e =>
    if groupHit gid e then { e with endpoints := e.endpoints.filter (· != ep) } else e)
  (upd.filter (fun e => !e.endpoints.isEmpty || e.managed), removed)

/-- the endpoint pushes of `groupcast_join`: duplicates omitted; on overflow the error is returned
with the endpoints pushed so far left in place -/
def joinEndpoints : List Nat → List Nat → List Nat × Bool
  | cur, [] => (cur, true)
  | cur, ep :: rest =>
    if cur.contains ep then joinEndpoints cur rest
    else if cur.length < Consts.groupEndpointsPerFabric then joinEndpoints (cur ++ [ep]) rest
    else (cur, false)

/-- apply `g` to the first entry with that group id (`iter_mut().find(..)`) -/
def groupsUpdFirst : List GroupMapping → Nat → (GroupMapping → GroupMapping) → List GroupMapping
  | [], _, _ => []
  | e :: rest, gid, g => if e.groupId == gid then g e :: rest else e :: groupsUpdFirst rest gid g

/-- `Groups::groupcast_join(group_id, endpoints, replace, _)`: new state and `Ok`? — the state
changes also when the error is returned (a created membership / the endpoints pushed so far stay). -/
def groupsGroupcastJoin (groups : List GroupMapping) (gid : Nat) (eps : List Nat) (replace : Bool) :
    List GroupMapping × Bool :=
  match groups.find? (fun e => e.groupId == gid) with
  | some e =>
    let r := joinEndpoints (if replace then [] else e.endpoints) eps
    (groupsUpdFirst groups gid (fun e => { e with endpoints := r.1, managed := true }), r.2)
  | none =>
    if groups.length < Consts.maxGroupsPerFabric then
      let r := joinEndpoints [] eps
      (groups ++ [{ groupId := gid, endpoints := r.1, hasAuxAcl := some false, managed := true }], r.2)
    else (groups, false)

/-- `Groups::groupcast_remove` -/
def groupsGroupcastRemove (groups : List GroupMapping) (gid : Nat) : List GroupMapping :=
  groups.filter (fun e => e.groupId != gid)

/-- `fabrics.fabric_mut(fab)?.groups_mut()` + a mutation of the group table -/
def fabricsGroupsMutate (fabrics : List Fabric) (fab : Nat) (g : List GroupMapping → List GroupMapping) :
    Option (List Fabric) :=
  fabricsMutate fabrics fab (fun f => some { f with groups := g f.groups })

/-- `Fabrics::load_persist`: `reset()`, then for `fab_idx in 1..=255` the blob under key
`FABRIC_KEYS_START + fab_idx`, decoded by the derived `FromTLV` of `Fabric` — index, entries (with
their own `fab_idx` fields) and group table come VERBATIM from the blob. `blobs i` = the decoded
content of that key (`none` = absent). (`push_init` fails with `ResourceExhausted` beyond
`MAX_FABRICS`; the model loads them all — a superset.) -/
def fabricsLoad (blobs : Nat → Option Fabric) : List Fabric := (List.range' 1 255).filterMap blobs

/-- what `FabricPersist::store` leaves in storage for a fabric table: the fabric with index `i`
under key `i` -/
def fabricsBlobs (fabrics : List Fabric) : Nat → Option Fabric :=
  fun i => fabrics.find? (fun f => f.fabIdx == i)

/-- store every fabric, restart, `load_persist` -/
def fabricsReload (fabrics : List Fabric) : List Fabric := fabricsLoad (fabricsBlobs fabrics)

/-! # Specification (from the text of C05)

"A read, write or invoke on a path is allowed if and only if the accessor is a
passcode-authenticated commissioner, or some access-control entry of the accessor's own fabric
matches its authentication mode, one of its subjects (node id, or a tag with the same identifier and
an equal or higher version), the target (endpoint, cluster, device type) and carries a privilege
that includes the one the element requires for that operation." -/

/-- The five privileges of the Access Control cluster. -/
inductive Priv | view | proxyView | operate | manage | administer
deriving DecidableEq, Repr, Inhabited

/-- The privilege lattice of the Matter specification: Administer ⊇ Manage ⊇ Operate ⊇ View;
ProxyView is implementation-defined and includes nothing an element can require. -/
def Priv.includes : Priv → Priv → Bool
  | .administer, .administer | .administer, .manage | .administer, .operate | .administer, .view => true
  | .manage, .manage | .manage, .operate | .manage, .view => true
  | .operate, .operate | .operate, .view => true
  | .view, .view => true
  | .proxyView, .proxyView => true
  | _, _ => false

/-- How an entry's privilege is stored (`From<AccessControlEntryPrivilegeEnum> for Privilege`). -/
def Priv.bits : Priv → Nat
  | .view => PRIV_VIEW
  | .proxyView => PRIV_PROXYVIEW
  | .operate => PRIV_OPERATE
  | .manage => PRIV_MANAGE
  | .administer => PRIV_ADMIN

def Priv.all : List Priv := [.view, .proxyView, .operate, .manage, .administer]

/-- decode a stored privilege; `none` for bit patterns that are none of the five privileges -/
def privOfBits (b : Nat) : Option Priv := Priv.all.find? (fun p => p.bits == b)

/-- The operations of the Interaction Model as seen by access control (invoke checks as `write`). -/
inductive Op | read | write
deriving DecidableEq, Repr, Inhabited

def Op.bits : Op → Nat
  | .read => Consts.accRead
  | .write => Consts.accWrite

def opOfBits (b : Nat) : Option Op :=
  if b = Consts.accRead then some .read else if b = Consts.accWrite then some .write else none

/-- the declaration names the flag `c` (one of the `Access` bits) -/
def declHas (decl c : Nat) : Bool := decide (decl &&& c ≠ 0)

/-- does the element's access declaration offer the operation at all (`R` / `W` of the declaration) -/
def declOffers (decl : Nat) : Op → Bool
  | .read => declHas decl Consts.accRead
  | .write => declHas decl Consts.accWrite

/-- the privilege the element requires for the operation: the least one named by the declaration
(`V < O < M < A`); View never authorises a write. `none`: the declaration names none. -/
def requiredPriv (decl : Nat) : Op → Option Priv
  | .read =>
    if declHas decl Consts.accNeedView then some .view
    else if declHas decl Consts.accNeedOperate then some .operate
    else if declHas decl Consts.accNeedManage then some .manage
    else if declHas decl Consts.accNeedAdmin then some .administer else none
  | .write =>
    if declHas decl Consts.accNeedOperate then some .operate
    else if declHas decl Consts.accNeedManage then some .manage
    else if declHas decl Consts.accNeedAdmin then some .administer else none

/-- a subject identifier is a CASE Authenticated Tag -/
def IsCat (id : Nat) : Prop :=
  (id / 2 ^ 32) % 2 ^ 32 = 0xFFFFFFFD ∧ id % 2 ^ 32 ≠ 0
def catId (id : Nat) : Nat := (id / 2 ^ 16) % 2 ^ 16
def catVersion (id : Nat) : Nat := id % 2 ^ 16

instance (id : Nat) : Decidable (IsCat id) := by unfold IsCat; exact inferInstance

/-- "one of its subjects (node id, or a tag with the same identifier and an equal or higher
version)"; the accessor's subjects are its non-zero slots. -/
def SubjectMatch (a : Accessor) (s : Nat) : Prop :=
  ∃ v ∈ a.subjects, v ≠ 0 ∧
    (v = s ∨ (IsCat v ∧ IsCat s ∧ catId v = catId s ∧ catVersion s ≤ catVersion v))

/-- an entry with a null or empty subject list matches every subject -/
def SubjectsOk (e : Entry) (a : Accessor) : Prop :=
  e.subjects = none ∨ e.subjects = some [] ∨ ∃ ss, e.subjects = some ss ∧ ∃ s ∈ ss, SubjectMatch a s

/-- "the target (endpoint, cluster, device type)": every component the target names agrees with
the request. -/
def TargetMatch (t : Target) (o : AccessDesc) : Prop :=
  (∀ ep, t.endpoint = some ep → o.path.endpoint = some ep) ∧
  (∀ cl, t.cluster = some cl → o.path.cluster = some cl) ∧
  (∀ dt, t.deviceType = some dt → dt ∈ o.deviceTypes)

def TargetsOk (e : Entry) (o : AccessDesc) : Prop :=
  e.targets = none ∨ e.targets = some [] ∨ ∃ ts, e.targets = some ts ∧ ∃ t ∈ ts, TargetMatch t o

/-- "carries a privilege that includes the one the element requires for that operation" -/
def PrivOk (privBits : Nat) (o : AccessDesc) : Prop :=
  ∃ decl op p q, o.targetPerms = some decl ∧ opOfBits o.operation = some op ∧
    privOfBits privBits = some p ∧ declOffers decl op = true ∧
    requiredPriv decl op = some q ∧ p.includes q = true

/-- Extension of the node-wide `AUXILIARY` feature (not part of the property text; vacuous when the
feature is off): a Group entry without targets does not cover the root endpoint. -/
def AuxRootExcluded (e : Entry) (req : AccessReq) : Prop :=
  req.accessor.auxAclEnabled = true ∧ e.authMode = AuthMode.group ∧
    req.object.path.endpoint = some Consts.rootEndpointId ∧ (e.targets = none ∨ e.targets = some [])

def EntryGrants (e : Entry) (req : AccessReq) : Prop :=
  some e.authMode = req.accessor.authMode ∧ SubjectsOk e req.accessor ∧ TargetsOk e req.object ∧
    PrivOk e.privilege req.object ∧ ¬ AuxRootExcluded e req

/-- Extension (`AUXILIARY` feature on): the auxiliary entries synthesised from the group table are
entries of the fabric — Operate, Group, subject = the group, targets = the group's endpoints. -/
def AuxGrants (f : Fabric) (req : AccessReq) : Prop :=
  req.accessor.auxAclEnabled = true ∧ req.accessor.authMode = some AuthMode.group ∧
  ∃ g ∈ f.groups, g.hasAuxAcl = some true ∧
    (∃ ep, req.object.path.endpoint = some ep ∧ ep ∈ g.endpoints) ∧
    SubjectMatch req.accessor g.groupId ∧ PrivOk Priv.operate.bits req.object

/-- **The specification.** -/
def Granted (fabrics : List Fabric) (req : AccessReq) : Prop :=
  req.accessor.authMode = some AuthMode.pase ∨
  ∃ f ∈ fabrics, f.fabIdx = req.accessor.fabIdx ∧ req.accessor.fabIdx ≠ 0 ∧
    ((∃ e ∈ f.acl, EntryGrants e req) ∨ AuxGrants f req)

/-- "group accessors reach only endpoints that are members of their group" -/
def Reaches (fabrics : List Fabric) (a : Accessor) (ep : Nat) : Prop :=
  a.authMode ≠ some AuthMode.group ∨
  ∃ f ∈ fabrics, f.fabIdx = a.fabIdx ∧ a.fabIdx ≠ 0 ∧
    ∃ g ∈ f.groups, g.groupId = (a.subjects.headD 0) % 65536 ∧ ep ∈ g.endpoints

/-! ### the same specification as a `Bool` (what the driver evaluates); `Props/C05` proves
`grantedB = true ↔ Granted`. Written with `List.any`/`decide`, no reference to the model's
matching functions. -/

def subjectMatchB (a : Accessor) (s : Nat) : Bool :=
  a.subjects.any (fun v => decide (v ≠ 0) &&
    (decide (v = s) || (decide (IsCat v) && decide (IsCat s) && decide (catId v = catId s)
      && decide (catVersion s ≤ catVersion v))))

def subjectsOkB (e : Entry) (a : Accessor) : Bool :=
  match e.subjects with
  | none => true
  | some [] => true
  | some ss => ss.any (subjectMatchB a)

def targetMatchB (t : Target) (o : AccessDesc) : Bool :=
  (match t.endpoint with | some ep => decide (o.path.endpoint = some ep) | none => true) &&
  (match t.cluster with | some cl => decide (o.path.cluster = some cl) | none => true) &&
  (match t.deviceType with | some dt => o.deviceTypes.contains dt | none => true)

def targetsOkB (e : Entry) (o : AccessDesc) : Bool :=
  match e.targets with
  | none => true
  | some [] => true
  | some ts => ts.any (fun t => targetMatchB t o)

def privOkB (privBits : Nat) (o : AccessDesc) : Bool :=
  match o.targetPerms, opOfBits o.operation, privOfBits privBits with
  | some decl, some op, some p =>
    declOffers decl op && (match requiredPriv decl op with
      | some q => p.includes q
      | none => false)
  | _, _, _ => false

def auxRootExcludedB (e : Entry) (req : AccessReq) : Bool :=
  req.accessor.auxAclEnabled && decide (e.authMode = AuthMode.group) &&
    decide (req.object.path.endpoint = some Consts.rootEndpointId) &&
    (match e.targets with | none => true | some [] => true | _ => false)

def entryGrantsB (e : Entry) (req : AccessReq) : Bool :=
  decide (some e.authMode = req.accessor.authMode) && subjectsOkB e req.accessor &&
    targetsOkB e req.object && privOkB e.privilege req.object && !auxRootExcludedB e req

def auxGrantsB (f : Fabric) (req : AccessReq) : Bool :=
  req.accessor.auxAclEnabled && decide (req.accessor.authMode = some AuthMode.group) &&
  f.groups.any (fun g => decide (g.hasAuxAcl = some true) &&
    (match req.object.path.endpoint with | some ep => g.endpoints.contains ep | none => false) &&
    subjectMatchB req.accessor g.groupId && privOkB Priv.operate.bits req.object)

def grantedB (fabrics : List Fabric) (req : AccessReq) : Bool :=
  decide (req.accessor.authMode = some AuthMode.pase) ||
  fabrics.any (fun f => decide (f.fabIdx = req.accessor.fabIdx) && decide (req.accessor.fabIdx ≠ 0) &&
    (f.acl.any (fun e => entryGrantsB e req) || auxGrantsB f req))

def reachesB (fabrics : List Fabric) (a : Accessor) (ep : Nat) : Bool :=
  decide (a.authMode ≠ some AuthMode.group) ||
  fabrics.any (fun f => decide (f.fabIdx = a.fabIdx) && decide (a.fabIdx ≠ 0) &&
    f.groups.any (fun g => decide (g.groupId = (a.subjects.headD 0) % 65536) && g.endpoints.contains ep))

/-- What the quantifier of the property ranges over (and what the Rust API maintains): fabric
indices are distinct, every entry is stamped with its fabric's index (`acl_add`), and group ids are
distinct within a fabric (`Groups::add`). -/
structure WF (fabrics : List Fabric) : Prop where
  distinct : (fabrics.map (·.fabIdx)).Nodup
  stamped : ∀ f ∈ fabrics, ∀ e ∈ f.acl, e.fabIdx = some f.fabIdx
  groupsDistinct : ∀ f ∈ fabrics, (f.groups.map (·.groupId)).Nodup

end Acl
