//! C03: secured messages are accepted only if authentic for that session and direction.
//!
//! One case = one receiving node (a real `Matter` whose session table is filled through the `verif`
//! hook), a set of sending sessions (stand-alone real `Session` objects), datagrams produced by
//! the real encoder (`Session::pre_send` + `Session::encode`, real AES-CCM of the rustcrypto
//! backend) and deliveries of (mutated) datagrams to the real `decode_packet`.
//!
//! Lines (all numbers decimal unless marked hex):
//!  `s a=<addr> m=<N|P|C|G<gid>> ls=<lsid> ps=<psid> ln=<hex> pn=<hex|-> dk=<k> ek=<k> tx=<ctr> [ex=<id><I|R>,..] [expired=1]`
//!        install the next session of the receiver's table            => `ok <summary> #<hash>`
//!  `t <name> …same keys…`   a sending session                          => `ok`
//!  `x <dg> t=<name> k=<pre|raw> pf= sid= sf= ctr= src=<hex> dst=<hex> xf= op= xid= pid= vid= ack= pl=<len> ps=<seed>`
//!        encode one datagram (`pre`: the real pre_send stamps the plain header)  => `dg <hex>` | `err <Code>`
//!  `r <dg> a=<addr> m=<none|flip:<bit>|trunc:<len>|ext:<hex>|xor:<off>:<hex>|hdr:<dg2>>`
//!        deliver to the receiver => `<ok:new|ok:old|err:Code|panic> [h=<plain>/<proto> p=<hex>] S=<hash,..> [C<i>=<summary>]..`
use crate::proto::{hex, parse_cases, unhex, Case, Out};
use crate::rng::Rng;
use crate::Args;

use std::collections::HashMap;
use std::fmt::Write as _;
use std::net::{IpAddr, Ipv6Addr, SocketAddr};
use std::num::NonZeroU8;
use std::panic::{catch_unwind, AssertUnwindSafe};

use rs_matter::crypto::{test_only_crypto, Crypto};
use rs_matter::dm::devices::test::{TEST_DEV_ATT, TEST_DEV_COMM, TEST_DEV_DET};
use rs_matter::transport::network::Address;
use rs_matter::transport::packet::PacketHdr;
use rs_matter::transport::plain_hdr::PlainHdr;
use rs_matter::transport::proto_hdr::ProtoHdr;
use rs_matter::transport::session::{Session, SessionMode};
use rs_matter::transport::TransportRunner;
use rs_matter::utils::storage::{ParseBuf, WriteBuf};
use rs_matter::Matter;

fn addr(n: u64) -> Address {
    Address::Udp(SocketAddr::new(IpAddr::V6(Ipv6Addr::LOCALHOST), 1000 + n as u16))
}

/// key number `k`: first two bytes = k (LE), then a fixed pattern (distinct k => distinct keys)
fn key(k: u64) -> [u8; 16] {
    let mut b = [0u8; 16];
    b[0] = k as u8;
    b[1] = (k >> 8) as u8;
    for i in 2..16 {
        b[i] = 0xA5u8.wrapping_add(i as u8 * 17);
    }
    b
}

pub fn payload(len: usize, seed: u64) -> Vec<u8> {
    (0..len).map(|i| (seed.wrapping_mul(31).wrapping_add(i as u64 * 7).wrapping_add((i as u64 >> 8) * 13) & 0xff) as u8).collect()
}

fn fnv(s: &str) -> String {
    let mut h: u64 = 0xcbf29ce484222325;
    for b in s.bytes() {
        h ^= b as u64;
        h = h.wrapping_mul(0x100000001b3);
    }
    format!("{:016x}", h)
}

fn kv(op: &str) -> HashMap<String, String> {
    let mut m = HashMap::new();
    for w in op.split_whitespace() {
        if let Some((k, v)) = w.split_once('=') {
            m.insert(k.to_string(), v.to_string());
        }
    }
    m
}

fn num(m: &HashMap<String, String>, k: &str) -> u64 {
    m.get(k).and_then(|v| v.parse().ok()).unwrap_or(0)
}

fn hexnum(m: &HashMap<String, String>, k: &str) -> Option<u64> {
    m.get(k).and_then(|v| if v == "-" { None } else { u64::from_str_radix(v, 16).ok() })
}

fn mode_of(s: &str) -> SessionMode {
    match s.chars().next() {
        Some('P') => SessionMode::Pase { fab_idx: 0 },
        Some('C') => SessionMode::Case { fab_idx: NonZeroU8::new(1).unwrap(), cat_ids: Default::default() },
        Some('G') => SessionMode::Group { fab_idx: NonZeroU8::new(1).unwrap(), group_id: s[1..].parse().unwrap_or(0) },
        _ => SessionMode::PlainText,
    }
}

fn install(sess: &mut Session, m: &HashMap<String, String>) {
    sess.verif_install(
        num(m, "ls") as u16,
        num(m, "ps") as u16,
        hexnum(m, "ln").unwrap_or(0),
        hexnum(m, "pn"),
        &key(num(m, "dk")),
        &key(num(m, "ek")),
        mode_of(m.get("m").map(|s| s.as_str()).unwrap_or("N")),
    );
    if let Some(ex) = m.get("ex") {
        for e in ex.split(',') {
            if e.len() < 2 {
                continue;
            }
            let (id, role) = e.split_at(e.len() - 1);
            sess.verif_add_exch(id.parse().unwrap_or(0), role == "I");
        }
    }
    if num(m, "expired") == 1 {
        sess.verif_set_expired(true);
    }
}

/// (summary, hash of the complete state rendering)
fn snap(s: &Session, hide_tx: bool) -> (String, String) {
    let mut full = String::new();
    let _ = s.verif_snapshot(&mut full);
    let mut summary = full.split(" | ").next().unwrap_or("").replace(' ', ";");
    if hide_tx {
        // a session created by the code under test starts from a random send counter
        let parts: Vec<String> = summary.split(';').map(|p| if p.starts_with("tx=") { "tx=?".to_string() } else { p.to_string() }).collect();
        summary = parts.join(";");
    }
    (summary, fnv(&full))
}

struct World<'a, C: Crypto> {
    matter: &'a Matter<'a>,
    crypto: &'a C,
    installed: usize,
    senders: HashMap<String, Session>,
    dgs: HashMap<String, Vec<u8>>,
    prev: Vec<String>,
}

fn err_name(e: &rs_matter::error::Error) -> String {
    format!("{:?}", e.code())
}

impl<'a, C: Crypto> World<'a, C> {
    fn reset(&mut self) {
        self.matter.with_state(|st| {
            let ids: Vec<u32> = st.verif_sessions_mut().iter().map(|s| s.id()).collect();
            for id in ids {
                st.verif_sessions_mut().remove(id);
            }
        });
        self.installed = 0;
        self.senders.clear();
        self.dgs.clear();
        self.prev.clear();
    }

    fn snapshots(&self) -> Vec<(String, String)> {
        let installed = self.installed;
        self.matter.with_state(|st| st.verif_sessions_mut().iter().enumerate().map(|(i, s)| snap(s, i >= installed)).collect())
    }

    fn op_s(&mut self, m: &HashMap<String, String>) -> String {
        let r = self.matter.with_state(|st| {
            let sess = st.verif_sessions_mut().add(num(m, "tx") as u32, false, addr(num(m, "a")), hexnum(m, "pn"), &TEST_DEV_DET);
            match sess {
                Ok(sess) => {
                    install(sess, m);
                    let (a, b) = snap(sess, false);
                    Ok((a, b))
                }
                Err(e) => Err(err_name(&e)),
            }
        });
        match r {
            Ok((sum, h)) => {
                self.installed += 1;
                self.prev.push(h.clone());
                format!("ok {} #{}", sum, h)
            }
            Err(e) => format!("err {}", e),
        }
    }

    fn op_t(&mut self, name: &str, m: &HashMap<String, String>) -> String {
        let mut s = Session::new(1000 + self.senders.len() as u32, num(m, "tx") as u32, false, addr(num(m, "a")), hexnum(m, "pn"), 300, 300, 4000);
        install(&mut s, m);
        self.senders.insert(name.to_string(), s);
        "ok".into()
    }

    fn op_x(&mut self, name: &str, m: &HashMap<String, String>) -> String {
        let Some(sess) = self.senders.get_mut(m.get("t").map(|s| s.as_str()).unwrap_or("")) else {
            return "skip".into();
        };
        let plain = PlainHdr::verif_from_parts(num(m, "pf") as u8, num(m, "sid") as u16, num(m, "sf") as u8, num(m, "ctr") as u32, hexnum(m, "src").unwrap_or(0), hexnum(m, "dst").unwrap_or(0));
        let proto = ProtoHdr::verif_from_parts(num(m, "xf") as u8, num(m, "op") as u8, num(m, "xid") as u16, num(m, "pid") as u16, num(m, "vid") as u16, num(m, "ack") as u32);
        let (Some(plain), Some(proto)) = (plain, proto) else {
            return "err BadFlags".into();
        };
        let mut hdr = PacketHdr::new();
        hdr.plain = plain;
        hdr.proto = proto;
        let pl = payload(num(m, "pl") as usize, num(m, "ps"));
        let pre = m.get("k").map(|s| s == "pre").unwrap_or(false);
        let crypto = self.crypto;
        let r = catch_unwind(AssertUnwindSafe(|| -> Result<Vec<u8>, String> {
            if pre {
                sess.verif_pre_send(&mut hdr).map_err(|e| err_name(&e))?;
            }
            let mut buf = vec![0u8; 2048];
            let mut wb = WriteBuf::new(&mut buf);
            wb.reserve(PacketHdr::HDR_RESERVE).map_err(|e| err_name(&e))?;
            wb.append(&pl).map_err(|e| err_name(&e))?;
            sess.verif_encode(crypto, &hdr, &mut wb).map_err(|e| err_name(&e))?;
            Ok(wb.as_slice().to_vec())
        }));
        match r {
            Ok(Ok(d)) => {
                let h = hex(&d);
                self.dgs.insert(name.to_string(), d);
                format!("dg {}", h)
            }
            Ok(Err(e)) => format!("err {}", e),
            Err(_) => "panic".into(),
        }
    }

    fn hdr_len(d: &[u8]) -> Option<usize> {
        let mut c = d.to_vec();
        let mut pb = ParseBuf::new(&mut c);
        let mut h = PlainHdr::new();
        h.decode(&mut pb).ok()?;
        Some(pb.read_off())
    }

    fn mutate(&self, d: &[u8], m: &str) -> Option<Vec<u8>> {
        let mut d = d.to_vec();
        let mut it = m.splitn(3, ':');
        match it.next().unwrap_or("") {
            "none" => {}
            "flip" => {
                let bit: usize = it.next()?.parse().ok()?;
                if bit / 8 >= d.len() {
                    return None;
                }
                d[bit / 8] ^= 1 << (bit % 8);
            }
            "trunc" => {
                let n: usize = it.next()?.parse().ok()?;
                d.truncate(n);
            }
            "ext" => d.extend_from_slice(&unhex(it.next()?)),
            "xor" => {
                let off: usize = it.next()?.parse().ok()?;
                for (i, b) in unhex(it.next()?).iter().enumerate() {
                    if off + i < d.len() {
                        d[off + i] ^= b;
                    }
                }
            }
            "hdr" => {
                // the plain header of another datagram in front of this one's cipher text
                let other = self.dgs.get(it.next()?)?;
                let (ho, hd) = (Self::hdr_len(other)?, Self::hdr_len(&d)?);
                let mut n = other[..ho].to_vec();
                n.extend_from_slice(&d[hd..]);
                d = n;
            }
            _ => return None,
        }
        Some(d)
    }

    fn op_r(&mut self, name: &str, m: &HashMap<String, String>, out: &mut Out) -> String {
        let Some(d) = self.dgs.get(name) else {
            return "skip".into();
        };
        let Some(d) = self.mutate(d, m.get("m").map(|s| s.as_str()).unwrap_or("none")) else {
            return "skip".into();
        };
        let runner = TransportRunner::new(self.matter, self.crypto);
        let from = addr(num(m, "a"));
        let r = catch_unwind(AssertUnwindSafe(|| {
            runner.verif_decode_datagram(from, &d, |res, hdr, pl| match res {
                Ok(new) => {
                    let p = hdr.plain.verif_parts();
                    let x = hdr.proto.verif_parts();
                    format!(
                        "ok:{} h={}:{}:{}:{}:{:x}:{:x}/{}:{}:{}:{}:{}:{} p={}",
                        if new { "new" } else { "old" },
                        p.0, p.1, p.2, p.3, p.4, p.5, x.0, x.1, x.2, x.3, x.4, x.5,
                        hex(pl)
                    )
                }
                Err(e) => format!("err:{}", err_name(&e)),
            })
        }));
        let mut s = match r {
            Ok(Ok(s)) => s,
            Ok(Err(e)) => format!("err:{}", err_name(&e)),
            Err(_) => "panic".into(),
        };
        out.stat(&format!("res_{}", s.split_whitespace().next().unwrap_or("").replace(':', "_")), 1);
        let snaps = self.snapshots();
        let hashes: Vec<String> = snaps.iter().map(|x| x.1.clone()).collect();
        let _ = write!(s, " S={}", if hashes.is_empty() { "-".to_string() } else { hashes.join(",") });
        for (i, (sum, h)) in snaps.iter().enumerate() {
            if self.prev.get(i) != Some(h) {
                let _ = write!(s, " C{}={}", i, sum);
            }
        }
        self.prev = hashes;
        s
    }
}

fn run_case<C: Crypto>(w: &mut World<C>, out: &mut Out, case: &Case) {
    out.case(case.id, &case.kind);
    w.reset();
    let (mut acc, mut rej) = (false, false);
    for op in &case.ops {
        let m = kv(op);
        let mut words = op.split_whitespace();
        let o = match words.next().unwrap_or("") {
            "s" => w.op_s(&m),
            "t" => w.op_t(words.next().unwrap_or(""), &m),
            "x" => w.op_x(words.next().unwrap_or(""), &m),
            "r" => {
                let o = w.op_r(words.next().unwrap_or(""), &m, out);
                if o.starts_with("ok") {
                    acc = true
                } else if o.starts_with("err") {
                    rej = true
                }
                o
            }
            _ => "skip".into(),
        };
        out.op(op, &o);
    }
    if acc && rej {
        out.buf.push_str("#nt\n");
    }
}

// ------------------------------------------------------------------------------------------ generator

#[derive(Clone)]
struct SessCfg {
    a: u64,
    m: String,
    ls: u64,
    ps: u64,
    ln: u64,
    pn: Option<u64>,
    dk: u64,
    ek: u64,
    tx: u64,
    ex: Vec<(u64, bool)>,
    expired: bool,
}

impl SessCfg {
    fn line(&self, head: &str) -> String {
        let mut s = format!(
            "{} a={} m={} ls={} ps={} ln={:x} pn={} dk={} ek={} tx={}",
            head,
            self.a,
            self.m,
            self.ls,
            self.ps,
            self.ln,
            self.pn.map(|n| format!("{:x}", n)).unwrap_or("-".into()),
            self.dk,
            self.ek,
            self.tx
        );
        if !self.ex.is_empty() {
            let v: Vec<String> = self.ex.iter().map(|(id, i)| format!("{}{}", id, if *i { "I" } else { "R" })).collect();
            let _ = write!(s, " ex={}", v.join(","));
        }
        if self.expired {
            s.push_str(" expired=1");
        }
        s
    }
    /// the peer's end of this session
    fn mirror(&self, peer_addr: u64) -> SessCfg {
        SessCfg {
            a: peer_addr,
            m: self.m.clone(),
            ls: self.ps,
            ps: self.ls,
            ln: self.pn.unwrap_or(0),
            pn: if self.ln != 0 || self.m != "N" { Some(self.ln) } else { None },
            dk: self.ek,
            ek: self.dk,
            tx: 0,
            ex: vec![],
            expired: false,
        }
    }
}

fn node_id(r: &mut Rng) -> u64 {
    match r.below(6) {
        0 => 1,
        1 => 0xFFFF_FFFF_FFFF_FFFE,
        2 => 0x0102_0304_0506_0708,
        3 => r.range(2, 255),
        _ => r.next() | 1,
    }
}

fn sid(r: &mut Rng) -> u64 {
    match r.below(8) {
        0 => 1,
        1 => 2,
        2 => 0xFFFF,
        3 => *r.pick(&[4u64, 16, 256, 0x8000]),
        _ => r.range(1, 0xFFFF),
    }
}

struct XSpec {
    k: &'static str,
    pf: u64,
    sid: u64,
    sf: u64,
    ctr: u64,
    src: u64,
    dst: u64,
    xf: u64,
    op: u64,
    xid: u64,
    pid: u64,
    vid: u64,
    ack: u64,
    pl: u64,
    ps: u64,
}

impl XSpec {
    fn line(&self, dg: &str, t: &str) -> String {
        format!(
            "x {} t={} k={} pf={} sid={} sf={} ctr={} src={:x} dst={:x} xf={} op={} xid={} pid={} vid={} ack={} pl={} ps={}",
            dg, t, self.k, self.pf, self.sid, self.sf, self.ctr, self.src, self.dst, self.xf, self.op, self.xid, self.pid, self.vid, self.ack, self.pl, self.ps
        )
    }
}

fn ctr_val(r: &mut Rng) -> u64 {
    match r.below(6) {
        0 => 0,
        1 => 0xFFFF_FFFF,
        2 => r.range(1, 40),
        _ => r.below(1 << 32),
    }
}

fn proto_part(r: &mut Rng, x: &mut XSpec, out: &mut Out) {
    // exchange flags: initiator mostly (so that a new exchange is opened), ack / reliable / vendor / secex freely
    let mut xf = 0u64;
    if r.chance(4, 5) {
        xf |= 1;
    }
    if r.chance(1, 3) {
        xf |= 2;
        out.stat("shape_ack", 1);
    }
    if r.chance(1, 2) {
        xf |= 4;
    }
    if r.chance(1, 5) {
        xf |= 8;
        out.stat("shape_secex", 1);
    }
    if r.chance(1, 4) {
        xf |= 16;
        out.stat("shape_vendor", 1);
    }
    x.xf = xf;
    x.op = match r.below(8) {
        0 => 0x10,
        1 => 0x40,
        2 => 0x20,
        3 => 0x00,
        _ => r.range(1, 11),
    };
    x.pid = if x.op >= 0x10 || x.op == 0 { if r.chance(4, 5) { 0 } else { 1 } } else { *r.pick(&[1u64, 1, 1, 2, 0]) };
    x.xid = if r.chance(1, 4) { *r.pick(&[0u64, 1, 0xFFFF]) } else { r.below(1 << 16) };
    x.vid = if xf & 16 != 0 { r.below(1 << 16) } else { 0 };
    x.ack = if xf & 2 != 0 { ctr_val(r) } else { 0 };
}

fn payload_len(r: &mut Rng, thorough: bool, out: &mut Out) -> u64 {
    let max = 1232 - 26 - 12 - 16; // MAX_TX_BUF_SIZE - plain - proto - tag
    let v = match r.below(20) {
        0 => 0,
        1 => 1,
        2..=3 => r.range(15, 17),
        4 => {
            if thorough && r.chance(1, 4) {
                max
            } else {
                r.range(200, 400)
            }
        }
        _ => r.range(0, 48),
    };
    out.stat(if v == 0 { "payload_0" } else if v <= 48 { "payload_small" } else if v < max { "payload_mid" } else { "payload_max" }, 1);
    v
}

fn gen_case(r: &mut Rng, thorough: bool, out: &mut Out) -> (String, Vec<String>) {
    let mut ops: Vec<String> = Vec::new();
    let mode = match r.below(10) {
        0..=3 => "P".to_string(),
        4..=7 => "C".to_string(),
        8 => format!("G{}", r.range(1, 0xFFF0)),
        _ => "P".to_string(),
    };
    out.stat(&format!("mode_{}", &mode[..1]), 1);
    let peer_addr = r.range(1, 3);
    // the receiver's session under test
    let mut rx = SessCfg {
        a: peer_addr,
        m: mode.clone(),
        ls: sid(r),
        ps: sid(r),
        ln: if mode == "P" { 0 } else { node_id(r) },
        pn: if mode == "P" { if r.chance(1, 4) { None } else { Some(0) } } else { Some(node_id(r)) },
        dk: 1,
        ek: 2,
        tx: r.below(1 << 28),
        ex: vec![],
        expired: r.chance(1, 25),
    };
    if mode.starts_with('G') {
        // a group session has one key and one session id for both directions
        rx.ek = rx.dk;
        rx.ps = rx.ls;
    }
    if r.chance(1, 3) {
        for _ in 0..r.range(1, 3) {
            rx.ex.push((r.below(1 << 16), r.chance(1, 2)));
        }
    }
    // further sessions in the table: other keys, same or other peer, sometimes the same local id on another address
    let mut table = vec![rx.clone()];
    let n_other = r.below(3);
    for j in 0..n_other {
        let mut o = SessCfg {
            a: if r.chance(1, 2) { peer_addr } else { r.range(1, 3) },
            m: (*r.pick(&["P", "C", "C", "N"])).to_string(),
            ls: if r.chance(1, 3) { rx.ls ^ (1 << r.below(16)) } else { sid(r) },
            ps: sid(r),
            ln: node_id(r),
            pn: Some(node_id(r)),
            dk: 10 + 2 * j,
            ek: 11 + 2 * j,
            tx: r.below(1 << 28),
            ex: vec![],
            expired: false,
        };
        if o.m == "N" {
            o.ls = 0;
            o.ps = 0;
            o.pn = if r.chance(1, 2) { Some(node_id(r)) } else { None };
        }
        if o.ls == 0 && o.m != "N" {
            o.ls = 7;
        }
        if o.a == rx.a && o.ls == rx.ls {
            o.ls = (rx.ls % 0xFFFE) + 1;
        }
        table.push(o);
    }
    // the session under test is not always first in the table
    let pos = r.below(table.len() as u64) as usize;
    table.swap(0, pos);
    for s in &table {
        ops.push(s.line("s"));
    }
    out.stat(&format!("table_size_{}", table.len()), 1);

    // senders: the mirror, and the transplants
    let good = rx.mirror(9);
    ops.push(good.line("t good"));
    let mut senders: Vec<(&str, SessCfg)> = Vec::new();
    {
        let mut s = good.clone();
        s.ek = 40; // some other key
        senders.push(("wrongkey", s));
        let mut s = good.clone();
        s.ek = rx.ek; // what the receiver itself would send: opposite direction
        senders.push(("reflect", s));
        let mut s = good.clone();
        s.ln = good.ln ^ (1u64 << r.below(64)); // another source node id
        if s.ln == 0 {
            s.ln = 5;
        }
        senders.push(("othernode", s));
        let mut s = good.clone();
        s.m = if mode.starts_with('G') { "C".into() } else { format!("G{}", r.range(1, 0xFFF0)) };
        senders.push(("othermode", s));
        if table.len() > 1 {
            // the mirror of another session of the table, but addressed to the session under test
            let o = &table[if pos == 0 { 1 } else { 0 }];
            let mut s = o.mirror(9);
            s.ps = rx.ls;
            senders.push(("othersess", s));
        }
    }
    for (n, s) in &senders {
        ops.push(s.line(&format!("t {}", n)));
    }

    // datagrams
    let n_dg = r.range(1, 3);
    let mut dgs: Vec<(String, u64)> = Vec::new(); // name, total length estimate
    let mut next_ctr = ctr_val(r).min(0xFFFF_FF00);
    for i in 0..n_dg {
        let mut x = XSpec { k: "pre", pf: 0, sid: 0, sf: 0, ctr: 0, src: 0, dst: 0, xf: 0, op: 0, xid: 0, pid: 0, vid: 0, ack: 0, pl: 0, ps: r.below(1000) };
        proto_part(r, &mut x, out);
        x.pl = payload_len(r, thorough, out);
        let is_group = mode.starts_with('G');
        if is_group || r.chance(1, 2) {
            // header shape chosen here, not by pre_send
            x.k = "raw";
            x.sid = good.ps;
            x.ctr = next_ctr;
            next_ctr += r.range(1, 3);
            let mut pf = 0u64;
            if is_group || r.chance(1, 3) {
                pf |= 4;
                x.src = good.ln;
            }
            match r.below(if is_group { 3 } else { 6 }) {
                0 => {
                    pf |= 1;
                    x.dst = rx.ln;
                }
                1 => {
                    pf |= 2;
                    x.dst = r.below(1 << 16);
                }
                2 if !is_group => {
                    pf |= 3;
                }
                _ => {}
            }
            if is_group && pf & 3 == 0 {
                pf |= 2;
                x.dst = 0x1234;
            }
            x.pf = pf;
            let mut sf = 0u64;
            if is_group {
                sf |= 1;
            }
            if r.chance(1, 8) {
                sf |= 0x20;
            }
            if r.chance(1, 6) {
                sf |= 0x40;
            }
            if r.chance(1, 10) {
                sf |= 0x80;
            }
            x.sf = sf;
            out.stat("enc_raw", 1);
            out.stat(&format!("shape_pf_{}", pf), 1);
        } else {
            out.stat("enc_pre", 1);
        }
        let name = format!("d{}", i);
        ops.push(x.line(&name, "good"));
        // exact length: plain header (pre_send on a PASE/CASE session emits neither node id) + protocol header + payload + tag
        let hl = if x.k == "raw" { 8 + if x.pf & 4 != 0 { 8 } else { 0 } + match x.pf & 3 { 1 => 8, 2 => 2, _ => 0 } } else { 8 };
        let xl = 6 + if x.xf & 16 != 0 { 2 } else { 0 } + if x.xf & 2 != 0 { 4 } else { 0 };
        let est = hl + xl + x.pl + 16;
        dgs.push((name, est));
    }

    // deliveries. First every single-bit flip of d0 (state must not move), then the clean datagrams,
    // replays, transplants, truncations / extensions, then flips again on a used session.
    let (d0, est0) = dgs[0].clone();
    let max_bits = est0 * 8 + 8; // one byte beyond the end => `skip`
    let exhaustive = est0 <= 120 || thorough;
    if exhaustive {
        for b in 0..max_bits {
            ops.push(format!("r {} a={} m=flip:{}", d0, peer_addr, b));
        }
        out.stat("flips_exhaustive_cases", 1);
    } else {
        // long datagram: every header / protocol-header / tag bit, a sample of the payload bits
        for b in 0..(40 * 8) {
            ops.push(format!("r {} a={} m=flip:{}", d0, peer_addr, b));
        }
        for _ in 0..200 {
            ops.push(format!("r {} a={} m=flip:{}", d0, peer_addr, r.below(max_bits)));
        }
        for b in (est0.saturating_sub(60) * 8)..max_bits {
            ops.push(format!("r {} a={} m=flip:{}", d0, peer_addr, b));
        }
    }
    // truncations and extensions
    for n in 0..(est0.min(70) + 1) {
        ops.push(format!("r {} a={} m=trunc:{}", d0, peer_addr, n));
    }
    for _ in 0..6 {
        ops.push(format!("r {} a={} m=trunc:{}", d0, peer_addr, r.below(est0 + 4)));
    }
    for e in ["00", "ff", "0000000000000000000000000000000000", "a5a5a5"] {
        ops.push(format!("r {} a={} m=ext:{}", d0, peer_addr, e));
    }
    // from another address
    ops.push(format!("r {} a={} m=none", d0, (peer_addr % 3) + 1));
    // transplants: same header fields, produced by a session that differs in one respect
    for (n, _) in &senders {
        let mut x = XSpec { k: "pre", pf: 0, sid: 0, sf: 0, ctr: 0, src: 0, dst: 0, xf: 5, op: 2, xid: 77, pid: 1, vid: 0, ack: 0, pl: r.range(0, 20), ps: 3 };
        if *n == "othermode" || mode.starts_with('G') {
            x.k = "raw";
            x.sid = good.ps;
            x.ctr = next_ctr;
            next_ctr += 1;
            x.pf = if mode.starts_with('G') { 6 } else { 0 };
            x.src = good.ln;
            x.dst = 0x1234;
            x.sf = if mode.starts_with('G') { 1 } else { 0 };
        }
        let name = format!("t_{}", n);
        ops.push(x.line(&name, n));
        ops.push(format!("r {} a={} m=none", name, peer_addr));
        out.stat(&format!("transplant_{}", n), 1);
    }
    // the clean datagrams (shuffled order now and then), each followed by a replay
    let mut order: Vec<usize> = (0..dgs.len()).collect();
    if r.chance(1, 3) {
        order.reverse();
    }
    for i in &order {
        ops.push(format!("r {} a={} m=none", dgs[*i].0, peer_addr));
        if r.chance(1, 2) {
            ops.push(format!("r {} a={} m=none", dgs[*i].0, peer_addr));
        }
    }
    // header of one datagram in front of the cipher text of another
    if dgs.len() >= 2 {
        ops.push(format!("r {} a={} m=hdr:{}", dgs[0].0, peer_addr, dgs[1].0));
        ops.push(format!("r {} a={} m=hdr:{}", dgs[1].0, peer_addr, dgs[0].0));
    }
    // a fresh datagram, flipped on the now used session (sample), then delivered
    {
        let mut x = XSpec { k: "pre", pf: 0, sid: 0, sf: 0, ctr: 0, src: 0, dst: 0, xf: 0, op: 0, xid: 0, pid: 0, vid: 0, ack: 0, pl: r.range(0, 24), ps: 9 };
        proto_part(r, &mut x, out);
        if mode.starts_with('G') {
            x.k = "raw";
            x.sid = good.ps;
            x.ctr = next_ctr + 5;
            x.pf = 6;
            x.src = good.ln;
            x.dst = 0x1234;
            x.sf = 1;
        }
        ops.push(x.line("late", "good"));
        for _ in 0..40 {
            ops.push(format!("r late a={} m=flip:{}", peer_addr, r.below(60 * 8)));
        }
        ops.push(format!("r late a={} m=xor:{}:{}", peer_addr, r.below(40), hex(&r.bytes(3))));
        ops.push(format!("r late a={} m=none", peer_addr));
        ops.push(format!("r late a={} m=none", peer_addr));
    }
    ("m".to_string() + &mode[..1], ops)
}

const RULE: &str = "a case = one receiving node with 1-3 installed sessions (PASE/CASE/group/unsecured), sending sessions (the mirror of the session under test and transplants: other key, opposite direction, other source node id, other mode, mirror of another session of the table) and 1-3 datagrams encoded by the real pre_send/encode (header shapes: source/destination node id present or not, groupcast/unicast/both DSIZ bits, MSG_EXT/CONTROL/PRIVACY, ack/vendor/secex/reliable/initiator; payload 0..max); deliveries: every single-bit flip over the whole first datagram (exhaustive; long datagrams in the quick tier: all header/protocol-header/tag bits + a sample), every truncation up to 70 bytes, extensions, another peer address, the transplants, the clean datagrams, replays, header splices; non-trivial = at least one delivery accepted and one rejected; distinct = by operation list";

pub fn gen(a: &Args) -> String {
    let mut r = Rng::new(a.seed);
    let mut out = Out::default();
    out.buf.push_str(&format!("#rule {}\n", RULE));
    let matter = Matter::new(&TEST_DEV_DET, TEST_DEV_COMM, &TEST_DEV_ATT, 0);
    let crypto = test_only_crypto();
    let mut w = World { matter: &matter, crypto: &crypto, installed: 0, senders: HashMap::new(), dgs: HashMap::new(), prev: vec![] };
    let n_cases = if a.thorough { 1500 } else { 160 };
    for id in 0..n_cases {
        let mut cr = r.fork();
        let (kind, ops) = gen_case(&mut cr, a.thorough, &mut out);
        run_case(&mut w, &mut out, &Case { id, kind, ops });
    }
    out.finish()
}

pub fn replay(a: &Args) -> String {
    let text = std::fs::read_to_string(a.input.as_ref().expect("--in")).expect("read input");
    let mut out = Out::default();
    let matter = Matter::new(&TEST_DEV_DET, TEST_DEV_COMM, &TEST_DEV_ATT, 0);
    let crypto = test_only_crypto();
    let mut w = World { matter: &matter, crypto: &crypto, installed: 0, senders: HashMap::new(), dgs: HashMap::new(), prev: vec![] };
    for c in parse_cases(&text) {
        run_case(&mut w, &mut out, &c);
    }
    out.finish()
}
