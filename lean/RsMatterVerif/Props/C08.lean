/-! # C08 — property theorems (not built yet) -/
