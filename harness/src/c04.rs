//! C04: message-counter de-duplication.
//!
//! Streams:
//!  `u`  secure unicast session: a real `Session` (PASE mode => encrypted) driven through the real
//!       `Session::post_recv` with synthetic headers; verdict `dup` iff `ErrorCode::Duplicate`.
//!  `p`  unsecured session: the same over a `PlainText` session.
//!  `g`  group senders: the real `GroupCtrStore::post_recv`.
use crate::proto::{parse_cases, Case, Out};
use crate::rng::Rng;
use crate::Args;

use rs_matter::error::ErrorCode;
use rs_matter::transport::network::Address;
use rs_matter::transport::packet::PacketHdr;
use rs_matter::transport::session::{Session, SessionMode};
use rs_matter::transport::verif_dedup::GroupCtrStore;

const U32M: u64 = 1 << 32;

fn new_session(secure: bool) -> Session {
    let mut s = Session::new(1, 0, false, Address::new(), Some(1), 300, 300, 4000);
    if secure {
        s.verif_set_session_mode(SessionMode::Pase { fab_idx: 0 });
    }
    s
}

fn sess_recv(s: &mut Session, ctr: u32) -> &'static str {
    let mut hdr = PacketHdr::new();
    hdr.plain.ctr = ctr;
    // Non-initiator, opcode 0: after the counter check the message finds no exchange and opens
    // none (`NoExchange`), so the session's exchange table stays empty across the history.
    match s.verif_post_recv(&hdr) {
        Err(e) if e.code() == ErrorCode::Duplicate => "dup",
        _ => "acc",
    }
}

fn run_case(out: &mut Out, case: &Case) {
    if case.kind == "gg" {
        return crate::c04_group::run_case(out, case);
    }
    out.case(case.id, &case.kind);
    match case.kind.as_str() {
        "u" | "p" => {
            let mut s = new_session(case.kind == "u");
            for op in &case.ops {
                let ctr: u32 = op.trim().parse().unwrap_or(0);
                let v = sess_recv(&mut s, ctr);
                out.stat(if v == "acc" { "verdict_acc" } else { "verdict_dup" }, 1);
                out.op(op, v);
            }
        }
        _ => {
            let mut g = GroupCtrStore::new();
            for op in &case.ops {
                let mut it = op.split_whitespace();
                let fab: u8 = it.next().and_then(|x| x.parse().ok()).unwrap_or(1);
                let node: u64 = it.next().and_then(|x| x.parse().ok()).unwrap_or(1);
                let ctr: u32 = it.next().and_then(|x| x.parse().ok()).unwrap_or(0);
                let v = if g.post_recv(fab, node, ctr) { "acc" } else { "dup" };
                out.stat(if v == "acc" { "verdict_acc" } else { "verdict_dup" }, 1);
                out.op(op, v);
            }
        }
    }
}

/// One history of counters around a moving maximum.
/// `plain`: an unsecured session -- a value more than the window below the maximum is a restart and
/// becomes the new maximum, so that the history continues around the restart point (values just
/// below it, duplicates of it, windows above it, further restarts).
fn gen_history(r: &mut Rng, len: usize, out: &mut Out, plain: bool) -> Vec<String> {
    let starts: [u64; 12] = [0, 1, 2, 15, 16, 17, 100, (1 << 31) - 1, 1 << 31, U32M - 40, U32M - 1, 65534];
    let mut max: u64 = if r.chance(1, 3) { r.below(U32M) } else { *r.pick(&starts) };
    let mut hist: Vec<u64> = Vec::new();
    let mut first = true;
    for _ in 0..len {
        let c: u64 = if first {
            first = false;
            max
        } else {
            match r.below(100) {
                0..=24 => { out.stat("op_next", 1); max + 1 }
                25..=36 => { out.stat("op_fwd_small", 1); max + r.range(2, 15) }
                37..=44 => { out.stat("op_fwd_edge", 1); max + r.range(15, 18) }
                45..=50 => { out.stat("op_fwd_far", 1); max + *r.pick(&[19u64, 20, 31, 32, 33, 100, 65536, (1 << 31) - 1, 1 << 31, (1 << 31) + 1]) }
                51..=66 => { out.stat("op_behind_window", 1); max.saturating_sub(r.range(1, 15)) }
                67..=74 => { out.stat("op_behind_edge", 1); max.saturating_sub(r.range(15, 18)) }
                75..=79 => { out.stat("op_behind_far", 1); max.saturating_sub(*r.pick(&[19u64, 20, 32, 100, 65536, 1 << 31])) }
                80..=91 => { out.stat("op_repeat", 1); if hist.is_empty() { max } else { *r.pick(&hist) } }
                92..=94 => { out.stat("op_zero_or_top", 1); *r.pick(&[0u64, 1, U32M - 1, U32M - 2]) }
                _ => { out.stat("op_uniform", 1); r.below(U32M) }
            }
        };
        let c = c.min(U32M - 1);
        if c > max {
            max = c;
        } else if plain && c + 16 < max {
            out.stat("p_restart", 1);
            max = c;
        }
        hist.push(c);
    }
    hist.iter().map(|c| c.to_string()).collect()
}

fn gen_group(r: &mut Rng, len: usize, out: &mut Out) -> Vec<String> {
    // up to 20 senders so that the 16-entry store evicts
    let nsend = *r.pick(&[1usize, 2, 3, 15, 16, 17, 18, 20]);
    let mut senders: Vec<(u8, u64, u64)> = Vec::new();
    for i in 0..nsend {
        let base = if r.chance(1, 2) { r.below(U32M) } else { *r.pick(&[0u64, 5, U32M - 3, U32M - 20, (1 << 31) - 2]) };
        senders.push((1 + (i % 3) as u8, 100 + (i / 3) as u64, base));
    }
    let mut ops = Vec::new();
    let mut hist: Vec<(u8, u64, u64)> = Vec::new();
    for _ in 0..len {
        // skew towards a few hot senders so that cold ones get evicted and come back
        let i = if r.chance(3, 5) { r.below(nsend.min(3) as u64) as usize } else { r.below(nsend as u64) as usize };
        let (f, n, max) = senders[i];
        let c = match r.below(100) {
            0..=29 => { out.stat("g_next", 1); (max + 1) % U32M }
            30..=44 => { out.stat("g_fwd", 1); (max + r.range(2, 40)) % U32M }
            45..=49 => { out.stat("g_fwd_far", 1); (max + *r.pick(&[65536u64, (1 << 31) - 1, 1 << 31, (1 << 31) + 1])) % U32M }
            50..=69 => { out.stat("g_behind", 1); (max + U32M - r.range(1, 18)) % U32M }
            70..=74 => { out.stat("g_behind_far", 1); (max + U32M - *r.pick(&[19u64, 100, 65536, 1 << 31])) % U32M }
            75..=92 => { out.stat("g_repeat", 1); if hist.is_empty() { max } else { let h = *r.pick(&hist); senders[i] = senders[i]; if h.0 == f && h.1 == n { h.2 } else { max } } }
            _ => { out.stat("g_uniform", 1); r.below(U32M) }
        };
        // generator's own idea of the sender's max (modular forward => new max)
        let fwd = (c + U32M - max) % U32M;
        if fwd >= 1 && fwd < (1 << 31) {
            senders[i].2 = c;
        }
        hist.push((f, n, c));
        ops.push(format!("{} {} {}", f, n, c));
    }
    ops
}

/// group glue: the `g` generator's (node, counter) sequence with message kinds mixed in
fn gen_group_glue(r: &mut Rng, len: usize, out: &mut Out) -> Vec<String> {
    let base = gen_group(r, len, out);
    let mut ops = Vec::new();
    for op in base {
        let mut it = op.split_whitespace();
        let _fab = it.next();
        let node = it.next().unwrap_or("100");
        let ctr = it.next().unwrap_or("0");
        let kind = match r.below(100) {
            0..=74 => "d",
            75..=84 => "c",
            85..=92 => "x",
            _ => "m",
        };
        ops.push(format!("{} {} {}", node, ctr, kind));
        if kind != "d" && r.chance(2, 3) {
            // the same counter again as an authentic data message: must not have been consumed
            ops.push(format!("{} {} d", node, ctr));
        }
    }
    ops
}

pub fn gen(a: &Args) -> String {
    let mut r = Rng::new(a.seed);
    let mut out = Out::default();
    let n_cases = if a.thorough { 60000 } else { 4000 };
    // group glue stream: real encrypted group messages through the real receive path
    let n_glue = if a.thorough { 400 } else { 40 };
    for id in 0..n_glue {
        let mut cr = r.fork();
        let len = cr.range(10, 60) as usize;
        let ops = gen_group_glue(&mut cr, len, &mut out);
        out.stat("kind_gg", 1);
        run_case(&mut out, &Case { id: 1_000_000 + id, kind: "gg".to_string(), ops });
    }
    for id in 0..n_cases {
        let mut cr = r.fork();
        let len = if a.thorough { cr.range(2, 120) } else { cr.range(2, 40) } as usize;
        let kind = match cr.below(10) {
            0..=4 => "u",
            5..=6 => "p",
            _ => "g",
        };
        let ops = if kind == "g" { gen_group(&mut cr, len * 2, &mut out) } else { gen_history(&mut cr, len, &mut out, kind == "p") };
        out.stat(&format!("kind_{}", kind), 1);
        run_case(&mut out, &Case { id, kind: kind.to_string(), ops });
    }
    {
        // supporting exploration (not the proof): every history of length <= 4 (thorough; quick: <= 3,
        // unsecured sessions only) over a boundary alphabet around two bases, for a secure unicast
        // session, an unsecured session and one group sender
        let (max_len, kinds): (usize, &[&str]) = if a.thorough { (4, &["u", "p", "g"]) } else { (3, &["p"]) };
        let mut id = n_cases;
        for base in [1000u64, U32M - 20] {
            let offs: [i64; 12] = [-18, -17, -16, -15, -1, 0, 1, 15, 16, 17, 18, 40];
            let alpha: Vec<u64> = offs.iter().map(|o| ((base as i64 + o) as u64) % U32M).collect();
            for len in 1..=max_len {
                let total = alpha.len().pow(len as u32);
                for mut k in 0..total {
                    let mut h = Vec::with_capacity(len);
                    for _ in 0..len {
                        h.push(alpha[k % alpha.len()]);
                        k /= alpha.len();
                    }
                    for kind in kinds.iter().copied() {
                        let ops: Vec<String> = h
                            .iter()
                            .map(|c| if kind == "g" { format!("1 7 {}", c) } else { c.to_string() })
                            .collect();
                        out.stat("exhaustive_small_scope", 1);
                        run_case(&mut out, &Case { id, kind: kind.to_string(), ops });
                        id += 1;
                    }
                }
            }
        }
    }
    out.finish()
}

pub fn replay(a: &Args) -> String {
    let text = std::fs::read_to_string(a.input.as_ref().expect("--in")).expect("read input");
    let mut out = Out::default();
    for c in parse_cases(&text) {
        run_case(&mut out, &c);
    }
    out.finish()
}
