//! C03: secured messages are accepted only if authentic for that session and direction.
//!
//! One case = one receiving node (a real `Matter` whose session table is filled through the `verif`
//! hook, with real fabrics holding group key sets), a set of sending sessions (stand-alone real
//! `Session` objects), datagrams produced by the real encoder (`Session::pre_send` +
//! `Session::encode`, real AES-CCM of the rustcrypto backend) and deliveries of (mutated) datagrams
//! to the real `decode_packet` (`r`) or to the real `handle_rx_packet` = one step of `process_rx` (`h`).
//!
//! Lines (all numbers decimal unless marked hex). Addresses `<addr>`: `<n>` UDP [::1]:1000+n,
//! `t<n>` TCP [::1]:1000+n, `b<n>` BTP, `v<n>` UDP 127.0.0.n:1000, `m<n>` UDP [::ffff:127.0.0.n]:1000.
//!  `f <no>`                                  use pre-provisioned fabric `no`     => `ok idx=<fab idx> node=<hex> cfid=<hex>`
//!  `ks f=<no> id=<n> e=<k|c:<k>>,..`         group key set (epoch key numbers; `c:<k>` = the first key
//!                                            number >= 70000 whose group session id collides with key k's)
//!                                                                                 => `ok e=<k,..> sid=<n,..>`
//!  `gm f=<no> g=<gid> ks=<n>`                group -> key set mapping            => `ok`
//!  `tick <ms>`                               advance the clock                   => `ok`
//!  `s a=<addr> m=<N|P|C|G<gid>> ls=<lsid> ps=<psid> ln=<hex> pn=<hex|-> dk=<k> ek=<k> tx=<ctr> [ex=<id><I|R>,..] [expired=1]`
//!        install the next session of the receiver's table            => `ok <summary> #<hash>`
//!  `t <name> …same keys… [gk=<fab no>:<epoch key no>]`   a sending session (`gk`: both keys = that
//!        operational group key)                                        => `ok [sid=<group session id>]`
//!  `x <dg> t=<name> k=<pre|raw> pf= sid=<n|@sender> sf= ctr= src=<hex> dst=<hex> xf= op= xid= pid= vid= ack= pl=<len> ps=<seed> [sc=<general>:<proto id>:<code>]`
//!        encode one datagram (`pre`: the real pre_send stamps the plain header; `sc`: the payload is
//!        that status report followed by the pattern)                  => `dg <hex>` | `err <Code>`
//!  `r <dg> a=<addr> m=<none|flip:<bit>|trunc:<len>|ext:<hex>|xor:<off>:<hex>|hdr:<dg2>>`
//!        deliver to `decode_packet` => `<ok:new|ok:old|err:Code|panic> [h=<plain>/<proto> p=<hex>] T=<now> S=<n>:<hash>,.. L=<last use>,.. G=<hash> [C<i>=<summary>].. [GS=<store>]`
//!  `h <dg> a=<addr> m=…`   deliver to `handle_rx_packet` => `<deliver|consumed|fail:Code|panic> [h= p=] T= S= L= G= [C..] [GS=] [R=<reply>;..]`
//!        reply = `<addr>|<key|->|<plain>/<proto>|<payload hex>`, key = `k<ek number>` / `g<fab no>.<epoch>` / `?`
use crate::proto::{hex, parse_cases, unhex, Case, Out};
use crate::rng::Rng;
use crate::Args;

use std::collections::HashMap;
use std::fmt::Write as _;
use std::net::{IpAddr, Ipv4Addr, Ipv6Addr, SocketAddr};
use std::num::NonZeroU8;
use std::panic::{catch_unwind, AssertUnwindSafe};

use embassy_time::{Duration, Instant, MockDriver};

use rs_matter::crypto::{test_only_crypto, CanonAeadKey, Crypto};
use rs_matter::dm::devices::test::{TEST_DEV_ATT, TEST_DEV_COMM, TEST_DEV_DET};
use rs_matter::error::Error;
use rs_matter::transport::network::{Address, BtAddr, NetworkSend};
use rs_matter::transport::packet::PacketHdr;
use rs_matter::transport::plain_hdr::PlainHdr;
use rs_matter::transport::proto_hdr::ProtoHdr;
use rs_matter::transport::session::{Session, SessionMode};
use rs_matter::transport::TransportRunner;
use rs_matter::utils::storage::{ParseBuf, WriteBuf};
use rs_matter::Matter;

#[path = "c03_group.rs"]
mod group;
use group::FabInfo;

fn addr(spec: &str) -> Address {
    let (kind, n) = match spec.chars().next() {
        Some(c) if c.is_ascii_digit() => ('u', spec),
        Some(c) => (c, &spec[1..]),
        None => ('u', "0"),
    };
    let n: u64 = n.parse().unwrap_or(0);
    match kind {
        't' => Address::Tcp(SocketAddr::new(IpAddr::V6(Ipv6Addr::LOCALHOST), 1000 + n as u16)),
        'b' => Address::Btp(BtAddr([n as u8, 0, 0, 0, 0, 0])),
        'v' => Address::Udp(SocketAddr::new(IpAddr::V4(Ipv4Addr::new(127, 0, 0, n as u8)), 1000)),
        'm' => Address::Udp(SocketAddr::new(IpAddr::V6(Ipv4Addr::new(127, 0, 0, n as u8).to_ipv6_mapped()), 1000)),
        _ => Address::Udp(SocketAddr::new(IpAddr::V6(Ipv6Addr::LOCALHOST), 1000 + n as u16)),
    }
}

fn addr_str(a: &Address) -> String {
    match a {
        Address::Btp(b) => format!("b{}", b.0[0]),
        Address::Tcp(sa) => format!("t{}", sa.port().wrapping_sub(1000)),
        Address::Udp(sa) => match sa.ip() {
            IpAddr::V4(v4) => format!("v{}", v4.octets()[3]),
            IpAddr::V6(v6) => match v6.to_ipv4_mapped() {
                Some(v4) => format!("m{}", v4.octets()[3]),
                None => format!("{}", sa.port().wrapping_sub(1000)),
            },
        },
    }
}

/// key number `k`: first four bytes = k (LE), then a fixed pattern (distinct k => distinct keys)
fn key(k: u64) -> [u8; 16] {
    let mut b = [0u8; 16];
    b[0] = k as u8;
    b[1] = (k >> 8) as u8;
    b[2] = (k >> 16) as u8;
    b[3] = (k >> 24) as u8;
    for i in 4..16 {
        b[i] = 0xA5u8.wrapping_add(i as u8 * 17);
    }
    b
}

pub fn payload(len: usize, seed: u64) -> Vec<u8> {
    (0..len).map(|i| (seed.wrapping_mul(31).wrapping_add(i as u64 * 7).wrapping_add((i as u64 >> 8) * 13) & 0xff) as u8).collect()
}

fn fnv(s: &str) -> String {
    let mut h: u64 = 0xcbf29ce484222325;
    for b in s.bytes() {
        h ^= b as u64;
        h = h.wrapping_mul(0x100000001b3);
    }
    format!("{:016x}", h)
}

fn kv(op: &str) -> HashMap<String, String> {
    let mut m = HashMap::new();
    for w in op.split_whitespace() {
        if let Some((k, v)) = w.split_once('=') {
            m.insert(k.to_string(), v.to_string());
        }
    }
    m
}

fn num(m: &HashMap<String, String>, k: &str) -> u64 {
    m.get(k).and_then(|v| v.parse().ok()).unwrap_or(0)
}

fn st<'a>(m: &'a HashMap<String, String>, k: &str, d: &'a str) -> &'a str {
    m.get(k).map(|s| s.as_str()).unwrap_or(d)
}

fn hexnum(m: &HashMap<String, String>, k: &str) -> Option<u64> {
    m.get(k).and_then(|v| if v == "-" { None } else { u64::from_str_radix(v, 16).ok() })
}

fn mode_of(s: &str) -> SessionMode {
    match s.chars().next() {
        Some('P') => SessionMode::Pase { fab_idx: 0 },
        Some('C') => SessionMode::Case { fab_idx: NonZeroU8::new(1).unwrap(), cat_ids: Default::default() },
        Some('G') => SessionMode::Group { fab_idx: NonZeroU8::new(1).unwrap(), group_id: s[1..].parse().unwrap_or(0) },
        _ => SessionMode::PlainText,
    }
}

fn install(sess: &mut Session, m: &HashMap<String, String>, dk: &[u8; 16], ek: &[u8; 16]) {
    sess.verif_install(
        num(m, "ls") as u16,
        num(m, "ps") as u16,
        hexnum(m, "ln").unwrap_or(0),
        hexnum(m, "pn"),
        dk,
        ek,
        mode_of(st(m, "m", "N")),
    );
    if let Some(ex) = m.get("ex") {
        for e in ex.split(',') {
            if e.len() < 2 {
                continue;
            }
            let (id, role) = e.split_at(e.len() - 1);
            sess.verif_add_exch(id.parse().unwrap_or(0), role == "I");
        }
    }
    if num(m, "expired") == 1 {
        sess.verif_set_expired(true);
    }
}

/// (summary, hash of the complete state rendering). For a session created by the code under test
/// the summary also names what the session is bound to:
/// `id=<local sid>:<peer sid>:<local node hex>:<peer node hex|->:<N|P|C|G<fab>.<gid>>:<dec key>:<enc key>:<peer address>`
fn snap(s: &Session, hide_tx: bool, keys: &[(String, [u8; 16], u64)]) -> (String, String) {
    let mut full = String::new();
    let _ = s.verif_snapshot(&mut full);
    let mut summary = full.split(" | ").next().unwrap_or("").replace(' ', ";");
    if hide_tx {
        // a session created by the code under test starts from a random send counter
        let parts: Vec<String> = summary.split(';').map(|p| if p.starts_with("tx=") { "tx=?".to_string() } else { p.to_string() }).collect();
        summary = parts.join(";");
        let (_, lnode, dk, ek) = s.verif_view();
        let kname = |k: &[u8; 16]| -> String {
            if !s.is_encrypted() {
                return "-".into();
            }
            keys.iter().find(|x| &x.1 == k).map(|x| x.0.clone()).unwrap_or("?".into())
        };
        let mode = match s.get_session_mode() {
            SessionMode::PlainText => "N".to_string(),
            SessionMode::Pase { .. } => "P".to_string(),
            SessionMode::Case { .. } => "C".to_string(),
            SessionMode::Group { fab_idx, group_id } => format!("G{}.{}", fab_idx, group_id),
        };
        let _ = write!(
            summary,
            ";id={}:{}:{:x}:{}:{}:{}:{}:{}",
            s.get_local_sess_id(),
            s.get_peer_sess_id(),
            lnode,
            s.get_peer_node_id().map(|n| format!("{:x}", n)).unwrap_or("-".into()),
            mode,
            kname(&dk),
            kname(&ek),
            addr_str(&s.get_peer_addr())
        );
    }
    (summary, fnv(&full))
}

/// everything the harness sends is collected here
struct Capture(Vec<(Address, Vec<u8>)>);

impl NetworkSend for Capture {
    async fn send_to(&mut self, data: &[u8], addr: Address) -> Result<(), Error> {
        self.0.push((addr, data.to_vec()));
        Ok(())
    }
}

struct World<'a, C: Crypto> {
    matter: &'a Matter<'a>,
    crypto: &'a C,
    fabs: &'a [FabInfo],
    /// unique ids of the sessions installed by `s` ops (everything else was created by the code under test)
    installed: Vec<u32>,
    /// fabrics declared by `f` ops of this case
    declared: Vec<u64>,
    /// unique session id -> ordinal of first appearance in this case
    ords: HashMap<u32, usize>,
    senders: HashMap<String, Session>,
    sender_sid: HashMap<String, u16>,
    dgs: HashMap<String, Vec<u8>>,
    prev: HashMap<usize, String>,
    prev_g: String,
    /// keys a reply may be secured with: (name, key, node id in the nonce)
    keys: Vec<(String, [u8; 16], u64)>,
    /// (fabric no, sid) -> colliding epoch key number
    coll: HashMap<(u64, u16), u64>,
    t0: u64,
}

fn err_name(e: &rs_matter::error::Error) -> String {
    format!("{:?}", e.code())
}

fn now_ms() -> u64 {
    Instant::now().as_millis()
}

impl<'a, C: Crypto> World<'a, C> {
    fn reset(&mut self) {
        self.matter.with_state(|st| st.verif_sessions_mut().reset());
        for f in self.fabs {
            group::clear_groups(self.matter, f);
        }
        self.installed.clear();
        self.declared.clear();
        self.ords.clear();
        self.senders.clear();
        self.sender_sid.clear();
        self.dgs.clear();
        self.prev.clear();
        self.keys.clear();
        self.prev_g = self.gstore().1;
        // every case starts at a time stamp > 0 that is strictly later than anything before
        MockDriver::get().advance(Duration::from_millis(10));
        self.t0 = now_ms();
    }

    fn ord(&mut self, id: u32) -> usize {
        let n = self.ords.len();
        *self.ords.entry(id).or_insert(n)
    }

    /// per session in table order: (ordinal, summary, hash, last use relative to the case start)
    fn snapshots(&mut self) -> Vec<(usize, String, String, u64)> {
        let installed = self.installed.clone();
        let t0 = self.t0;
        let keys = self.keys.clone();
        let raw: Vec<(u32, String, String, u64)> = self.matter.with_state(|st| {
            st.verif_sessions_mut()
                .iter()
                .map(|s| {
                    let (a, b) = snap(s, !installed.contains(&s.id()), &keys);
                    (s.id(), a, b, s.verif_last_use_ms().saturating_sub(t0))
                })
                .collect()
        });
        raw.into_iter().map(|(id, a, b, lu)| (self.ord(id), a, b, lu)).collect()
    }

    /// (summary, hash) of the group counter store
    fn gstore(&self) -> (String, String) {
        let mut s = String::new();
        self.matter.with_state(|st| {
            let _ = st.verif_sessions_mut().verif_group_ctr_snapshot(&mut s);
        });
        let h = fnv(&s);
        (s.replace(' ', ";"), h)
    }

    fn fab(&self, m: &HashMap<String, String>) -> Option<(u64, FabInfo)> {
        let no = num(m, "f");
        if !self.declared.contains(&no) {
            return None;
        }
        self.fabs.get(no as usize).map(|f| (no, *f))
    }

    fn op_f(&mut self, no: &str) -> String {
        match no.parse::<usize>().ok().and_then(|n| self.fabs.get(n)) {
            Some(f) => {
                self.declared.push(no.parse().unwrap_or(0));
                format!("ok idx={} node={:x} cfid={:x}", f.fab_idx, f.node, f.cfid)
            }
            None => "err NoFabric".into(),
        }
    }

    fn op_ks(&mut self, m: &HashMap<String, String>) -> String {
        let Some((no, f)) = self.fab(m) else {
            return "err NoFabric".into();
        };
        let mut nums: Vec<u64> = Vec::new();
        let mut sids: Vec<u16> = Vec::new();
        for e in st(m, "e", "").split(',').filter(|e| !e.is_empty()) {
            let k = if let Some(base) = e.strip_prefix("c:") {
                // an epoch key whose operational key has the same 16-bit group session id as key `base`
                let base: u64 = base.parse().unwrap_or(0);
                let Ok((_, want)) = group::derive(self.crypto, &key(base), f.cfid) else {
                    return "err Derive".into();
                };
                if let Some(k) = self.coll.get(&(no, want)) {
                    *k
                } else {
                    let mut found = None;
                    for k in 70_000u64..70_000 + 2_000_000 {
                        if let Ok((_, sid)) = group::derive(self.crypto, &key(k), f.cfid) {
                            if sid == want {
                                found = Some(k);
                                break;
                            }
                        }
                    }
                    let Some(k) = found else {
                        return "err NoCollision".into();
                    };
                    self.coll.insert((no, want), k);
                    k
                }
            } else {
                e.parse().unwrap_or(0)
            };
            match group::derive(self.crypto, &key(k), f.cfid) {
                Ok((op, sid)) => {
                    nums.push(k);
                    sids.push(sid);
                    self.keys.push((format!("g{}.{}", no, k), op, f.node));
                }
                Err(e) => return format!("err {}", err_name(&e)),
            }
        }
        let epochs: Vec<[u8; 16]> = nums.iter().map(|k| key(*k)).collect();
        match group::key_set_add(self.matter, &f, num(m, "id") as u16, &epochs) {
            Ok(()) => format!(
                "ok e={} sid={}",
                nums.iter().map(|k| k.to_string()).collect::<Vec<_>>().join(","),
                sids.iter().map(|k| k.to_string()).collect::<Vec<_>>().join(",")
            ),
            Err(e) => format!("err {}", err_name(&e)),
        }
    }

    fn op_gm(&mut self, m: &HashMap<String, String>) -> String {
        let Some((_, f)) = self.fab(m) else {
            return "err NoFabric".into();
        };
        match group::key_map_add(self.matter, &f, num(m, "g") as u16, num(m, "ks") as u16) {
            Ok(()) => "ok".into(),
            Err(e) => format!("err {}", err_name(&e)),
        }
    }

    fn op_s(&mut self, m: &HashMap<String, String>) -> String {
        let r = self.matter.with_state(|st| {
            let sess = st.verif_sessions_mut().add(num(m, "tx") as u32, false, addr(st_(m)), hexnum(m, "pn"), &TEST_DEV_DET);
            match sess {
                Ok(sess) => {
                    install(sess, m, &key(num(m, "dk")), &key(num(m, "ek")));
                    let (a, b) = snap(sess, false, &[]);
                    Ok((sess.id(), a, b))
                }
                Err(e) => Err(err_name(&e)),
            }
        });
        match r {
            Ok((id, sum, h)) => {
                self.installed.push(id);
                let o = self.ord(id);
                self.prev.insert(o, h.clone());
                self.keys.push((format!("k{}", num(m, "ek")), key(num(m, "ek")), hexnum(m, "ln").unwrap_or(0)));
                format!("ok {} #{}", sum, h)
            }
            Err(e) => format!("err {}", e),
        }
    }

    fn op_t(&mut self, name: &str, m: &HashMap<String, String>) -> String {
        let mut s = Session::new(1000 + self.senders.len() as u32, num(m, "tx") as u32, false, addr(st_(m)), hexnum(m, "pn"), 300, 300, 4000);
        let mut out = "ok".to_string();
        if let Some(gk) = m.get("gk") {
            let (fno, k) = gk.split_once(':').unwrap_or(("0", "0"));
            let Some(f) = fno.parse::<u64>().ok().filter(|n| self.declared.contains(n)).and_then(|n| self.fabs.get(n as usize)) else {
                return "err NoFabric".into();
            };
            match group::derive(self.crypto, &key(k.parse().unwrap_or(0)), f.cfid) {
                Ok((op, sid)) => {
                    install(&mut s, m, &op, &op);
                    self.sender_sid.insert(name.to_string(), sid);
                    out = format!("ok sid={}", sid);
                }
                Err(e) => return format!("err {}", err_name(&e)),
            }
        } else {
            install(&mut s, m, &key(num(m, "dk")), &key(num(m, "ek")));
        }
        self.senders.insert(name.to_string(), s);
        out
    }

    fn op_x(&mut self, name: &str, m: &HashMap<String, String>) -> String {
        let sid = match m.get("sid").map(|s| s.as_str()) {
            Some(s) if s.starts_with('@') => match self.sender_sid.get(&s[1..]) {
                Some(v) => *v,
                None => return "skip".into(),
            },
            Some(s) => s.parse().unwrap_or(0),
            None => 0,
        };
        let Some(sess) = self.senders.get_mut(st(m, "t", "")) else {
            return "skip".into();
        };
        let plain = PlainHdr::verif_from_parts(num(m, "pf") as u8, sid, num(m, "sf") as u8, num(m, "ctr") as u32, hexnum(m, "src").unwrap_or(0), hexnum(m, "dst").unwrap_or(0));
        let proto = ProtoHdr::verif_from_parts(num(m, "xf") as u8, num(m, "op") as u8, num(m, "xid") as u16, num(m, "pid") as u16, num(m, "vid") as u16, num(m, "ack") as u32);
        let (Some(plain), Some(proto)) = (plain, proto) else {
            return "err BadFlags".into();
        };
        let mut hdr = PacketHdr::new();
        hdr.plain = plain;
        hdr.proto = proto;
        let mut pl = Vec::new();
        if let Some(sc) = m.get("sc") {
            let v: Vec<u64> = sc.split(':').map(|x| x.parse().unwrap_or(0)).collect();
            if v.len() == 3 {
                pl.extend_from_slice(&(v[0] as u16).to_le_bytes());
                pl.extend_from_slice(&(v[1] as u32).to_le_bytes());
                pl.extend_from_slice(&(v[2] as u16).to_le_bytes());
            }
        }
        pl.extend_from_slice(&payload(num(m, "pl") as usize, num(m, "ps")));
        let pre = m.get("k").map(|s| s == "pre").unwrap_or(false);
        let crypto = self.crypto;
        let r = catch_unwind(AssertUnwindSafe(|| -> Result<Vec<u8>, String> {
            if pre {
                sess.verif_pre_send(&mut hdr).map_err(|e| err_name(&e))?;
            }
            let mut buf = vec![0u8; 2048];
            let mut wb = WriteBuf::new(&mut buf);
            wb.reserve(PacketHdr::HDR_RESERVE).map_err(|e| err_name(&e))?;
            wb.append(&pl).map_err(|e| err_name(&e))?;
            sess.verif_encode(crypto, &hdr, &mut wb).map_err(|e| err_name(&e))?;
            Ok(wb.as_slice().to_vec())
        }));
        match r {
            Ok(Ok(d)) => {
                let h = hex(&d);
                self.dgs.insert(name.to_string(), d);
                format!("dg {}", h)
            }
            Ok(Err(e)) => format!("err {}", e),
            Err(_) => "panic".into(),
        }
    }

    fn hdr_len(d: &[u8]) -> Option<usize> {
        let mut c = d.to_vec();
        let mut pb = ParseBuf::new(&mut c);
        let mut h = PlainHdr::new();
        h.decode(&mut pb).ok()?;
        Some(pb.read_off())
    }

    fn mutate(&self, d: &[u8], m: &str) -> Option<Vec<u8>> {
        let mut d = d.to_vec();
        let mut it = m.splitn(3, ':');
        match it.next().unwrap_or("") {
            "none" => {}
            "flip" => {
                let bit: usize = it.next()?.parse().ok()?;
                if bit / 8 >= d.len() {
                    return None;
                }
                d[bit / 8] ^= 1 << (bit % 8);
            }
            "trunc" => {
                let n: usize = it.next()?.parse().ok()?;
                d.truncate(n);
            }
            "ext" => d.extend_from_slice(&unhex(it.next()?)),
            "xor" => {
                let off: usize = it.next()?.parse().ok()?;
                for (i, b) in unhex(it.next()?).iter().enumerate() {
                    if off + i < d.len() {
                        d[off + i] ^= b;
                    }
                }
            }
            "hdr" => {
                // the plain header of another datagram in front of this one's cipher text
                let other = self.dgs.get(it.next()?)?;
                let (ho, hd) = (Self::hdr_len(other)?, Self::hdr_len(&d)?);
                let mut n = other[..ho].to_vec();
                n.extend_from_slice(&d[hd..]);
                d = n;
            }
            _ => return None,
        }
        Some(d)
    }

    fn hdr_str(hdr: &PacketHdr) -> String {
        let p = hdr.plain.verif_parts();
        let x = hdr.proto.verif_parts();
        format!("{}:{}:{}:{}:{:x}:{:x}/{}:{}:{}:{}:{}:{}", p.0, p.1, p.2, p.3, p.4, p.5, x.0, x.1, x.2, x.3, x.4, x.5)
    }

    /// `<addr>|<key>|<plain>/<proto>|<payload>` of one datagram the node sent
    fn render_reply(&self, to: &Address, data: &[u8]) -> String {
        let mut c = data.to_vec();
        let mut hdr = PacketHdr::new();
        {
            let mut pb = ParseBuf::new(&mut c);
            if hdr.plain.decode(&mut pb).is_err() {
                return format!("{}|?|unparsable|{}", addr_str(to), hex(data));
            }
            if !hdr.plain.is_encrypted() {
                return match hdr.decode_remaining(self.crypto, None, 0, &mut pb) {
                    Ok(()) => format!("{}|-|{}|{}", addr_str(to), Self::hdr_str(&hdr), hex(pb.as_slice())),
                    Err(_) => format!("{}|-|unparsable|{}", addr_str(to), hex(data)),
                };
            }
        }
        for (name, k, node) in &self.keys {
            let mut c = data.to_vec();
            let mut pb = ParseBuf::new(&mut c);
            let mut hdr = PacketHdr::new();
            if hdr.plain.decode(&mut pb).is_err() {
                continue;
            }
            let mut ck = CanonAeadKey::new();
            ck.load_from_array(k);
            if hdr.decode_remaining(self.crypto, Some(ck.reference()), *node, &mut pb).is_ok() {
                return format!("{}|{}|{}|{}", addr_str(to), name, Self::hdr_str(&hdr), hex(pb.as_slice()));
            }
        }
        let p = hdr.plain.verif_parts();
        format!("{}|?|{}:{}:{}:{}:{:x}:{:x}/?|-", addr_str(to), p.0, p.1, p.2, p.3, p.4, p.5)
    }

    fn op_r(&mut self, full: bool, name: &str, m: &HashMap<String, String>, out: &mut Out) -> String {
        let Some(d) = self.dgs.get(name) else {
            return "skip".into();
        };
        let Some(d) = self.mutate(d, st(m, "m", "none")) else {
            return "skip".into();
        };
        let runner = TransportRunner::new(self.matter, self.crypto);
        let from = addr(st_(m));
        let mut cap = Capture(Vec::new());
        let r = catch_unwind(AssertUnwindSafe(|| {
            if full {
                embassy_futures::block_on(runner.verif_handle_rx_datagram(from, &d, &mut cap, |res, hdr, pl| match res {
                    Ok(true) => format!("deliver h={} p={}", Self::hdr_str(hdr), hex(pl)),
                    Ok(false) => "consumed".to_string(),
                    Err(e) => format!("fail:{}", err_name(&e)),
                }))
            } else {
                runner.verif_decode_datagram(from, &d, |res, hdr, pl| match res {
                    Ok(new) => format!("ok:{} h={} p={}", if new { "new" } else { "old" }, Self::hdr_str(hdr), hex(pl)),
                    Err(e) => format!("err:{}", err_name(&e)),
                })
            }
        }));
        let mut s = match r {
            Ok(Ok(s)) => s,
            Ok(Err(e)) => format!("err:{}", err_name(&e)),
            Err(_) => "panic".into(),
        };
        out.stat(&format!("res_{}", s.split_whitespace().next().unwrap_or("").replace(':', "_")), 1);
        let snaps = self.snapshots();
        let _ = write!(s, " T={}", now_ms().saturating_sub(self.t0));
        let _ = write!(
            s,
            " S={}",
            if snaps.is_empty() { "-".to_string() } else { snaps.iter().map(|x| format!("{}:{}", x.0, x.2)).collect::<Vec<_>>().join(",") }
        );
        let _ = write!(s, " L={}", if snaps.is_empty() { "-".to_string() } else { snaps.iter().map(|x| x.3.to_string()).collect::<Vec<_>>().join(",") });
        let (gsum, gh) = self.gstore();
        let _ = write!(s, " G={}", gh);
        let mut now: HashMap<usize, String> = HashMap::new();
        for (i, (o, sum, h, _)) in snaps.iter().enumerate() {
            if self.prev.get(o) != Some(h) {
                let _ = write!(s, " C{}={}", i, sum);
            }
            now.insert(*o, h.clone());
        }
        self.prev = now;
        if gh != self.prev_g {
            let _ = write!(s, " GS={}", gsum);
            self.prev_g = gh;
        }
        if !cap.0.is_empty() {
            out.stat("replies", cap.0.len() as u64);
            let v: Vec<String> = cap.0.iter().map(|(a, d)| self.render_reply(a, d)).collect();
            let _ = write!(s, " R={}", v.join(";"));
        }
        s
    }
}

fn st_(m: &HashMap<String, String>) -> &str {
    st(m, "a", "0")
}

fn run_case<C: Crypto>(w: &mut World<C>, out: &mut Out, case: &Case) {
    out.case(case.id, &case.kind);
    w.reset();
    let (mut acc, mut rej) = (false, false);
    for op in &case.ops {
        let m = kv(op);
        let mut words = op.split_whitespace();
        let o = match words.next().unwrap_or("") {
            "f" => w.op_f(words.next().unwrap_or("")),
            "ks" => w.op_ks(&m),
            "gm" => w.op_gm(&m),
            "tick" => {
                MockDriver::get().advance(Duration::from_millis(words.next().and_then(|x| x.parse().ok()).unwrap_or(1)));
                "ok".into()
            }
            "s" => w.op_s(&m),
            "t" => w.op_t(words.next().unwrap_or(""), &m),
            "x" => w.op_x(words.next().unwrap_or(""), &m),
            k @ ("r" | "h") => {
                let o = w.op_r(k == "h", words.next().unwrap_or(""), &m, out);
                if o.starts_with("ok") || o.starts_with("deliver") {
                    acc = true
                } else if o.starts_with("err") || o.starts_with("consumed") {
                    rej = true
                }
                o
            }
            _ => "skip".into(),
        };
        out.op(op, &o);
    }
    if acc && rej {
        out.buf.push_str("#nt\n");
    }
}

// ------------------------------------------------------------------------------------------ generator

#[derive(Clone)]
struct SessCfg {
    a: String,
    m: String,
    ls: u64,
    ps: u64,
    ln: u64,
    pn: Option<u64>,
    dk: u64,
    ek: u64,
    tx: u64,
    ex: Vec<(u64, bool)>,
    expired: bool,
}

impl SessCfg {
    fn line(&self, head: &str) -> String {
        let mut s = format!(
            "{} a={} m={} ls={} ps={} ln={:x} pn={} dk={} ek={} tx={}",
            head,
            self.a,
            self.m,
            self.ls,
            self.ps,
            self.ln,
            self.pn.map(|n| format!("{:x}", n)).unwrap_or("-".into()),
            self.dk,
            self.ek,
            self.tx
        );
        if !self.ex.is_empty() {
            let v: Vec<String> = self.ex.iter().map(|(id, i)| format!("{}{}", id, if *i { "I" } else { "R" })).collect();
            let _ = write!(s, " ex={}", v.join(","));
        }
        if self.expired {
            s.push_str(" expired=1");
        }
        s
    }
    /// the peer's end of this session
    fn mirror(&self, peer_addr: &str) -> SessCfg {
        SessCfg {
            a: peer_addr.to_string(),
            m: self.m.clone(),
            ls: self.ps,
            ps: self.ls,
            ln: self.pn.unwrap_or(0),
            pn: if self.ln != 0 || self.m != "N" { Some(self.ln) } else { None },
            dk: self.ek,
            ek: self.dk,
            tx: 0,
            ex: vec![],
            expired: false,
        }
    }
}

fn node_id(r: &mut Rng) -> u64 {
    match r.below(6) {
        0 => 1,
        1 => 0xFFFF_FFFF_FFFF_FFFE,
        2 => 0x0102_0304_0506_0708,
        3 => r.range(2, 255),
        _ => r.next() | 1,
    }
}

fn sid(r: &mut Rng) -> u64 {
    match r.below(8) {
        0 => 1,
        1 => 2,
        2 => 0xFFFF,
        3 => *r.pick(&[4u64, 16, 256, 0x8000]),
        _ => r.range(1, 0xFFFF),
    }
}

struct XSpec {
    k: &'static str,
    pf: u64,
    sid: String,
    sf: u64,
    ctr: u64,
    src: u64,
    dst: u64,
    xf: u64,
    op: u64,
    xid: u64,
    pid: u64,
    vid: u64,
    ack: u64,
    pl: u64,
    ps: u64,
    sc: Option<String>,
}

impl XSpec {
    fn new(ps: u64) -> XSpec {
        XSpec { k: "pre", pf: 0, sid: "0".into(), sf: 0, ctr: 0, src: 0, dst: 0, xf: 0, op: 0, xid: 0, pid: 0, vid: 0, ack: 0, pl: 0, ps, sc: None }
    }
    fn line(&self, dg: &str, t: &str) -> String {
        let mut s = format!(
            "x {} t={} k={} pf={} sid={} sf={} ctr={} src={:x} dst={:x} xf={} op={} xid={} pid={} vid={} ack={} pl={} ps={}",
            dg, t, self.k, self.pf, self.sid, self.sf, self.ctr, self.src, self.dst, self.xf, self.op, self.xid, self.pid, self.vid, self.ack, self.pl, self.ps
        );
        if let Some(sc) = &self.sc {
            let _ = write!(s, " sc={}", sc);
        }
        s
    }
}

fn ctr_val(r: &mut Rng) -> u64 {
    match r.below(6) {
        0 => 0,
        1 => 0xFFFF_FFFF,
        2 => r.range(1, 40),
        _ => r.below(1 << 32),
    }
}

fn proto_part(r: &mut Rng, x: &mut XSpec, out: &mut Out) {
    // exchange flags: initiator mostly (so that a new exchange is opened), ack / reliable / vendor / secex freely
    let mut xf = 0u64;
    if r.chance(4, 5) {
        xf |= 1;
    }
    if r.chance(1, 3) {
        xf |= 2;
        out.stat("shape_ack", 1);
    }
    if r.chance(1, 2) {
        xf |= 4;
    }
    if r.chance(1, 5) {
        xf |= 8;
        out.stat("shape_secex", 1);
    }
    if r.chance(1, 4) {
        xf |= 16;
        out.stat("shape_vendor", 1);
    }
    x.xf = xf;
    x.op = match r.below(8) {
        0 => 0x10,
        1 => 0x40,
        2 => 0x20,
        3 => 0x00,
        _ => r.range(1, 11),
    };
    x.pid = if x.op >= 0x10 || x.op == 0 { if r.chance(4, 5) { 0 } else { 1 } } else { *r.pick(&[1u64, 1, 1, 2, 0]) };
    x.xid = if r.chance(1, 4) { *r.pick(&[0u64, 1, 0xFFFF]) } else { r.below(1 << 16) };
    x.vid = if xf & 16 != 0 { r.below(1 << 16) } else { 0 };
    x.ack = if xf & 2 != 0 { ctr_val(r) } else { 0 };
}

fn payload_len(r: &mut Rng, thorough: bool, out: &mut Out) -> u64 {
    let max = 1232 - 26 - 12 - 16; // MAX_TX_BUF_SIZE - plain - proto - tag
    let v = match r.below(20) {
        0 => 0,
        1 => 1,
        2..=3 => r.range(15, 17),
        4 => {
            if thorough && r.chance(1, 4) {
                max
            } else {
                r.range(200, 400)
            }
        }
        _ => r.range(0, 48),
    };
    out.stat(if v == 0 { "payload_0" } else if v <= 48 { "payload_small" } else if v < max { "payload_mid" } else { "payload_max" }, 1);
    v
}

fn gen_case(r: &mut Rng, thorough: bool, out: &mut Out) -> (String, Vec<String>) {
    let mut ops: Vec<String> = Vec::new();
    let mode = match r.below(10) {
        0..=3 => "P".to_string(),
        4..=7 => "C".to_string(),
        8 => format!("G{}", r.range(1, 0xFFF0)),
        _ => "P".to_string(),
    };
    out.stat(&format!("mode_{}", &mode[..1]), 1);
    // address kind of the peer: mostly UDP; TCP / BTP (reliable transports), IPv4 and IPv4-mapped IPv6
    let kind = match r.below(10) {
        0 => "t",
        1 => "b",
        2 => "v",
        3 => "m",
        _ => "",
    };
    out.stat(&format!("addr_kind_{}", if kind.is_empty() { "udp6" } else { kind }), 1);
    let peer_n = r.range(1, 3);
    let peer_addr = format!("{}{}", kind, peer_n);
    // the delivery entry point: `decode_packet` alone or the whole `handle_rx_packet`
    let rk = if r.chance(1, 2) { "h" } else { "r" };
    out.stat(&format!("entry_{}", rk), 1);
    // the receiver's session under test
    let mut rx = SessCfg {
        a: peer_addr.clone(),
        m: mode.clone(),
        ls: sid(r),
        ps: sid(r),
        ln: if mode == "P" { 0 } else { node_id(r) },
        pn: if mode == "P" { if r.chance(1, 4) { None } else { Some(0) } } else { Some(node_id(r)) },
        dk: 1,
        ek: 2,
        tx: r.below(1 << 28),
        ex: vec![],
        expired: r.chance(1, 25),
    };
    if mode.starts_with('G') {
        // a group session has one key and one session id for both directions
        rx.ek = rx.dk;
        rx.ps = rx.ls;
    }
    if r.chance(1, 3) {
        for _ in 0..r.range(1, 3) {
            rx.ex.push((r.below(1 << 16), r.chance(1, 2)));
        }
    }
    // further sessions in the table: other keys, same or other peer, sometimes the same local id on another address
    let mut table = vec![rx.clone()];
    let n_other = r.below(3);
    for j in 0..n_other {
        let mut o = SessCfg {
            a: if r.chance(1, 2) { peer_addr.clone() } else { format!("{}{}", *r.pick(&["", "", "t", "b", "v", "m"]), r.range(1, 3)) },
            m: (*r.pick(&["P", "C", "C", "N"])).to_string(),
            ls: if r.chance(1, 3) { rx.ls ^ (1 << r.below(16)) } else { sid(r) },
            ps: sid(r),
            ln: node_id(r),
            pn: Some(node_id(r)),
            dk: 10 + 2 * j,
            ek: 11 + 2 * j,
            tx: r.below(1 << 28),
            ex: vec![],
            expired: false,
        };
        if o.m == "N" {
            o.ls = 0;
            o.ps = 0;
            o.pn = if r.chance(1, 2) { Some(node_id(r)) } else { None };
        }
        if o.ls == 0 && o.m != "N" {
            o.ls = 7;
        }
        if o.a == rx.a && o.ls == rx.ls {
            o.ls = (rx.ls % 0xFFFE) + 1;
        }
        table.push(o);
    }
    // the session under test is not always first in the table
    let pos = r.below(table.len() as u64) as usize;
    table.swap(0, pos);
    for s in &table {
        ops.push(s.line("s"));
    }
    out.stat(&format!("table_size_{}", table.len()), 1);

    // senders: the mirror, and the transplants
    let good = rx.mirror("9");
    ops.push(good.line("t good"));
    let mut senders: Vec<(&str, SessCfg)> = Vec::new();
    {
        let mut s = good.clone();
        s.ek = 40; // some other key
        senders.push(("wrongkey", s));
        let mut s = good.clone();
        s.ek = rx.ek; // what the receiver itself would send: opposite direction
        senders.push(("reflect", s));
        let mut s = good.clone();
        s.ln = good.ln ^ (1u64 << r.below(64)); // another source node id
        if s.ln == 0 {
            s.ln = 5;
        }
        senders.push(("othernode", s));
        let mut s = good.clone();
        s.m = if mode.starts_with('G') { "C".into() } else { format!("G{}", r.range(1, 0xFFF0)) };
        senders.push(("othermode", s));
        if table.len() > 1 {
            // the mirror of another session of the table, but addressed to the session under test
            let o = &table[if pos == 0 { 1 } else { 0 }];
            let mut s = o.mirror("9");
            s.ps = rx.ls;
            senders.push(("othersess", s));
        }
    }
    for (n, s) in &senders {
        ops.push(s.line(&format!("t {}", n)));
    }

    // datagrams
    let n_dg = r.range(1, 3);
    let mut dgs: Vec<(String, u64)> = Vec::new(); // name, total length estimate
    let mut next_ctr = ctr_val(r).min(0xFFFF_FF00);
    for i in 0..n_dg {
        let mut x = XSpec::new(r.below(1000));
        proto_part(r, &mut x, out);
        x.pl = payload_len(r, thorough, out);
        if x.op == 0x40 && r.chance(3, 4) {
            // a status report: CloseSession and near misses (other code, other protocol id, no `GeneralCode`)
            x.sc = Some((*r.pick(&["0:0:3", "0:0:3", "0:0:5", "17:0:3", "0:1:3", "1:0:3", "8:0:4"])).to_string());
            out.stat("status_report_payload", 1);
        }
        let is_group = mode.starts_with('G');
        if is_group || r.chance(1, 2) {
            // header shape chosen here, not by pre_send
            x.k = "raw";
            x.sid = good.ps.to_string();
            x.ctr = next_ctr;
            next_ctr += r.range(1, 3);
            let mut pf = 0u64;
            if is_group || r.chance(1, 3) {
                pf |= 4;
                x.src = good.ln;
            }
            match r.below(if is_group { 3 } else { 6 }) {
                0 => {
                    pf |= 1;
                    x.dst = rx.ln;
                }
                1 => {
                    pf |= 2;
                    x.dst = r.below(1 << 16);
                }
                2 if !is_group => {
                    pf |= 3;
                }
                _ => {}
            }
            if is_group && pf & 3 == 0 {
                pf |= 2;
                x.dst = 0x1234;
            }
            x.pf = pf;
            let mut sf = 0u64;
            if is_group {
                sf |= 1;
            }
            if r.chance(1, 8) {
                sf |= 0x20;
            }
            if r.chance(1, 6) {
                sf |= 0x40;
            }
            if r.chance(1, 10) {
                sf |= 0x80;
            }
            x.sf = sf;
            out.stat("enc_raw", 1);
            out.stat(&format!("shape_pf_{}", pf), 1);
        } else {
            out.stat("enc_pre", 1);
        }
        let name = format!("d{}", i);
        ops.push(x.line(&name, "good"));
        // exact length: plain header (pre_send on a PASE/CASE session emits neither node id) + protocol header + payload + tag
        let hl = if x.k == "raw" { 8 + if x.pf & 4 != 0 { 8 } else { 0 } + match x.pf & 3 { 1 => 8, 2 => 2, _ => 0 } } else { 8 };
        let xl = 6 + if x.xf & 16 != 0 { 2 } else { 0 } + if x.xf & 2 != 0 { 4 } else { 0 };
        let est = hl + xl + x.pl + 16;
        dgs.push((name, est));
    }

    // deliveries. First every single-bit flip of d0 (state must not move), then the clean datagrams,
    // replays, transplants, truncations / extensions, then flips again on a used session.
    let (d0, est0) = dgs[0].clone();
    let max_bits = est0 * 8 + 8; // one byte beyond the end => `skip`
    let exhaustive = est0 <= 120 || thorough;
    if exhaustive {
        for b in 0..max_bits {
            ops.push(format!("{} {} a={} m=flip:{}", rk, d0, peer_addr, b));
        }
        out.stat("flips_exhaustive_cases", 1);
    } else {
        // long datagram: every header / protocol-header / tag bit, a sample of the payload bits
        for b in 0..(40 * 8) {
            ops.push(format!("{} {} a={} m=flip:{}", rk, d0, peer_addr, b));
        }
        for _ in 0..200 {
            ops.push(format!("{} {} a={} m=flip:{}", rk, d0, peer_addr, r.below(max_bits)));
        }
        for b in (est0.saturating_sub(60) * 8)..max_bits {
            ops.push(format!("{} {} a={} m=flip:{}", rk, d0, peer_addr, b));
        }
    }
    // truncations and extensions
    for n in 0..(est0.min(70) + 1) {
        ops.push(format!("{} {} a={} m=trunc:{}", rk, d0, peer_addr, n));
    }
    for _ in 0..6 {
        ops.push(format!("{} {} a={} m=trunc:{}", rk, d0, peer_addr, r.below(est0 + 4)));
    }
    for e in ["00", "ff", "0000000000000000000000000000000000", "a5a5a5"] {
        ops.push(format!("{} {} a={} m=ext:{}", rk, d0, peer_addr, e));
    }
    // from another address
    // from other addresses: another port, the same port over another transport, and the canonical twin
    // (IPv4 <-> IPv4-mapped IPv6: `is_for_rx` compares canonically, so this one must still be accepted)
    ops.push(format!("{} {} a={}{} m=none", rk, d0, kind, (peer_n % 3) + 1));
    let twin = match kind {
        "t" => format!("{}", peer_n),
        "b" => format!("t{}", peer_n),
        "v" => format!("m{}", peer_n),
        "m" => format!("v{}", peer_n),
        _ => format!("t{}", peer_n),
    };
    ops.push(format!("{} {} a={} m=flip:{}", rk, d0, twin, r.below(64)));
    if r.chance(1, 2) {
        ops.push(format!("{} {} a={} m=none", rk, d0, twin));
    }
    // transplants: same header fields, produced by a session that differs in one respect
    for (n, _) in &senders {
        let mut x = XSpec::new(3);
        x.xf = 5;
        x.op = 2;
        x.xid = 77;
        x.pid = 1;
        x.pl = r.range(0, 20);
        if *n == "othermode" || mode.starts_with('G') {
            x.k = "raw";
            x.sid = good.ps.to_string();
            x.ctr = next_ctr;
            next_ctr += 1;
            x.pf = if mode.starts_with('G') { 6 } else { 0 };
            x.src = good.ln;
            x.dst = 0x1234;
            x.sf = if mode.starts_with('G') { 1 } else { 0 };
        }
        let name = format!("t_{}", n);
        ops.push(x.line(&name, n));
        ops.push(format!("{} {} a={} m=none", rk, name, peer_addr));
        out.stat(&format!("transplant_{}", n), 1);
    }
    // the clean datagrams (shuffled order now and then), each followed by a replay
    let mut order: Vec<usize> = (0..dgs.len()).collect();
    if r.chance(1, 3) {
        order.reverse();
    }
    for i in &order {
        ops.push(format!("{} {} a={} m=none", rk, dgs[*i].0, peer_addr));
        if r.chance(1, 2) {
            ops.push(format!("{} {} a={} m=none", rk, dgs[*i].0, peer_addr));
        }
    }
    // header of one datagram in front of the cipher text of another
    if dgs.len() >= 2 {
        ops.push(format!("{} {} a={} m=hdr:{}", rk, dgs[0].0, peer_addr, dgs[1].0));
        ops.push(format!("{} {} a={} m=hdr:{}", rk, dgs[1].0, peer_addr, dgs[0].0));
    }
    // a fresh datagram, flipped on the now used session (sample), then delivered
    {
        let mut x = XSpec::new(9);
        x.pl = r.range(0, 24);
        proto_part(r, &mut x, out);
        if mode.starts_with('G') {
            x.k = "raw";
            x.sid = good.ps.to_string();
            x.ctr = next_ctr + 5;
            x.pf = 6;
            x.src = good.ln;
            x.dst = 0x1234;
            x.sf = 1;
        }
        ops.push(x.line("late", "good"));
        for _ in 0..40 {
            ops.push(format!("{} late a={} m=flip:{}", rk, peer_addr, r.below(60 * 8)));
        }
        ops.push(format!("{} late a={} m=xor:{}:{}", rk, peer_addr, r.below(40), hex(&r.bytes(3))));
        ops.push(format!("{} late a={} m=none", rk, peer_addr));
        ops.push(format!("{} late a={} m=none", rk, peer_addr));
    }
    ("m".to_string() + &mode[..1], ops)
}

/// all single-bit flips + truncations + extensions of one datagram, delivered from `a`
fn push_mutations(ops: &mut Vec<String>, r: &mut Rng, rk: &str, dg: &str, a: &str, len: u64) {
    for b in 0..(len * 8 + 8) {
        ops.push(format!("{} {} a={} m=flip:{}", rk, dg, a, b));
    }
    for n in 0..(len + 1) {
        ops.push(format!("{} {} a={} m=trunc:{}", rk, dg, a, n));
    }
    for e in ["00", "ff", "a5a5a5"] {
        ops.push(format!("{} {} a={} m=ext:{}", rk, dg, a, e));
    }
    ops.push(format!("{} {} a={} m=xor:{}:{}", rk, dg, a, r.below(len), hex(&r.bytes(3))));
}

/// Group receive with real key material: the key-derivation branch of `get_or_create_for_group_rx`.
fn gen_group_case(r: &mut Rng, out: &mut Out) -> (String, Vec<String>) {
    let mut ops: Vec<String> = Vec::new();
    let rk = if r.chance(1, 2) { "h" } else { "r" };
    out.stat(&format!("entry_{}", rk), 1);
    // fabrics 0 and 1 (different node ids), fabric 2 = a second fabric in which this node has fabric 0's node id
    let three = r.chance(1, 3);
    ops.push("f 0".into());
    ops.push("f 1".into());
    if three {
        ops.push("f 2".into());
    }
    let mut ek = || 100 + r.below(60000);
    let (e1, e2, e3, e4, e9) = (ek(), ek(), ek(), ek(), ek());
    let g1 = r.range(1, 0xFFF0);
    let g2 = if g1 == 7 { 8 } else { 7 };
    let two_epochs = r.chance(1, 2);
    let collide = r.chance(1, 8);
    let same_epoch_other_fabric = r.chance(1, 2);
    out.stat(if collide { "grp_sid_collision" } else { "grp_no_collision" }, 1);
    ops.push(format!("ks f=0 id=1 e={}{}", e1, if two_epochs { format!(",{}", e2) } else { String::new() }));
    ops.push(format!("ks f=0 id=2 e={}", if collide { format!("c:{}", e1) } else { e3.to_string() }));
    ops.push(format!("gm f=0 g={} ks=1", g1));
    ops.push(format!("gm f=0 g={} ks=2", g2));
    let both_sets_for_g1 = r.chance(1, 5);
    if both_sets_for_g1 {
        ops.push(format!("gm f=0 g={} ks=2", g1));
    }
    let f1e = if same_epoch_other_fabric { e1 } else { e4 };
    ops.push(format!("ks f=1 id=1 e={}", f1e));
    ops.push(format!("gm f=1 g={} ks=1", g1));
    if three {
        ops.push(format!("ks f=2 id=5 e={}", e4));
        ops.push(format!("gm f=2 g={} ks=5", g2));
    }
    // bystanders: ordinary secure sessions that must stay untouched
    let peer = format!("{}{}", *r.pick(&["", "", "", "v", "m"]), r.range(1, 3));
    let other_addr = format!("{}", r.range(4, 6));
    let n_by = r.below(3);
    for j in 0..n_by {
        let c = SessCfg {
            a: if r.chance(1, 2) { peer.clone() } else { other_addr.clone() },
            m: (*r.pick(&["P", "C"])).to_string(),
            ls: sid(r),
            ps: sid(r),
            ln: node_id(r),
            pn: Some(node_id(r)),
            dk: 10 + 2 * j,
            ek: 11 + 2 * j,
            tx: r.below(1 << 28),
            ex: if r.chance(1, 2) { vec![(r.below(1 << 16), false)] } else { vec![] },
            expired: false,
        };
        ops.push(c.line("s"));
    }
    let (s1, s2) = (node_id(r), node_id(r) ^ 0x10);
    let sender = |name: &str, gk: Option<(u64, u64)>, ln: u64| -> String {
        let mut l = format!("t {} a=9 m=G{} ls=0 ps=0 ln={:x} pn=- dk=40 ek=40 tx=0", name, g1, ln);
        if let Some((f, e)) = gk {
            let _ = write!(l, " gk={}:{}", f, e);
        }
        l
    };
    ops.push(sender("good", Some((0, e1)), s1));
    ops.push(sender("good2", Some((0, if two_epochs { e2 } else { e1 })), s1));
    ops.push(sender("g2key", Some((0, e3)), s1));
    ops.push(sender("f1key", Some((1, f1e)), s1));
    ops.push(sender("unknown", Some((0, e9)), s1));
    ops.push(sender("othernode", Some((0, e1)), s2));
    ops.push(sender("plainkey", None, s1));
    // the datagram under test: data or control, group- or unicast-addressed (MCSP style)
    let control = r.chance(1, 3);
    let unicast = control && r.chance(1, 2);
    out.stat(if control { if unicast { "grp_control_unicast" } else { "grp_control_group" } } else { "grp_data" }, 1);
    let c0 = match r.below(4) {
        0 => 0,
        1 => 0xFFFF_FFF0,
        _ => r.below(1 << 31),
    };
    let mk = |ctr: u64, sid: &str, dst_g: u64, src: u64, control: bool, unicast: bool, r: &mut Rng, fab_node: &str| -> XSpec {
        let mut x = XSpec::new(r.below(1000));
        x.k = "raw";
        x.sid = sid.to_string();
        x.ctr = ctr & 0xFFFF_FFFF;
        x.src = src;
        x.sf = if control { 0x41 } else { 0x01 };
        if unicast {
            x.pf = 4 | 1;
            x.dst = u64::from_str_radix(fab_node, 16).unwrap_or(0);
        } else {
            x.pf = 4 | 2;
            x.dst = dst_g;
        }
        x.xf = if r.chance(4, 5) { 1 } else { 0 } | if r.chance(1, 4) { 4 } else { 0 };
        if control {
            x.op = *r.pick(&[0u64, 1]);
            x.pid = 0;
        } else {
            x.op = 8;
            x.pid = 1;
        }
        x.xid = r.below(1 << 16);
        x.pl = r.range(0, 12);
        x
    };
    // the node ids of the pre-provisioned fabrics (see `fabrics()`)
    let n0 = format!("{:x}", FAB_NODES[0]);
    let x0 = mk(c0, "@good", g1, s1, control, unicast, r, &n0);
    let len0 = 8 + 8 + if unicast { 8 } else { 2 } + 6 + x0.pl + 16;
    ops.push(x0.line("d0", "good"));
    // mutations first: nothing may move (no session, no counter store entry)
    push_mutations(&mut ops, r, rk, "d0", &peer, len0);
    // transplants: (name, sender, claimed session id, destination group, source in the header)
    let tp: Vec<(&str, &str, &str, u64, u64)> = vec![
        ("t_g2key_sidgood", "g2key", "@good", g1, s1),     // another group's key under the right session id
        ("t_g2key_own", "g2key", "@g2key", g1, s1),        // another group's key, its own session id, addressed to g1
        ("t_g2_legit", "g2key", "@g2key", g2, s1),         // ... addressed to its own group: legitimate
        ("t_f1key_sidgood", "f1key", "@good", g1, s1),     // another fabric's key under the right session id
        ("t_f1_legit", "f1key", "@f1key", g1, s1),         // legitimate for fabric 1
        ("t_unknown_own", "unknown", "@unknown", g1, s1),  // an epoch key the node does not hold
        ("t_unknown_sidgood", "unknown", "@good", g1, s1),
        ("t_othernode", "othernode", "@good", g1, s1),     // encrypted by another source node, header says s1
        ("t_srcfield", "good", "@good", g1, s2),           // header names another source node than the nonce
        ("t_plainkey", "plainkey", "@good", g1, s1),       // not a group key at all
        ("t_good2", "good2", "@good2", g1, s1),            // the key set's second epoch key: legitimate
        ("t_wronggroup", "good", "@good", g2, s1),         // right key, addressed to the other group
    ];
    let mut ctr = c0 + 100;
    for (name, snd, sidref, g, src) in &tp {
        ctr += 1;
        let x = mk(ctr, sidref, *g, *src, control, unicast && *g == g1, r, &n0);
        ops.push(x.line(name, snd));
        ops.push(format!("{} {} a={} m=none", rk, name, peer));
        out.stat(&format!("transplant_{}", name), 1);
    }
    // the header of one in front of the cipher text of another
    ops.push(format!("{} d0 a={} m=hdr:t_wronggroup", rk, peer));
    ops.push(format!("{} t_g2_legit a={} m=hdr:d0", rk, peer));
    // the clean datagram: accepted (new session), replayed from the same and from another address
    if r.chance(1, 3) {
        ops.push(format!("tick {}", r.range(1, 50)));
    }
    ops.push(format!("{} d0 a={} m=none", rk, peer));
    ops.push(format!("{} d0 a={} m=none", rk, peer));
    ops.push(format!("{} d0 a={} m=none", rk, other_addr));
    // follow-ups of the same sender: next counter, an old counter, the same from elsewhere; all mutated first
    let x1 = mk(c0 + 1, "@good", g1, s1, control, unicast, r, &n0);
    let len1 = 8 + 8 + if unicast { 8 } else { 2 } + 6 + x1.pl + 16;
    ops.push(x1.line("d1", "good"));
    for _ in 0..60 {
        ops.push(format!("{} d1 a={} m=flip:{}", rk, other_addr, r.below(len1 * 8)));
    }
    ops.push(format!("{} d1 a={} m=none", rk, other_addr));
    ops.push(format!("{} d1 a={} m=none", rk, peer));
    let x2 = mk(c0.wrapping_sub(40), "@good", g1, s1, control, unicast, r, &n0);
    ops.push(x2.line("d_old", "good"));
    ops.push(format!("{} d_old a={} m=none", rk, format!("{}", r.range(7, 8))));
    // another sender node with the same key: its own counter space
    let x3 = mk(c0, "@good", g1, s2, control, unicast, r, &n0);
    ops.push(x3.line("d_s2", "othernode"));
    ops.push(format!("{} d_s2 a={} m=flip:{}", rk, peer, r.below(len0 * 8)));
    ops.push(format!("{} d_s2 a={} m=none", rk, peer));
    ((if control { "gc" } else { "gd" }).to_string(), ops)
}

/// A full session table: what an (un)authentic datagram may evict.
fn gen_full_table_case(r: &mut Rng, out: &mut Out) -> (String, Vec<String>) {
    let mut ops: Vec<String> = Vec::new();
    let rk = if r.chance(2, 3) { "h" } else { "r" };
    out.stat(&format!("entry_{}", rk), 1);
    ops.push("f 0".into());
    let e1 = 100 + r.below(60000);
    let g1 = r.range(1, 0xFFF0);
    ops.push(format!("ks f=0 id=1 e={}", e1));
    ops.push(format!("gm f=0 g={} ks=1", g1));
    // 16 sessions = MAX_SESSIONS of the default feature set; which of them are idle (no exchange), expired, how old
    let idle_mode = r.below(4); // 0: none idle, 1: one idle, 2: several idle, 3: several idle + one expired
    out.stat(&format!("full_idle_mode_{}", idle_mode), 1);
    let n = if r.chance(1, 6) { 15 } else { 16 };
    let mut cfgs: Vec<SessCfg> = Vec::new();
    for j in 0..n {
        let idle = match idle_mode {
            0 => false,
            1 => j == 5,
            _ => r.chance(1, 3),
        };
        let c = SessCfg {
            a: format!("{}", 1 + j % 3),
            m: (*r.pick(&["P", "C", "C", "N"])).to_string(),
            ls: 100 + j,
            ps: sid(r),
            ln: node_id(r),
            pn: Some(node_id(r)),
            dk: 10 + 2 * j,
            ek: 11 + 2 * j,
            tx: r.below(1 << 28),
            ex: if idle { vec![] } else { vec![(r.below(1 << 16), r.chance(1, 2))] },
            expired: idle_mode == 3 && j == 9,
        };
        let mut c = c;
        if c.m == "N" {
            c.ls = 0;
            c.ps = 0;
        }
        ops.push(c.line("s"));
        if r.chance(1, 2) {
            ops.push(format!("tick {}", r.range(1, 20)));
        }
        cfgs.push(c);
    }
    ops.push(format!("tick {}", r.range(1, 20)));
    // a secure session of the table and its mirror: deliveries to it refresh its `last_use`
    let tgt = cfgs.iter().position(|c| c.m != "N").unwrap_or(0);
    let rx = cfgs[tgt].clone();
    let good = rx.mirror("9");
    ops.push(good.line("t good"));
    let mut x = XSpec::new(5);
    x.xf = 5;
    x.op = 2;
    x.xid = 4242;
    x.pid = 1;
    x.pl = 3;
    ops.push(x.line("u0", "good"));
    for _ in 0..20 {
        ops.push(format!("{} u0 a={} m=flip:{}", rk, rx.a, r.below(33 * 8)));
    }
    // group sender
    let s1 = node_id(r);
    ops.push(format!("t grp a=9 m=G{} ls=0 ps=0 ln={:x} pn=- dk=40 ek=40 tx=0 gk=0:{}", g1, s1, e1));
    let mut gx = XSpec::new(6);
    gx.k = "raw";
    gx.sid = "@grp".into();
    gx.ctr = r.below(1 << 31);
    gx.src = s1;
    gx.sf = 1;
    gx.pf = 6;
    gx.dst = g1;
    gx.xf = 1;
    gx.op = 8;
    gx.pid = 1;
    gx.xid = 99;
    gx.pl = 2;
    ops.push(gx.line("g0", "grp"));
    // an unsecured session request (PBKDFParamRequest / Sigma1) and an unsecured non-request
    ops.push("t plain a=9 m=N ls=0 ps=0 ln=0 pn=- dk=0 ek=0 tx=0".to_string());
    let mut px = XSpec::new(7);
    px.k = "raw";
    px.pf = if r.chance(3, 4) { 4 } else { 0 };
    px.src = 0x7777;
    px.ctr = r.below(1 << 31);
    px.xf = if r.chance(1, 2) { 5 } else { 1 };
    px.op = *r.pick(&[0x20u64, 0x30, 0x20, 0x22]);
    px.pid = 0;
    px.xid = 17;
    px.pl = 8;
    ops.push(px.line("p0", "plain"));
    // order of events varies
    let mut evs: Vec<String> = vec![
        format!("{} g0 a=6 m=flip:{}", rk, r.below(40 * 8)),
        format!("{} g0 a=6 m=none", rk),
        format!("{} p0 a=7 m=none", rk),
        format!("{} p0 a=7 m=flip:{}", rk, 8 * 8 + r.below(8)),
        format!("{} u0 a={} m=none", rk, rx.a),
        format!("tick {}", r.range(1, 9)),
        format!("{} g0 a=5 m=none", rk),
        format!("{} p0 a=8 m=none", rk),
    ];
    for i in (1..evs.len()).rev() {
        let j = r.below(i as u64 + 1) as usize;
        evs.swap(i, j);
    }
    ops.extend(evs);
    ("full".to_string(), ops)
}

const RULE: &str = "three case families. (1) unicast: one receiving node with 1-3 installed sessions (PASE/CASE/group/unsecured) whose peer is a UDP (IPv6, IPv4, IPv4-mapped), TCP or BTP address, sending sessions (the mirror of the session under test and transplants: other key, opposite direction, other source node id, other mode, mirror of another session of the table) and 1-3 datagrams encoded by the real pre_send/encode (header shapes: source/destination node id present or not, groupcast/unicast/both DSIZ bits, MSG_EXT/CONTROL/PRIVACY, ack/vendor/secex/reliable/initiator; payload 0..max; status reports incl. CloseSession); deliveries to decode_packet (r) or to handle_rx_packet (h): every single-bit flip over the whole first datagram (exhaustive; long datagrams in the quick tier: all header/protocol-header/tag bits + a sample), every truncation up to 70 bytes, extensions, other peer addresses (other port, other transport, canonical twin), the transplants, the clean datagrams, replays, header splices. (2) group: a node with 2-3 real fabrics holding group key sets (1-2 epoch keys, two groups, optionally two key sets for one group, the same epoch key in two fabrics, colliding group session ids), group data / control / unicast-addressed control datagrams encrypted with the real operational keys: all single-bit flips, truncations, extensions, transplants between groups / fabrics / source nodes / unknown keys, header splices, then clean deliveries, replays from the same and other addresses, follow-up and old counters. (3) full table: 15-16 sessions (idle / busy / expired, aged by clock ticks) and authentic / mutated group messages, unsecured session requests and unicast datagrams in random order (eviction, Busy, NoSpaceSessions); non-trivial = at least one delivery accepted and one rejected; distinct = by operation list";

/// node ids of the pre-provisioned fabrics 0..2 (fabric 2 shares fabric 0's node id)
const FAB_NODES: [u64; 3] = [0x1111_0000_0000_00A0, 0x2222_0000_0000_00B0, 0x1111_0000_0000_00A0];

fn fabrics<C: Crypto>(matter: &Matter<'_>, crypto: &C) -> Vec<FabInfo> {
    FAB_NODES.iter().enumerate().map(|(i, n)| group::provision(matter, crypto, 1 + i as u64, *n).expect("fabric provisioning")).collect()
}

fn world<'a, C: Crypto>(matter: &'a Matter<'a>, crypto: &'a C, fabs: &'a [FabInfo]) -> World<'a, C> {
    World {
        matter,
        crypto,
        fabs,
        installed: vec![],
        declared: vec![],
        ords: HashMap::new(),
        senders: HashMap::new(),
        sender_sid: HashMap::new(),
        dgs: HashMap::new(),
        prev: HashMap::new(),
        prev_g: String::new(),
        keys: vec![],
        coll: HashMap::new(),
        t0: 0,
    }
}

pub fn gen(a: &Args) -> String {
    let mut r = Rng::new(a.seed);
    let mut out = Out::default();
    out.buf.push_str(&format!("#rule {}\n", RULE));
    let matter = Matter::new(&TEST_DEV_DET, TEST_DEV_COMM, &TEST_DEV_ATT, 0);
    let crypto = test_only_crypto();
    let fabs = fabrics(&matter, &crypto);
    let mut w = world(&matter, &crypto, &fabs);
    let n_cases = if a.thorough { 1500 } else { 160 };
    for id in 0..n_cases {
        let mut cr = r.fork();
        let (kind, ops) = match id % 8 {
            1 | 5 => gen_group_case(&mut cr, &mut out),
            3 => gen_full_table_case(&mut cr, &mut out),
            _ => gen_case(&mut cr, a.thorough, &mut out),
        };
        run_case(&mut w, &mut out, &Case { id, kind, ops });
    }
    out.finish()
}

pub fn replay(a: &Args) -> String {
    let text = std::fs::read_to_string(a.input.as_ref().expect("--in")).expect("read input");
    let mut out = Out::default();
    let matter = Matter::new(&TEST_DEV_DET, TEST_DEV_COMM, &TEST_DEV_ATT, 0);
    let crypto = test_only_crypto();
    let fabs = fabrics(&matter, &crypto);
    let mut w = world(&matter, &crypto, &fabs);
    for c in parse_cases(&text) {
        run_case(&mut w, &mut out, &c);
    }
    out.finish()
}
