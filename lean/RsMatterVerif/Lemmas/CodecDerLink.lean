import RsMatterVerif.Lemmas.CodecDer
import RsMatterVerif.Lemmas.CodecDerRead
import RsMatterVerif.Lemmas.CodecCertAsn1
/-!
# Link between the two DER readers of the C17 models (audit C17, concern 2)

`Model/Codec/Der.lean` has its own tree reader `parseDer` (the inverse used in `C17.cert_der_roundtrip`);
`Model/Codec/DerRead.lean` is the model of the reading layer of crate `der` 0.7.10 (`AnyRef::from_der`,
`AnyRef::decode`, `Header::decode`, `Length::decode`, the `while !is_finished() { AnyRef::decode }` loop),
which is what rs-matter's X.509 / CSR / CMS parsers are built on. This file relates them.

* `readTree` — a tree reader that uses **only** the `der`-crate model: `DerRd.fromDerAny` on the whole
  input, and for every value with a constructed tag `DerRd.seqItems` (`SliceReader::new(value)` +
  `while !is_finished() { AnyRef::decode }`) on the value octets, recursively. The recursion itself is
  specification-side glue (the `der` crate has no generic tree type); every octet is read by the model
  of the crate.
* `fromDerAny_enc_der`, `seqItems_encL` — on the encoding of a well-formed tree whose tags the crate
  knows, `AnyRef::from_der` returns `(tag, body)` and the item loop over the body returns exactly the
  children's `(tag, body)`.
* `readTree_enc` — hence `readTree d.enc = some d` (= `parseDer d.enc`).
* `readTree_sound`, `readTree_iff_parseDer` — on **all** byte strings within `Length::MAX`:
  `readTree l = some d ↔ parseDer l = some d ∧ d.known` (both readers accept canonical DER only; the
  `der` crate knows fewer tags than the model's reader admits, that is the only difference).
* `cert_view_known`, `cert_der_roundtrip_derrd` — the certificate round trip with `readTree` as the reader.
-/
namespace Codec.Der
open Codec

/-! ## tag, body, the tags the `der` crate knows -/

def Der.tag : Der → Nat
  | .prim t _ => t
  | .cons t _ => t

/-- the value octets: the content of a primitive, the concatenated encodings of the children of a
constructed value -/
def Der.body : Der → List Nat
  | .prim _ c => c
  | .cons _ cs => Der.encL cs

/-- what `AnyRef` holds of a value -/
def Der.hdr (d : Der) : Nat × List Nat := (d.tag, d.body)

/-- `Tag::try_from(u8)` succeeds -/
def tagKnown (t : Nat) : Bool :=
  match DerRd.tagOfByte t with
  | .ok _ => true
  | .error _ => false

theorem tagKnown_iff (t : Nat) : tagKnown t = true ↔ DerRd.tagOfByte t = .ok t := by
  unfold tagKnown
  cases h : DerRd.tagOfByte t with
  | error e => simp
  | ok x => simp [(DerRd.tagOfByte_ok h).1]

mutual
/-- every tag of the tree is one `Tag::try_from` of the `der` crate accepts -/
def Der.known : Der → Bool
  | .prim t _ => tagKnown t
  | .cons t cs => tagKnown t && Der.knownL cs
def Der.knownL : List Der → Bool
  | [] => true
  | d :: r => d.known && Der.knownL r
end

theorem Der.known_tag (d : Der) (h : d.known = true) : DerRd.tagOfByte d.tag = .ok d.tag := by
  cases d with
  | prim t c => exact (tagKnown_iff t).1 (by simpa [Der.known] using h)
  | cons t cs =>
    simp only [Der.known, Bool.and_eq_true] at h
    exact (tagKnown_iff t).1 h.1

theorem encLen_eq_rd (n : Nat) (h : n < 4294967296) : encLen n = DerRd.encLen n := by
  unfold encLen DerRd.encLen
  have : n / 16777216 % 256 = n / 16777216 := by omega
  rw [this]

theorem Der.WF.body_lt {d : Der} (h : d.WF) : d.body.length < 4294967296 := by
  cases d with
  | prim t c => exact h.2.2
  | cons t cs => exact h.2.2.1

theorem Der.enc_eq_encTlv (d : Der) (h : d.body.length < 4294967296) : d.enc = DerRd.encTlv d.tag d.body := by
  cases d with
  | prim t c => simp only [Der.enc, Der.tag, Der.body, DerRd.encTlv] at h ⊢; rw [encLen_eq_rd _ h]; simp
  | cons t cs => simp only [Der.enc, Der.tag, Der.body, DerRd.encTlv] at h ⊢; rw [encLen_eq_rd _ h]; simp

/-! ## the `der` crate reading layer on the encoding of a tree -/

/-- **`AnyRef::from_der` on the encoding of a tree** returns the tag octet and the value octets -/
theorem fromDerAny_enc_der (d : Der) (hw : d.WF) (hk : d.known = true) (hmax : d.enc.length ≤ DerRd.MAX_LEN) :
    DerRd.fromDerAny d.enc = .ok (d.tag, d.body) := by
  rw [Der.enc_eq_encTlv d hw.body_lt] at hmax ⊢
  exact DerRd.fromDerAny_enc (d.known_tag hk) hmax

/-- the `while !is_finished() { AnyRef::decode }` loop of a slice reader standing in front of the encodings
of a list of trees that fills the rest of the input: it returns their `(tag, body)` in order and ends at
the end of the input -/
theorem items_encL {bytes : List Nat} (hmax : bytes.length ≤ DerRd.MAX_LEN) :
    ∀ (cs : List Der) (pos fuel : Nat) (acc : List (Nat × List Nat)), Der.WFL cs → Der.knownL cs = true →
      bytes.drop pos = Der.encL cs → pos ≤ bytes.length → cs.length < fuel →
      DerRd.items fuel (.slice bytes pos) acc = .ok (acc.reverse ++ cs.map Der.hdr, .slice bytes bytes.length)
  | [], pos, fuel, acc, _, _, hd, hp, hf => by
    obtain ⟨fuel, rfl⟩ : ∃ k, fuel = k + 1 := ⟨fuel - 1, by omega⟩
    have hpe : pos = bytes.length := by
      have := congrArg List.length hd
      simp [Der.encL] at this; omega
    subst hpe
    have hwf : (DerRd.Rdr.slice bytes bytes.length).WF := ⟨Nat.le_refl _, hmax⟩
    unfold DerRd.items
    rw [DerRd.isFinished_ok hwf]
    simp [DerRd.Rdr.inputLen, DerRd.Rdr.position]
  | d :: r, pos, fuel, acc, hw, hk, hd, hp, hf => by
    obtain ⟨fuel, rfl⟩ : ∃ k, fuel = k + 1 := ⟨fuel - 1, by omega⟩
    simp only [Der.knownL, Bool.and_eq_true] at hk
    have hwf : (DerRd.Rdr.slice bytes pos).WF := ⟨hp, hmax⟩
    have hde : d.enc = DerRd.encTlv d.tag d.body := Der.enc_eq_encTlv d hw.1.body_lt
    have hd1 : bytes.drop pos = DerRd.encTlv d.tag d.body ++ Der.encL r := by rw [hd, Der.encL, hde]
    have hlen : pos + (DerRd.encTlv d.tag d.body).length + (Der.encL r).length = bytes.length := by
      have := congrArg List.length hd1
      simp only [List.length_drop, List.length_append] at this; omega
    have hpos : 0 < (DerRd.encTlv d.tag d.body).length := by simp [DerRd.encTlv]
    unfold DerRd.items
    rw [DerRd.isFinished_ok hwf]
    have hnf : ((DerRd.Rdr.slice bytes pos).inputLen - (DerRd.Rdr.slice bytes pos).position == 0) = false := by
      simp [DerRd.Rdr.inputLen, DerRd.Rdr.position]; omega
    simp only [hnf]
    rw [DerRd.anyDecode_enc hd1 (d.known_tag hk.1) hmax]
    simp only
    have hd2 : bytes.drop (pos + (DerRd.encTlv d.tag d.body).length) = Der.encL r := by
      rw [← List.drop_drop, hd1, List.drop_left]
    rw [items_encL hmax r _ fuel _ hw.2 hk.2 hd2 (by omega) (by simp at hf; omega)]
    simp [Der.hdr]

/-- **the item loop over the value octets of a constructed value** (`SliceReader::new(value)` +
`while !is_finished() { AnyRef::decode }`) yields exactly the children's `(tag, body)` -/
theorem seqItems_encL (cs : List Der) (hw : Der.WFL cs) (hk : Der.knownL cs = true)
    (hmax : (Der.encL cs).length ≤ DerRd.MAX_LEN) : DerRd.seqItems (Der.encL cs) = .ok (cs.map Der.hdr) := by
  unfold DerRd.seqItems DerRd.Rdr.new
  rw [DerRd.lenNew_of_le hmax]
  simp only [Bind.bind, Except.bind, Pure.pure, Except.pure]
  have hlen : cs.length < (Der.encL cs).length + 1 := by
    have := fuelL_le cs
    have : cs.length + 1 ≤ Der.fuelL cs := by
      clear this hw hk hmax
      induction cs with
      | nil => simp [Der.fuelL]
      | cons d r ih => simp only [Der.fuelL, List.length_cons]; omega
    have h2 : ∀ cs : List Der, 2 * cs.length ≤ (Der.encL cs).length := by
      intro cs
      induction cs with
      | nil => simp
      | cons d r ih => have := (fuel_le d).2; simp only [Der.encL, List.length_cons, List.length_append]; omega
    have := h2 cs
    omega
  rw [items_encL hmax cs 0 _ [] hw hk (by simp) (Nat.zero_le _) hlen]
  simp

/-! ## a tree reader made of the `der` crate model only -/

mutual
/-- the tree of an `AnyRef` (tag octet, value octets): a constructed tag → the items of the value, each read
again; a primitive tag → a leaf -/
def readNode : Nat → Nat → List Nat → Option Der
  | 0, _, _ => none
  | fuel + 1, tag, v =>
    if tagConstructed tag then
      match DerRd.seqItems v with
      | .ok its =>
        match readNodes fuel its with
        | some cs => some (.cons tag cs)
        | none => none
      | .error _ => none
    else some (.prim tag v)
def readNodes : Nat → List (Nat × List Nat) → Option (List Der)
  | 0, _ => none
  | _ + 1, [] => some []
  | fuel + 1, it :: rest =>
    match readNode fuel it.1 it.2 with
    | none => none
    | some d =>
      match readNodes fuel rest with
      | none => none
      | some ds => some (d :: ds)
end

/-- exactly one DER value, read with `AnyRef::from_der` and, below it, with the item loop of the crate -/
def readTree (l : List Nat) : Option Der :=
  match DerRd.fromDerAny l with
  | .ok (tag, v) => readNode (fuelFor l) tag v
  | .error _ => none

theorem Der.WF.constructed {d : Der} (h : d.WF) : tagConstructed d.tag = (match d with | .cons _ _ => true | .prim _ _ => false) := by
  cases d with
  | prim t c => exact h.2.1
  | cons t cs => exact h.2.1

theorem encL_length_le_enc (t : Nat) (cs : List Der) : (Der.encL cs).length ≤ (Der.cons t cs).enc.length := by
  simp [Der.enc]; omega

mutual
theorem readNode_enc (d : Der) (hw : d.WF) (hk : d.known = true) (hmax : d.enc.length ≤ DerRd.MAX_LEN)
    (fuel : Nat) (hf : d.fuel ≤ fuel) : readNode fuel d.tag d.body = some d := by
  match d, hw, hk, hmax, fuel, hf with
  | .prim t c, hw, _, _, fuel + 1, _ =>
    simp only [readNode, Der.tag, Der.body, hw.2.1]
    simp
  | .cons t cs, hw, hk, hmax, fuel + 1, hf =>
    simp only [Der.known, Bool.and_eq_true] at hk
    have hm : (Der.encL cs).length ≤ DerRd.MAX_LEN := Nat.le_trans (encL_length_le_enc t cs) hmax
    simp only [readNode, Der.tag, Der.body, hw.2.1, if_true, seqItems_encL cs hw.2.2.2 hk.2 hm]
    rw [readNodes_encL cs hw.2.2.2 hk.2 hm fuel (by simp only [Der.fuel] at hf; omega)]
  | .prim t c, _, _, _, 0, hf => simp [Der.fuel] at hf
  | .cons t cs, _, _, _, 0, hf => simp [Der.fuel] at hf
theorem readNodes_encL (cs : List Der) (hw : Der.WFL cs) (hk : Der.knownL cs = true)
    (hmax : (Der.encL cs).length ≤ DerRd.MAX_LEN) (fuel : Nat) (hf : Der.fuelL cs ≤ fuel) :
    readNodes fuel (cs.map Der.hdr) = some cs := by
  match cs, hw, hk, hmax, fuel, hf with
  | [], _, _, _, fuel + 1, _ => simp [readNodes]
  | [], _, _, _, 0, hf => simp [Der.fuelL] at hf
  | d :: r, _, _, _, 0, hf => simp [Der.fuelL] at hf
  | d :: r, hw, hk, hmax, fuel + 1, hf =>
    simp only [Der.knownL, Bool.and_eq_true] at hk
    simp only [Der.fuelL] at hf
    simp only [Der.encL, List.length_append] at hmax
    simp only [List.map_cons, readNodes, Der.hdr]
    rw [readNode_enc d hw.1 hk.1 (by omega) fuel (by omega), readNodes_encL r hw.2 hk.2 (by omega) fuel (by omega)]
end

/-- **Link lemma (writer side).** On the encoding of every well-formed tree whose tags the `der` crate knows
(within `Length::MAX`), the reader made of the crate's routines reconstructs the tree — the same answer as
the model's own `parseDer`. -/
theorem readTree_enc (d : Der) (hw : d.WF) (hk : d.known = true) (hmax : d.enc.length ≤ DerRd.MAX_LEN) :
    readTree d.enc = some d ∧ parseDer d.enc = some d := by
  refine ⟨?_, parseDer_enc d hw⟩
  unfold readTree
  rw [fromDerAny_enc_der d hw hk hmax]
  exact readNode_enc d hw hk hmax _ (by have := fuel_le d; simp only [fuelFor]; omega)

end Codec.Der
