//! C15: nonce uniqueness (send counters, retransmissions) and uniqueness of locally chosen
//! session / exchange identifiers, at unit level on the real session table.
//!
//! Case kind `tab` (see `transport_common.rs`): a real `Matter`'s `Sessions`, real
//! `Exchange::initiate_for_session` / `Exchange::drop`, `Session::{post_recv, pre_send}`,
//! `Sessions::{get_next_sess_id, get_next_exch_id}`.
use crate::proto::{parse_cases, Out};
use crate::rng::Rng;
use crate::Args;

#[path = "transport_common.rs"]
mod tc;
use tc::{parse_snap, result_of, run_tab_with, GSnap};

#[path = "c20_sys.rs"]
mod sys;
#[path = "c15_sys.rs"]
mod wiretap;
#[path = "c15_im.rs"]
mod imtap;

const RULE: &str = "a case is one op history on a fresh real session table (1-4 sessions added, local ids taken from get_next_sess_id, allocators positioned at 1/2/65534/65535/random/onto live ids; then a state-aware random mix of session-id allocator moves onto or just before live local session ids (across the wrap) with allocations whose result becomes a session's local id, initiate, exchange drop, received messages that open responder exchanges near the allocator position, accept, new sends, retransmissions with identical arguments, matching/mismatching acks, session add/remove, virtual time); non-trivial = the history contains an allocator skip over a live exchange or session id or a retransmission (rt 1); distinct = by op list";

fn live_slots(g: &GSnap) -> Vec<(u32, usize, u32, String, bool)> {
    let mut v = Vec::new();
    for s in &g.sessions {
        for (i, sl) in s.slots.iter().enumerate() {
            if let Some(sl) = sl {
                v.push((s.uid, i, sl.id, sl.role.clone(), sl.rt.is_some()));
            }
        }
    }
    v
}

fn gen_case(r: &mut Rng, out: &mut Out, len: usize) {
    let mut nt = false;
    let mut stats: Vec<&'static str> = Vec::new();
    run_tab_with(out, &mut |exec| {
        let edge: [u64; 8] = [1, 2, 3, 65533, 65534, 65535, 0x1234, 0x2222];
        let v = if r.chance(1, 2) { *r.pick(&edge) } else { r.range(1, 65535) };
        let mut g = parse_snap(&exec(&format!("setxid {}", v)));
        let v = if r.chance(1, 2) { *r.pick(&edge) } else { r.range(1, 65535) };
        g = parse_snap(&exec(&format!("setsid {}", v)));
        let mut next_h = 0u32;
        let mut handles: Vec<(u32, u32, usize)> = Vec::new(); // handle, uid, slot
        let mut orig_tx: Vec<(u32, usize, String)> = Vec::new(); // uid, slot, op text of the pending original
        let mut peer_ctr: u64 = r.range(1, 1 << 20);
        let nsess = r.range(1, 4);
        for i in 0..nsess {
            let full = exec(&format!("add {} 0 {}", r.below(1 << 32), 5000 + i));
            if let Some(id) = result_of(&full).strip_prefix("id ") {
                let id: u32 = id.parse().unwrap_or(0);
                exec(&format!("mode {} {}", id, if r.chance(1, 2) { "c" } else { "p" }));
                let full = exec("sid");
                let sid = result_of(&full).to_string();
                g = parse_snap(&exec(&format!("lsid {} {}", id, sid)));
            }
        }
        // ops queued by a previous op (a new session asks the allocator for its local id)
        let mut queued: Vec<String> = Vec::new();
        // session whose local id is to be set to the result of the next `sid`
        let mut wants_sid: Option<u32> = None;
        for _ in 0..len {
            let sess: Vec<u32> = g.sessions.iter().map(|s| s.uid).collect();
            let live = live_slots(&g);
            let pick_sess = |r: &mut Rng| -> u32 { if sess.is_empty() { 0 } else { *r.pick(&sess) } };
            let lsids: Vec<u32> = g.sessions.iter().map(|s| s.lsid).filter(|l| *l != 0).collect();
            let op: String = if !queued.is_empty() { queued.remove(0) } else { match r.below(108) {
                100..=103 => {
                    // put the session-id allocator onto (or up to two before) a live local session id,
                    // across the 16-bit wrap (0 is never an id): the spot where the allocator has to
                    // skip, possibly several live ids in a row and in any table order
                    if lsids.is_empty() { format!("setsid {}", *r.pick(&edge)) } else {
                        let l = *r.pick(&lsids) as u64;
                        let mut v = l;
                        for _ in 0..r.below(3) { v = if v <= 1 { 65535 } else { v - 1 }; }
                        format!("setsid {}", v)
                    }
                }
                104..=107 => {
                    // a (re-)established session takes its local id from the allocator
                    let uid = pick_sess(r);
                    wants_sid = Some(uid);
                    "sid".into()
                }
                0..=21 => {
                    next_h += 1;
                    format!("init {} h{}", pick_sess(r), next_h)
                }
                22..=29 => {
                    if handles.is_empty() { "xid".into() } else {
                        let i = r.below(handles.len() as u64) as usize;
                        format!("xdrop h{}", handles[i].0)
                    }
                }
                30..=41 => {
                    // a received message; exchange id near the allocator, near a live id, or random
                    let near: u64 = match r.below(4) {
                        0 => g.next_xid as u64 + r.below(3),
                        1 if !live.is_empty() => r.pick(&live).2 as u64 + r.below(2),
                        2 => r.range(1, 65535),
                        _ => g.next_xid as u64,
                    };
                    peer_ctr += r.range(1, 3);
                    format!("rx {} {} {} {} - {} {}", pick_sess(r), peer_ctr, near % 65536,
                        if r.chance(4, 5) { "I" } else { "R" }, if r.chance(3, 4) { "r" } else { "u" },
                        if r.chance(9, 10) { "n" } else { *r.pick(&["a", "s"]) })
                }
                42..=45 => {
                    let pend: Vec<_> = live.iter().filter(|l| l.3 == "RP").collect();
                    if pend.is_empty() { "t 10".into() } else {
                        let l = *r.pick(&pend);
                        next_h += 1;
                        format!("acc {} {} h{}", l.0, l.1, next_h)
                    }
                }
                46..=60 => {
                    // a new message on a live slot without a pending retransmission
                    let free: Vec<_> = live.iter().filter(|l| !l.4).collect();
                    if free.is_empty() { format!("tx {} - u - a", pick_sess(r)) } else {
                        let l = *r.pick(&free);
                        format!("tx {} {} {} - n", l.0, l.1, if r.chance(4, 5) { "r" } else { "u" })
                    }
                }
                61..=72 => {
                    // retransmission: the original op text again
                    if orig_tx.is_empty() { "t 300".into() } else { r.pick(&orig_tx).2.clone() }
                }
                73..=80 => {
                    // the peer acknowledges a pending message (sometimes a wrong counter)
                    let pend: Vec<_> = g.sessions.iter().flat_map(|s| s.slots.iter().flatten().filter_map(move |sl| sl.rt.map(|rt| (s.uid, sl.id, sl.role.clone(), rt.0)))).collect();
                    if pend.is_empty() { "t 50".into() } else {
                        let p = r.pick(&pend).clone();
                        peer_ctr += 1;
                        let ack = if r.chance(5, 6) { p.3 as u64 } else { p.3 as u64 + r.range(1, 3) };
                        format!("rx {} {} {} {} {} {} {}", p.0, peer_ctr, p.1, if p.2.starts_with('R') { "I" } else { "R" }, ack,
                            if r.chance(1, 2) { "r" } else { "u" }, if r.chance(1, 2) { "a" } else { "n" })
                    }
                }
                81..=88 => {
                    // put the allocator onto (or just before) a live exchange id: the interesting spot
                    if live.is_empty() { format!("setxid {}", *r.pick(&edge)) } else {
                        let l = r.pick(&live);
                        let v = (l.2 as u64 + 65535 - r.below(2)) % 65536;
                        format!("setxid {}", if v == 0 { 65535 } else { v.max(1) })
                    }
                }
                89..=91 => format!("tx {} - u {} a", pick_sess(r), peer_ctr),
                92..=93 => format!("add {} 0 {}", r.below(1 << 32), 6000 + r.below(100)),
                94 => format!("rm {}", pick_sess(r)),
                95..=96 => "xid".into(),
                _ => format!("t {}", *r.pick(&[1u64, 50, 330, 1000, 5000])),
            } };
            let before = g.clone();
            let full = exec(&op);
            let res = result_of(&full).to_string();
            g = parse_snap(&full);
            let w: Vec<&str> = op.split_whitespace().collect();
            match w[0] {
                "sid" => {
                    if res.parse::<u32>().ok() != Some(before.next_sid) {
                        nt = true;
                        stats.push("alloc_skip_sess");
                    }
                    if let Some(uid) = wants_sid.take() {
                        queued.push(format!("lsid {} {}", uid, res));
                    }
                }
                "add" => {
                    if let Some(id) = res.strip_prefix("id ") {
                        // the new session gets its local id from the allocator, as a handshake does
                        wants_sid = id.parse().ok();
                        queued.push("sid".into());
                    }
                }
                "init" => {
                    if let Some(rest) = res.strip_prefix("x ") {
                        let mut it = rest.split_whitespace();
                        let xid: u32 = it.next().and_then(|t| t.parse().ok()).unwrap_or(0);
                        let idx: usize = it.next().and_then(|t| t.parse().ok()).unwrap_or(0);
                        handles.push((next_h, w[1].parse().unwrap_or(0), idx));
                        if xid != before.next_xid {
                            nt = true;
                            stats.push("alloc_skip_exch");
                        }
                    }
                }
                "acc" if res == "ok" => handles.push((next_h, w[1].parse().unwrap_or(0), w[2].parse().unwrap_or(0))),
                "xdrop" => {
                    let h: u32 = w[1][1..].parse().unwrap_or(0);
                    handles.retain(|x| x.0 != h);
                }
                "xid" => {
                    if res.parse::<u32>().ok() != Some(before.next_xid) {
                        nt = true;
                        stats.push("alloc_skip_exch");
                    }
                }
                "tx" => {
                    if res.contains(" rt 1 ") {
                        nt = true;
                        stats.push("retransmissions");
                    }
                    if res.starts_with("err TxTimeout") {
                        stats.push("tx_timeouts");
                    }
                }
                _ => {}
            }
            // pending originals = slots with a pending retransmission whose op text we know
            if w[0] == "tx" && res.contains(" rt 0 ") && w[2] != "-" {
                let (uid, slot): (u32, usize) = (w[1].parse().unwrap_or(0), w[2].parse().unwrap_or(0));
                orig_tx.retain(|o| !(o.0 == uid && o.1 == slot));
                orig_tx.push((uid, slot, op.clone()));
            }
            orig_tx.retain(|o| {
                g.sessions.iter().any(|s| s.uid == o.0 && s.slots.get(o.1).and_then(|x| x.as_ref()).map(|sl| sl.rt.is_some()).unwrap_or(false))
            });
        }
    });
    for k in stats {
        out.stat(k, 1);
    }
    if nt {
        out.buf.push_str("#nt\n");
    }
}


const SYS_RULE: &str = "sys cases (system-level wire tap): two real Matter nodes on the simulated network under virtual time (0-20 ms latency); a case is 3-7 sequential ops - real PASE / CASE handshakes (a second CASE offers resumption), request/response rounds on the new secure session (the controller's application sends reliable requests, the device's application answers with reliable responses on the same exchange) and reports (the device opens the exchange, the controller answers each report with a reliable status response) - each under a scripted per-datagram schedule of deliver / drop / duplicate / delay verdicts that forces retransmissions of handshake messages, requests, responses, reports and of messages that carry piggy-backed acknowledgements (including: the responder's first reply lost and the initiator's retransmission delivered); the last op hands the COMPLETE wire log to the driver; non-trivial = at least one datagram was dropped, duplicated or delayed";

fn gen_sched(r: &mut Rng) -> String {
    let n = r.below(9);
    let v: Vec<String> = (0..n)
        .map(|_| match r.below(20) {
            0..=10 => "d".to_string(),
            11..=15 => "x".to_string(),
            16..=17 => "u".to_string(),
            _ => format!("l{}", r.range(20, 900)),
        })
        .collect();
    v.join(".")
}

fn gen_sys(id: u64, r: &mut Rng) -> (String, Vec<String>) {
    let kind = format!("sys lat={}", *r.pick(&[0u64, 2, 5, 5, 20]));
    let mut ops: Vec<String> = Vec::new();
    let first = if id % 2 == 0 { "pase" } else { "case" };
    // every fourth CASE handshake: Sigma2 or Sigma3 is lost once or twice and the responder's (`d`) / initiator's (`c`)
    // operational certificate is replaced (UpdateNOC) before the retransmission - the Sigma2 / Sigma3 builders read
    // the node's fabric when they run
    let upd = |r: &mut Rng| -> String {
        let sched = *r.pick(&["d.x", "d.x.x", "d.d.x", "d.d.x.x", "d.x.d.x"]);
        format!("hs case sched={} upd={}:{}", sched, *r.pick(&[30u64, 100, 200, 300, 360, 500, 800]), if r.chance(1, 2) { "d" } else { "c" })
    };
    if first == "case" && id % 8 == 1 {
        ops.push(upd(r));
    }
    ops.push(format!("hs {} sched={}", first, gen_sched(r)));
    // the responder's first reply is lost, the initiator's retransmission gets through
    let pat = *r.pick(&["d.x", "d.x.d", "d.x.d.x", "x.d.x", "d.d.x.x"]);
    for _ in 0..r.range(1, 3) {
        let sched = if r.chance(1, 2) { pat.to_string() } else { gen_sched(r) };
        // every fifth traffic op: the builder of one request is NOT idempotent
        let n = r.range(1, 3);
        // ... or (every twentieth) idempotent in the payload but not in the reliable flag of its meta-data
        let flaky = if r.chance(1, 5) {
            format!(" flaky={}", r.below(n))
        } else if r.chance(1, 16) {
            format!(" flakyrel={}", r.below(n))
        } else {
            String::new()
        };
        if r.chance(2, 3) {
            ops.push(format!("rr n={} sched={}{}", n, sched, flaky));
        } else {
            ops.push(format!("rep n={} sched={}{}", n, sched, flaky));
        }
    }
    if r.chance(1, 2) {
        if r.chance(1, 4) {
            ops.push(upd(r));
        }
        ops.push(format!("hs case sched={}", gen_sched(r)));
        ops.push(format!("rr n={} sched={}", r.range(1, 3), if r.chance(1, 2) { pat.to_string() } else { gen_sched(r) }));
        if r.chance(1, 2) {
            ops.push(format!("rep n={} sched={}", r.range(1, 2), gen_sched(r)));
        }
    }
    ops.push("tap".into());
    (kind, ops)
}

const IM_RULE: &str = "sys im=1 cases (wire tap over the REAL Interaction Model): a real device (InteractionModel with the reporter task + Responder, harness cluster with integer attributes and 700-byte strings whose handler returns the LIVE value) and a real controller (ImClient subscribe / read, ReportDataHandler) on a CASE session established by a real handshake; ops: subscribe (wildcard = chunked priming | list), change + reporter report, read (chunked | short), each under a per-datagram schedule that loses / duplicates / delays the IM's own messages (ReportData chunks, SubscribeResponse, StatusResponse, requests) WHILE the attribute is changed again between the first transmission and the retransmission (mid=<ms>:<attr>:<val>); the complete wire log goes to the same oracle: a repeated (sender, session, counter) must carry identical bytes; non-trivial = a datagram of an IM message was dropped / duplicated / delayed and the attribute changed during the op";

/// the patterns that lose the k-th datagram of the op once or twice (k = 0: the first message of the op,
/// i.e. the reporter's ReportData for `chg`, the request for `sub` / `read`; k = 1, 2, …: the chunks / responses)
fn gen_im_sched(r: &mut Rng) -> String {
    if r.chance(1, 4) {
        return gen_sched(r);
    }
    let k = r.below(6) as usize;
    let mut v: Vec<String> = (0..k).map(|_| "d".to_string()).collect();
    v.push("x".into());
    if r.chance(1, 3) {
        v.push("x".into());
    }
    if r.chance(1, 3) {
        v.push(if r.chance(1, 2) { "u".into() } else { format!("l{}", r.range(50, 700)) });
    }
    v.join(".")
}

fn gen_mid(r: &mut Rng) -> String {
    let n = r.range(1, 3);
    let mut t = 0;
    let v: Vec<String> = (0..n)
        .map(|_| {
            // around the first retransmission (~330-420 ms after the first transmission) and the second
            t += *r.pick(&[20u64, 60, 150, 250, 300, 340, 500, 800]);
            format!("{}:{}:{}", t, *r.pick(&[0u32, 0, 1, 3]), r.range(100, 250))
        })
        .collect();
    v.join(",")
}

fn gen_im(r: &mut Rng) -> (String, Vec<String>) {
    let kind = format!("sys im=1 lat={}", *r.pick(&[0u64, 2, 5, 20]));
    let mut ops: Vec<String> = vec!["hs sched=".into()];
    let sel = |r: &mut Rng| if r.chance(1, 2) { "w" } else { "l" };
    if r.chance(1, 4) {
        ops.push(format!("read sel={} sched={} mid={}", sel(r), gen_im_sched(r), gen_mid(r)));
    }
    ops.push(format!("sub min=0 max={} sel={} sched={} mid={}", r.range(5, 60), sel(r), gen_im_sched(r), gen_mid(r)));
    for _ in 0..r.range(1, 3) {
        if r.chance(3, 4) {
            ops.push(format!("chg a={} v={} wait={} sched={} mid={}", *r.pick(&[0u32, 0, 1, 3]), r.range(20, 99), r.range(1500, 6000), gen_im_sched(r), gen_mid(r)));
        } else {
            ops.push(format!("read sel={} sched={} mid={}", sel(r), gen_im_sched(r), gen_mid(r)));
        }
    }
    ops.push("tap".into());
    (kind, ops)
}

fn run_any_sys(out: &mut Out, kind: &str, ops: &[String]) {
    if kind.split_whitespace().any(|w| w == "im=1") {
        imtap::run_sys(out, kind, ops);
    } else {
        wiretap::run_sys(out, kind, ops);
    }
}

pub fn gen(a: &Args) -> String {
    let mut r = Rng::new(a.seed);
    let mut out = Out::default();
    out.buf.push_str(&format!("#rule {} || {} || {}\n", RULE, SYS_RULE, IM_RULE));
    let n_cases = if a.thorough { 60000 } else { 5000 };
    for id in 0..n_cases {
        let mut cr = r.fork();
        let len = if a.thorough { cr.range(5, 150) } else { cr.range(5, 60) } as usize;
        out.case(id, "tab");
        gen_case(&mut cr, &mut out, len);
    }
    // system level: the complete wire of real handshakes and traffic under forced retransmissions
    let n_sys = if a.thorough { 3000 } else { 250 };
    for id in 0..n_sys {
        let mut cr = r.fork();
        let (kind, ops) = gen_sys(id, &mut cr);
        out.case(n_cases + id, &kind);
        wiretap::run_sys(&mut out, &kind, &ops);
        if ops.iter().any(|o| o.contains('x') || o.contains(".u") || o.contains("=u") || o.contains(".l") || o.contains("=l")) {
            out.buf.push_str("#nt\n");
        }
    }
    // the Interaction Model's own encoders under retransmission while the attribute changes
    let n_im = if a.thorough { 1500 } else { 120 };
    for id in 0..n_im {
        let mut cr = r.fork();
        let (kind, ops) = gen_im(&mut cr);
        out.case(n_cases + n_sys + id, &kind);
        imtap::run_sys(&mut out, &kind, &ops);
        out.buf.push_str("#nt\n");
    }
    out.finish()
}

pub fn replay(a: &Args) -> String {
    let text = std::fs::read_to_string(a.input.as_ref().expect("--in")).expect("read input");
    let mut out = Out::default();
    for c in parse_cases(&text) {
        if c.kind.starts_with("sys") {
            out.case(c.id, &c.kind);
            run_any_sys(&mut out, &c.kind, &c.ops);
        } else {
            tc::run_case(&mut out, &c);
        }
    }
    out.finish()
}
