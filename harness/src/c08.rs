//! C08: see admin_common.rs (shared state-level harness of C07 / C08 / C11).
use crate::Args;
#[path = "admin_common.rs"]
pub mod admin_common;
#[path = "admin_gen.rs"]
pub mod admin_gen;
#[path = "admin_handlers.rs"]
pub mod admin_handlers;

pub fn gen(a: &Args) -> String {
    admin_gen::gen("C08", a)
}

pub fn replay(a: &Args) -> String {
    admin_gen::replay(a)
}
