import RsMatterVerif.Model.Case
/-!
# Lemmas about `Model/Case.lean`: parsing and injectivity of the message encoding
-/
namespace Case
open Cert

theorem parseTbe_some {p : Term} {noc : Cert} {icac : Option Cert} {rest : Term}
    (h : parseTbe p = some (noc, icac, rest)) :
    p = .pair (.cert noc) (.pair (optCert icac) rest) := by
  unfold parseTbe at h
  split at h
  · simp only [Option.some.injEq, Prod.mk.injEq] at h
    obtain ⟨h1, h2, h3⟩ := h
    subst h1; subst h2; subst h3; rfl
  · simp only [Option.some.injEq, Prod.mk.injEq] at h
    obtain ⟨h1, h2, h3⟩ := h
    subst h1; subst h2; subst h3; rfl
  · cases h

theorem resumeTerm_inj {a b : Option (Term × Term)} (h : resumeTerm a = resumeTerm b) : a = b := by
  cases a with
  | none => cases b with
    | none => rfl
    | some q => obtain ⟨x, y⟩ := q; simp [resumeTerm] at h
  | some p =>
    obtain ⟨x, y⟩ := p
    cases b with
    | none => simp [resumeTerm] at h
    | some q => obtain ⟨u, v⟩ := q; simp [resumeTerm] at h; simp [h]

theorem toTerm_inj {a b : Msg} (h : a.toTerm = b.toTerm) : a = b := by
  cases a <;> cases b <;> simp [Msg.toTerm] at h ⊢
  · exact ⟨h.1, h.2.1, h.2.2.1, h.2.2.2.1, resumeTerm_inj h.2.2.2.2⟩
  all_goals first
    | exact h
    | (rename_i x y; cases x <;> cases y <;> simp at h ⊢)

end Case
