import RsMatterVerif.Model.Transport
import RsMatterVerif.Model.TxGuard
/-!
# What a session puts on the wire, call site by call site (C15)

`Session::pre_send` decides the message counter (= the AEAD nonce) of every outgoing message; it is
called from exactly four places. This file composes the transliterated `Sess.preSend`
(`Model/Transport.lean`) and the retransmission guard (`Model/TxGuard.lean`) the way those call
sites do, and records for every message handed to the transport what the header carries:

* `TxMessage::complete` (`exchange.rs`; every send through the `Exchange` API: `send_with`, `send`,
  `Sender::tx`, `OwnedSender::tx`, `acknowledge`): `header.reset()` (no acknowledgement field set by
  the caller), `pre_send(Some(exchange_index), …)`, then `Session::check_retrans_payload` — the
  digest of what the builder produced is remembered in / compared with the pending
  `RetransEntry::payload_digest`; on a mismatch `Invalid` is returned and NOTHING is handed to the
  transport (the state change of `pre_send` stays). Since repo fix
  `C15-retransmission-reliable-flag-differs` the digest covers the builder's `MessageMeta::reliable`
  as well (`mix`).
* `handle_rx_packet`, duplicate branch (`transport.rs`): a fresh stand-alone acknowledgement,
  `write_packet(packet, Some(session), None, …)` — **no exchange slot** (`dupAckSlot`): the message
  takes a new counter even if the exchange the duplicate belongs to waits for an acknowledgement
  of its own message.
* `write_evict_session_packet` / the `CloseSession` reply: `write_packet(…, Some(session), None, …)`.
* `handle_dropped_exchange`, second branch: a dropped exchange WITHOUT a pending retransmission
  (`get_exch(|_, e| e.role.is_dropped_state() && !e.mrp.is_retrans_pending())`) gets its owed
  stand-alone acknowledgement through its slot (`write_packet(…, Some(session), Some(exch_index), …)`),
  then the slot is freed.

Digests are abstract (one natural number per (protocol id, opcode, payload)); `mix` pairs it with
the reliable flag injectively: "equal digests ⇒ equal content" is the no-collision assumption of
the 64-bit FNV-1a the code uses. Import-free apart from the two models.
-/
namespace TxWire
open Transport

/-- what one datagram of the session carries, as far as the transport decides it -/
structure Wire where
  /-- message counter in the plain header (with the session key and the source node id: the nonce) -/
  ctr : Nat
  /-- exchange id and initiator flag of the protocol header -/
  exch : Nat
  initiator : Bool
  /-- R flag -/
  reliable : Bool
  /-- acknowledged-counter field -/
  ack : Option Nat
  /-- digest of (protocol id, opcode, payload) -/
  digest : Nat
deriving Repr, DecidableEq, Inhabited

/-- the session plus `RetransEntry::payload_digest` of the pending entry of each slot (meaningful
only while that slot's `retrans` is `some`: a new entry starts with `None`) -/
structure St where
  s : Sess
  dig : Nat → Option Nat := fun _ => none

def setDig (f : Nat → Option Nat) (i : Nat) (v : Option Nat) : Nat → Option Nat :=
  fun j => if j = i then v else f j

/-- the digest `TxMessage::complete` computes: over the reliable flag and (protocol id, opcode, payload) -/
def mix (rel : Bool) (d : Nat) : Nat := 2 * d + (if rel then 1 else 0)

/-- digest of a stand-alone acknowledgement (secure channel, opcode 0x10, empty payload) -/
def ackDigest : Nat := 0

/-- operations on one session that reach `Session::pre_send`, `Session::post_recv` or the slots -/
inductive Op
  /-- `TxMessage::complete` on the exchange in slot `i`: the builder returned `MessageMeta::reliable = rel`
  and content with digest `d` -/
  | complete (i : Nat) (rel : Bool) (d : Nat) (sai : Option Nat)
  /-- `handle_rx_packet`: the received message `h` was a duplicate; fresh stand-alone acknowledgement -/
  | dupAck (h : RxHdr) (sai : Option Nat)
  /-- a `CloseSession` status report with exchange id `xid`, content digest `d` -/
  | closeSession (xid : Nat) (d : Nat) (sai : Option Nat)
  /-- `handle_dropped_exchange` found slot `i` -/
  | sweepDropped (i : Nat)
  /-- `Session::post_recv` -/
  | rx (h : RxHdr) (now : Nat)
  /-- `add_exch(id, Initiator)` -/
  | open_ (id : Nat)
  /-- `remove_exch(i)` (the exchange is dropped by its owner) -/
  | close (i : Nat)
  /-- a slot is freed -/
  | free (i : Nat)

/-- `TxMessage::complete` -/
def St.complete (st : St) (i : Nat) (rel : Bool) (d : Nat) (sai : Option Nat) : St × Option Wire :=
  match st.s.slot i with
  | none => (st, none)
  | some e =>
    let p := st.s.preSend (some i) rel none sai
    match p.2 with
    | .error _ => ({ st with s := p.1 }, none)
    | .ok o =>
      let w : Wire := { ctr := o.ctr, exch := e.id, initiator := !e.role.isResponder, reliable := rel,
                        ack := o.ack, digest := d }
      -- `Session::check_retrans_payload`
      match (p.1.slot i).bind (·.mrp.retrans) with
      | none => ({ st with s := p.1 }, some w)
      | some r =>
        let before : Option Nat := if e.mrp.retrans.isSome then st.dig i else none
        let c := ({ ctr := r.ctr, digest := before } : TxGuard.Entry).check (mix rel d)
        let st' : St := { s := p.1, dig := setDig st.dig i c.1.digest }
        if c.2 then (st', some w) else (st', none)

/-- the exchange slot `handle_rx_packet` passes to `write_packet` for the acknowledgement of a
duplicate: `None` -/
def dupAckSlot : Sess → RxHdr → Option Nat := fun _ _ => none

/-- `handle_rx_packet`, duplicate branch; `slotOf` is the call site's choice of the exchange slot -/
def St.dupAck (slotOf : Sess → RxHdr → Option Nat) (st : St) (h : RxHdr) (sai : Option Nat) : St × Option Wire :=
  let idx := slotOf st.s h
  let p := st.s.preSend idx false (some h.ctr) sai
  match p.2 with
  | .error _ => ({ st with s := p.1 }, none)
  | .ok o =>
    -- with a slot `ExchangeState::pre_send` overwrites exchange id and initiator flag; without one
    -- they are the received header's (`toggle_initiator`)
    let xi : Nat × Bool := match idx.bind st.s.slot with
      | some e => (e.id, !e.role.isResponder)
      | none => (h.exch, !h.initiator)
    ({ st with s := p.1 }, some { ctr := o.ctr, exch := xi.1, initiator := xi.2, reliable := false, ack := o.ack,
                                  digest := ackDigest })

/-- `handle_dropped_exchange`, second branch, for slot `i` -/
def St.sweepDropped (st : St) (i : Nat) : St × Option Wire :=
  match st.s.slot i with
  | none => (st, none)
  | some e =>
    if e.role.isDropped && !e.mrp.isRetransPending then
      if e.mrp.isAckPending then
        let p := st.s.preSend (some i) false none none
        let s' : Sess := { p.1 with exchs := p.1.exchs.set i none }
        match p.2 with
        | .ok o => ({ st with s := s' }, some { ctr := o.ctr, exch := e.id, initiator := !e.role.isResponder,
                                                reliable := false, ack := o.ack, digest := ackDigest })
        | .error _ => ({ st with s := s' }, none)
      else ({ st with s := { st.s with exchs := st.s.exchs.set i none } }, none)
    else (st, none)

def step (slotOf : Sess → RxHdr → Option Nat) (st : St) : Op → St × Option Wire
  | .complete i rel d sai => st.complete i rel d sai
  | .dupAck h sai => st.dupAck slotOf h sai
  | .closeSession xid d sai =>
    let p := st.s.preSend none true none sai
    match p.2 with
    | .ok o => ({ st with s := p.1 }, some { ctr := o.ctr, exch := xid, initiator := true, reliable := true,
                                             ack := o.ack, digest := d })
    | .error _ => ({ st with s := p.1 }, none)
  | .sweepDropped i => st.sweepDropped i
  | .rx h now => ({ st with s := (st.s.postRecv h now).1 }, none)
  | .open_ id => ({ st with s := match st.s.addExch id .io with
      | some (s', _) => s'
      | none => st.s }, none)
  | .close i => ({ st with s := (st.s.removeExch i).1 }, none)
  | .free i => ({ st with s := { st.s with exchs := st.s.exchs.set i none } }, none)

/-- run a history; what was handed to the transport, oldest first -/
def run (slotOf : Sess → RxHdr → Option Nat) : St → List Op → St × List Wire
  | st, [] => (st, [])
  | st, op :: ops =>
    let r := step slotOf st op
    let rest := run slotOf r.1 ops
    (rest.1, (match r.2 with
      | some w => [w]
      | none => []) ++ rest.2)

/-- the exchange discipline, as far as this session's peer is concerned: a received message that
belongs to an exchange with a pending retransmission carries an acknowledgement or requests none -/
def discOk (s : Sess) (h : RxHdr) : Bool :=
  match s.getExchForRx h with
  | some i =>
    match s.slot i with
    | some e => !e.mrp.retrans.isSome || h.ack.isSome || !h.reliable
    | none => true
  | none => true

/-- the discipline holds at every receive of the history -/
def disciplined (slotOf : Sess → RxHdr → Option Nat) : St → List Op → Bool
  | _, [] => true
  | st, op :: ops =>
    (match op with
      | .rx h _ => discOk st.s h
      | _ => true) && disciplined slotOf (step slotOf st op).1 ops

end TxWire
