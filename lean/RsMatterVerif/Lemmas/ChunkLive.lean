import RsMatterVerif.Lemmas.Chunk
import RsMatterVerif.Lemmas.ChunkEvents
import RsMatterVerif.Model.ChunkLive
/-!
# The event section over a queue that changes between the chunks (C14, audit concern 3)

`Model/ChunkLive.lean`: `evLoopLive` runs the unchanged per-fetch step `pass` on a buffer that is a
different one at every fetch (`respondLive`; `respondQ` takes the buffers from the queue model and the
operations other tasks perform between the chunks).  Here:
* `pass_split`, `pass_cursor_src`, `pass_frame` — what ONE fetch does, declaratively, on a buffer with
  ascending event numbers: the events of the buffer that are selected and lie behind the cursor
  (`pendingAt`) are split into the ones written (a prefix) and the ones still pending at the new cursor;
* `FetchOk` / `LiveSpec` / `LiveEvents` / `LiveMsgs` (message-wise: fetch `i` fills message `m0 + i`:
  `evLoopEnv_msgs`, `LiveMsgsFull.msg_sound`) — the specification of a whole live answer as a chain of such
  fetches, written from the property text (per fetch, relative to the queue AT THAT FETCH), and its
  consequences: `LiveSpec.increasing` (no duplicates), `FetchOk.sound`, `FetchOk.dichotomy`,
  `LiveSpec.complete`, `LiveSpec.complete_from`, `LiveSpec.complete_new`, `LiveSpec.cursor_src`,
  `LiveSpec.frozen` (unchanged queue: exactly the selected events of the snapshot);
* `evLoopEnv_spec`, `evLoopEnv_inv`, `traceEnv_length`, `evLoopLive_eq_env` — the model meets it, keeps
  the size invariants, and needs at most `#events written + 2` fetches;
* `evLoopLive_err` — for a finite schedule the loop never runs out of fetches;
* `evLoopLive_nil`, `eventSectionLive_nil`, `respondLive_nil` — the frozen model is the empty schedule;
* `liveBufs_ascending`, `after_evolves` (`Queue.push_evolves`, `Queue.run_evolves`) — the buffers the
  queue model produces ascend, and between two fetches the buffer `Evolves`: a sublist of the old one
  followed by events with larger numbers.
Final statements (namespace `C14`, end of the file): `GoodLive`, `respondLive_good`, `respondQ_good`,
`live_no_duplicates`, `live_sound`, `live_complete_persistent`, `respondLive_never_loops`.

**Termination needs a fairness assumption.**  A subscription report is bounded by the watermark captured
when the report starts (`next_max_seen_event_number`): events pushed later are out of range, at most the
events present at the start are reported.  A Read is created with `EventReader::new(0, u64::MAX, …)`
(`im.rs`): every event pushed while the answer is sent is in range, and the code has no other bound.  If
producers push at least one message-full of matching events during every round trip
(`send` + `recv_status_success`), every fetch ends in `NoSpace` and the Read never ends
(`C14.read_kept_alive_sample`).  The property's "never an endless chunk sequence" therefore holds under
the assumption that only finitely many changes of the queue happen while one answer is sent — the
schedule `later` is a finite list, after which the queue stays as it is.  Under it: `evLoopLive_err`,
`respondLive_never_loops`, and the number of fetches is at most the number of events reported + 2
(`LiveEvents`).
-/
namespace Chunk

/-- ascending event numbers in iteration order -/
def Asc (b : List Ev) : Prop := (b.map (·.num)).Pairwise (· < ·)

/-- the event is selected by the request and lies behind the cursor `k` (and not beyond `next_max_seen`) -/
def EvReq.wants (r : EvReq) (k : Nat) (e : Ev) : Bool := r.inRange k e && r.passes e

/-- the events of the buffer `b` that a reader with cursor `k` still has to report -/
def pendingAt (r : EvReq) (k : Nat) (b : List Ev) : List Ev := b.filter (r.wants k)

/-- the report of an event -/
def evData (e : Ev) : EvPiece := .data e.num e.size

/-- ghost: the events one fetch writes -/
def passLog (r : EvReq) : List Ev → ESt → List Ev
  | [], _ => []
  | e :: es, s =>
    if r.inRange s.cursor e then
      if r.passes e then
        if s.used + e.size ≤ s.lim then e :: passLog r es (s.wr e)
        else []
      else passLog r es { s with cursor := e.num }
    else passLog r es s

theorem pendingAt_congr (r : EvReq) {a a2 : Nat} {es : List Ev} (h : ∀ x ∈ es, a < x.num ∧ a2 < x.num) :
    pendingAt r a es = pendingAt r a2 es := by
  apply List.filter_congr
  intro x hx
  obtain ⟨h1, h2⟩ := h x hx
  simp only [EvReq.wants, EvReq.inRange]
  congr 2
  simp only [decide_eq_decide]
  omega

theorem wants_lt {r : EvReq} {k : Nat} {e : Ev} (h : r.wants k e = true) : k < e.num := by
  simp only [EvReq.wants, Bool.and_eq_true] at h
  exact inRange_lt r h.1

theorem wants_of_le {r : EvReq} {k : Nat} {e : Ev} (h : e.num ≤ k) : r.wants k e = false := by
  simp only [EvReq.wants, EvReq.inRange, Bool.and_eq_false_iff, decide_eq_false_iff_not]
  left; left; omega

/-- what a fetch leaves untouched, and what it adds -/
theorem pass_frame (r : EvReq) : ∀ (b : List Ev) (s : ESt),
    (pass r b s).1.done = s.done ∧ (pass r b s).1.attrs = s.attrs ∧ (pass r b s).1.base = s.base ∧
    (pass r b s).1.lim = s.lim ∧ (pass r b s).1.fresh = s.fresh ∧
    (pass r b s).1.evs = ((passLog r b s).map evData).reverse ++ s.evs ∧
    (pass r b s).1.used = s.used + sumEv ((passLog r b s).map evData) ∧
    (s.used ≤ s.lim → (pass r b s).1.used ≤ s.lim) ∧
    (pass r b s).1.empty = (s.empty && (passLog r b s).isEmpty) := by
  intro b
  induction b with
  | nil => intro s; simp [pass, passLog, sumEv]
  | cons e es ih =>
    intro s
    cases hr : r.inRange s.cursor e with
    | false =>
      simp only [pass, passLog, hr, Bool.false_eq_true, ↓reduceIte]
      exact ih s
    | true =>
      cases hpa : r.passes e with
      | false =>
        simp only [pass, passLog, hr, hpa, Bool.false_eq_true, ↓reduceIte]
        exact ih { s with cursor := e.num }
      | true =>
        by_cases hfit : s.used + e.size ≤ s.lim
        · simp only [pass, passLog, hr, hpa, hfit, ↓reduceIte]
          obtain ⟨h1, h2, h3, h4, h5, h6, h7, h8, h9⟩ := ih (s.wr e)
          refine ⟨h1, h2, h3, h4, h5, ?_, ?_, ?_, ?_⟩
          · show (pass r es (s.wr e)).1.evs = _
            rw [h6]
            simp [ESt.wr, ESt.writeEv, evData]
          · show (pass r es (s.wr e)).1.used = _
            rw [h7, List.map_cons, sumEv_cons]
            simp only [ESt.wr, ESt.writeEv, evData, EvPiece.size]
            omega
          · intro _
            exact h8 hfit
          · show (pass r es (s.wr e)).1.empty = _
            rw [h9]
            simp [ESt.wr, ESt.writeEv]
        · simp [pass, passLog, hr, hpa, hfit, sumEv]

/-- **one fetch, declaratively** (buffer with ascending numbers): the pending selected events are
the ones written followed by the ones still pending at the new cursor; the cursor never goes back and
covers everything written; a fetch that ran to the end of the buffer leaves nothing pending; a fetch
that stopped did so at a pending event that does not fit the open message -/
theorem pass_split (r : EvReq) : ∀ (b : List Ev) (s : ESt), Asc b →
    pendingAt r s.cursor b = passLog r b s ++ pendingAt r (pass r b s).1.cursor b ∧
    s.cursor ≤ (pass r b s).1.cursor ∧ (∀ e ∈ passLog r b s, e.num ≤ (pass r b s).1.cursor) ∧
    ((pass r b s).2 = true → pendingAt r (pass r b s).1.cursor b = []) ∧
    ((pass r b s).2 = false → ∃ e rest, pendingAt r (pass r b s).1.cursor b = e :: rest ∧
        (pass r b s).1.lim < (pass r b s).1.used + e.size) := by
  intro b
  induction b with
  | nil => intro s _; simp [pass, passLog, pendingAt]
  | cons e es ih =>
    intro s hasc
    have hasc2 : Asc es := (List.pairwise_cons.mp hasc).2
    have hgt : ∀ x ∈ es, e.num < x.num := fun x hx =>
      (List.pairwise_cons.mp hasc).1 x.num (List.mem_map.mpr ⟨x, hx, rfl⟩)
    cases hr : r.inRange s.cursor e with
    | false =>
      obtain ⟨i1, i2, i3, i4, i5⟩ := ih s hasc2
      have hw1 : r.wants s.cursor e = false := by simp [EvReq.wants, hr]
      have hw2 : r.wants (pass r es s).1.cursor e = false := by
        simp only [EvReq.wants, inRange_mono r e i2 hr, Bool.false_and]
      simp only [pass, passLog, hr, Bool.false_eq_true, ↓reduceIte, pendingAt, List.filter_cons, hw1, hw2]
      exact ⟨i1, i2, i3, i4, i5⟩
    | true =>
      have hlt := inRange_lt r hr
      cases hpa : r.passes e with
      | false =>
        obtain ⟨i1, i2, i3, i4, i5⟩ := ih { s with cursor := e.num } hasc2
        have i2' : e.num ≤ (pass r es { s with cursor := e.num }).1.cursor := i2
        have hw1 : r.wants s.cursor e = false := by simp [EvReq.wants, hpa]
        have hw2 : r.wants (pass r es { s with cursor := e.num }).1.cursor e = false := wants_of_le i2'
        have hc : pendingAt r s.cursor es = pendingAt r e.num es :=
          pendingAt_congr r (fun x hx => ⟨by have := hgt x hx; omega, hgt x hx⟩)
        simp only [pass, passLog, hr, hpa, Bool.false_eq_true, ↓reduceIte, pendingAt, List.filter_cons, hw1, hw2]
        refine ⟨?_, by omega, i3, i4, i5⟩
        have := i1
        simp only [pendingAt] at this hc
        rw [hc]; exact this
      | true =>
        have hw1 : r.wants s.cursor e = true := by simp [EvReq.wants, hr, hpa]
        by_cases hfit : s.used + e.size ≤ s.lim
        · obtain ⟨i1, i2, i3, i4, i5⟩ := ih (s.wr e) hasc2
          have i2' : e.num ≤ (pass r es (s.wr e)).1.cursor := i2
          have hw2 : r.wants (pass r es (s.wr e)).1.cursor e = false := wants_of_le i2'
          have hc : pendingAt r s.cursor es = pendingAt r e.num es :=
            pendingAt_congr r (fun x hx => ⟨by have := hgt x hx; omega, hgt x hx⟩)
          have hp : pass r (e :: es) s = pass r es (s.wr e) := by
            simp only [pass, hr, hpa, hfit, ↓reduceIte, ESt.wr]
          have hl : passLog r (e :: es) s = e :: passLog r es (s.wr e) := by
            simp only [passLog, hr, hpa, hfit, ↓reduceIte]
          rw [hp, hl]
          simp only [pendingAt, List.filter_cons, hw1, hw2, ↓reduceIte, Bool.false_eq_true, List.cons_append,
            List.cons.injEq, true_and]
          refine ⟨?_, by omega, ?_, i4, i5⟩
          · have := i1
            simp only [pendingAt] at this hc
            rw [hc]; exact this
          · intro x hx
            rcases List.mem_cons.mp hx with rfl | hx
            · exact i2'
            · exact i3 x hx
        · have hp : pass r (e :: es) s = (s, false) := by
            simp only [pass, hr, hpa, hfit, ↓reduceIte]
          have hl : passLog r (e :: es) s = [] := by
            simp only [passLog, hr, hpa, hfit, ↓reduceIte]
          rw [hp, hl]
          refine ⟨by simp, Nat.le_refl _, by simp, by simp, ?_⟩
          intro _
          refine ⟨e, pendingAt r s.cursor es, by simp [pendingAt, hw1], ?_⟩
          simp only; omega

/-- the cursor after a fetch is the cursor before it or the number of an event of the buffer -/
theorem pass_cursor_src (r : EvReq) : ∀ (b : List Ev) (s : ESt),
    (pass r b s).1.cursor = s.cursor ∨ ∃ e ∈ b, e.num = (pass r b s).1.cursor := by
  intro b
  induction b with
  | nil => intro s; exact .inl rfl
  | cons e es ih =>
    intro s
    have lift : ∀ s1 : ESt, (s1.cursor = s.cursor ∨ s1.cursor = e.num) →
        (pass r es s1).1.cursor = s.cursor ∨ ∃ x ∈ e :: es, x.num = (pass r es s1).1.cursor := by
      intro s1 hs1
      rcases ih s1 with h | ⟨x, hx, hn⟩
      · rcases hs1 with h1 | h1
        · exact .inl (h.trans h1)
        · exact .inr ⟨e, by simp, (h.trans h1).symm⟩
      · exact .inr ⟨x, by simp [hx], hn⟩
    cases hr : r.inRange s.cursor e with
    | false =>
      simp only [pass, hr, Bool.false_eq_true, ↓reduceIte]
      exact lift s (.inl rfl)
    | true =>
      cases hpa : r.passes e with
      | false =>
        simp only [pass, hr, hpa, Bool.false_eq_true, ↓reduceIte]
        exact lift { s with cursor := e.num } (.inr rfl)
      | true =>
        by_cases hfit : s.used + e.size ≤ s.lim
        · simp only [pass, hr, hpa, hfit, ↓reduceIte]
          exact lift _ (.inr rfl)
        · have hp : pass r (e :: es) s = (s, false) := by
            simp only [pass, hr, hpa, hfit, ↓reduceIte]
          rw [hp]
          exact .inl rfl

/-! ## the loop over an environment of buffers, and its trace -/

/-- the record of one fetch: the buffer it iterated, the cursor before and after, the events it
wrote, whether it reached the end of the buffer -/
structure Fetch where
  buf : List Ev
  cursor : Nat
  next : Nat
  emitted : List Ev
  finished : Bool
deriving Repr, DecidableEq, Inhabited

def fetchOf (r : EvReq) (b : List Ev) (s : ESt) : Fetch :=
  { buf := b, cursor := s.cursor, next := (pass r b s).1.cursor, emitted := passLog r b s,
    finished := (pass r b s).2 }

/-- the fetch loop over an arbitrary sequence of buffers `env 0, env 1, …` (one per fetch) -/
def evLoopEnv (c : Cfg) (r : EvReq) : Nat → (Nat → List Ev) → ESt → Except Err ESt
  | 0, _, _ => .error .loops
  | fuel + 1, env, s =>
    match pass r (env 0) s with
    | (s2, true) => .ok s2
    | (s2, false) =>
      if s2.fresh && s2.used == s2.base then .error .tooBig
      else evLoopEnv c r fuel (fun i => env (i + 1)) (s2.flushEv c)

/-- ghost: the fetches of that loop -/
def traceEnv (c : Cfg) (r : EvReq) : Nat → (Nat → List Ev) → ESt → List Fetch
  | 0, _, _ => []
  | fuel + 1, env, s =>
    fetchOf r (env 0) s ::
      (if (pass r (env 0) s).2 then []
       else traceEnv c r fuel (fun i => env (i + 1)) ((pass r (env 0) s).1.flushEv c))

/-- all events written, in order -/
def emittedAll (tr : List Fetch) : List Ev := tr.flatMap (·.emitted)

/-! ## the specification of a live answer -/

/-- **what the property demands of one fetch**, relative to the queue at that fetch: of the events
that are in the queue NOW, are selected by the request and lie behind the cursor, a prefix is reported
and exactly the rest is still pending at the new cursor; the cursor does not go back and covers
what was reported; the loop ends only when nothing is pending, and goes on only when something is -/
structure FetchOk (r : EvReq) (f : Fetch) : Prop where
  split : pendingAt r f.cursor f.buf = f.emitted ++ pendingAt r f.next f.buf
  mono : f.cursor ≤ f.next
  le : ∀ e ∈ f.emitted, e.num ≤ f.next
  done : f.finished = true → pendingAt r f.next f.buf = []
  stuck : f.finished = false → pendingAt r f.next f.buf ≠ []
  src : f.next = f.cursor ∨ ∃ e ∈ f.buf, e.num = f.next

/-- **the specification of the whole event section over a live queue**: a chain of fetches, each
starting with the cursor the one before ended with; only the last one reaches the end of its buffer -/
inductive LiveSpec (r : EvReq) : Nat → List Fetch → Prop
  | last {k : Nat} {f : Fetch} : FetchOk r f → f.cursor = k → f.finished = true → LiveSpec r k [f]
  | more {k : Nat} {f : Fetch} {fs : List Fetch} : FetchOk r f → f.cursor = k → f.finished = false →
      LiveSpec r f.next fs → LiveSpec r k (f :: fs)

theorem fetchOf_ok (r : EvReq) (b : List Ev) (s : ESt) (h : Asc b) : FetchOk r (fetchOf r b s) := by
  obtain ⟨h1, h2, h3, h4, h5⟩ := pass_split r b s h
  refine ⟨h1, h2, h3, h4, ?_, pass_cursor_src r b s⟩
  intro hf
  obtain ⟨e, rest, he, _⟩ := h5 hf
  show pendingAt r (pass r b s).1.cursor b ≠ []
  rw [he]; exact List.cons_ne_nil _ _

theorem LiveSpec.all_ok {r : EvReq} {k : Nat} {tr : List Fetch} (h : LiveSpec r k tr) :
    ∀ f ∈ tr, FetchOk r f := by
  induction h with
  | last h1 _ _ => intro f hf; rw [List.mem_singleton.mp hf]; exact h1
  | more h1 _ _ _ ih =>
    intro f hf
    rcases List.mem_cons.mp hf with rfl | hf
    · exact h1
    · exact ih f hf

theorem LiveSpec.ne_nil {r : EvReq} {k : Nat} {tr : List Fetch} (h : LiveSpec r k tr) : tr ≠ [] := by
  cases h <;> exact List.cons_ne_nil _ _

theorem LiveSpec.tail {r : EvReq} {k : Nat} {g : Fetch} {rest : List Fetch} (h : LiveSpec r k (g :: rest))
    (hne : rest ≠ []) : LiveSpec r g.next rest := by
  generalize hl : g :: rest = l at h
  cases h with
  | last h1 h2 h3 =>
    injection hl with _ hl
    exact absurd hl hne
  | more h1 h2 h3 h4 =>
    injection hl with hg hl
    subst hg; subst hl
    exact h4

theorem LiveSpec.head {r : EvReq} {k : Nat} {g : Fetch} {rest : List Fetch} (h : LiveSpec r k (g :: rest)) :
    g.cursor = k := by
  generalize hl : g :: rest = l at h
  cases h with
  | last h1 h2 h3 => injection hl with hg _; subst hg; exact h2
  | more h1 h2 h3 h4 => injection hl with hg _; subst hg; exact h2

/-- from any fetch on, the rest of the answer is again a live answer -/
theorem LiveSpec.suffix {r : EvReq} : ∀ (pre : List Fetch) {k : Nat} {f : Fetch} {post : List Fetch},
    LiveSpec r k (pre ++ f :: post) → LiveSpec r f.cursor (f :: post) := by
  intro pre
  induction pre with
  | nil =>
    intro k f post h
    have := h.head
    rw [List.nil_append] at h
    rw [this]; exact h
  | cons g pre ih =>
    intro k f post h
    exact ih (LiveSpec.tail h (by simp))

/-- the events a fetch reports were in the queue at that fetch, selected, behind its cursor -/
theorem FetchOk.sound {r : EvReq} {f : Fetch} (h : FetchOk r f) {e : Ev} (he : e ∈ f.emitted) :
    e ∈ f.buf ∧ r.wants f.cursor e = true := by
  have : e ∈ pendingAt r f.cursor f.buf := by rw [h.split]; exact List.mem_append_left _ he
  exact List.mem_filter.mp this

/-- **completeness relative to the fetch**: an event that is in the queue at the fetch, selected and
behind the cursor is either reported by this fetch, or the fetch stopped before it (message full): then
it is still pending at the new cursor, and its number is larger than every number reported so far -/
theorem FetchOk.dichotomy {r : EvReq} {f : Fetch} (h : FetchOk r f) {x : Ev} (hx : x ∈ f.buf)
    (hw : r.wants f.cursor x = true) :
    x ∈ f.emitted ∨ (f.finished = false ∧ x ∈ pendingAt r f.next f.buf ∧ f.next < x.num ∧
      ∀ e ∈ f.emitted, e.num < x.num) := by
  have hm : x ∈ pendingAt r f.cursor f.buf := List.mem_filter.mpr ⟨hx, hw⟩
  rw [h.split] at hm
  rcases List.mem_append.mp hm with hm | hm
  · exact .inl hm
  · right
    have hlt := wants_lt (List.mem_filter.mp hm).2
    refine ⟨?_, hm, hlt, fun e he => by have := h.le e he; omega⟩
    cases hf : f.finished with
    | false => rfl
    | true => rw [h.done hf] at hm; cases hm

/-- **no duplicates across chunks**: over the whole answer the reported event numbers ascend strictly
(each event at most once), and all lie behind the cursor the answer started with -/
theorem LiveSpec.increasing {r : EvReq} {k : Nat} {tr : List Fetch} (h : LiveSpec r k tr)
    (hasc : ∀ f ∈ tr, Asc f.buf) :
    ((emittedAll tr).map (·.num)).Pairwise (· < ·) ∧ ∀ e ∈ emittedAll tr, k < e.num := by
  have one : ∀ f : Fetch, FetchOk r f → Asc f.buf →
      (f.emitted.map (·.num)).Pairwise (· < ·) ∧ ∀ e ∈ f.emitted, f.cursor < e.num := by
    intro f hf ha
    refine ⟨?_, fun e he => wants_lt (hf.sound he).2⟩
    have hsub : f.emitted.Sublist f.buf := by
      have h1 : f.emitted.Sublist (pendingAt r f.cursor f.buf) := by
        rw [hf.split]; exact List.sublist_append_left _ _
      exact h1.trans List.filter_sublist
    exact List.Pairwise.sublist (hsub.map _) ha
  induction h with
  | @last k f h1 h2 _ =>
    obtain ⟨a, b⟩ := one f h1 (hasc f (by simp))
    simp only [emittedAll, List.flatMap_cons, List.flatMap_nil, List.append_nil]
    exact ⟨a, fun e he => by rw [← h2]; exact b e he⟩
  | @more k f fs h1 h2 _ _ ih =>
    obtain ⟨a, b⟩ := one f h1 (hasc f (by simp))
    obtain ⟨c, d⟩ := ih (fun g hg => hasc g (by simp [hg]))
    simp only [emittedAll, List.flatMap_cons, List.map_append] at c d ⊢
    refine ⟨List.pairwise_append.mpr ⟨a, c, ?_⟩, ?_⟩
    · intro x hx y hy
      obtain ⟨e, he, rfl⟩ := List.mem_map.mp hx
      obtain ⟨e2, he2, rfl⟩ := List.mem_map.mp hy
      have := h1.le e he
      have := d e2 he2
      omega
    · intro e he
      rcases List.mem_append.mp he with he | he
      · rw [← h2]; exact b e he
      · have := d e he; have := h1.mono; omega

/-- **completeness of the whole answer, relative to the queue**: an event that is selected, behind
the cursor `k`, and in the queue at every fetch that starts with a cursor below its number (it is
not evicted before the reader reaches it) is reported -/
theorem LiveSpec.complete {r : EvReq} {k : Nat} {tr : List Fetch} (h : LiveSpec r k tr) {x : Ev}
    (hp : r.passes x = true) (hmax : x.num ≤ r.nextMax) (hk : k < x.num)
    (hkept : ∀ f ∈ tr, f.cursor < x.num → x ∈ f.buf) : x ∈ emittedAll tr := by
  induction h with
  | @last k f h1 h2 h3 =>
    have hx : x ∈ f.buf := hkept f (by simp) (by omega)
    have hw : r.wants f.cursor x = true := by
      simp only [EvReq.wants, EvReq.inRange, Bool.and_eq_true, decide_eq_true_eq]
      exact ⟨⟨by omega, hmax⟩, hp⟩
    rcases h1.dichotomy hx hw with hm | ⟨hf, _⟩
    · simp [emittedAll, hm]
    · rw [h3] at hf; cases hf
  | @more k f fs h1 h2 _ _ ih =>
    have hx : x ∈ f.buf := hkept f (by simp) (by omega)
    have hw : r.wants f.cursor x = true := by
      simp only [EvReq.wants, EvReq.inRange, Bool.and_eq_true, decide_eq_true_eq]
      exact ⟨⟨by omega, hmax⟩, hp⟩
    rcases h1.dichotomy hx hw with hm | ⟨_, _, hlt, _⟩
    · simp [emittedAll, hm]
    · have := ih hlt (fun g hg => hkept g (by simp [hg]))
      simp only [emittedAll, List.flatMap_cons, List.mem_append] at this ⊢
      exact .inr this

/-- **completeness relative to the fetch, for the whole answer**: an event that is in the queue at
some fetch, selected, behind the cursor of that fetch, and not evicted before the reader reaches it,
is reported by that fetch or a later one.  (An event evicted between two fetches before the cursor
reached it is legitimately absent: it is in no buffer the reader sees any more.) -/
theorem LiveSpec.complete_from {r : EvReq} {k : Nat} {pre post : List Fetch} {f : Fetch}
    (h : LiveSpec r k (pre ++ f :: post)) {x : Ev} (hx : x ∈ f.buf) (hp : r.passes x = true)
    (hmax : x.num ≤ r.nextMax) (hk : f.cursor < x.num)
    (hkept : ∀ g ∈ post, g.cursor < x.num → x ∈ g.buf) : x ∈ emittedAll (f :: post) := by
  refine (LiveSpec.suffix pre h).complete hp hmax hk ?_
  intro g hg hlt
  rcases List.mem_cons.mp hg with rfl | hg
  · exact hx
  · exact hkept g hg hlt

/-- the cursor a fetch starts with is the cursor of the request or the number of an event that an
earlier fetch saw — hence below the number of every event pushed after those fetches -/
theorem LiveSpec.cursor_src {r : EvReq} : ∀ (pre : List Fetch) {k : Nat} {f : Fetch} {post : List Fetch},
    LiveSpec r k (pre ++ f :: post) → f.cursor = k ∨ ∃ g ∈ pre, ∃ e ∈ g.buf, e.num = f.cursor := by
  intro pre
  induction pre with
  | nil => intro k f post h; exact .inl h.head
  | cons g pre ih =>
    intro k f post h
    have hg : g.cursor = k := h.head
    have hok : FetchOk r g := h.all_ok g (by simp)
    rcases ih (LiveSpec.tail h (by simp)) with h1 | ⟨g2, hg2, e, he, hn⟩
    · rcases hok.src with h2 | ⟨e, he, hn⟩
      · exact .inl (h1.trans (h2.trans hg))
      · exact .inr ⟨g, by simp, e, he, hn.trans h1.symm⟩
    · exact .inr ⟨g2, by simp [hg2], e, he, hn⟩

/-- **events pushed while the answer is being sent ARE included**: an event that is newer than
everything the earlier fetches saw (a fresh event number), selected, in the range of the request, in
the queue at some fetch and not evicted before the reader reaches it, is reported -/
theorem LiveSpec.complete_new {r : EvReq} {k : Nat} {pre post : List Fetch} {f : Fetch}
    (h : LiveSpec r k (pre ++ f :: post)) {x : Ev} (hx : x ∈ f.buf) (hp : r.passes x = true)
    (hmax : x.num ≤ r.nextMax) (hk : k < x.num) (hnew : ∀ g ∈ pre, ∀ e ∈ g.buf, e.num < x.num)
    (hkept : ∀ g ∈ post, g.cursor < x.num → x ∈ g.buf) : x ∈ emittedAll (f :: post) := by
  refine h.complete_from hx hp hmax ?_ hkept
  rcases LiveSpec.cursor_src pre h with h1 | ⟨g, hg, e, he, hn⟩
  · omega
  · have := hnew g hg e he; omega

/-! ## the model meets the specification -/

theorem evLoopEnv_spec (c : Cfg) (r : EvReq) : ∀ (fuel : Nat) (env : Nat → List Ev) (s s2 : ESt),
    (∀ i, Asc (env i)) → evLoopEnv c r fuel env s = .ok s2 →
    LiveSpec r s.cursor (traceEnv c r fuel env s) ∧
      ∀ i f, (traceEnv c r fuel env s)[i]? = some f → f.buf = env i := by
  intro fuel
  induction fuel with
  | zero => intro env s s2 _ h; simp [evLoopEnv] at h
  | succ fuel ih =>
    intro env s s2 hasc h
    rcases hp : pass r (env 0) s with ⟨s1, fin⟩
    have h1 : (pass r (env 0) s).1 = s1 := by rw [hp]
    have h2 : (pass r (env 0) s).2 = fin := by rw [hp]
    have hok := fetchOf_ok r (env 0) s (hasc 0)
    simp only [evLoopEnv, hp] at h
    cases fin with
    | true =>
      have ht : traceEnv c r (fuel + 1) env s = [fetchOf r (env 0) s] := by
        simp only [traceEnv, h2, ↓reduceIte]
      rw [ht]
      refine ⟨.last hok rfl h2, ?_⟩
      intro i f hi
      cases i with
      | zero => simp only [List.getElem?_cons_zero, Option.some.injEq] at hi; rw [← hi]; rfl
      | succ i => simp at hi
    | false =>
      have ht : traceEnv c r (fuel + 1) env s =
          fetchOf r (env 0) s :: traceEnv c r fuel (fun i => env (i + 1)) (s1.flushEv c) := by
        simp only [traceEnv, h1, h2, Bool.false_eq_true, ↓reduceIte]
      rw [ht]
      simp only at h
      split at h
      · cases h
      · obtain ⟨g1, g2⟩ := ih (fun i => env (i + 1)) (s1.flushEv c) s2 (fun i => hasc (i + 1)) h
        have hc : (s1.flushEv c).cursor = (fetchOf r (env 0) s).next := by
          show s1.cursor = (pass r (env 0) s).1.cursor
          rw [h1]
        rw [hc] at g1
        refine ⟨.more hok rfl h2 g1, ?_⟩
        intro i f hi
        cases i with
        | zero => simp only [List.getElem?_cons_zero, Option.some.injEq] at hi; rw [← hi]; rfl
        | succ i => simp only [List.getElem?_cons_succ] at hi; exact g2 i f hi

/-- as long as nothing was reported, no message that was sent and not the open one holds a report
(over a live queue a message without any report may have been sent: see `orphan_chunk`) -/
def EmptyL (s : ESt) : Prop :=
  s.empty = true → s.attrs = [] ∧ s.evs = [] ∧ ∀ ch ∈ s.done, ch.pieces = [] ∧ ch.events = []

theorem EmptyOk.toL {s : ESt} (h : EmptyOk s) : EmptyL s := by
  intro he
  obtain ⟨d, a, e⟩ := h he
  exact ⟨a, e, by rw [d]; intro ch hch; cases hch⟩

/-- one fetch keeps the invariants of the event section -/
theorem pass_inv {c : Cfg} (r : EvReq) (b : List Ev) (s : ESt) (h : EInv c s) :
    EInv c (pass r b s).1 ∧ (pass r b s).1.flatEv = s.flatEv ++ (passLog r b s).map evData ∧
      (pass r b s).1.flatAt = s.flatAt ∧ (EmptyL s → EmptyL (pass r b s).1) ∧ (OInv s → OInv (pass r b s).1) := by
  obtain ⟨h1, h2, h3, h4, h5, h6, h7, h8, h9⟩ := pass_frame r b s
  refine ⟨⟨?_, ?_, ?_, ?_⟩, ?_, ?_, ?_, ?_⟩
  · rw [h4]; exact h8 h.usedLe
  · rw [h4]; exact h.limLe
  · rw [h1]; exact h.doneOk
  · rw [h5, h3, h4]; exact h.freshOk
  · simp only [ESt.flatEv, h1, h6, List.reverse_append, List.reverse_reverse, List.append_assoc]
  · simp only [ESt.flatAt, h1, h2]
  · intro he hemp
    rw [h9, Bool.and_eq_true, List.isEmpty_iff] at hemp
    obtain ⟨a, e, d⟩ := he hemp.1
    refine ⟨by rw [h2]; exact a, by rw [h6, e, hemp.2]; rfl, by rw [h1]; exact d⟩
  · intro ho
    unfold OInv ESt.all at *
    rw [h1, h2]
    exact ordered_last _ _ _ ho rfl

theorem flushEv_emptyL {c : Cfg} {s : ESt} (h : EmptyL s) : EmptyL (s.flushEv c) := by
  intro he
  obtain ⟨a, e, d⟩ := h he
  refine ⟨rfl, rfl, ?_⟩
  intro ch hch
  simp only [ESt.flushEv, List.mem_cons] at hch
  rcases hch with rfl | hch
  · simp [a, e]
  · exact d ch hch

theorem evLoopEnv_inv {c : Cfg} (hw : c.WF) (r : EvReq) : ∀ (fuel : Nat) (env : Nat → List Ev) (s s2 : ESt),
    EInv c s → evLoopEnv c r fuel env s = .ok s2 →
    EInv c s2 ∧ s2.flatEv = s.flatEv ++ (emittedAll (traceEnv c r fuel env s)).map evData ∧
      s2.flatAt = s.flatAt ∧ (EmptyL s → EmptyL s2) ∧ (OInv s → OInv s2) := by
  intro fuel
  induction fuel with
  | zero => intro env s s2 _ h; simp [evLoopEnv] at h
  | succ fuel ih =>
    intro env s s2 hi h
    rcases hp : pass r (env 0) s with ⟨s1, fin⟩
    have h1 : (pass r (env 0) s).1 = s1 := by rw [hp]
    have h2 : (pass r (env 0) s).2 = fin := by rw [hp]
    obtain ⟨p1, p2, p3, p4, p5⟩ := pass_inv r (env 0) s hi
    rw [h1] at p1 p2 p3 p4 p5
    simp only [evLoopEnv, hp] at h
    cases fin with
    | true =>
      have ht : traceEnv c r (fuel + 1) env s = [fetchOf r (env 0) s] := by
        simp only [traceEnv, h2, ↓reduceIte]
      simp only [Except.ok.injEq] at h
      subst h
      rw [ht]
      refine ⟨p1, ?_, p3, p4, p5⟩
      rw [p2]; simp [emittedAll, fetchOf]
    | false =>
      have ht : traceEnv c r (fuel + 1) env s =
          fetchOf r (env 0) s :: traceEnv c r fuel (fun i => env (i + 1)) (s1.flushEv c) := by
        simp only [traceEnv, h1, h2, Bool.false_eq_true, ↓reduceIte]
      rw [ht]
      simp only at h
      split at h
      · cases h
      · obtain ⟨f1, f2, f3, _, _⟩ := flushEv_ok hw p1
        obtain ⟨g1, g2, g3, g4, g5⟩ := ih (fun i => env (i + 1)) (s1.flushEv c) s2 f1 h
        refine ⟨g1, ?_, by rw [g3, f3, p3], fun he => g4 (flushEv_emptyL (p4 he)),
          fun ho => g5 (flushEv_ordered (p5 ho))⟩
        rw [g2, f2, p2]
        simp [emittedAll, fetchOf]

/-- the number of fetches: every fetch but the first and the last writes at least one event -/
theorem traceEnv_length (c : Cfg) (r : EvReq) : ∀ (fuel : Nat) (env : Nat → List Ev) (s s2 : ESt),
    evLoopEnv c r fuel env s = .ok s2 →
    (traceEnv c r fuel env s).length ≤ (emittedAll (traceEnv c r fuel env s)).length +
      (if s.fresh && s.used == s.base then 1 else 2) := by
  intro fuel
  induction fuel with
  | zero => intro env s s2 h; simp [evLoopEnv] at h
  | succ fuel ih =>
    intro env s s2 h
    rcases hp : pass r (env 0) s with ⟨s1, fin⟩
    have h1 : (pass r (env 0) s).1 = s1 := by rw [hp]
    have h2 : (pass r (env 0) s).2 = fin := by rw [hp]
    obtain ⟨_, _, q3, _, q5, _, q7, _, _⟩ := pass_frame r (env 0) s
    rw [h1] at q3 q5 q7
    simp only [evLoopEnv, hp] at h
    cases fin with
    | true =>
      have ht : traceEnv c r (fuel + 1) env s = [fetchOf r (env 0) s] := by
        simp only [traceEnv, h2, ↓reduceIte]
      rw [ht]
      simp only [List.length_singleton]
      split <;> omega
    | false =>
      have ht : traceEnv c r (fuel + 1) env s =
          fetchOf r (env 0) s :: traceEnv c r fuel (fun i => env (i + 1)) (s1.flushEv c) := by
        simp only [traceEnv, h1, h2, Bool.false_eq_true, ↓reduceIte]
      rw [ht]
      simp only at h
      split at h
      · cases h
      · rename_i hnb
        have g := ih (fun i => env (i + 1)) (s1.flushEv c) s2 h
        have hfl : ((s1.flushEv c).fresh && (s1.flushEv c).used == (s1.flushEv c).base) = true := by
          simp [ESt.flushEv]
        rw [hfl] at g
        simp only [↓reduceIte] at g
        simp only [List.length_cons, emittedAll, List.flatMap_cons, List.length_append] at g ⊢
        have hem : (fetchOf r (env 0) s).emitted = passLog r (env 0) s := rfl
        rw [hem]
        split
        · rename_i hfb
          -- an empty event message in which the fetch wrote nothing would have ended the interaction
          have hpos : 0 < (passLog r (env 0) s).length := by
            cases hl : passLog r (env 0) s with
            | cons a l => simp
            | nil =>
              exfalso
              rw [hl] at q7
              simp only [List.map_nil, sumEv, List.sum_nil, Nat.add_zero] at q7
              apply hnb
              rw [q5, q3, q7]; exact hfb
          omega
        · omega

/-! ## the loop of `Model/ChunkLive.lean` -/

/-- the buffer the `i`-th fetch sees -/
def envOf : List Ev → List (List Ev) → Nat → List Ev
  | b, [], _ => b
  | b, _ :: _, 0 => b
  | _, b2 :: l, i + 1 => envOf b2 l i

/-- the buffer after the last push -/
def lastOf : List Ev → List (List Ev) → List Ev
  | b, [] => b
  | _, b2 :: l => lastOf b2 l

/-- the number of fetches that always suffices: one per scheduled change of the queue, then one per
event of the final queue, plus one -/
def liveFuel (b : List Ev) (later : List (List Ev)) : Nat := later.length + (lastOf b later).length + 1

theorem envOf_nil (b : List Ev) : envOf b [] = fun _ => b := by
  funext i; cases i <;> rfl

theorem pass_buf_irrel (r : EvReq) (b0 : List Ev) : ∀ (b : List Ev) (s : ESt),
    pass { r with buf := b0 } b s = pass r b s := by
  have h1 : ∀ k e, ({ r with buf := b0 } : EvReq).inRange k e = r.inRange k e := fun _ _ => rfl
  have h2 : ∀ e, ({ r with buf := b0 } : EvReq).passes e = r.passes e := fun _ => rfl
  intro b
  induction b with
  | nil => intro s; rfl
  | cons e es ih => intro s; simp only [pass, h1, h2, ih]

/-- the frozen loop is the loop over the constant environment -/
theorem evLoop_eq_env (c : Cfg) (r : EvReq) (b : List Ev) : ∀ (fuel : Nat) (s : ESt),
    evLoop c { r with buf := b } fuel s = evLoopEnv c r fuel (fun _ => b) s := by
  intro fuel
  induction fuel with
  | zero => intro s; rfl
  | succ fuel ih =>
    intro s
    simp only [evLoop, evLoopEnv, pass_buf_irrel]
    rcases hp : pass r b s with ⟨s1, fin⟩
    cases fin with
    | true => rfl
    | false =>
      simp only
      split
      · rfl
      · exact ih _

theorem evLoopLive_eq_env (c : Cfg) (r : EvReq) : ∀ (later : List (List Ev)) (b : List Ev) (s : ESt),
    evLoopLive c r later b s = evLoopEnv c r (liveFuel b later) (envOf b later) s := by
  intro later
  induction later with
  | nil =>
    intro b s
    have hf : liveFuel b [] = b.length + 1 := by simp [liveFuel, lastOf]
    rw [hf, envOf_nil]
    simp only [evLoopLive]
    exact evLoop_eq_env c r b _ s
  | cons b2 l ih =>
    intro b s
    have hf : liveFuel b (b2 :: l) = liveFuel b2 l + 1 := by
      simp only [liveFuel, lastOf, List.length_cons]; omega
    have he : (fun i => envOf b (b2 :: l) (i + 1)) = envOf b2 l := rfl
    have h0 : envOf b (b2 :: l) 0 = b := rfl
    rw [hf]
    simp only [evLoopLive, evLoopEnv, he, h0]
    rcases hp : pass r b s with ⟨s1, fin⟩
    cases fin with
    | true => rfl
    | false =>
      simp only
      split
      · rfl
      · exact ih _ _

/-- the fetches of `evLoopLive` -/
def liveTrace (c : Cfg) (r : EvReq) (later : List (List Ev)) (b : List Ev) (s : ESt) : List Fetch :=
  traceEnv c r (liveFuel b later) (envOf b later) s

/-- **termination**: for a finite schedule of changes the live loop never runs out of fetches: it
ends with a state or with `ResourceExhausted` (an event that fits no message) -/
theorem evLoopLive_err (c : Cfg) (r : EvReq) : ∀ (later : List (List Ev)) (b : List Ev) (s : ESt) (e : Err),
    evLoopLive c r later b s = .error e → e = .tooBig := by
  intro later
  induction later with
  | nil =>
    intro b s e h
    simp only [evLoopLive] at h
    rw [evLoop_eq_sweep c { r with buf := b } b [] s b.length (Nat.le_refl _) (by simp) (by simp)] at h
    exact sweep_err _ _ _ _ h
  | cons b2 l ih =>
    intro b s e h
    simp only [evLoopLive] at h
    rcases hp : pass r b s with ⟨s1, fin⟩
    rw [hp] at h
    cases fin with
    | true => cases h
    | false =>
      simp only at h
      split at h
      · injection h with h; exact h.symm
      · exact ih _ _ _ h

/-! ## the frozen queue is the special case of a live queue that does not change -/

/-- **the frozen model is the empty schedule** -/
theorem evLoopLive_nil (c : Cfg) (r : EvReq) (s : ESt) :
    evLoopLive c r [] r.buf s = evLoop c r (r.buf.length + 1) s := rfl

theorem eventSectionLive_nil (c : Cfg) (s : ESt) (re : Option EvReq) :
    eventSectionLive c s [] re = eventSection c s re := by
  cases re with
  | none => rfl
  | some r => rfl

theorem respondLive_nil (c : Cfg) (r : Req) : respondLive c r [] = respond c r := by
  unfold respondLive respond
  cases attrSection c r.attrs with
  | error e => rfl
  | ok s1 =>
    simp only [eventSectionLive_nil]
    cases eventSection c s1 r.events with
    | error e => rfl
    | ok s2 => rfl

/-- when every fetch sees the same buffer, the live specification says: exactly the pending selected
events of that buffer, each once, in buffer order -/
theorem LiveSpec.frozen {r : EvReq} {k : Nat} {tr : List Fetch} (h : LiveSpec r k tr) (b : List Ev)
    (hb : ∀ f ∈ tr, f.buf = b) : emittedAll tr = pendingAt r k b := by
  induction h with
  | @last k f h1 h2 h3 =>
    have := h1.split
    rw [h1.done h3, List.append_nil, h2, hb f (by simp)] at this
    simp [emittedAll, this]
  | @more k f fs h1 h2 _ _ ih =>
    have := h1.split
    rw [h2, hb f (by simp)] at this
    rw [this, ← ih (fun g hg => hb g (by simp [hg]))]
    simp [emittedAll]

theorem envOf_mem : ∀ (later : List (List Ev)) (b : List Ev) (i : Nat), envOf b later i ∈ b :: later := by
  intro later
  induction later with
  | nil => intro b i; rw [envOf_nil]; simp
  | cons b2 l ih =>
    intro b i
    cases i with
    | zero => show b ∈ _; simp
    | succ i => show envOf b2 l i ∈ _; exact List.mem_cons_of_mem _ (ih b2 i)

/-! ## which fetch fills which message -/

/-- the event reports message by message: the messages sent, then the open one -/
def evLists (s : ESt) : List (List EvPiece) := s.done.reverse.map (·.events) ++ [s.evs.reverse]

theorem evLists_flatten (s : ESt) : (evLists s).flatten = s.flatEv := by
  simp [evLists, ESt.flatEv, List.flatMap_def]

/-- the data reports among event reports -/
def dataOf (evs : List EvPiece) : List EvPiece :=
  evs.filter fun p => match p with
    | .data _ _ => true
    | .status _ _ => false

theorem dataOf_append (a b : List EvPiece) : dataOf (a ++ b) = dataOf a ++ dataOf b := by
  simp [dataOf]

theorem dataOf_evData (l : List Ev) : dataOf (l.map evData) = l.map evData := by
  unfold dataOf
  apply List.filter_eq_self.mpr
  intro p hp
  obtain ⟨e, _, rfl⟩ := List.mem_map.mp hp
  rfl

/-- what the fetches of a trace leave in the messages: the first fetch writes behind what the open
message already holds (`pre`), every later fetch fills a message of its own -/
def fetchMsgs : List EvPiece → List Fetch → List (List EvPiece)
  | pre, [] => [pre]
  | pre, [f] => [pre ++ f.emitted.map evData]
  | pre, f :: g :: fs => (pre ++ f.emitted.map evData) :: fetchMsgs [] (g :: fs)

theorem fetchMsgs_spec : ∀ (tr : List Fetch) (pre : List EvPiece), tr ≠ [] →
    (fetchMsgs pre tr).length = tr.length ∧
    ∀ i f, tr[i]? = some f →
      (fetchMsgs pre tr)[i]? = some ((if i = 0 then pre else []) ++ f.emitted.map evData) := by
  intro tr
  induction tr with
  | nil => intro pre h; exact absurd rfl h
  | cons f fs ih =>
    intro pre _
    cases fs with
    | nil =>
      refine ⟨rfl, ?_⟩
      intro i g hi
      cases i with
      | zero => simp only [List.getElem?_cons_zero, Option.some.injEq] at hi; subst hi; rfl
      | succ i => simp at hi
    | cons g fs =>
      obtain ⟨l1, l2⟩ := ih [] (List.cons_ne_nil _ _)
      refine ⟨by simp only [fetchMsgs, List.length_cons] at l1 ⊢; omega, ?_⟩
      intro i x hi
      cases i with
      | zero => simp only [List.getElem?_cons_zero, Option.some.injEq] at hi; subst hi; rfl
      | succ i =>
        simp only [List.getElem?_cons_succ] at hi
        have := l2 i x hi
        simp only [fetchMsgs, List.getElem?_cons_succ]
        rw [this]
        cases i <;> simp

theorem traceEnv_ne_nil (c : Cfg) (r : EvReq) (fuel : Nat) (env : Nat → List Ev) (s s2 : ESt)
    (h : evLoopEnv c r fuel env s = .ok s2) : traceEnv c r fuel env s ≠ [] := by
  cases fuel with
  | zero => simp [evLoopEnv] at h
  | succ fuel => simp [traceEnv]

/-- **fetch `i` of the loop fills message `i` counted from the message that is open when the loop
starts** -/
theorem evLoopEnv_msgs (c : Cfg) (r : EvReq) : ∀ (fuel : Nat) (env : Nat → List Ev) (s s2 : ESt),
    evLoopEnv c r fuel env s = .ok s2 →
    evLists s2 = s.done.reverse.map (·.events) ++ fetchMsgs s.evs.reverse (traceEnv c r fuel env s) := by
  intro fuel
  induction fuel with
  | zero => intro env s s2 h; simp [evLoopEnv] at h
  | succ fuel ih =>
    intro env s s2 h
    rcases hp : pass r (env 0) s with ⟨s1, fin⟩
    have h1 : (pass r (env 0) s).1 = s1 := by rw [hp]
    have h2 : (pass r (env 0) s).2 = fin := by rw [hp]
    obtain ⟨q1, _, _, _, _, q6, _, _, _⟩ := pass_frame r (env 0) s
    rw [h1] at q1 q6
    have hem : (fetchOf r (env 0) s).emitted = passLog r (env 0) s := rfl
    simp only [evLoopEnv, hp] at h
    cases fin with
    | true =>
      have ht : traceEnv c r (fuel + 1) env s = [fetchOf r (env 0) s] := by
        simp only [traceEnv, h2, ↓reduceIte]
      simp only [Except.ok.injEq] at h
      subst h
      rw [ht]
      simp only [evLists, fetchMsgs, q1, q6, hem, List.reverse_append, List.reverse_reverse]
    | false =>
      have ht : traceEnv c r (fuel + 1) env s =
          fetchOf r (env 0) s :: traceEnv c r fuel (fun i => env (i + 1)) (s1.flushEv c) := by
        simp only [traceEnv, h1, h2, Bool.false_eq_true, ↓reduceIte]
      rw [ht]
      simp only at h
      split at h
      · cases h
      · have g := ih (fun i => env (i + 1)) (s1.flushEv c) s2 h
        have hne := traceEnv_ne_nil c r fuel (fun i => env (i + 1)) (s1.flushEv c) s2 h
        rw [g]
        obtain ⟨t, ts, hts⟩ := List.exists_cons_of_ne_nil hne
        rw [hts]
        simp only [fetchMsgs, ESt.flushEv, List.reverse_cons, List.map_append, List.map_cons, List.map_nil,
          List.reverse_nil, q1, q6, hem, List.reverse_append, List.reverse_reverse, List.append_assoc,
          List.cons_append, List.nil_append]

/-! ## the event section and the whole answer over a live queue -/

/-- the status reports of the concrete paths that do not validate -/
def statusPieces (r : EvReq) : List EvPiece := r.statuses.zipIdx.map fun (sz, k) => EvPiece.status k sz

/-- **the event reports of a live answer**: the statuses, then what a chain of fetches that meets
`LiveSpec` reports, the `i`-th fetch reading the queue as it is at that moment (`envOf`), with at
most two fetches that report nothing (the first and the last) -/
def LiveEvents (later : List (List Ev)) (re : Option EvReq) (evs : List EvPiece) : Prop :=
  match re with
  | none => evs = []
  | some r => ∃ tr, LiveSpec r r.maxSeen tr ∧ (∀ i f, tr[i]? = some f → f.buf = envOf r.buf later i) ∧
      tr.length ≤ (emittedAll tr).length + 2 ∧ evs = statusPieces r ++ (emittedAll tr).map evData

/-- **the event reports of a live answer, message by message** (`evss` = the event reports of each
message, the still open last one included): as `LiveEvents`, and in addition fetch `i` of the trace is
the one that fills message `m0 + i` — `m0` = the number of messages sent before the first fetch, none of
which carries a data report.  So an event reported in message `m0 + i` was in the queue AT FETCH `i`. -/
def LiveMsgsFull (later : List (List Ev)) (re : Option EvReq) (evss : List (List EvPiece)) : Prop :=
  match re with
  | none => ∀ evs ∈ evss, evs = []
  | some r => ∃ tr m0, LiveSpec r r.maxSeen tr ∧ (∀ i f, tr[i]? = some f → f.buf = envOf r.buf later i) ∧
      tr.length ≤ (emittedAll tr).length + 2 ∧
      evss.flatten = statusPieces r ++ (emittedAll tr).map evData ∧
      (∀ j evs, j < m0 → evss[j]? = some evs → dataOf evs = []) ∧
      (∀ i f, tr[i]? = some f → ∃ evs, evss[m0 + i]? = some evs ∧ dataOf evs = f.emitted.map evData) ∧
      evss.length = m0 + tr.length

/-- … of the messages actually SENT: all of them — or all but the last one, which is not sent when
nothing at all was reported and empty reports are suppressed (then the messages sent carry no report) -/
def LiveMsgs (later : List (List Ev)) (re : Option EvReq) (evss : List (List EvPiece)) : Prop :=
  LiveMsgsFull later re evss ∨ (LiveMsgsFull later re (evss ++ [[]]) ∧ ∀ evs ∈ evss, evs = [])

theorem LiveMsgsFull.flat {later : List (List Ev)} {re : Option EvReq} {evss : List (List EvPiece)}
    (h : LiveMsgsFull later re evss) : LiveEvents later re evss.flatten := by
  cases re with
  | none => exact List.flatten_eq_nil_iff.mpr h
  | some r =>
    obtain ⟨tr, _, h1, h2, h3, h4, _⟩ := h
    exact ⟨tr, h1, h2, h3, h4⟩

/-- the flat form: the concatenation of the event reports of the messages sent is `LiveEvents` -/
theorem LiveMsgs.flat {later : List (List Ev)} {re : Option EvReq} {evss : List (List EvPiece)}
    (h : LiveMsgs later re evss) : LiveEvents later re evss.flatten := by
  rcases h with h | ⟨h, _⟩
  · exact h.flat
  · have := h.flat
    simpa using this

/-- **message-wise soundness**: an event reported in message `j` was in the queue — and selected — at
the fetch that filled message `j` (fetch `j − m0`), not merely at some fetch of the answer -/
theorem LiveMsgsFull.msg_sound {later : List (List Ev)} {r : EvReq} {evss : List (List EvPiece)}
    (h : LiveMsgsFull later (some r) evss) :
    ∃ m0, ∀ j evs n sz, evss[j]? = some evs → EvPiece.data n sz ∈ evs →
      m0 ≤ j ∧ ∃ x ∈ envOf r.buf later (j - m0), x.num = n ∧ x.size = sz ∧ r.passes x = true := by
  obtain ⟨tr, m0, hs, hb, _, _, hpre, htie, hlen⟩ := h
  refine ⟨m0, ?_⟩
  intro j evs n sz hj hm
  have hd : EvPiece.data n sz ∈ dataOf evs := List.mem_filter.mpr ⟨hm, rfl⟩
  have hge : m0 ≤ j := by
    apply Nat.le_of_not_lt
    intro hlt
    rw [hpre j evs hlt hj] at hd
    cases hd
  refine ⟨hge, ?_⟩
  have hjl : j < evss.length := by
    apply Nat.lt_of_not_le
    intro hle
    rw [List.getElem?_eq_none hle] at hj
    cases hj
  have hi : j - m0 < tr.length := by omega
  obtain ⟨evs2, h2, h3⟩ := htie (j - m0) tr[j - m0] (List.getElem?_eq_getElem hi)
  rw [show m0 + (j - m0) = j by omega, hj] at h2
  injection h2 with h2
  subst h2
  rw [h3] at hd
  obtain ⟨x, hx, hxe⟩ := List.mem_map.mp hd
  simp only [evData, EvPiece.data.injEq] at hxe
  have hok := hs.all_ok _ (List.getElem_mem hi)
  obtain ⟨hin, hw⟩ := hok.sound hx
  rw [hb (j - m0) _ (List.getElem?_eq_getElem hi)] at hin
  simp only [EvReq.wants, Bool.and_eq_true] at hw
  exact ⟨x, hin, hxe.1, hxe.2, hw.2⟩

theorem putEvStatuses_emptyL {c : Cfg} : ∀ (szs : List Nat) (k : Nat) (s s2 : ESt), EmptyL s →
    putEvStatuses c k szs s = .ok s2 → EmptyL s2 := by
  intro szs
  induction szs with
  | nil => intro k s s2 h hp; simp [putEvStatuses] at hp; subst hp; exact h
  | cons sz szs ih =>
    intro k s s2 _ hp
    simp only [putEvStatuses] at hp
    cases h1 : putEvStatus c s k sz with
    | error e => rw [h1] at hp; cases hp
    | ok s1 =>
      rw [h1] at hp
      refine ih (k + 1) s1 s2 ?_ hp
      intro he
      rw [putEvStatus_empty h1] at he
      cases he

theorem eventSectionLive_ok {c : Cfg} (hw : c.WF) {s s2 : ESt} {later : List (List Ev)} {re : Option EvReq}
    (h : AInv c s) (hemp : EmptyL s) (ho : OInv s)
    (hasc : ∀ r, re = some r → ∀ b ∈ r.buf :: later, Asc b) (hfe : s.flatEv = [])
    (hp : eventSectionLive c s later re = .ok s2) :
    FInv c s2 ∧ EmptyL s2 ∧ OInv s2 ∧ s2.flatAt = s.flatAt ∧ LiveMsgsFull later re (evLists s2) := by
  cases re with
  | none =>
    simp only [eventSectionLive] at hp
    injection hp with hp; subst hp
    refine ⟨⟨h.usedLe, by have := h.limLe; omega, h.doneOk⟩, hemp, ho, rfl, ?_⟩
    have : (evLists s).flatten = [] := by rw [evLists_flatten, hfe]
    exact List.flatten_eq_nil_iff.mp this
  | some r =>
    simp only [eventSectionLive] at hp
    cases hx : expand c s.lim c.evOpen with
    | error e => rw [hx] at hp; cases hp
    | ok lim =>
      rw [hx] at hp
      simp only at hp
      obtain rfl := expand_ok hx
      split at hp
      · rename_i hfit
        have i1 : EInv c { s with lim := s.lim + c.evOpen, used := s.used + c.evOpen, base := s.used + c.evOpen, cursor := r.maxSeen } := by
          refine ⟨hfit, by have := h.limLe; simp only; omega, h.doneOk, ?_⟩
          intro hf
          obtain ⟨h1, h2⟩ := h.freshOk hf
          simp only; omega
        have e1 : EmptyL { s with lim := s.lim + c.evOpen, used := s.used + c.evOpen, base := s.used + c.evOpen, cursor := r.maxSeen } := hemp
        have o1 : OInv { s with lim := s.lim + c.evOpen, used := s.used + c.evOpen, base := s.used + c.evOpen, cursor := r.maxSeen } := ho
        cases hst : putEvStatuses c 0 r.statuses { s with lim := s.lim + c.evOpen, used := s.used + c.evOpen, base := s.used + c.evOpen, cursor := r.maxSeen } with
        | error e => rw [hst] at hp; cases hp
        | ok s3 =>
          rw [hst] at hp
          simp only at hp
          obtain ⟨i2, f2, a2, c2⟩ := putEvStatuses_ok hw _ _ _ _ i1 hst
          have e2 := putEvStatuses_emptyL _ _ _ _ e1 hst
          have o2 := putEvStatuses_ordered _ _ _ _ o1 hst
          rw [evLoopLive_eq_env] at hp
          cases hlo : evLoopEnv c r (liveFuel r.buf later) (envOf r.buf later) s3 with
          | error e => rw [hlo] at hp; cases hp
          | ok s4 =>
            rw [hlo] at hp
            simp only at hp
            have hasc2 : ∀ i, Asc (envOf r.buf later i) := fun i => hasc r rfl _ (envOf_mem later r.buf i)
            obtain ⟨sp1, sp2⟩ := evLoopEnv_spec c r _ _ _ _ hasc2 hlo
            obtain ⟨i3, f3, a3, e3, o3⟩ := evLoopEnv_inv hw r _ _ _ _ i2 hlo
            have hlen := traceEnv_length c r _ _ _ _ hlo
            cases hx2 : expand c s4.lim c.close with
            | error e => rw [hx2] at hp; cases hp
            | ok lim2 =>
              rw [hx2] at hp
              simp only at hp
              obtain rfl := expand_ok hx2
              split at hp
              · rename_i hfit2
                injection hp with hp; subst hp
                refine ⟨⟨hfit2, by have := i3.limLe; simp only; omega, i3.doneOk⟩, e3 e2, o3 o2, ?_, ?_⟩
                · show s4.flatAt = s.flatAt
                  rw [a3, a2]; rfl
                · have hc : s3.cursor = r.maxSeen := c2
                  rw [hc] at sp1
                  have hmsg := evLoopEnv_msgs c r _ _ _ _ hlo
                  have hne := traceEnv_ne_nil c r _ _ _ _ hlo
                  obtain ⟨fl, fg⟩ := fetchMsgs_spec _ s3.evs.reverse hne
                  -- before the loop only status reports were written
                  have hst3 : s3.flatEv = statusPieces r := by
                    rw [f2]
                    show s.flatEv ++ _ = _
                    rw [hfe]; rfl
                  have hnod : ∀ evs ∈ evLists s3, dataOf evs = [] := by
                    intro evs hevs
                    unfold dataOf
                    apply List.filter_eq_nil_iff.mpr
                    intro p hp
                    have hin : p ∈ (evLists s3).flatten := List.mem_flatten.mpr ⟨evs, hevs, hp⟩
                    rw [evLists_flatten, hst3] at hin
                    simp only [statusPieces, List.mem_map] at hin
                    obtain ⟨_, _, rfl⟩ := hin
                    simp
                  show LiveMsgsFull later (some r) (evLists s4)
                  refine ⟨_, s3.done.length, sp1, sp2, by split at hlen <;> omega, ?_, ?_, ?_, ?_⟩
                  · rw [evLists_flatten, f3, hst3]
                  · intro j evs hj hget
                    rw [hmsg, List.getElem?_append_left (by simpa using hj)] at hget
                    apply hnod
                    simp only [evLists, List.mem_append]
                    exact .inl (List.mem_of_getElem? hget)
                  · intro i f hi
                    refine ⟨(if i = 0 then s3.evs.reverse else []) ++ f.emitted.map evData, ?_, ?_⟩
                    · rw [hmsg, List.getElem?_append_right (by simp)]
                      simp only [List.length_map, List.length_reverse, Nat.add_sub_cancel_left]
                      exact fg i f hi
                    · rw [dataOf_append, dataOf_evData]
                      cases i with
                      | zero =>
                        simp only [↓reduceIte]
                        rw [hnod s3.evs.reverse (by simp [evLists]), List.nil_append]
                      | succ i => simp [dataOf]
                  · rw [hmsg]
                    simp only [List.length_append, List.length_map, List.length_reverse, fl]
              · cases hp
      · cases hp

/-! ## no message without a last one when every event fits a message (N5) -/

/-- as long as nothing was reported, the open message has room for every event report that fits an
empty event message -/
def RoomInv (c : Cfg) (s : ESt) : Prop := s.empty = true → s.used + c.limit ≤ s.lim + c.hdr + c.evOpen

/-- every selected event of the buffer fits an empty event message -/
def BufFits (c : Cfg) (r : EvReq) (b : List Ev) : Prop :=
  ∀ e ∈ b, r.passes e = true → c.hdr + c.evOpen + e.size ≤ c.limit

/-- a fetch that stops for want of space has reported something before — now or earlier -/
theorem pass_stuck_nonempty {c : Cfg} (r : EvReq) (b : List Ev) (s : ESt) (hasc : Asc b)
    (hr : RoomInv c s) (hfit : BufFits c r b) (hf : (pass r b s).2 = false) :
    (pass r b s).1.empty = false := by
  cases hemp : (pass r b s).1.empty with
  | false => rfl
  | true =>
    exfalso
    obtain ⟨_, _, _, q4, _, _, q7, _, q9⟩ := pass_frame r b s
    rw [hemp] at q9
    have q9' := q9.symm
    rw [Bool.and_eq_true, List.isEmpty_iff] at q9'
    obtain ⟨hse, hlog⟩ := q9'
    rw [hlog] at q7
    simp only [List.map_nil, sumEv, List.sum_nil, Nat.add_zero] at q7
    obtain ⟨_, _, _, _, p5⟩ := pass_split r b s hasc
    obtain ⟨e, rest, he, hlt⟩ := p5 hf
    have hmem : e ∈ pendingAt r (pass r b s).1.cursor b := by rw [he]; simp
    obtain ⟨heb, hw⟩ := List.mem_filter.mp hmem
    simp only [EvReq.wants, Bool.and_eq_true] at hw
    have h1 := hfit e heb hw.2
    have h2 := hr hse
    rw [q4, q7] at hlt
    omega

theorem pass_empty_false (r : EvReq) (b : List Ev) (s : ESt) (h : s.empty = false) :
    (pass r b s).1.empty = false := by
  obtain ⟨_, _, _, _, _, _, _, _, q9⟩ := pass_frame r b s
  rw [q9, h]; rfl

theorem evLoopEnv_empty_false (c : Cfg) (r : EvReq) : ∀ (fuel : Nat) (env : Nat → List Ev) (s s2 : ESt),
    s.empty = false → evLoopEnv c r fuel env s = .ok s2 → s2.empty = false := by
  intro fuel
  induction fuel with
  | zero => intro env s s2 _ h; simp [evLoopEnv] at h
  | succ fuel ih =>
    intro env s s2 he h
    rcases hp : pass r (env 0) s with ⟨s1, fin⟩
    have h1 : (pass r (env 0) s).1 = s1 := by rw [hp]
    have he1 : s1.empty = false := by rw [← h1]; exact pass_empty_false r _ s he
    simp only [evLoopEnv, hp] at h
    cases fin with
    | true => simp only [Except.ok.injEq] at h; rw [← h]; exact he1
    | false =>
      simp only at h
      split at h
      · cases h
      · exact ih _ (s1.flushEv c) s2 he1 h

/-- **no chunk is sent while nothing was reported** when every selected event of every buffer fits an
empty event message and the open message has the room of one -/
theorem evLoopEnv_noflush (c : Cfg) (r : EvReq) : ∀ (fuel : Nat) (env : Nat → List Ev) (s s2 : ESt),
    (∀ i, Asc (env i)) → (∀ i, BufFits c r (env i)) → RoomInv c s →
    evLoopEnv c r fuel env s = .ok s2 → s2.empty = true → s2.done = s.done := by
  intro fuel
  induction fuel with
  | zero => intro env s s2 _ _ _ h; simp [evLoopEnv] at h
  | succ fuel _ =>
    intro env s s2 hasc hfit hr h he2
    rcases hp : pass r (env 0) s with ⟨s1, fin⟩
    have h1 : (pass r (env 0) s).1 = s1 := by rw [hp]
    have h2 : (pass r (env 0) s).2 = fin := by rw [hp]
    obtain ⟨q1, _⟩ := pass_frame r (env 0) s
    rw [h1] at q1
    simp only [evLoopEnv, hp] at h
    cases fin with
    | true => simp only [Except.ok.injEq] at h; rw [← h]; exact q1
    | false =>
      exfalso
      have he1 : s1.empty = false := by
        rw [← h1]; exact pass_stuck_nonempty r _ s (hasc 0) hr (hfit 0) h2
      simp only at h
      split at h
      · cases h
      · have := evLoopEnv_empty_false c r _ _ (s1.flushEv c) s2 he1 h
        rw [this] at he2; cases he2

theorem putEvStatuses_room {c : Cfg} : ∀ (szs : List Nat) (k : Nat) (s s2 : ESt), RoomInv c s →
    putEvStatuses c k szs s = .ok s2 → RoomInv c s2 := by
  intro szs
  induction szs with
  | nil => intro k s s2 h hp; simp [putEvStatuses] at hp; subst hp; exact h
  | cons sz szs ih =>
    intro k s s2 _ hp
    simp only [putEvStatuses] at hp
    cases h1 : putEvStatus c s k sz with
    | error e => rw [h1] at hp; cases hp
    | ok s1 =>
      rw [h1] at hp
      refine ih (k + 1) s1 s2 ?_ hp
      intro he
      rw [putEvStatus_empty h1] at he
      cases he

/-- what `report_attributes` leaves when nothing was yielded: with the real encoding (the attribute
array start is not longer than the event array start) the room of an empty event message -/
theorem attrSection_room {c : Cfg} (hw : c.WF) (hle : c.arrOpen ≤ c.evOpen) {ra : Option (List AttrReq)} {s1 : ESt}
    (h : attrSection c ra = .ok s1) :
    s1.empty = true → s1.used + c.evOpen + c.limit ≤ s1.lim + c.evOpen + c.hdr + c.evOpen := by
  intro he
  cases ra with
  | none =>
    simp only [attrSection] at h
    injection h with h; subst h
    simp only; omega
  | some as =>
    obtain ⟨s, hp, _, _, _, _, hu, hl, _, hem⟩ := attrSection_some hw h
    rw [hem, List.isEmpty_iff] at he
    have hs : s = St.init c := by
      have : selected as = [] := by simp [selected, he]
      rw [this] at hp
      simp only [putItems] at hp
      injection hp with hp; exact hp.symm
    rw [hu, hl, hs]
    simp only [St.init]; omega

/-- the event section sends no chunk while nothing was reported -/
theorem eventSectionLive_noflush {c : Cfg} (hw : c.WF) (hle : c.arrOpen ≤ c.evOpen) {ra : Option (List AttrReq)}
    {s s2 : ESt} {later : List (List Ev)} {re : Option EvReq} (hs : attrSection c ra = .ok s)
    (hasc : ∀ r, re = some r → ∀ b ∈ r.buf :: later, Asc b)
    (hfit : ∀ r, re = some r → ∀ b ∈ r.buf :: later, BufFits c r b)
    (hp : eventSectionLive c s later re = .ok s2) : s2.empty = true → s2.done = [] := by
  intro he2
  obtain ⟨_, e1, _, _⟩ := attrSection_ok hw hs
  cases re with
  | none =>
    simp only [eventSectionLive] at hp
    injection hp with hp; subst hp
    exact (e1 he2).1
  | some r =>
    simp only [eventSectionLive] at hp
    cases hx : expand c s.lim c.evOpen with
    | error e => rw [hx] at hp; cases hp
    | ok lim =>
      rw [hx] at hp
      simp only at hp
      obtain rfl := expand_ok hx
      split at hp
      · have r1 : RoomInv c { s with lim := s.lim + c.evOpen, used := s.used + c.evOpen, base := s.used + c.evOpen, cursor := r.maxSeen } := by
          intro he
          have := attrSection_room hw hle hs he
          simp only; omega
        have e1' : EmptyOk { s with lim := s.lim + c.evOpen, used := s.used + c.evOpen, base := s.used + c.evOpen, cursor := r.maxSeen } := e1
        cases hst : putEvStatuses c 0 r.statuses { s with lim := s.lim + c.evOpen, used := s.used + c.evOpen, base := s.used + c.evOpen, cursor := r.maxSeen } with
        | error e => rw [hst] at hp; cases hp
        | ok s3 =>
          rw [hst] at hp
          simp only at hp
          have r3 := putEvStatuses_room _ _ _ _ r1 hst
          have e3 := putEvStatuses_empty _ _ _ _ e1' hst
          rw [evLoopLive_eq_env] at hp
          cases hlo : evLoopEnv c r (liveFuel r.buf later) (envOf r.buf later) s3 with
          | error e => rw [hlo] at hp; cases hp
          | ok s4 =>
            rw [hlo] at hp
            simp only at hp
            cases hx2 : expand c s4.lim c.close with
            | error e => rw [hx2] at hp; cases hp
            | ok lim2 =>
              rw [hx2] at hp
              simp only at hp
              split at hp
              · injection hp with hp; subst hp
                have he4 : s4.empty = true := he2
                have hd := evLoopEnv_noflush c r _ _ s3 s4
                  (fun i => hasc r rfl _ (envOf_mem later r.buf i))
                  (fun i => hfit r rfl _ (envOf_mem later r.buf i)) r3 hlo he4
                show s4.done = []
                rw [hd]
                -- nothing was reported before the loop either
                have he3 : s3.empty = true := by
                  cases h3 : s3.empty with
                  | true => rfl
                  | false =>
                    have := evLoopEnv_empty_false c r _ _ s3 s4 h3 hlo
                    rw [this] at he4; cases he4
                exact (e3 he3).1
              · cases hp
      · cases hp

theorem flatMap_pieces_nil (l : List ChunkOut) (h : ∀ ch ∈ l, ch.pieces = []) :
    l.flatMap (·.pieces) = [] := by
  induction l with
  | nil => rfl
  | cons a l ih =>
    simp only [List.flatMap_cons, h a (by simp), List.nil_append]
    exact ih (fun ch hch => h ch (by simp [hch]))

end Chunk

namespace C14
open Chunk

/-- what a well-behaved answer `cs` looks like when the event queue changes between the chunks
(`later` = the queue at the second, third, … fetch) -/
structure GoodLive (c : Cfg) (r : Req) (later : List (List Ev)) (cs : List ChunkOut) : Prop where
  /-- the attribute side as over a frozen queue (`Good.attrs`): every selected attribute exactly once, in
  order; an error status exactly for the report that fits no message -/
  attrs : ∃ outs, AllJustified c (selOf r.attrs) outs ∧ cs.flatMap (·.pieces) = allPieces (selOf r.attrs) outs
  /-- the event reports meet the live specification, message by message: the events of the message
  that fetch `i` fills are what that fetch — reading the queue as it is at that moment — reports -/
  events : LiveMsgs later r.events (cs.map (·.events))
  /-- fits the transport's maximum size -/
  bounded : ∀ ch ∈ cs, ch.size ≤ c.cap
  /-- no attribute report follows an event report -/
  order : Ordered cs
  /-- only the last message ends the interaction.  Left disjunct: the final message is not sent
  because nothing at all was reported and empty reports are suppressed — then every message that WAS
  sent carries no report (over a frozen queue: no message was sent; over a live one see `orphan_chunk`) -/
  lastEnds : (r.sendIfEmpty = false ∧ cs.flatMap (·.pieces) = [] ∧ cs.flatMap (·.events) = [] ∧
      ∀ ch ∈ cs, ch.more = true) ∨
    ∃ front last, cs = front ++ [last] ∧ last.more = false ∧ ∀ ch ∈ front, ch.more = true

/-- **C14 over a live queue**: whatever the sizes and whatever is pushed into the queue between the
chunks (every buffer a fetch sees iterates in ascending order: `liveBufs_ascending`), an answer of the
responder is `GoodLive` -/
theorem respondLive_good {c : Cfg} {r : Req} {later : List (List Ev)} {cs : List ChunkOut} (hw : c.WF)
    (hasc : ∀ e, r.events = some e → ∀ b ∈ e.buf :: later, Asc b)
    (h : respondLive c r later = .ok cs) : GoodLive c r later cs := by
  unfold respondLive at h
  cases h1 : attrSection c r.attrs with
  | error e => rw [h1] at h; cases h
  | ok s1 =>
    rw [h1] at h
    simp only at h
    cases h2 : eventSectionLive c s1 later r.events with
    | error e => rw [h2] at h; cases h
    | ok s2 =>
      rw [h2] at h
      simp only at h
      obtain ⟨a1, e1, f1, outs, hj, hfa⟩ := attrSection_ok hw h1
      obtain ⟨a2, e2, o2, fa2, hev⟩ :=
        eventSectionLive_ok hw a1 e1.toL (attrSection_ordered hw h1) hasc f1 h2
      split at h
      · rw [sendDone_ok hw a2] at h
        injection h with h
        subst h
        refine ⟨⟨outs, hj, ?_⟩, ?_, ?_, ?_, ?_⟩
        · rw [← hfa, ← fa2]; simp [ESt.flatAt, List.flatMap_append]
        · have : (({ pieces := s2.attrs.reverse, events := s2.evs.reverse, size := s2.used + c.trailerDone, more := false } :: s2.done).reverse).map (·.events) = evLists s2 := by
            simp [evLists]
          rw [this]; exact .inl hev
        · intro ch hch
          simp only [List.mem_reverse, List.mem_cons] at hch
          rcases hch with rfl | hch
          · have := a2.usedLe; have := a2.limLe; have := hw.trailerDone; simp only; omega
          · exact (a2.doneOk ch hch).2
        · unfold OInv ESt.all at o2
          simp only [List.reverse_cons]
          exact ordered_last _ _ _ o2 rfl
        · refine .inr ⟨s2.done.reverse, { pieces := s2.attrs.reverse, events := s2.evs.reverse, size := s2.used + c.trailerDone, more := false }, by simp, rfl, ?_⟩
          intro ch hch
          exact (a2.doneOk ch (List.mem_reverse.mp hch)).1
      · rename_i hsup
        injection h with h
        subst h
        simp only [Bool.or_eq_true, Bool.not_eq_eq_eq_not, Bool.not_true, not_or, Bool.not_eq_true,
          Bool.not_eq_false] at hsup
        obtain ⟨ha, he, hd⟩ := e2 hsup.2
        have hp0 : s2.done.reverse.flatMap (·.pieces) = [] :=
          flatMap_pieces_nil _ (fun ch hch => (hd ch (List.mem_reverse.mp hch)).1)
        have he0 : s2.done.reverse.flatMap (·.events) = [] :=
          flatMap_events_nil _ (fun ch hch => (hd ch (List.mem_reverse.mp hch)).2)
        have hat : s2.flatAt = [] := by simp [ESt.flatAt, hp0, ha]
        refine ⟨⟨outs, hj, by rw [hp0, ← hfa, ← fa2, hat]⟩, ?_, ?_, ?_, ?_⟩
        · right
          have : evLists s2 = s2.done.reverse.map (·.events) ++ [[]] := by simp [evLists, he]
          rw [← this]
          refine ⟨hev, ?_⟩
          intro evs hevs
          obtain ⟨ch, hch, rfl⟩ := List.mem_map.mp hevs
          exact (hd ch (List.mem_reverse.mp hch)).2
        · intro ch hch
          exact (a2.doneOk ch (List.mem_reverse.mp hch)).2
        · exact ordered_of_no_events _ (fun ch hch => (hd ch (List.mem_reverse.mp hch)).2)
        · exact .inl ⟨hsup.1, hp0, he0, fun ch hch => (a2.doneOk ch (List.mem_reverse.mp hch)).1⟩

/-- **only the last message ends the interaction, also over a live queue** — when the attribute array
start is not longer than the event array start (the real encoding) and every selected event of every
buffer a fetch may see fits an empty event message: nothing is sent at all (an empty report that is
suppressed), or the last message and only the last has MoreChunkedMessages clear.  The message without a
last one of `orphan_chunk` needs an event that fits no message (or another encoding). -/
theorem respondLive_lastEnds {c : Cfg} {r : Req} {later : List (List Ev)} {cs : List ChunkOut} (hw : c.WF)
    (hle : c.arrOpen ≤ c.evOpen)
    (hasc : ∀ e, r.events = some e → ∀ b ∈ e.buf :: later, Asc b)
    (hfit : ∀ e, r.events = some e → ∀ b ∈ e.buf :: later, BufFits c e b)
    (h : respondLive c r later = .ok cs) :
    (cs = [] ∧ r.sendIfEmpty = false) ∨
      ∃ front last, cs = front ++ [last] ∧ last.more = false ∧ ∀ ch ∈ front, ch.more = true := by
  rcases (respondLive_good hw hasc h).lastEnds with ⟨hs, _, _, hm⟩ | hr
  · left
    refine ⟨?_, hs⟩
    unfold respondLive at h
    cases h1 : attrSection c r.attrs with
    | error e => rw [h1] at h; cases h
    | ok s1 =>
      rw [h1] at h
      simp only at h
      cases h2 : eventSectionLive c s1 later r.events with
      | error e => rw [h2] at h; cases h
      | ok s2 =>
        rw [h2] at h
        simp only at h
        split at h
        · -- the final message was sent: it has MoreChunks clear, against `∀ ch ∈ cs, ch.more = true`
          obtain ⟨a1, e1, f1, _⟩ := attrSection_ok hw h1
          obtain ⟨a2, _⟩ := eventSectionLive_ok hw a1 e1.toL (attrSection_ordered hw h1) hasc f1 h2
          rw [sendDone_ok hw a2] at h
          injection h with h
          have := hm { pieces := s2.attrs.reverse, events := s2.evs.reverse, size := s2.used + c.trailerDone, more := false }
            (by rw [← h]; simp)
          cases this
        · rename_i hsup
          injection h with h
          simp only [Bool.or_eq_true, Bool.not_eq_eq_eq_not, Bool.not_true, not_or, Bool.not_eq_true,
            Bool.not_eq_false] at hsup
          rw [← h, eventSectionLive_noflush hw hle h1 hasc hfit h2 hsup.2]
          rfl
  · exact .inr hr

end C14

/-! ## the buffers the queue model produces -/
namespace Chunk
open Queue

theorem Queue.after_qinv {q : Queue} (hq : QInv q) (ops : List QOp) : QInv (q.after ops) := by
  obtain ⟨q2, h1, h2⟩ := run_ok ops q hq
  simp only [Queue.after, h1, Option.getD_some]
  exact h2

theorem Queue.states_qinv : ∀ (sched : List (List QOp)) (q : Queue), QInv q → ∀ q2 ∈ q.states sched, QInv q2 := by
  intro sched
  induction sched with
  | nil => intro q hq q2 h; simp only [Queue.states, List.mem_singleton] at h; rw [h]; exact hq
  | cons ops sched ih =>
    intro q hq q2 h
    simp only [Queue.states, List.mem_cons] at h
    rcases h with rfl | h
    · exact hq
    · exact ih _ (Queue.after_qinv hq ops) q2 h

theorem Queue.view_asc (size : QEv → Nat) (sel : QEv → Bool) {q : Queue} (hq : QInv q)
    (hw : q.wrapped = false) : Asc (q.view size sel) := by
  have := hq.asc hw
  unfold Asc Queue.view
  rw [List.map_map]
  exact this

theorem liveBufs_cons (size : QEv → Nat) (sel : QEv → Bool) (q : Queue) (sched : List (List QOp)) :
    q.view size sel :: liveBufs size sel q sched = (q.states sched).map (Queue.view size sel) := by
  cases sched <;> rfl

/-- **every buffer a fetch sees iterates in ascending order of event numbers**, whatever other tasks
push between the chunks (any priorities and lengths, evictions, promotions, failed pushes), as long as
the 64-bit event number does not wrap -/
theorem liveBufs_ascending (size : QEv → Nat) (sel : QEv → Bool) {q : Queue} (sched : List (List QOp))
    (hq : QInv q) (hnw : ∀ q2 ∈ q.states sched, q2.wrapped = false) :
    ∀ b ∈ q.view size sel :: liveBufs size sel q sched, Asc b := by
  intro b hb
  rw [liveBufs_cons] at hb
  obtain ⟨q2, h2, rfl⟩ := List.mem_map.mp hb
  exact Queue.view_asc size sel (Queue.states_qinv sched q hq q2 h2) (hnw q2 h2)

/-- **how the queue may change between two fetches**: some events are gone (evicted), the rest
keep their order, the new ones follow and carry numbers larger than every number that was in the queue -/
def Evolves (b b2 : List Ev) : Prop :=
  ∃ kept new, b2 = kept ++ new ∧ kept.Sublist b ∧ ∀ x ∈ new, ∀ y ∈ b, y.num < x.num

/-- what one `push` does to the iteration order: a sublist of the old one, followed by the new event
(if it was stored) which carries the number `next_event_number` -/
theorem Queue.push_evolves (q : Queue) (hq : QInv q) (prio len : Nat) (abort : Option Nat) :
    ∃ kept new, (q.push prio len abort).1.iter = kept ++ new ∧ kept.Sublist q.iter ∧ ∀ x ∈ new, x.num = q.next := by
  have hc1 : Caps { q.bumpNext with part := 0 } :=
    ⟨by have := hq.caps.d; show qLen q.debug + 0 ≤ q.n; omega, hq.caps.i, hq.caps.c⟩
  obtain ⟨k, hk⟩ : ∃ k, k = pushLen len abort := ⟨_, rfl⟩
  obtain ⟨q2, r, h1, h2, h3, h4, h5⟩ := writeBytes_ok k _ hc1
  have hsub : q2.iter.Sublist q.iter := h2.sub
  have hnone : ∃ kept new, (iter { q2 with part := 0 }) = kept ++ new ∧ kept.Sublist q.iter ∧ ∀ x ∈ new, x.num = q.next :=
    ⟨q2.iter, [], by simp [iter], hsub, by simp⟩
  unfold push
  simp only [← hk, h1]
  rcases h4 with rfl | rfl
  · simp only
    by_cases hkl : k < len
    · simp only [hkl, if_true]; exact hnone
    · simp only [hkl, if_false]
      by_cases hst : q2.part = len ∧ 0 < len
      · simp only [hst, and_self, if_true]
        exact ⟨q2.iter, [{ num := q.next, prio := prio, len := len }], by simp [iter], hsub, by simp⟩
      · simp only [hst, if_false]; exact hnone
  · simp only; exact hnone

/-- a history of pushes (no reset, no load) that does not wrap the event number -/
theorem Queue.run_evolves : ∀ (ops : List QOp) (q q2 : Queue), QInv q →
    (∀ op ∈ ops, ∃ p l a, op = .push p l a) → q.run ops = some q2 → q2.wrapped = false →
    q.wrapped = false ∧ q.next ≤ q2.next ∧
      ∃ kept new, q2.iter = kept ++ new ∧ kept.Sublist q.iter ∧ ∀ x ∈ new, q.next ≤ x.num := by
  intro ops
  induction ops with
  | nil =>
    intro q q2 _ _ h hw
    simp only [run, Option.some.injEq] at h
    subst h
    exact ⟨hw, Nat.le_refl _, q.iter, [], by simp, List.Sublist.refl _, by simp⟩
  | cons op ops ih =>
    intro q q2 hq hops h hw
    obtain ⟨p, l, a, rfl⟩ := hops op (by simp)
    obtain ⟨q1, res, g1, g2, g3, g4, g5, g6⟩ := push_ok q hq p l a
    have hrun : q1.run ops = some q2 := by
      simp only [run, g1] at h
      cases res with
      | ok v => exact h
      | error e =>
        cases e with
        | panic w => exact absurd rfl (g3 w)
        | resourceExhausted => exact h
        | closure => exact h
    obtain ⟨w1, n1, kept2, new2, e2, s2, b2⟩ := ih q1 q2 g2 (fun o ho => hops o (by simp [ho])) hrun hw
    rw [g6] at w1
    simp only [bumpNext, Bool.or_eq_false_iff, decide_eq_false_iff_not] at w1
    have hn : q1.next = q.next + 1 := by rw [g5]; simp only [bumpNext]; rw [if_neg w1.2]
    obtain ⟨kept1, new1, e1, s1, b1⟩ := Queue.push_evolves q hq p l a
    rw [g1] at e1
    simp only at e1
    rw [e1] at s2
    obtain ⟨ka, kb, rfl, ha, hb⟩ := List.sublist_append_iff.mp s2
    refine ⟨w1.1, by omega, ka, kb ++ new2, by rw [e2, List.append_assoc], ha.trans s1, ?_⟩
    intro x hx
    rcases List.mem_append.mp hx with hx | hx
    · have := b1 x (hb.subset hx); omega
    · have := b2 x hx; omega

/-- **between two fetches the buffer `Evolves`** when other tasks only push (no factory reset while the
answer is sent) and the event number does not wrap: evicted events never come back, and every event
pushed meanwhile is newer than everything the earlier fetch could see -/
theorem after_evolves (size : QEv → Nat) (sel : QEv → Bool) {q : Queue} (hq : QInv q) (ops : List QOp)
    (hops : ∀ op ∈ ops, ∃ p l a, op = .push p l a) (hw : (q.after ops).wrapped = false) :
    Evolves (q.view size sel) ((q.after ops).view size sel) := by
  obtain ⟨q2, h1, _⟩ := run_ok ops q hq
  have ha : q.after ops = q2 := by simp only [Queue.after, h1, Option.getD_some]
  rw [ha] at hw ⊢
  obtain ⟨w0, _, kept, new, e, sk, hb⟩ := Queue.run_evolves ops q q2 hq hops h1 hw
  let f : QEv → Ev := fun x => { num := x.num, size := size x, sel := sel x }
  refine ⟨kept.map f, new.map f, by simp only [Queue.view, e, List.map_append, f], sk.map f, ?_⟩
  intro x hx y hy
  obtain ⟨x0, hx0, rfl⟩ := List.mem_map.mp hx
  simp only [Queue.view, List.mem_map] at hy
  obtain ⟨y0, hy0, rfl⟩ := hy
  have := hb x0 hx0
  have := hq.lt w0 y0 hy0
  show y0.num < x0.num
  omega

end Chunk

namespace C14
open Chunk

/-- the event numbers of the data reports among event reports -/
def dataNums (evs : List EvPiece) : List Nat :=
  evs.filterMap fun p => match p with
    | .data n _ => some n
    | .status _ _ => none

theorem dataNums_live (r : EvReq) (em : List Ev) :
    dataNums (statusPieces r ++ em.map evData) = em.map (·.num) := by
  have h1 : dataNums (statusPieces r) = [] := by
    simp only [dataNums, statusPieces, List.filterMap_map]
    apply List.filterMap_eq_nil_iff.mpr
    intro x _; rfl
  have h2 : dataNums (em.map evData) = em.map (·.num) := by
    simp only [dataNums, List.filterMap_map]
    induction em with
    | nil => rfl
    | cons e es ih => simp [evData, ih]
  have : dataNums (statusPieces r ++ em.map evData) = dataNums (statusPieces r) ++ dataNums (em.map evData) := by
    simp [dataNums, List.filterMap_append]
  rw [this, h1, h2, List.nil_append]

/-- **no duplicates across the chunks of a live answer**: the event numbers reported over the whole
answer ascend strictly (every event at most once, whatever was pushed, evicted or promoted between
the chunks), and all lie in the range of the request -/
theorem live_no_duplicates {later : List (List Ev)} {r : EvReq} {evs : List EvPiece}
    (hasc : ∀ b ∈ r.buf :: later, Asc b) (h : LiveEvents later (some r) evs) :
    (dataNums evs).Pairwise (· < ·) ∧ ∀ n ∈ dataNums evs, r.maxSeen < n ∧ n ≤ r.nextMax := by
  obtain ⟨tr, hs, hb, _, rfl⟩ := h
  have hascf : ∀ f ∈ tr, Asc f.buf := by
    intro f hf
    obtain ⟨i, hi, rfl⟩ := List.mem_iff_getElem.mp hf
    rw [hb i _ (List.getElem?_eq_getElem hi)]
    exact hasc _ (envOf_mem later r.buf i)
  obtain ⟨h1, h2⟩ := hs.increasing hascf
  rw [dataNums_live]
  refine ⟨h1, ?_⟩
  intro n hn
  obtain ⟨e, he, rfl⟩ := List.mem_map.mp hn
  refine ⟨h2 e he, ?_⟩
  obtain ⟨f, hf, hef⟩ := List.mem_flatMap.mp he
  have hw := ((hs.all_ok f hf).sound hef).2
  simp only [EvReq.wants, EvReq.inRange, Bool.and_eq_true, decide_eq_true_eq] at hw
  exact hw.1.2

/-- **every reported event was in the queue at one of the fetches, selected by the request and in its
range** (trace-free form; inside `LiveEvents` the fetch is ITS OWN fetch and the event lies behind the
cursor of that fetch: `FetchOk.sound`) -/
theorem live_sound {later : List (List Ev)} {r : EvReq} {evs : List EvPiece} (h : LiveEvents later (some r) evs)
    {n sz : Nat} (hm : EvPiece.data n sz ∈ evs) :
    ∃ i x, x ∈ envOf r.buf later i ∧ x.num = n ∧ x.size = sz ∧ r.passes x = true ∧ r.maxSeen < n ∧ n ≤ r.nextMax := by
  obtain ⟨tr, hs, hb, _, rfl⟩ := h
  rcases List.mem_append.mp hm with hm | hm
  · simp only [statusPieces, List.mem_map] at hm
    obtain ⟨_, _, hx⟩ := hm
    cases hx
  · obtain ⟨x, hx, hxe⟩ := List.mem_map.mp hm
    simp only [evData, EvPiece.data.injEq] at hxe
    obtain ⟨f, hf, hef⟩ := List.mem_flatMap.mp hx
    obtain ⟨i, hi, rfl⟩ := List.mem_iff_getElem.mp hf
    have hok := hs.all_ok _ hf
    obtain ⟨hin, hw⟩ := hok.sound hef
    rw [hb i _ (List.getElem?_eq_getElem hi)] at hin
    have hk : r.maxSeen < x.num := by
      -- behind the cursor of its fetch, which is not below the cursor of the request
      have := wants_lt hw
      obtain ⟨pre, post, hsplit⟩ : ∃ pre post, tr = pre ++ tr[i] :: post :=
        ⟨tr.take i, tr.drop (i + 1), by simp⟩
      rw [hsplit] at hs
      rcases LiveSpec.cursor_src pre hs with h1 | ⟨g, hg, e, he, hn⟩
      · omega
      · -- the cursor is the number of an event an earlier fetch saw: the chain only moves forward
        have hge : ∀ (p : List Fetch) (k : Nat) (f0 : Fetch) (q : List Fetch),
            LiveSpec r k (p ++ f0 :: q) → k ≤ f0.cursor := by
          intro p
          induction p with
          | nil => intro k f0 q h0; rw [h0.head]; exact Nat.le_refl _
          | cons g0 p ih =>
            intro k f0 q h0
            have := ih _ f0 q (LiveSpec.tail h0 (by simp))
            have := (h0.all_ok g0 (by simp)).mono
            have := h0.head
            omega
        have := hge pre _ _ post hs
        omega
    simp only [EvReq.wants, EvReq.inRange, Bool.and_eq_true, decide_eq_true_eq] at hw
    exact ⟨i, x, hin, hxe.1, hxe.2, hw.2, by rw [← hxe.1]; exact hk, by rw [← hxe.1]; exact hw.1.2⟩

/-- **an event that stays in the queue is reported**: an event that is selected, in the range of
the request and in the queue at every fetch of the answer (never evicted while the answer is sent) -/
theorem live_complete_persistent {later : List (List Ev)} {r : EvReq} {evs : List EvPiece}
    (h : LiveEvents later (some r) evs) {x : Ev} (hp : r.passes x = true) (hk : r.maxSeen < x.num)
    (hmax : x.num ≤ r.nextMax) (hkept : ∀ b ∈ r.buf :: later, x ∈ b) : evData x ∈ evs := by
  obtain ⟨tr, hs, hb, _, rfl⟩ := h
  refine List.mem_append_right _ (List.mem_map.mpr ⟨x, ?_, rfl⟩)
  refine hs.complete hp hmax hk ?_
  intro f hf _
  obtain ⟨i, hi, rfl⟩ := List.mem_iff_getElem.mp hf
  rw [hb i _ (List.getElem?_eq_getElem hi)]
  exact hkept _ (envOf_mem later r.buf i)

/-- the queue a request is run on is reached by a history of operations from the empty queue -/
theorem qinv_of_run {n : Nat} {ops : List QOp} {q : Queue} (h : (Queue.new n).run ops = some q) : Queue.QInv q := by
  obtain ⟨q2, h1, h2⟩ := Queue.run_ok ops (Queue.new n) (Queue.qinv_new n)
  rw [h] at h1
  injection h1 with h1
  rw [h1]; exact h2

/-- **C14 while other tasks push events**: for the queue `q` of `im/events.rs` after any history,
and any operations `sched` performed on it between the chunks (pushes of any priority and length with
their evictions and promotions, failed pushes), an answer of the responder is `GoodLive` — as long as
the 64-bit event number does not wrap -/
theorem respondQ_good {c : Cfg} {r : Req} {size : QEv → Nat} {sel : QEv → Bool} {q : Queue}
    {sched : List (List QOp)} {cs : List ChunkOut} (hw : c.WF) (hq : Queue.QInv q)
    (hnw : ∀ q2 ∈ q.states sched, q2.wrapped = false) (h : respondQ c r size sel q sched = .ok cs) :
    GoodLive c (r.onQueue size sel q) (liveBufs size sel q sched) cs := by
  refine respondLive_good hw ?_ h
  intro e he
  have hbuf : e.buf = q.view size sel := by
    simp only [Req.onQueue] at he
    cases hre : r.events with
    | none => rw [hre] at he; cases he
    | some e0 => rw [hre] at he; injection he with he; rw [← he]
  rw [hbuf]
  exact liveBufs_ascending size sel sched hq hnw

/-- **termination over a live queue**: when only finitely many changes of the queue happen while
the answer is sent (`later` is a finite list; after it the queue stays as it is) the responder always
ends: with an answer, `NoSpace` or `ResourceExhausted` — never with an endless sequence of chunks.
Without this fairness assumption a Read (`next_max_seen = u64::MAX`) need not end: see the module text. -/
theorem respondLive_never_loops {c : Cfg} {r : Req} {later : List (List Ev)} {e : Err}
    (h : respondLive c r later = .error e) : e = .noSpace ∨ e = .tooBig := by
  unfold respondLive at h
  cases h1 : attrSection c r.attrs with
  | error e2 => rw [h1] at h; injection h with h; subst h; exact .inl (attrSection_err h1)
  | ok s1 =>
    rw [h1] at h
    simp only at h
    cases h2 : eventSectionLive c s1 later r.events with
    | error e2 =>
      rw [h2] at h; injection h with h; subst h
      cases hre : r.events with
      | none => rw [hre] at h2; cases h2
      | some ev =>
        rw [hre] at h2
        simp only [eventSectionLive] at h2
        cases hx : expand c s1.lim c.evOpen with
        | error e3 => rw [hx] at h2; injection h2 with h2; subst h2; exact .inl (expand_err hx)
        | ok lim =>
          rw [hx] at h2
          simp only at h2
          split at h2
          · cases hst : putEvStatuses c 0 ev.statuses { s1 with lim := lim, used := s1.used + c.evOpen, base := s1.used + c.evOpen, cursor := ev.maxSeen } with
            | error e3 => rw [hst] at h2; injection h2 with h2; subst h2; exact .inl (putEvStatuses_err _ _ _ _ hst)
            | ok s3 =>
              rw [hst] at h2
              simp only at h2
              cases hlo : evLoopLive c ev later ev.buf s3 with
              | error e3 => rw [hlo] at h2; injection h2 with h2; subst h2; exact .inr (evLoopLive_err c ev _ _ _ _ hlo)
              | ok s4 =>
                rw [hlo] at h2
                simp only at h2
                cases hx2 : expand c s4.lim c.close with
                | error e3 => rw [hx2] at h2; injection h2 with h2; subst h2; exact .inl (expand_err hx2)
                | ok lim2 =>
                  rw [hx2] at h2
                  simp only at h2
                  split at h2
                  · cases h2
                  · injection h2 with h2; exact .inl h2.symm
          · injection h2 with h2; exact .inl h2.symm
    | ok s2 =>
      rw [h2] at h
      simp only at h
      split at h
      · unfold sendDone at h
        cases hx : expand c s2.lim c.reserve with
        | error e3 => rw [hx] at h; injection h with h; subst h; exact .inl (expand_err hx)
        | ok lim =>
          rw [hx] at h
          simp only at h
          split at h
          · cases h
          · injection h with h; exact .inl h.symm
      · cases h

end C14
