import RsMatterVerif.Model.Codec.Mdns
/-!
# Lemmas about the mDNS wire-format model (`Model/Codec/Mdns.lean`)

1. the cursor primitives (`take`, `advance`, `subParser`) under the parser invariant `pos ≤ len ≤ |octets|`;
2. `ParsedName::parse`: the fuel handed out by `parseName` is never exhausted (termination of pointer
   following), no panic, and the flat (compression-free) encoding parses back to its labels;
3. refusal clauses of the name parser.
-/
namespace Codec.Mdns

/-- invariant of an `octseq::Parser` over the octets `d` -/
def P.Inv (d : List Nat) (p : P) : Prop := p.pos ≤ p.len ∧ p.len ≤ d.length

/-- "neither a panic nor an exhausted step budget" -/
def Fine {α : Type} (r : R α) : Prop := r ≠ .error .panic ∧ r ≠ .error .fuel

theorem Fine.ok {α : Type} (a : α) : Fine (.ok a : R α) := ⟨by simp, by simp⟩
theorem Fine.err {α : Type} {e : PErr} (h1 : e ≠ .panic) (h2 : e ≠ .fuel) : Fine (.error e : R α) :=
  ⟨by simpa using h1, by simpa using h2⟩

/-! ## 1. cursor primitives -/

theorem be_one (b : Nat) : be [b] = b := by simp [be]
theorem be_two (a b : Nat) : be [a, b] = a * 256 + b := by simp [be]
theorem be_four (a b c e : Nat) : be [a, b, c, e] = ((a * 256 + b) * 256 + c) * 256 + e := by simp [be]

theorem be_u16be (x : Nat) (h : x < 65536) : be (u16be x) = x := by
  simp only [u16be, be_two]; omega
theorem be_u32be (x : Nat) (h : x < 4294967296) : be (u32be x) = x := by
  simp only [u32be, be_four]; omega

/-- what `take` answers, by cases; under the invariant it never panics -/
theorem take_spec (d : List Nat) (p : P) (n : Nat) (hi : p.Inv d) :
    (p.len - p.pos < n ∧ take d p n = .error .shortInput) ∨
    (n ≤ p.len - p.pos ∧ take d p n = .ok ((d.drop p.pos).take n, ⟨p.pos + n, p.len⟩)) := by
  obtain ⟨h1, h2⟩ := hi
  unfold take
  rw [if_neg (by omega)]
  by_cases hn : p.len - p.pos < n
  · left; exact ⟨hn, by rw [if_pos hn]⟩
  · right; refine ⟨by omega, ?_⟩
    rw [if_neg hn, if_pos (by omega)]

/-- `take` answers `ok` only with the cursor advanced by `n` inside the limit -/
theorem take_ok_inv (d : List Nat) (p : P) (n : Nat) (a : List Nat) (p' : P) (h : take d p n = .ok (a, p')) :
    p'.pos = p.pos + n ∧ p'.len = p.len ∧ p'.pos ≤ p'.len ∧ a = (d.drop p.pos).take n ∧ p.pos + n ≤ d.length := by
  unfold take at h
  split at h
  · cases h
  · split at h
    · cases h
    · split at h
      · injection h with h; injection h with h1 h2; subst h1 h2
        refine ⟨rfl, rfl, ?_, rfl, by assumption⟩
        show p.pos + n ≤ p.len
        omega
      · cases h

theorem take_ne_fuel (d : List Nat) (p : P) (n : Nat) : take d p n ≠ .error .fuel := by
  unfold take; split; · simp
  split; · simp
  split <;> simp

/-- reading the octets `A` that are known to sit at the cursor -/
theorem take_at (d : List Nat) (pos len : Nat) (A B : List Nat) (h : d.drop pos = A ++ B)
    (hfit : pos + A.length ≤ len) (hd : len ≤ d.length) :
    take d ⟨pos, len⟩ A.length = .ok (A, ⟨pos + A.length, len⟩) ∧ d.drop (pos + A.length) = B := by
  constructor
  · unfold take
    simp only
    rw [if_neg (by omega), if_neg (by omega), if_pos (by omega), h, List.take_left' rfl]
  · rw [← List.drop_drop, h, List.drop_left' rfl]

theorem parseU8_at (d : List Nat) (pos len b : Nat) (B : List Nat) (h : d.drop pos = b :: B)
    (hfit : pos + 1 ≤ len) (hd : len ≤ d.length) :
    parseU8 d ⟨pos, len⟩ = .ok (b, ⟨pos + 1, len⟩) ∧ d.drop (pos + 1) = B := by
  have := take_at d pos len [b] B h hfit hd
  refine ⟨?_, this.2⟩
  simp only [parseU8, bind, Except.bind]
  rw [show (1 : Nat) = [b].length from rfl, this.1]
  simp [be_one, pure, Except.pure]

theorem parseU16_at (d : List Nat) (pos len x : Nat) (B : List Nat) (hx : x < 65536) (h : d.drop pos = u16be x ++ B)
    (hfit : pos + 2 ≤ len) (hd : len ≤ d.length) :
    parseU16 d ⟨pos, len⟩ = .ok (x, ⟨pos + 2, len⟩) ∧ d.drop (pos + 2) = B := by
  have := take_at d pos len (u16be x) B h hfit hd
  refine ⟨?_, this.2⟩
  simp only [parseU16, bind, Except.bind]
  rw [show (2 : Nat) = (u16be x).length from rfl, this.1]
  simp only [pure, Except.pure, be_u16be x hx]

theorem parseU32_at (d : List Nat) (pos len x : Nat) (B : List Nat) (hx : x < 4294967296) (h : d.drop pos = u32be x ++ B)
    (hfit : pos + 4 ≤ len) (hd : len ≤ d.length) :
    parseU32 d ⟨pos, len⟩ = .ok (x, ⟨pos + 4, len⟩) ∧ d.drop (pos + 4) = B := by
  have := take_at d pos len (u32be x) B h hfit hd
  refine ⟨?_, this.2⟩
  simp only [parseU32, bind, Except.bind]
  rw [show (4 : Nat) = (u32be x).length from rfl, this.1]
  simp only [pure, Except.pure, be_u32be x hx]

/-- result discipline of a parser step: a value with a parser that still satisfies the invariant under the
same limit `L`, or a proper error (never a panic, never an exhausted budget) -/
def GoodR {α : Type} (d : List Nat) (L : Nat) (r : R (α × P)) : Prop :=
  match r with
  | .ok (_, p') => p'.Inv d ∧ p'.len = L
  | .error e => e ≠ .panic ∧ e ≠ .fuel

/-- the same for steps that answer only a parser -/
def GoodP (d : List Nat) (L : Nat) (r : R P) : Prop :=
  match r with
  | .ok p' => p'.Inv d ∧ p'.len = L
  | .error e => e ≠ .panic ∧ e ≠ .fuel

theorem GoodR.fine {α : Type} {d : List Nat} {L : Nat} {r : R (α × P)} (h : GoodR d L r) : Fine r := by
  unfold GoodR at h
  split at h
  · exact Fine.ok _
  · exact Fine.err h.1 h.2

theorem GoodP.fine {d : List Nat} {L : Nat} {r : R P} (h : GoodP d L r) : Fine r := by
  unfold GoodP at h
  split at h
  · exact Fine.ok _
  · exact Fine.err h.1 h.2

theorem GoodR.bind {α β : Type} {d : List Nat} {L : Nat} {x : R (α × P)} {f : α × P → R (β × P)}
    (hx : GoodR d L x) (hf : ∀ a p', p'.Inv d → p'.len = L → GoodR d L (f (a, p'))) : GoodR d L (x >>= f) := by
  cases x with
  | error e => exact hx
  | ok v => obtain ⟨a, p'⟩ := v; exact hf a p' hx.1 hx.2

theorem GoodR.bindP {α β : Type} {d : List Nat} {L : Nat} {x : R (α × P)} {f : α × P → R P}
    (hx : GoodR d L x) (hf : ∀ a p', p'.Inv d → p'.len = L → GoodP d L (f (a, p'))) : GoodP d L (x >>= f) := by
  cases x with
  | error e => exact hx
  | ok v => obtain ⟨a, p'⟩ := v; exact hf a p' hx.1 hx.2

theorem GoodP.bind {β : Type} {d : List Nat} {L : Nat} {x : R P} {f : P → R (β × P)}
    (hx : GoodP d L x) (hf : ∀ p', p'.Inv d → p'.len = L → GoodR d L (f p')) : GoodR d L (x >>= f) := by
  cases x with
  | error e => exact hx
  | ok v => exact hf v hx.1 hx.2

theorem GoodP.bindP {d : List Nat} {L : Nat} {x : R P} {f : P → R P}
    (hx : GoodP d L x) (hf : ∀ p', p'.Inv d → p'.len = L → GoodP d L (f p')) : GoodP d L (x >>= f) := by
  cases x with
  | error e => exact hx
  | ok v => exact hf v hx.1 hx.2

theorem take_good (d : List Nat) (p : P) (n : Nat) (hi : p.Inv d) : GoodR d p.len (take d p n) := by
  have ⟨h1, h2⟩ := hi
  rcases take_spec d p n hi with ⟨_, h⟩ | ⟨hn, h⟩
  · rw [h]; exact ⟨by simp, by simp⟩
  · rw [h]; exact ⟨⟨by show p.pos + n ≤ p.len; omega, h2⟩, rfl⟩

theorem parseU8_good (d : List Nat) (p : P) (hi : p.Inv d) : GoodR d p.len (parseU8 d p) :=
  GoodR.bind (take_good d p 1 hi) (fun _ _ h1 h2 => ⟨h1, h2⟩)
theorem parseU16_good (d : List Nat) (p : P) (hi : p.Inv d) : GoodR d p.len (parseU16 d p) :=
  GoodR.bind (take_good d p 2 hi) (fun _ _ h1 h2 => ⟨h1, h2⟩)
theorem parseU32_good (d : List Nat) (p : P) (hi : p.Inv d) : GoodR d p.len (parseU32 d p) :=
  GoodR.bind (take_good d p 4 hi) (fun _ _ h1 h2 => ⟨h1, h2⟩)

theorem advance_good (d : List Nat) (p : P) (n : Nat) (hi : p.Inv d) : GoodP d p.len (advance p n) := by
  obtain ⟨h1, h2⟩ := hi
  unfold advance
  rw [if_neg (by omega)]
  split
  · exact ⟨by simp, by simp⟩
  · exact ⟨⟨by show p.pos + n ≤ p.len; omega, h2⟩, rfl⟩

/-- the sub-parser over the next `n` octets: the invariant holds with the new limit `pos + n` -/
theorem subParser_good (d : List Nat) (p : P) (n : Nat) (hi : p.Inv d) :
    match subParser p n with
    | .ok sp => sp.Inv d ∧ sp.pos = p.pos ∧ sp.len = p.pos + n ∧ sp.len ≤ p.len
    | .error e => e ≠ .panic ∧ e ≠ .fuel := by
  obtain ⟨h1, h2⟩ := hi
  unfold subParser
  rw [if_neg (by omega)]
  by_cases hn : p.len - p.pos < n
  · rw [if_pos hn]; exact ⟨by simp, by simp⟩
  · rw [if_neg hn]
    exact ⟨⟨by show p.pos ≤ p.pos + n; omega, by show p.pos + n ≤ d.length; omega⟩, rfl, rfl, by show p.pos + n ≤ p.len; omega⟩

theorem parseLabelType_good (d : List Nat) (p : P) (hi : p.Inv d) : GoodR d p.len (parseLabelType d p) := by
  unfold parseLabelType
  refine GoodR.bind (parseU8_good d p hi) ?_
  intro t p1 h1 h2
  dsimp only
  split
  · exact ⟨h1, h2⟩
  · split
    · refine GoodR.bind (h2 ▸ parseU8_good d p1 h1) ?_
      intro lo p2 h3 h4
      exact ⟨h3, h4⟩
    · exact ⟨by simp, by simp⟩

theorem parseU8_ok_inv (d : List Nat) (p : P) (b : Nat) (p' : P) (h : parseU8 d p = .ok (b, p')) :
    p'.pos = p.pos + 1 ∧ p'.len = p.len ∧ p'.pos ≤ p'.len := by
  unfold parseU8 at h
  cases ht : take d p 1 with
  | error e => rw [ht] at h; cases h
  | ok v =>
    obtain ⟨a, q⟩ := v
    rw [ht] at h
    have := take_ok_inv d p 1 a q ht
    injection h with h; injection h with h1 h2; subst h2
    exact ⟨this.1, this.2.1, this.2.2.1⟩

theorem parseU8_ne_fuel (d : List Nat) (p : P) : parseU8 d p ≠ .error .fuel := by
  unfold parseU8
  cases ht : take d p 1 with
  | error e => intro h; injection h with h; subst h; exact take_ne_fuel d p 1 ht
  | ok v => obtain ⟨a, q⟩ := v; simp [bind, Except.bind, pure, Except.pure]

/-- inversion of a successful `LabelType::parse` -/
theorem parseLabelType_ok_inv (d : List Nat) (p : P) (lt : LT) (p1 : P) (h : parseLabelType d p = .ok (lt, p1)) :
    p1.len = p.len ∧ p1.pos ≤ p1.len ∧
    match lt with
    | .normal n => p1.pos = p.pos + 1 ∧ n ≤ 63
    | .ptr _ => p1.pos = p.pos + 2 := by
  unfold parseLabelType at h
  cases h8 : parseU8 d p with
  | error e => rw [h8] at h; cases h
  | ok v =>
    obtain ⟨t, q⟩ := v
    rw [h8] at h
    have hq := parseU8_ok_inv d p t q h8
    simp only [bind, Except.bind] at h
    split at h
    · rename_i ht
      injection h with h; injection h with h1 h2; subst h1 h2
      exact ⟨hq.2.1, hq.2.2, hq.1, ht⟩
    · split at h
      · cases h9 : parseU8 d q with
        | error e => rw [h9] at h; cases h
        | ok w =>
          obtain ⟨lo, q2⟩ := w
          rw [h9] at h
          have hq2 := parseU8_ok_inv d q lo q2 h9
          injection h with h; injection h with h1 h2; subst h1 h2
          refine ⟨by show q2.len = p.len; omega, hq2.2.2, ?_⟩
          show q2.pos = p.pos + 2
          omega
      · cases h

theorem parseLabelType_ne_fuel (d : List Nat) (p : P) : parseLabelType d p ≠ .error .fuel := by
  unfold parseLabelType
  cases h8 : parseU8 d p with
  | error e => intro h; injection h with h; subst h; exact parseU8_ne_fuel d p h8
  | ok v =>
    obtain ⟨t, q⟩ := v
    simp only [bind, Except.bind]
    split
    · simp [pure, Except.pure]
    · split
      · cases h9 : parseU8 d q with
        | error e => intro h; injection h with h; subst h; exact parseU8_ne_fuel d q h9
        | ok w => obtain ⟨lo, q2⟩ := w; simp [pure, Except.pure]
      · simp [throw, throwThe, MonadExceptOf.throw]

/-! ## 2. `ParsedName::parse` -/

/-- `nameStep` without the monad -/
theorem nameStep_eq (d : List Nat) (s : NS) :
    nameStep d s =
      match parseLabelType d s.p with
      | .error e => .error e
      | .ok (.normal n, p1) =>
        if n = 0 then
          .ok (.done { labels := s.acc.reverse, nameLen := s.nameLen + 1, compressed := s.compressed } (s.outer.getD p1))
        else
          match take d p1 n with
          | .error e => .error e
          | .ok (label, p2) =>
            if s.nameLen + n + 1 ≥ 255 then .error .longName
            else .ok (.more { s with p := p2, nameLen := s.nameLen + n + 1, acc := label :: s.acc })
      | .ok (.ptr t, p1) =>
        if p1.pos < 2 then .error .panic
        else if t ≥ p1.pos - 2 then .error .compression
        else if t > p1.len then .error .shortInput
        else .ok (.more { s with p := { p1 with pos := t }, compressed := decide (s.nameLen ≠ 0), outer := some (s.outer.getD p1) }) := by
  unfold nameStep
  cases hl : parseLabelType d s.p with
  | error e => rfl
  | ok v =>
    obtain ⟨lt, p1⟩ := v
    cases lt with
    | normal n =>
      simp only [bind, Except.bind]
      by_cases hn : n = 0
      · simp only [hn, if_true]; rfl
      · simp only [hn, if_false]
        cases ht : take d p1 n with
        | error e => rfl
        | ok w =>
          obtain ⟨label, p2⟩ := w
          simp only []
          split <;> rfl
    | ptr t =>
      simp only [bind, Except.bind]
      split
      · rfl
      · split
        · rfl
        · split <;> rfl


/-- invariant of the loop state of `parse_ref`: the walking parser and the caller's parser satisfy the
parser invariant under the same limit `L` -/
def NS.Inv (d : List Nat) (L : Nat) (s : NS) : Prop :=
  s.p.Inv d ∧ s.p.len = L ∧ ∀ q, s.outer = some q → q.Inv d ∧ q.len = L

theorem outer_getD_inv (d : List Nat) (L : Nat) (s : NS) (hs : s.Inv d L) (p1 : P) (h1 : p1.Inv d) (h2 : p1.len = L) :
    (s.outer.getD p1).Inv d ∧ (s.outer.getD p1).len = L := by
  cases ho : s.outer with
  | none => exact ⟨h1, h2⟩
  | some q => exact hs.2.2 q ho

/-- one turn of the loop keeps the invariant and never panics -/
theorem nameStep_good (d : List Nat) (L : Nat) (s : NS) (hs : s.Inv d L) :
    match nameStep d s with
    | .ok (.more s') => s'.Inv d L
    | .ok (.done _ p') => p'.Inv d ∧ p'.len = L
    | .error e => e ≠ .panic ∧ e ≠ .fuel := by
  have hg := parseLabelType_good d s.p hs.1
  rw [nameStep_eq]
  cases hl : parseLabelType d s.p with
  | error e => rw [hl] at hg; exact hg
  | ok v =>
    obtain ⟨lt, p1⟩ := v
    rw [hl] at hg
    have hinv := parseLabelType_ok_inv d s.p lt p1 hl
    obtain ⟨hp1, hp1l⟩ := hg
    rw [hs.2.1] at hp1l
    cases lt with
    | normal n =>
      simp only
      by_cases hn : n = 0
      · simp only [hn, if_true]
        exact outer_getD_inv d L s hs p1 hp1 hp1l
      · simp only [hn, if_false]
        have ht := take_good d p1 n hp1
        cases hk : take d p1 n with
        | error e => rw [hk] at ht; exact ht
        | ok w =>
          obtain ⟨label, p2⟩ := w
          rw [hk] at ht
          simp only
          by_cases hlen : s.nameLen + n + 1 ≥ 255
          · rw [if_pos hlen]; exact ⟨by simp, by simp⟩
          · rw [if_neg hlen]; exact ⟨ht.1, by rw [ht.2, hp1l], hs.2.2⟩
    | ptr t =>
      simp only
      have h2 : p1.pos = s.p.pos + 2 := hinv.2.2
      rw [if_neg (by omega)]
      by_cases h3 : t ≥ p1.pos - 2
      · rw [if_pos h3]; exact ⟨by simp, by simp⟩
      · rw [if_neg h3]
        by_cases h4 : t > p1.len
        · rw [if_pos h4]; exact ⟨by simp, by simp⟩
        · rw [if_neg h4]
          refine ⟨⟨by show t ≤ p1.len; omega, hp1.2⟩, hp1l, ?_⟩
          intro q hq
          simp only [Option.some.injEq] at hq
          subst hq
          exact outer_getD_inv d L s hs p1 hp1 hp1l

/-- progress measure of the loop: a label lengthens the name (which stays below 255), a pointer moves the
cursor strictly backwards and leaves the name length alone -/
theorem nameStep_more (d : List Nat) (s s' : NS) (h : nameStep d s = .ok (.more s')) :
    s'.p.len = s.p.len ∧ s'.p.pos ≤ s'.p.len ∧
    ((∃ n, 1 ≤ n ∧ s'.nameLen = s.nameLen + n + 1 ∧ s'.nameLen < 255 ∧ s'.p.pos = s.p.pos + 1 + n) ∨
     (s'.nameLen = s.nameLen ∧ s'.p.pos < s.p.pos)) := by
  rw [nameStep_eq] at h
  cases hl : parseLabelType d s.p with
  | error e => rw [hl] at h; cases h
  | ok v =>
    obtain ⟨lt, p1⟩ := v
    rw [hl] at h
    have hinv := parseLabelType_ok_inv d s.p lt p1 hl
    cases lt with
    | normal n =>
      simp only at h
      by_cases hn : n = 0
      · simp only [hn, if_true] at h; cases h
      · simp only [hn, if_false] at h
        cases hk : take d p1 n with
        | error e => rw [hk] at h; cases h
        | ok w =>
          obtain ⟨label, p2⟩ := w
          rw [hk] at h
          have hti := take_ok_inv d p1 n label p2 hk
          simp only at h
          split at h
          · cases h
          · rename_i hlen
            injection h with h; injection h with h; subst h
            have h1 : p1.pos = s.p.pos + 1 := hinv.2.2.1
            refine ⟨by show p2.len = s.p.len; omega, hti.2.2.1, Or.inl ⟨n, by omega, rfl, by show s.nameLen + n + 1 < 255; omega, ?_⟩⟩
            show p2.pos = s.p.pos + 1 + n
            omega
    | ptr t =>
      simp only at h
      have h2 : p1.pos = s.p.pos + 2 := hinv.2.2
      split at h
      · cases h
      · split at h
        · cases h
        · split at h
          · cases h
          · rename_i h3 h4 h5
            injection h with h; injection h with h; subst h
            refine ⟨hinv.1, by show t ≤ p1.len; omega, Or.inr ⟨rfl, ?_⟩⟩
            show t < s.p.pos
            omega

theorem nameStep_ne_fuel (d : List Nat) (s : NS) : nameStep d s ≠ .error .fuel := by
  rw [nameStep_eq]
  cases hl : parseLabelType d s.p with
  | error e => intro h; injection h with h; subst h; exact parseLabelType_ne_fuel d s.p hl
  | ok v =>
    obtain ⟨lt, p1⟩ := v
    cases lt with
    | normal n =>
      simp only
      split
      · simp
      · cases hk : take d p1 n with
        | error e => intro h; injection h with h; subst h; exact take_ne_fuel d p1 n hk
        | ok w => obtain ⟨label, p2⟩ := w; simp only; split <;> simp
    | ptr t =>
      simp only
      split; · simp
      split; · simp
      split <;> simp


/-- a turn that continues started inside the limit -/
theorem nameStep_more_pos (d : List Nat) (s s' : NS) (h : nameStep d s = .ok (.more s')) : s.p.pos < s.p.len := by
  rw [nameStep_eq] at h
  cases hl : parseLabelType d s.p with
  | error e => rw [hl] at h; cases h
  | ok v =>
    obtain ⟨lt, p1⟩ := v
    have hinv := parseLabelType_ok_inv d s.p lt p1 hl
    cases lt with
    | normal n => have : p1.pos = s.p.pos + 1 := hinv.2.2.1; omega
    | ptr t => have : p1.pos = s.p.pos + 2 := hinv.2.2; omega

/-- the termination measure of the label loop: (name octets still allowed, cursor) in lexicographic order -/
def NS.mu (s : NS) : Nat := (255 - s.nameLen) * (s.p.len + 2) + s.p.pos

theorem nameStep_mu (d : List Nat) (s s' : NS) (h : nameStep d s = .ok (.more s')) : s'.mu < s.mu := by
  obtain ⟨hl, _, hc⟩ := nameStep_more d s s' h
  unfold NS.mu
  rw [hl]
  rcases hc with ⟨n, hn1, hn2, hn3, hn4⟩ | ⟨h1, h2⟩
  · have e : 255 - s.nameLen = (255 - s'.nameLen) + (n + 1) := by omega
    rw [e, Nat.add_mul]
    have : (n + 1) * 2 ≤ (n + 1) * (s.p.len + 2) := Nat.mul_le_mul_left _ (by omega)
    omega
  · rw [h1]; omega

/-- **the step budget is never exhausted**: `nameRun` with more fuel than the measure of its state does
not answer `fuel` -/
theorem nameRun_ne_fuel (d : List Nat) : ∀ (f : Nat) (s : NS), s.mu < f → nameRun f d s ≠ .error .fuel := by
  intro f
  induction f with
  | zero => intro s h; omega
  | succ f ih =>
    intro s h
    unfold nameRun
    cases hs : nameStep d s with
    | error e => simp only; intro h2; injection h2 with h2; subst h2; exact nameStep_ne_fuel d s hs
    | ok st =>
      cases st with
      | done n p => simp
      | more s' =>
        simp only
        exact ih s' (by have := nameStep_mu d s s' hs; omega)

theorem mu_init (p : P) (h : p.pos ≤ p.len) :
    NS.mu { p := p, nameLen := 0, acc := [], compressed := false, outer := none } < nameFuel p := by
  unfold NS.mu nameFuel
  simp only
  omega

/-- **`ParsedName::parse` terminates on every input**: whatever the octets and wherever the cursor, the
fuel `256 * (len + 2)` handed out by `parseName` suffices (compression pointers cannot loop) -/
theorem parseName_ne_fuel (d : List Nat) (p : P) : parseName d p ≠ .error .fuel := by
  unfold parseName
  by_cases h : p.pos ≤ p.len
  · exact nameRun_ne_fuel d _ _ (mu_init p h)
  · have hf : nameFuel p = (nameFuel p - 1) + 1 := by unfold nameFuel; omega
    rw [hf]
    unfold nameRun
    cases hs : nameStep d { p := p, nameLen := 0, acc := [], compressed := false, outer := none } with
    | error e => simp only; intro h2; injection h2 with h2; subst h2; exact nameStep_ne_fuel d _ hs
    | ok st =>
      cases st with
      | done n q => simp
      | more s' => have := nameStep_more_pos d _ s' hs; simp only at this; omega

/-- under the invariant, with enough fuel, the loop ends in a value or a proper error and hands back a
parser that satisfies the invariant -/
theorem nameRun_good (d : List Nat) (L : Nat) : ∀ (f : Nat) (s : NS), s.Inv d L → s.mu < f → GoodR d L (nameRun f d s) := by
  intro f
  induction f with
  | zero => intro s _ h; omega
  | succ f ih =>
    intro s hs h
    have hg := nameStep_good d L s hs
    unfold nameRun
    cases hst : nameStep d s with
    | error e => rw [hst] at hg; exact hg
    | ok st =>
      rw [hst] at hg
      cases st with
      | done n p => exact hg
      | more s' => exact ih s' hg (by have := nameStep_mu d s s' hst; omega)

theorem parseName_good (d : List Nat) (p : P) (hi : p.Inv d) : GoodR d p.len (parseName d p) := by
  unfold parseName
  refine nameRun_good d p.len _ _ ⟨hi, rfl, ?_⟩ (mu_init p hi.1)
  intro q hq; cases hq


/-! ### the flat (compression-free) encoding parses back -/

theorem parseU8_atP (d : List Nat) (p : P) (b : Nat) (B : List Nat) (h : d.drop p.pos = b :: B)
    (hfit : p.pos + 1 ≤ p.len) (hd : p.len ≤ d.length) :
    parseU8 d p = .ok (b, ⟨p.pos + 1, p.len⟩) ∧ d.drop (p.pos + 1) = B := by
  cases p with | mk pos len => exact parseU8_at d pos len b B h hfit hd

theorem take_atP (d : List Nat) (p : P) (A B : List Nat) (h : d.drop p.pos = A ++ B)
    (hfit : p.pos + A.length ≤ p.len) (hd : p.len ≤ d.length) :
    take d p A.length = .ok (A, ⟨p.pos + A.length, p.len⟩) ∧ d.drop (p.pos + A.length) = B := by
  cases p with | mk pos len => exact take_at d pos len A B h hfit hd

/-- a length octet 0..63 at the cursor is a normal label head -/
theorem parseLabelType_normal (d : List Nat) (p : P) (n : Nat) (B : List Nat) (hn : n ≤ 63) (h : d.drop p.pos = n :: B)
    (hfit : p.pos + 1 ≤ p.len) (hd : p.len ≤ d.length) :
    parseLabelType d p = .ok (.normal n, ⟨p.pos + 1, p.len⟩) := by
  unfold parseLabelType
  rw [(parseU8_atP d p n B h hfit hd).1]
  simp only [bind, Except.bind]
  rw [if_pos hn]; rfl

theorem encName_nil : encName [] = [0] := rfl
theorem encName_cons (l : List Nat) (ls : List (List Nat)) : encName (l :: ls) = (l.length % 256 :: l) ++ encName ls := by
  simp [encName, encLabel]

theorem encName_length_pos (ls : List (List Nat)) : 1 ≤ (encName ls).length := by
  simp [encName]

theorem encName_length_cons (l : List Nat) (ls : List (List Nat)) :
    (encName (l :: ls)).length = l.length + 1 + (encName ls).length := by
  rw [encName_cons]; simp; omega

/-- the label loop on the flat encoding of `labels`, from any loop state -/
theorem nameRun_flat (d : List Nat) : ∀ (labels : List (List Nat)) (f : Nat) (s : NS) (B : List Nat),
    (∀ l ∈ labels, 1 ≤ l.length ∧ l.length ≤ 63) →
    d.drop s.p.pos = encName labels ++ B →
    s.p.pos + (encName labels).length ≤ s.p.len → s.p.len ≤ d.length →
    s.nameLen + (encName labels).length ≤ 255 →
    labels.length < f →
    nameRun f d s = .ok ({ labels := s.acc.reverse ++ labels, nameLen := s.nameLen + (encName labels).length,
                           compressed := s.compressed },
                         s.outer.getD ⟨s.p.pos + (encName labels).length, s.p.len⟩) := by
  intro labels
  induction labels with
  | nil =>
    intro f s B _ hdrop hfit hd _ hf
    obtain ⟨f, rfl⟩ : ∃ k, f = k + 1 := ⟨f - 1, by omega⟩
    rw [encName_nil] at hdrop hfit
    simp only [List.length_cons, List.length_nil] at hfit
    unfold nameRun
    rw [nameStep_eq, parseLabelType_normal d s.p 0 B (by omega) hdrop (by omega) hd]
    simp [encName_nil]
  | cons l ls ih =>
    intro f s B hl hdrop hfit hd hlen hf
    obtain ⟨f, rfl⟩ : ∃ k, f = k + 1 := ⟨f - 1, by simp at hf; omega⟩
    have hl1 := hl l (by simp)
    have hmod : l.length % 256 = l.length := by omega
    rw [encName_length_cons] at hfit hlen
    have hpos := encName_length_pos ls
    rw [encName_cons, hmod] at hdrop
    have hdrop1 : d.drop s.p.pos = l.length :: (l ++ (encName ls ++ B)) := by
      rw [hdrop]; simp
    have hlt := parseLabelType_normal d s.p l.length _ hl1.2 hdrop1 (by omega) hd
    have hd1 : d.drop (s.p.pos + 1) = l ++ (encName ls ++ B) := (parseU8_atP d s.p _ _ hdrop1 (by omega) hd).2
    have htk := take_atP d ⟨s.p.pos + 1, s.p.len⟩ l (encName ls ++ B) hd1 (by simp only; omega) hd
    simp only at htk
    unfold nameRun
    rw [nameStep_eq, hlt]
    simp only
    rw [if_neg (by omega), htk.1]
    simp only
    rw [if_neg (by omega)]
    simp only
    have := ih f { s with p := ⟨s.p.pos + 1 + l.length, s.p.len⟩, nameLen := s.nameLen + l.length + 1, acc := l :: s.acc } B
      (fun x hx => hl x (by simp [hx])) htk.2 (by simp only; omega) hd (by simp only; omega) (by simp at hf; omega)
    rw [this]
    simp only [List.reverse_cons, List.append_assoc, List.singleton_append, encName_length_cons]
    congr 2
    · congr 1; omega
    · congr 2; omega

/-- **name round trip**: a name of 1..63-octet labels that is at most 255 octets on the wire, encoded
without compression at the cursor, is parsed back to exactly its labels; the parser ends right behind it -/
theorem parseName_flat (d : List Nat) (p : P) (labels : List (List Nat)) (B : List Nat) (hwf : NameWF labels)
    (hdrop : d.drop p.pos = encName labels ++ B) (hfit : p.pos + (encName labels).length ≤ p.len) (hd : p.len ≤ d.length) :
    parseName d p = .ok ({ labels := labels, nameLen := (encName labels).length, compressed := false },
                         ⟨p.pos + (encName labels).length, p.len⟩) := by
  unfold parseName
  have hlen : labels.length < nameFuel p := by
    have h1 : labels.length ≤ (encName labels).length := by
      clear hwf hdrop hfit
      induction labels with
      | nil => simp
      | cons l ls ih => rw [encName_length_cons]; simp; omega
    unfold nameFuel; omega
  have := nameRun_flat d labels (nameFuel p) { p := p, nameLen := 0, acc := [], compressed := false, outer := none } B
    hwf.1 hdrop hfit hd (by simp only; have := hwf.2; omega) hlen
  rw [this]
  simp


/-! ### a run of flat labels, then anything: the state after the labels -/

/-- octets of a run of labels (no root label) -/
def encLabels (labels : List (List Nat)) : List Nat := labels.flatMap encLabel

theorem encLabels_cons (l : List Nat) (ls : List (List Nat)) : encLabels (l :: ls) = (l.length % 256 :: l) ++ encLabels ls := by
  simp [encLabels, encLabel]

theorem encName_eq (ls : List (List Nat)) : encName ls = encLabels ls ++ [0] := rfl

theorem encLabels_length_cons (l : List Nat) (ls : List (List Nat)) :
    (encLabels (l :: ls)).length = l.length + 1 + (encLabels ls).length := by
  rw [encLabels_cons]; simp; omega

theorem length_le_encLabels (ls : List (List Nat)) : ls.length ≤ (encLabels ls).length := by
  induction ls with
  | nil => simp [encLabels]
  | cons l ls ih => rw [encLabels_length_cons]; simp; omega

/-- the loop state after walking over `labels` -/
def NS.after (s : NS) (labels : List (List Nat)) : NS :=
  { s with p := ⟨s.p.pos + (encLabels labels).length, s.p.len⟩, nameLen := s.nameLen + (encLabels labels).length,
           acc := labels.reverse ++ s.acc }

/-- walking over a run of well-formed labels that keeps the name below 255 octets costs one turn per label -/
theorem nameRun_labels (d : List Nat) : ∀ (labels : List (List Nat)) (f : Nat) (s : NS) (B : List Nat),
    (∀ l ∈ labels, 1 ≤ l.length ∧ l.length ≤ 63) →
    d.drop s.p.pos = encLabels labels ++ B →
    s.p.pos + (encLabels labels).length ≤ s.p.len → s.p.len ≤ d.length →
    s.nameLen + (encLabels labels).length < 255 →
    nameRun (f + labels.length) d s = nameRun f d (s.after labels) ∧ d.drop (s.p.pos + (encLabels labels).length) = B := by
  intro labels
  induction labels with
  | nil =>
    intro f s B _ hdrop _ _ _
    refine ⟨?_, by simpa [encLabels] using hdrop⟩
    cases s with | mk p nl acc c o => cases p with | mk pos len => simp [NS.after, encLabels]
  | cons l ls ih =>
    intro f s B hl hdrop hfit hd hlen
    have hl1 := hl l (by simp)
    have hmod : l.length % 256 = l.length := by omega
    rw [encLabels_length_cons] at hfit hlen
    rw [encLabels_cons, hmod] at hdrop
    have hdrop1 : d.drop s.p.pos = l.length :: (l ++ (encLabels ls ++ B)) := by
      rw [hdrop]; simp
    have hlt := parseLabelType_normal d s.p l.length _ hl1.2 hdrop1 (by omega) hd
    have hd1 : d.drop (s.p.pos + 1) = l ++ (encLabels ls ++ B) := (parseU8_atP d s.p _ _ hdrop1 (by omega) hd).2
    have htk := take_atP d ⟨s.p.pos + 1, s.p.len⟩ l (encLabels ls ++ B) hd1 (by simp only; omega) hd
    simp only at htk
    have hstep : nameRun (f + (l :: ls).length) d s
        = nameRun (f + ls.length) d { s with p := ⟨s.p.pos + 1 + l.length, s.p.len⟩, nameLen := s.nameLen + l.length + 1, acc := l :: s.acc } := by
      rw [show f + (l :: ls).length = (f + ls.length) + 1 by simp; omega]
      conv => lhs; unfold nameRun
      rw [nameStep_eq, hlt]
      simp only
      rw [if_neg (by omega), htk.1]
      simp only
      rw [if_neg (by omega)]
    have := ih f { s with p := ⟨s.p.pos + 1 + l.length, s.p.len⟩, nameLen := s.nameLen + l.length + 1, acc := l :: s.acc } B
      (fun x hx => hl x (by simp [hx])) htk.2 (by simp only; omega) hd (by simp only; omega)
    rw [hstep, this.1]
    refine ⟨?_, ?_⟩
    · congr 1
      simp only [NS.after, encLabels_length_cons, List.reverse_cons, List.append_assoc, List.singleton_append]
      congr 1
      · congr 1; omega
      · omega
    · have h2 := this.2
      simp only at h2
      rw [encLabels_length_cons, ← h2]; congr 1; omega


/-- the loop state `parseName` starts from -/
def NS.init (p : P) : NS := { p := p, nameLen := 0, acc := [], compressed := false, outer := none }

theorem parseName_eq_run (d : List Nat) (p : P) : parseName d p = nameRun (nameFuel p) d (NS.init p) := rfl

/-- `parseName` over a run of flat labels `pre` followed by anything: one turn of budget left at least, and
the loop state is "after `pre`" -/
theorem parseName_after (d : List Nat) (p : P) (pre : List (List Nat)) (B : List Nat)
    (hpre : ∀ l ∈ pre, 1 ≤ l.length ∧ l.length ≤ 63) (hdrop : d.drop p.pos = encLabels pre ++ B)
    (hfit : p.pos + (encLabels pre).length ≤ p.len) (hd : p.len ≤ d.length) (hlen : (encLabels pre).length < 255) :
    ∃ k, parseName d p = nameRun (k + 1) d ((NS.init p).after pre) ∧ d.drop (p.pos + (encLabels pre).length) = B ∧
      k + 1 + pre.length = nameFuel p := by
  have h1 := length_le_encLabels pre
  obtain ⟨k, hf⟩ : ∃ k, nameFuel p = k + 1 + pre.length := ⟨nameFuel p - pre.length - 1, by unfold nameFuel; omega⟩
  refine ⟨k, ?_⟩
  rw [parseName_eq_run, hf]
  have := nameRun_labels d pre (k + 1) (NS.init p) B hpre hdrop hfit hd (by simp only [NS.init]; omega)
  exact ⟨this.1, this.2, rfl⟩

theorem parseLabelType_eof (d : List Nat) (p : P) (h : p.pos = p.len) (hd : p.len ≤ d.length) :
    parseLabelType d p = .error .shortInput := by
  have := take_spec d p 1 ⟨by omega, hd⟩
  rcases this with ⟨_, h1⟩ | ⟨h2, _⟩
  · unfold parseLabelType parseU8; rw [h1]; rfl
  · omega

theorem parseLabelType_bad (d : List Nat) (p : P) (t : Nat) (B : List Nat) (h1 : 64 ≤ t) (h2 : t < 192)
    (h : d.drop p.pos = t :: B) (hfit : p.pos + 1 ≤ p.len) (hd : p.len ≤ d.length) :
    parseLabelType d p = .error .badLabel := by
  unfold parseLabelType
  rw [(parseU8_atP d p t B h hfit hd).1]
  simp only [bind, Except.bind]
  rw [if_neg (by omega), if_neg (by omega)]; rfl

theorem parseLabelType_ptr (d : List Nat) (p : P) (c lo : Nat) (B : List Nat) (h1 : 192 ≤ c)
    (h : d.drop p.pos = c :: lo :: B) (hfit : p.pos + 2 ≤ p.len) (hd : p.len ≤ d.length) :
    parseLabelType d p = .ok (.ptr (lo + c % 64 * 256), ⟨p.pos + 2, p.len⟩) := by
  unfold parseLabelType
  have a := parseU8_atP d p c (lo :: B) h (by omega) hd
  have b := parseU8_atP d ⟨p.pos + 1, p.len⟩ lo B a.2 (by simp only; omega) hd
  rw [a.1]
  simp only [bind, Except.bind]
  rw [if_neg (by omega), if_pos h1, b.1]; rfl

/-! ### refusal clauses of `ParsedName::parse` (each after an arbitrary run `pre` of well-formed labels) -/

/-- a length octet 0x40..0xBF is refused ("invalid label type"): labels longer than 63 octets do not exist -/
theorem parseName_rejects_bad_label (d : List Nat) (p : P) (pre : List (List Nat)) (t : Nat) (B : List Nat)
    (hpre : ∀ l ∈ pre, 1 ≤ l.length ∧ l.length ≤ 63) (ht1 : 64 ≤ t) (ht2 : t < 192)
    (hdrop : d.drop p.pos = encLabels pre ++ t :: B)
    (hfit : p.pos + (encLabels pre).length + 1 ≤ p.len) (hd : p.len ≤ d.length) (hlen : (encLabels pre).length < 255) :
    parseName d p = .error .badLabel := by
  obtain ⟨k, hk, hB, _⟩ := parseName_after d p pre (t :: B) hpre hdrop (by omega) hd hlen
  rw [hk]; unfold nameRun
  rw [nameStep_eq, parseLabelType_bad d ((NS.init p).after pre).p t B ht1 ht2 hB (by simp only [NS.after, NS.init]; omega) hd]

/-- a name that is cut off at a label boundary (no root label before the parser's limit) is refused -/
theorem parseName_rejects_truncated (d : List Nat) (p : P) (pre : List (List Nat)) (B : List Nat)
    (hpre : ∀ l ∈ pre, 1 ≤ l.length ∧ l.length ≤ 63) (hdrop : d.drop p.pos = encLabels pre ++ B)
    (hfit : p.pos + (encLabels pre).length = p.len) (hd : p.len ≤ d.length) (hlen : (encLabels pre).length < 255) :
    parseName d p = .error .shortInput := by
  obtain ⟨k, hk, _, _⟩ := parseName_after d p pre B hpre hdrop (by omega) hd hlen
  rw [hk]; unfold nameRun
  rw [nameStep_eq, parseLabelType_eof d ((NS.init p).after pre).p (by simp only [NS.after, NS.init]; omega) hd]

/-- a name that is cut off inside a label is refused -/
theorem parseName_rejects_truncated_label (d : List Nat) (p : P) (pre : List (List Nat)) (n : Nat) (B : List Nat)
    (hpre : ∀ l ∈ pre, 1 ≤ l.length ∧ l.length ≤ 63) (hn1 : 1 ≤ n) (hn2 : n ≤ 63)
    (hdrop : d.drop p.pos = encLabels pre ++ n :: B)
    (hfit : p.pos + (encLabels pre).length + 1 ≤ p.len) (hcut : p.len < p.pos + (encLabels pre).length + 1 + n)
    (hd : p.len ≤ d.length) (hlen : (encLabels pre).length < 255) :
    parseName d p = .error .shortInput := by
  obtain ⟨k, hk, hB, _⟩ := parseName_after d p pre (n :: B) hpre hdrop (by omega) hd hlen
  rw [hk]; unfold nameRun
  rw [nameStep_eq, parseLabelType_normal d ((NS.init p).after pre).p n B hn2 hB (by simp only [NS.after, NS.init]; omega) hd]
  simp only
  rw [if_neg (by omega)]
  have := take_spec d ⟨p.pos + (encLabels pre).length + 1, p.len⟩ n ⟨by simp only; omega, hd⟩
  rcases this with ⟨_, h1⟩ | ⟨h2, _⟩
  · simp only [NS.after, NS.init]; rw [h1]
  · simp only at h2; omega

/-- a compression pointer that does not point strictly before itself (self reference, forward pointer,
pointer past the end) is refused: this is what makes pointer loops impossible -/
theorem parseName_rejects_forward_pointer (d : List Nat) (p : P) (pre : List (List Nat)) (c lo : Nat) (B : List Nat)
    (hpre : ∀ l ∈ pre, 1 ≤ l.length ∧ l.length ≤ 63) (hc : 192 ≤ c)
    (hdrop : d.drop p.pos = encLabels pre ++ c :: lo :: B)
    (hfit : p.pos + (encLabels pre).length + 2 ≤ p.len) (hd : p.len ≤ d.length) (hlen : (encLabels pre).length < 255)
    (hfwd : p.pos + (encLabels pre).length ≤ lo + c % 64 * 256) :
    parseName d p = .error .compression := by
  obtain ⟨k, hk, hB, _⟩ := parseName_after d p pre (c :: lo :: B) hpre hdrop (by omega) hd hlen
  rw [hk]; unfold nameRun
  rw [nameStep_eq, parseLabelType_ptr d ((NS.init p).after pre).p c lo B hc hB (by simp only [NS.after, NS.init]; omega) hd]
  simp only [NS.after, NS.init]
  have e1 : ¬ (p.pos + (encLabels pre).length + 2 < 2) := by omega
  have e2 : lo + c % 64 * 256 ≥ p.pos + (encLabels pre).length + 2 - 2 := by omega
  simp only [e1, e2, if_true, if_false]

/-- a name that would exceed 255 octets is refused as soon as the label that crosses the limit is complete -/
theorem parseName_rejects_long (d : List Nat) (p : P) (pre : List (List Nat)) (l B : List Nat)
    (hpre : ∀ l ∈ pre, 1 ≤ l.length ∧ l.length ≤ 63) (hl1 : 1 ≤ l.length) (hl2 : l.length ≤ 63)
    (hdrop : d.drop p.pos = encLabels pre ++ l.length :: (l ++ B))
    (hfit : p.pos + (encLabels pre).length + 1 + l.length ≤ p.len) (hd : p.len ≤ d.length)
    (hlen : (encLabels pre).length < 255) (hlong : 255 ≤ (encLabels pre).length + l.length + 1) :
    parseName d p = .error .longName := by
  obtain ⟨k, hk, hB, _⟩ := parseName_after d p pre (l.length :: (l ++ B)) hpre hdrop (by omega) hd hlen
  rw [hk]; unfold nameRun
  rw [nameStep_eq, parseLabelType_normal d ((NS.init p).after pre).p l.length (l ++ B) hl2 hB (by simp only [NS.after, NS.init]; omega) hd]
  simp only
  rw [if_neg (by omega)]
  have hd1 := (parseU8_atP d ⟨p.pos + (encLabels pre).length, p.len⟩ _ _ hB (by simp only; omega) hd).2
  have htk := take_atP d ⟨p.pos + (encLabels pre).length + 1, p.len⟩ l B hd1 (by simp only; omega) hd
  simp only [NS.after, NS.init]
  rw [htk.1]
  have e1 : 0 + (encLabels pre).length + l.length + 1 ≥ 255 := by omega
  simp only [e1, if_true]

/-- **compressed name round trip** (suffix compression, what other responders send): labels followed by a
pointer to an earlier, flat name parse to the concatenation; the caller's parser ends behind the pointer -/
theorem parseName_compressed (d : List Nat) (p : P) (pre suf : List (List Nat)) (c lo : Nat) (B B' : List Nat)
    (hpre : ∀ l ∈ pre, 1 ≤ l.length ∧ l.length ≤ 63) (hsuf : ∀ l ∈ suf, 1 ≤ l.length ∧ l.length ≤ 63) (hc : 192 ≤ c)
    (hdrop : d.drop p.pos = encLabels pre ++ c :: lo :: B)
    (hfit : p.pos + (encLabels pre).length + 2 ≤ p.len) (hd : p.len ≤ d.length)
    (hback : lo + c % 64 * 256 < p.pos + (encLabels pre).length)
    (hsufdrop : d.drop (lo + c % 64 * 256) = encName suf ++ B')
    (hsuffit : lo + c % 64 * 256 + (encName suf).length ≤ p.len)
    (hlen : (encLabels pre).length + (encName suf).length ≤ 255) :
    parseName d p = .ok ({ labels := pre ++ suf, nameLen := (encLabels pre).length + (encName suf).length,
                           compressed := decide ((encLabels pre).length ≠ 0) },
                         ⟨p.pos + (encLabels pre).length + 2, p.len⟩) := by
  have hpos := encName_length_pos suf
  obtain ⟨k, hk, hB, hkf⟩ := parseName_after d p pre (c :: lo :: B) hpre hdrop (by omega) hd (by omega)
  rw [hk]; unfold nameRun
  rw [nameStep_eq, parseLabelType_ptr d ((NS.init p).after pre).p c lo B hc hB (by simp only [NS.after, NS.init]; omega) hd]
  simp only [NS.after, NS.init]
  have e1 : ¬ (p.pos + (encLabels pre).length + 2 < 2) := by omega
  have e2 : ¬ (lo + c % 64 * 256 ≥ p.pos + (encLabels pre).length + 2 - 2) := by omega
  have e3 : ¬ (lo + c % 64 * 256 > p.len) := by omega
  simp only [e1, e2, e3, if_false]
  have hsl : suf.length < k := by
    have h1 : suf.length ≤ (encName suf).length := by
      rw [encName_eq]; have := length_le_encLabels suf; simp; omega
    have h2 := length_le_encLabels pre
    unfold nameFuel at hkf
    omega
  have := nameRun_flat d suf k
    { p := ⟨lo + c % 64 * 256, p.len⟩, nameLen := 0 + (encLabels pre).length, acc := pre.reverse ++ [],
      compressed := decide (0 + (encLabels pre).length ≠ 0),
      outer := some ((none : Option P).getD ⟨p.pos + (encLabels pre).length + 2, p.len⟩) } B'
    hsuf hsufdrop (by simp only; omega) hd (by simp only; omega) hsl
  refine this.trans ?_
  simp


/-! ## 3. totality of the record walk: no panic, no exhausted budget -/

theorem GoodR.pure {α : Type} {d : List Nat} {L : Nat} (a : α) (p : P) (h1 : p.Inv d) (h2 : p.len = L) :
    GoodR d L (Pure.pure (a, p) : R (α × P)) := ⟨h1, h2⟩

/-- `ParsedName::skip`: every turn moves the cursor forward, so `len - pos + 1` turns are enough -/
theorem skipRun_good (d : List Nat) (L : Nat) : ∀ (f : Nat) (p : P) (len : Nat), p.Inv d → p.len = L → p.len - p.pos < f →
    GoodP d L (skipRun f d p len) := by
  intro f
  induction f with
  | zero => intro p len _ _ h; omega
  | succ f ih =>
    intro p len hi hL hf
    unfold skipRun
    have hg := parseLabelType_good d p hi
    cases hl : parseLabelType d p with
    | error e => rw [hl] at hg; exact hg
    | ok v =>
      obtain ⟨lt, p1⟩ := v
      rw [hl] at hg
      have hinv := parseLabelType_ok_inv d p lt p1 hl
      simp only [bind, Except.bind]
      cases lt with
      | normal n =>
        simp only
        by_cases hn : n = 0
        · simp only [hn, if_true]
          split
          · exact ⟨by simp, by simp⟩
          · exact ⟨hg.1, by rw [hg.2, hL]⟩
        · simp only [hn, if_false]
          have ha := advance_good d p1 n hg.1
          cases hadv : advance p1 n with
          | error e => rw [hadv] at ha; exact ha
          | ok p2 =>
            rw [hadv] at ha
            simp only
            split
            · exact ⟨by simp, by simp⟩
            · have hp2 : p1.pos ≤ p2.pos := by
                unfold advance at hadv
                split at hadv; · cases hadv
                split at hadv; · cases hadv
                injection hadv with hadv; subst hadv; simp
              have h1 : p1.pos = p.pos + 1 := hinv.2.2.1
              exact ih p2 _ ha.1 (by rw [ha.2, hg.2, hL]) (by have := ha.2; have := hg.2; omega)
      | ptr t => exact ⟨hg.1, by rw [hg.2, hL]⟩

theorem skipName_good (d : List Nat) (p : P) (hi : p.Inv d) : GoodP d p.len (skipName d p) :=
  skipRun_good d p.len _ p 0 hi rfl (by omega)

/-- a parsed record whose data parser satisfies the invariant and whose data fit the limit -/
def RecOk (d : List Nat) (L : Nat) (r : Rec) : Prop := r.data.Inv d ∧ r.data.len = L ∧ r.data.pos + r.rdlen ≤ L

/-- a target predicate on results that every proper error satisfies -/
def ErrClosed {β : Type} (T : R β → Prop) : Prop := ∀ e : PErr, e ≠ .panic → e ≠ .fuel → T (.error e)

theorem GoodR.elim {α β : Type} {d : List Nat} {L : Nat} {T : R β → Prop} (hT : ErrClosed T) {x : R (α × P)} {f : α × P → R β}
    (hx : GoodR d L x) (hf : ∀ a p', p'.Inv d → p'.len = L → T (f (a, p'))) : T (x >>= f) := by
  cases x with
  | error e => exact hT e hx.1 hx.2
  | ok v => obtain ⟨a, p'⟩ := v; exact hf a p' hx.1 hx.2

theorem GoodP.elim {β : Type} {d : List Nat} {L : Nat} {T : R β → Prop} (hT : ErrClosed T) {x : R P} {f : P → R β}
    (hx : GoodP d L x) (hf : ∀ p', p'.Inv d → p'.len = L → T (f p')) : T (x >>= f) := by
  cases x with
  | error e => exact hT e hx.1 hx.2
  | ok v => exact hf v hx.1 hx.2

theorem advance_spec (d : List Nat) (p : P) (n : Nat) (hi : p.Inv d) :
    (p.len - p.pos < n ∧ advance p n = .error .shortInput) ∨ (n ≤ p.len - p.pos ∧ advance p n = .ok ⟨p.pos + n, p.len⟩) := by
  obtain ⟨h1, h2⟩ := hi
  unfold advance
  rw [if_neg (by omega)]
  by_cases hn : n > p.len - p.pos
  · left; exact ⟨hn, by rw [if_pos hn]⟩
  · right; exact ⟨by omega, by rw [if_neg hn]⟩

/-- result discipline of `ParsedRecord::parse` -/
def RecGood (d : List Nat) (L : Nat) (r : R (Rec × P)) : Prop :=
  match r with
  | .ok (r, p') => (p'.Inv d ∧ p'.len = L) ∧ RecOk d L r
  | .error e => e ≠ .panic ∧ e ≠ .fuel

theorem parseRecord_good (d : List Nat) (p : P) (hi : p.Inv d) : RecGood d p.len (parseRecord d p) := by
  have hT : ErrClosed (RecGood d p.len) := fun e h1 h2 => ⟨h1, h2⟩
  unfold parseRecord
  refine GoodR.elim hT (parseName_good d p hi) ?_
  intro owner p0 i0 l0; dsimp only
  refine GoodR.elim hT (l0 ▸ parseU16_good d p0 i0) ?_
  intro rtype p1 i1 l1; dsimp only
  refine GoodR.elim hT (l1 ▸ parseU16_good d p1 i1) ?_
  intro cls p2 i2 l2; dsimp only
  refine GoodR.elim hT (l2 ▸ parseU32_good d p2 i2) ?_
  intro ttl p3 i3 l3; dsimp only
  refine GoodR.elim hT (l3 ▸ parseU16_good d p3 i3) ?_
  intro rdlen p4 i4 l4; dsimp only
  rcases advance_spec d p4 rdlen i4 with ⟨_, h⟩ | ⟨hn, h⟩
  · rw [h]; exact ⟨by simp, by simp⟩
  · rw [h]
    have := i4.1
    exact ⟨⟨⟨by show p4.pos + rdlen ≤ p4.len; omega, i4.2⟩, l4⟩, i4, l4, by show p4.pos + rdlen ≤ p.len; omega⟩


theorem GoodP.errClosed (d : List Nat) (L : Nat) : ErrClosed (GoodP d L) := fun _ h1 h2 => ⟨h1, h2⟩

theorem skipRecord_good (d : List Nat) (p : P) (hi : p.Inv d) : GoodP d p.len (skipRecord d p) := by
  have hT := GoodP.errClosed d p.len
  unfold skipRecord
  refine GoodP.elim hT (skipName_good d p hi) ?_
  intro p0 i0 l0
  refine GoodP.elim hT (l0 ▸ advance_good d p0 8 i0) ?_
  intro p1 i1 l1
  refine GoodR.elim hT (l1 ▸ parseU16_good d p1 i1) ?_
  intro rdlen p2 i2 l2; dsimp only
  exact l2 ▸ advance_good d p2 rdlen i2

theorem skipRecords_good (d : List Nat) (L : Nat) : ∀ (n : Nat) (p : P), p.Inv d → p.len = L → GoodP d L (skipRecords n d p) := by
  intro n
  induction n with
  | zero => intro p hi hl; exact ⟨hi, hl⟩
  | succ n ih =>
    intro p hi hl
    unfold skipRecords
    refine GoodP.elim (GoodP.errClosed d L) (hl ▸ skipRecord_good d p hi) ?_
    intro p' i' l'
    exact ih p' i' l'

theorem skipQuestions_good (d : List Nat) (L : Nat) : ∀ (n : Nat) (p : P), p.Inv d → p.len = L → GoodP d L (skipQuestions n d p) := by
  intro n
  induction n with
  | zero => intro p hi hl; exact ⟨hi, hl⟩
  | succ n ih =>
    intro p hi hl
    have hT := GoodP.errClosed d L
    unfold skipQuestions
    refine GoodR.elim hT (hl ▸ parseName_good d p hi) ?_
    intro _ p0 i0 l0; dsimp only
    refine GoodR.elim hT (l0 ▸ parseU16_good d p0 i0) ?_
    intro _ p1 i1 l1; dsimp only
    refine GoodR.elim hT (l1 ▸ parseU16_good d p1 i1) ?_
    intro _ p2 i2 l2; dsimp only
    exact ih p2 i2 l2

theorem answerStart_good (d : List Nat) (h : 12 ≤ d.length) : GoodP d d.length (answerStart d) :=
  skipQuestions_good d d.length _ ⟨12, d.length⟩ ⟨h, Nat.le_refl _⟩ rfl

theorem additionalStart_good (d : List Nat) (h : 12 ≤ d.length) : GoodP d d.length (additionalStart d) := by
  have hT := GoodP.errClosed d d.length
  unfold additionalStart
  refine GoodP.elim hT (answerStart_good d h) ?_
  intro p0 i0 l0
  refine GoodP.elim hT (skipRecords_good d d.length _ p0 i0 l0) ?_
  intro p1 i1 l1
  exact skipRecords_good d d.length _ p1 i1 l1

/-- the record walk always produces a list (an error just ends it), and every record in it is sound -/
theorem records_good (d : List Nat) (L : Nat) : ∀ (n : Nat) (p : P), p.Inv d → p.len = L →
    ∃ rs, records n d p = .ok rs ∧ ∀ r ∈ rs, RecOk d L r := by
  intro n
  induction n with
  | zero => intro p _ _; exact ⟨[], rfl, by simp⟩
  | succ n ih =>
    intro p hi hl
    have hg := parseRecord_good d p hi
    unfold records
    cases hr : parseRecord d p with
    | error e =>
      rw [hr] at hg
      have : e.fatal = false := by
        have h1 : e ≠ .panic := hg.1
        have h2 : e ≠ .fuel := hg.2
        cases e <;> simp_all [PErr.fatal]
      simp only [this]
      exact ⟨[], rfl, by simp⟩
    | ok v =>
      obtain ⟨r, p'⟩ := v
      rw [hr] at hg
      obtain ⟨⟨i', l'⟩, hok⟩ := hg
      obtain ⟨rs, hrs, hall⟩ := ih p' i' (by rw [l', hl])
      refine ⟨r :: rs, ?_, ?_⟩
      · simp only [hrs, bind, Except.bind, pure, Except.pure]
      · intro x hx
        simp only [List.mem_cons] at hx
        rcases hx with rfl | hx
        · exact hl ▸ hok
        · exact hall x hx

theorem sectionRecords_good (d : List Nat) (start : R P) (n : Nat) (hs : GoodP d d.length start) :
    ∃ rs, sectionRecords start n d = .ok rs ∧ ∀ r ∈ rs, RecOk d d.length r := by
  unfold sectionRecords
  cases start with
  | error e =>
    have : e.fatal = false := by
      have := hs.1; have := hs.2
      cases e <;> simp_all [PErr.fatal]
    simp only [this]
    exact ⟨[], rfl, by simp⟩
  | ok p => exact records_good d d.length n p hs.1 hs.2

theorem allRecords_good (d : List Nat) (h : 12 ≤ d.length) :
    ∃ rs, allRecords d = .ok rs ∧ ∀ r ∈ rs, RecOk d d.length r := by
  obtain ⟨a, ha, hall⟩ := sectionRecords_good d (answerStart d) (hdrU16 d 6) (answerStart_good d h)
  obtain ⟨b, hb, hbll⟩ := sectionRecords_good d (additionalStart d) (hdrU16 d 10) (additionalStart_good d h)
  refine ⟨a ++ b, ?_, ?_⟩
  · simp only [allRecords, ha, hb, bind, Except.bind, pure, Except.pure]
  · intro r hr
    rcases List.mem_append.mp hr with h1 | h1
    · exact hall r h1
    · exact hbll r h1


theorem Fine.errClosed {β : Type} : ErrClosed (Fine : R β → Prop) := fun _ h1 h2 => Fine.err h1 h2

theorem finish_fine {α : Type} (d : List Nat) (sp : P) (x : α) (hi : sp.Inv d) : Fine (finish sp x) := by
  unfold finish
  rw [if_neg (by have := hi.1; omega)]
  split
  · exact Fine.err (by simp) (by simp)
  · exact Fine.ok _

/-- the record-data sub-parser of a sound record exists and satisfies the invariant -/
theorem subParser_rec (d : List Nat) (L : Nat) (r : Rec) (hr : RecOk d L r) :
    subParser r.data r.rdlen = .ok ⟨r.data.pos, r.data.pos + r.rdlen⟩ ∧ P.Inv d ⟨r.data.pos, r.data.pos + r.rdlen⟩ := by
  obtain ⟨⟨h1, h2⟩, h3, h4⟩ := hr
  unfold subParser
  rw [if_neg (by omega), if_neg (by omega)]
  exact ⟨rfl, by show r.data.pos ≤ r.data.pos + r.rdlen; omega, by show r.data.pos + r.rdlen ≤ d.length; omega⟩

theorem toSrv_fine (d : List Nat) (L : Nat) (r : Rec) (hr : RecOk d L r) : Fine (toSrv d r) := by
  obtain ⟨hs, hi⟩ := subParser_rec d L r hr
  unfold toSrv
  rw [hs]
  simp only [bind, Except.bind]
  split
  · exact Fine.ok _
  · refine GoodR.elim Fine.errClosed (parseU16_good d _ hi) ?_
    intro _ p1 i1 l1; dsimp only
    refine GoodR.elim Fine.errClosed (l1 ▸ parseU16_good d p1 i1) ?_
    intro _ p2 i2 l2; dsimp only
    refine GoodR.elim Fine.errClosed (l2 ▸ parseU16_good d p2 i2) ?_
    intro port p3 i3 l3; dsimp only
    refine GoodR.elim Fine.errClosed (l3 ▸ parseName_good d p3 i3) ?_
    intro target p4 i4 l4; dsimp only
    exact finish_fine d p4 _ i4

theorem toPtr_fine (d : List Nat) (L : Nat) (r : Rec) (hr : RecOk d L r) : Fine (toPtr d r) := by
  obtain ⟨hs, hi⟩ := subParser_rec d L r hr
  unfold toPtr
  rw [hs]
  simp only [bind, Except.bind]
  split
  · exact Fine.ok _
  · refine GoodR.elim Fine.errClosed (parseName_good d _ hi) ?_
    intro target p4 i4 l4; dsimp only
    exact finish_fine d p4 _ i4

theorem toAddr_fine (rt n : Nat) (d : List Nat) (L : Nat) (r : Rec) (hr : RecOk d L r) : Fine (toAddr rt n d r) := by
  obtain ⟨hs, hi⟩ := subParser_rec d L r hr
  unfold toAddr
  rw [hs]
  simp only [bind, Except.bind]
  split
  · exact Fine.ok _
  · refine GoodR.elim Fine.errClosed (take_good d _ n hi) ?_
    intro a p4 i4 l4; dsimp only
    exact finish_fine d p4 _ i4

/-- `to_record::<UnknownRecordData>` cannot fail on a sound record: it answers exactly the record data -/
theorem toUnknown_eq (d : List Nat) (L : Nat) (r : Rec) (hr : RecOk d L r) :
    toUnknown d r = .ok (some ((d.drop r.data.pos).take r.rdlen)) := by
  obtain ⟨hs, hi⟩ := subParser_rec d L r hr
  unfold toUnknown
  rw [hs]
  simp only [bind, Except.bind]
  rw [if_neg (by omega)]
  have := take_at d r.data.pos (r.data.pos + r.rdlen) ((d.drop r.data.pos).take r.rdlen) ((d.drop r.data.pos).drop r.rdlen)
    (by rw [List.take_append_drop])
    (by rw [List.length_take, List.length_drop]; have := hi.2; simp only at this; omega) hi.2
  have hl : ((d.drop r.data.pos).take r.rdlen).length = r.rdlen := by
    rw [List.length_take, List.length_drop]; have := hi.2; simp only at this; omega
  rw [hl] at this
  rw [show r.data.pos + r.rdlen - r.data.pos = r.rdlen by omega, this.1]
  simp [finish]

/-- what `if let Ok(Some(x)) = …` sees is always defined when the call is fine -/
theorem okSome_fine {α : Type} (r : R (Option α)) (h : Fine r) : ∃ v, okSome r = .ok v := by
  unfold okSome
  cases r with
  | ok x => exact ⟨x, rfl⟩
  | error e =>
    have : e.fatal = false := by
      have h1 : e ≠ .panic := by intro h'; exact h.1 (by rw [h'])
      have h2 : e ≠ .fuel := by intro h'; exact h.2 (by rw [h'])
      cases e <;> simp_all [PErr.fatal]
    simp only [this]
    exact ⟨none, rfl⟩

theorem pass1Step_ok (d : List Nat) (L : Nat) (a : Acc) (r : Rec) (hr : RecOk d L r) : ∃ a', pass1Step d a r = .ok a' := by
  obtain ⟨v, hv⟩ := okSome_fine _ (toSrv_fine d L r hr)
  obtain ⟨w, hw⟩ := okSome_fine _ (toPtr_fine d L r hr)
  unfold pass1Step
  rw [hv]
  simp only [bind, Except.bind]
  cases v with
  | some x => obtain ⟨port, target⟩ := x; exact ⟨_, rfl⟩
  | none =>
    simp only
    split
    · rw [hw]
      cases w with
      | some n => exact ⟨_, rfl⟩
      | none => exact ⟨_, rfl⟩
    · exact ⟨_, rfl⟩

theorem pass1_ok (d : List Nat) (L : Nat) : ∀ (rs : List Rec) (a : Acc), (∀ r ∈ rs, RecOk d L r) → ∃ a', pass1 d rs a = .ok a' := by
  intro rs
  induction rs with
  | nil => intro a _; exact ⟨a, rfl⟩
  | cons r rs ih =>
    intro a h
    obtain ⟨a1, h1⟩ := pass1Step_ok d L a r (h r (by simp))
    obtain ⟨a2, h2⟩ := ih a1 (fun x hx => h x (by simp [hx]))
    exact ⟨a2, by simp only [pass1, h1, bind, Except.bind, h2]⟩

theorem findTxt_ok (d : List Nat) (L : Nat) (inst : Name) : ∀ (rs : List Rec), (∀ r ∈ rs, RecOk d L r) → ∃ t, findTxt d inst rs = .ok t := by
  intro rs
  induction rs with
  | nil => intro _; exact ⟨[], rfl⟩
  | cons r rs ih =>
    intro h
    unfold findTxt
    split
    · exact ih (fun x hx => h x (by simp [hx]))
    · rw [toUnknown_eq d L r (h r (by simp))]
      exact ⟨_, rfl⟩


/-! ### `MdnsTxt` -/

theorem findEq_lt : ∀ (s : List Nat) (i : Nat), findEq s = some i → i < s.length := by
  intro s
  induction s with
  | nil => intro i h; cases h
  | cons b r ih =>
    intro i h
    unfold findEq at h
    split at h
    · injection h with h; subst h; simp
    · cases hf : findEq r with
      | none => rw [hf] at h; cases h
      | some j =>
        rw [hf] at h
        simp only [Option.map_some, Option.some.injEq] at h
        subst h
        have := ih j hf
        simp; omega

theorem index_ok (l : List Nat) (i : Nat) (h : i < l.length) : ∃ x, index l i = .ok x := by
  unfold index
  rw [List.getElem?_eq_getElem h]
  exact ⟨_, rfl⟩

theorem slice_ok (l : List Nat) (a b : Nat) (h1 : a ≤ b) (h2 : b ≤ l.length) : slice l a b = .ok ((l.drop a).take (b - a)) := by
  unfold slice
  rw [if_pos ⟨h1, h2⟩]

/-- outcome discipline of one `MdnsTxt::next` call started at `pos` -/
def TxtStep (L pos : Nat) (r : R (Option ((List Nat × List Nat) × Nat))) : Prop :=
  match r with
  | .ok none => True
  | .ok (some (_, pos')) => pos < pos' ∧ pos' ≤ L
  | .error _ => False

theorem TxtStep.mono {L pos pos2 : Nat} (h : pos ≤ pos2) {r : R (Option ((List Nat × List Nat) × Nat))}
    (hr : TxtStep L pos2 r) : TxtStep L pos r := by
  cases r with
  | error e => exact hr
  | ok o =>
    cases o with
    | none => trivial
    | some v => obtain ⟨kv, p'⟩ := v; exact ⟨by have := hr.1; omega, hr.2⟩

/-- one call of `MdnsTxt::next` never panics, needs at most `len - pos + 1` turns of its `while` loop,
and moves `pos` forward inside the data -/
theorem txtNext_fine (data : List Nat) : ∀ (f pos : Nat), data.length - pos < f →
    TxtStep data.length pos (txtNext data f pos) := by
  intro f
  induction f with
  | zero => intro pos h; omega
  | succ f ih =>
    intro pos hf
    unfold txtNext
    by_cases hp : pos < data.length
    · rw [if_pos hp]
      obtain ⟨len, hlen⟩ := index_ok data pos hp
      rw [hlen]
      simp only [bind, Except.bind]
      have hstop1 : pos + 1 ≤ min (pos + 1 + len) data.length := by omega
      have hstop2 : min (pos + 1 + len) data.length ≤ data.length := by omega
      rw [slice_ok data (pos + 1) _ hstop1 hstop2]
      simp only
      have hrec := TxtStep.mono (by omega : pos ≤ min (pos + 1 + len) data.length) (ih (min (pos + 1 + len) data.length) (by omega))
      by_cases hv : validUtf8 (List.take (min (pos + 1 + len) data.length - (pos + 1)) (List.drop (pos + 1) data)) = true
      · rw [if_pos hv]
        cases heq : findEq (List.take (min (pos + 1 + len) data.length - (pos + 1)) (List.drop (pos + 1) data)) with
        | none => exact hrec
        | some eq =>
          have hlt := findEq_lt _ eq heq
          simp only
          rw [slice_ok _ 0 eq (by omega) (by omega), slice_ok _ (eq + 1) _ (by omega) (Nat.le_refl _)]
          exact ⟨by omega, hstop2⟩
      · rw [if_neg hv]; exact hrec
    · rw [if_neg hp]; trivial

/-- draining `MdnsTxt` always yields a list: no panic, no exhausted budget -/
theorem txtAll_fine (data : List Nat) : ∀ (g pos : Nat), data.length - pos < g → ∃ kvs, txtAll data g pos = .ok kvs := by
  intro g
  induction g with
  | zero => intro pos h; omega
  | succ g ih =>
    intro pos hg
    have hn := txtNext_fine data (data.length + 1) pos (by omega)
    unfold txtAll
    cases hx : txtNext data (data.length + 1) pos with
    | error e => rw [hx] at hn; exact (hn : False).elim
    | ok o =>
      rw [hx] at hn
      cases o with
      | none => exact ⟨[], rfl⟩
      | some v =>
        obtain ⟨kv, pos'⟩ := v
        obtain ⟨rest, hrest⟩ := ih pos' (by have := hn.1; have := hn.2; omega)
        exact ⟨kv :: rest, by simp only [bind, Except.bind, hrest, pure, Except.pure]⟩

theorem txtPairs_fine (data : List Nat) : ∃ kvs, txtPairs data = .ok kvs :=
  txtAll_fine data _ 0 (by omega)


/-! ### `MdnsAddrs`: the re-walking iterator yields the matching addresses in packet order -/

theorem addrOf_ok (d : List Nat) (L : Nat) (r : Rec) (hr : RecOk d L r) : ∃ v, addrOf d r = .ok v := by
  obtain ⟨v, hv⟩ := okSome_fine _ (toAddr_fine RT_A 4 d L r hr)
  obtain ⟨w, hw⟩ := okSome_fine _ (toAddr_fine RT_AAAA 16 d L r hr)
  unfold addrOf
  rw [hv]
  simp only [bind, Except.bind]
  cases v with
  | some a => exact ⟨_, rfl⟩
  | none => exact ⟨w, hw⟩

/-- the addresses of the records owned by `t`, in packet order (`g` = what `addrOf` answers per record) -/
def addrsOf (t : Name) (g : Rec → Option (List Nat)) (rs : List Rec) : List (List Nat) :=
  rs.filterMap fun r => if nameEq r.owner t then g r else none

theorem addrsWalk_eq (d : List Nat) (t : Name) (g : Rec → Option (List Nat)) (yielded : Nat) :
    ∀ (rs : List Rec) (seen : Nat), (∀ r ∈ rs, addrOf d r = .ok (g r)) → seen ≤ yielded →
      addrsWalk d t yielded rs seen = .ok ((addrsOf t g rs)[yielded - seen]?) := by
  intro rs
  induction rs with
  | nil => intro seen _ _; simp [addrsWalk, addrsOf, pure, Except.pure]
  | cons r rs ih =>
    intro seen hg hs
    have hr := hg r (by simp)
    have ih' := fun s => ih s (fun x hx => hg x (by simp [hx]))
    unfold addrsWalk
    by_cases hn : nameEq r.owner t = true
    · simp only [hn, Bool.not_true, Bool.false_eq_true, if_false, hr, bind, Except.bind]
      cases hgr : g r with
      | none =>
        simp only
        rw [ih' seen hs]
        simp [addrsOf, hn, hgr]
      | some a =>
        simp only
        by_cases he : seen = yielded
        · rw [if_pos he]
          subst he
          simp [addrsOf, hn, hgr, pure, Except.pure]
        · rw [if_neg he, ih' (seen + 1) (by omega)]
          have : yielded - seen = (yielded - (seen + 1)) + 1 := by omega
          rw [this]
          simp [addrsOf, hn, hgr]
    · simp only [hn, Bool.not_false, if_true]
      rw [ih' seen hs]
      simp [addrsOf, hn]

theorem addrsAll_eq (d : List Nat) (t : Name) (g : Rec → Option (List Nat)) (rs : List Rec)
    (hg : ∀ r ∈ rs, addrOf d r = .ok (g r)) :
    ∀ (f y : Nat), (addrsOf t g rs).length - y < f → addrsAll d rs (some t) f y = .ok ((addrsOf t g rs).drop y) := by
  intro f
  induction f with
  | zero => intro y h; omega
  | succ f ih =>
    intro y hf
    unfold addrsAll
    simp only [addrsNext]
    rw [addrsWalk_eq d t g y rs 0 hg (by omega)]
    simp only [bind, Except.bind, Nat.sub_zero]
    cases hy : (addrsOf t g rs)[y]? with
    | none =>
      have : (addrsOf t g rs).length ≤ y := by
        rw [List.getElem?_eq_none_iff] at hy; exact hy
      simp [List.drop_eq_nil_of_le this, pure, Except.pure]
    | some a =>
      have hlt : y < (addrsOf t g rs).length := by
        rcases Nat.lt_or_ge y (addrsOf t g rs).length with h | h
        · exact h
        · rw [List.getElem?_eq_none_iff.mpr h] at hy; cases hy
      simp only
      rw [ih (y + 1) (by omega)]
      simp only [pure, Except.pure]
      rw [List.drop_eq_getElem_cons hlt]
      rw [List.getElem?_eq_getElem hlt] at hy
      injection hy with hy
      rw [hy]

theorem addrsAll_none (d : List Nat) (rs : List Rec) (f : Nat) : addrsAll d rs none (f + 1) 0 = .ok [] := by
  simp [addrsAll, addrsNext, bind, Except.bind, pure, Except.pure]

theorem addrsOf_length_le (t : Name) (g : Rec → Option (List Nat)) (rs : List Rec) : (addrsOf t g rs).length ≤ rs.length :=
  List.length_filterMap_le _ _

/-- **`MdnsAddrs` drained = the A / AAAA addresses of the records owned by the SRV target, in packet order** -/
theorem addrsAll_spec (d : List Nat) (L : Nat) (rs : List Rec) (target : Option Name) (hok : ∀ r ∈ rs, RecOk d L r) :
    ∃ g : Rec → Option (List Nat), (∀ r ∈ rs, addrOf d r = .ok (g r)) ∧
      addrsAll d rs target (rs.length + 1) 0 = .ok (match target with | none => [] | some t => addrsOf t g rs) := by
  refine ⟨fun r => match addrOf d r with | .ok v => v | .error _ => none, ?_, ?_⟩
  · intro r hr
    obtain ⟨v, hv⟩ := addrOf_ok d L r (hok r hr)
    simp [hv]
  · cases target with
    | none => exact addrsAll_none d rs _
    | some t =>
      have hg : ∀ r ∈ rs, addrOf d r = .ok ((fun r => match addrOf d r with | .ok v => v | .error _ => none) r) := by
        intro r hr
        obtain ⟨v, hv⟩ := addrOf_ok d L r (hok r hr)
        simp [hv]
      have := addrsAll_eq d t _ rs hg (rs.length + 1) 0 (by have := addrsOf_length_le t (fun r => match addrOf d r with | .ok v => v | .error _ => none) rs; omega)
      simpa using this


/-- **`parse_into_answer` is total on arbitrary octets**: fewer than 12 octets are refused (`MdnsError`);
everything else yields `None` or an answer. The model never reaches a panic (checked indexes, slices and
`usize` subtractions of the parser cursor, of `MdnsTxt` and of the label walk) and never runs out of the
step budget of the pointer-following name parser, the TXT iterator or the address iterator. -/
theorem parseIntoAnswer_total (d : List Nat) (scope : Option Nat) :
    (d.length < 12 ∧ parseIntoAnswer d scope = .error .shortMessage) ∨
    (12 ≤ d.length ∧ ∃ v, parseIntoAnswer d scope = .ok v) := by
  unfold parseIntoAnswer
  by_cases h : d.length < 12
  · left; exact ⟨h, by rw [if_pos h]⟩
  · right
    refine ⟨by omega, ?_⟩
    rw [if_neg h]
    split
    · exact ⟨none, rfl⟩
    · obtain ⟨rs, hrs, hok⟩ := allRecords_good d (by omega)
      obtain ⟨acc, hacc⟩ := pass1_ok d d.length rs {} hok
      rw [hrs]
      simp only [bind, Except.bind, hacc]
      cases hi : acc.inst with
      | none => exact ⟨none, rfl⟩
      | some inst =>
        obtain ⟨t, ht⟩ := findTxt_ok d d.length inst rs hok
        obtain ⟨kvs, hkvs⟩ := txtPairs_fine t
        obtain ⟨g, _, ha⟩ := addrsAll_spec d d.length rs acc.host hok
        simp only [ht, hkvs, ha]
        exact ⟨_, rfl⟩


/-! ### soundness of an accepted name: whatever `ParsedName::parse` accepts respects the DNS limits -/

/-- the labels collected so far are well-formed and account for the name length, which is below 255 -/
def NS.Sound (s : NS) : Prop :=
  (∀ l ∈ s.acc, 1 ≤ l.length ∧ l.length ≤ 63) ∧ s.nameLen = (s.acc.map (fun l => l.length + 1)).sum ∧ s.nameLen < 255

theorem encName_length_sum (ls : List (List Nat)) : (encName ls).length = (ls.map (fun l => l.length + 1)).sum + 1 := by
  induction ls with
  | nil => rfl
  | cons l ls ih => rw [encName_length_cons, ih]; simp; omega

theorem nameStep_sound (d : List Nat) (s : NS) (hs : s.Sound) :
    match nameStep d s with
    | .ok (.more s') => s'.Sound
    | .ok (.done n _) => (∀ l ∈ n.labels, 1 ≤ l.length ∧ l.length ≤ 63) ∧ n.nameLen = (encName n.labels).length ∧ n.nameLen ≤ 255
    | .error _ => True := by
  rw [nameStep_eq]
  cases hl : parseLabelType d s.p with
  | error e => trivial
  | ok v =>
    obtain ⟨lt, p1⟩ := v
    have hinv := parseLabelType_ok_inv d s.p lt p1 hl
    cases lt with
    | normal n =>
      simp only
      by_cases hn : n = 0
      · simp only [hn, if_true]
        refine ⟨fun l hl => hs.1 l (by simpa using hl), ?_, by have := hs.2.2; omega⟩
        rw [encName_length_sum, List.map_reverse, List.sum_reverse, ← hs.2.1]
      · simp only [hn, if_false]
        cases hk : take d p1 n with
        | error e => trivial
        | ok w =>
          obtain ⟨label, p2⟩ := w
          have hti := take_ok_inv d p1 n label p2 hk
          have hlen : label.length = n := by
            rw [hti.2.2.2.1, List.length_take, List.length_drop]; have := hti.2.2.2.2; omega
          simp only
          by_cases hlong : s.nameLen + n + 1 ≥ 255
          · rw [if_pos hlong]; trivial
          · rw [if_neg hlong]
            have hn63 : n ≤ 63 := hinv.2.2.2
            refine ⟨?_, ?_, by show s.nameLen + n + 1 < 255; omega⟩
            · intro l hl
              simp only [List.mem_cons] at hl
              rcases hl with rfl | hl
              · omega
              · exact hs.1 l hl
            · show s.nameLen + n + 1 = ((label :: s.acc).map (fun l => l.length + 1)).sum
              simp only [List.map_cons, List.sum_cons, hlen, ← hs.2.1]; omega
    | ptr t =>
      simp only
      by_cases h1 : p1.pos < 2
      · rw [if_pos h1]; trivial
      · rw [if_neg h1]
        by_cases h2 : t ≥ p1.pos - 2
        · rw [if_pos h2]; trivial
        · rw [if_neg h2]
          by_cases h3 : t > p1.len
          · rw [if_pos h3]; trivial
          · rw [if_neg h3]; exact hs

theorem nameRun_sound (d : List Nat) : ∀ (f : Nat) (s : NS), s.Sound → ∀ n p', nameRun f d s = .ok (n, p') →
    (∀ l ∈ n.labels, 1 ≤ l.length ∧ l.length ≤ 63) ∧ n.nameLen = (encName n.labels).length ∧ n.nameLen ≤ 255 := by
  intro f
  induction f with
  | zero => intro s _ n p' h; cases h
  | succ f ih =>
    intro s hs n p' h
    have hg := nameStep_sound d s hs
    unfold nameRun at h
    cases hst : nameStep d s with
    | error e => rw [hst] at h; cases h
    | ok st =>
      rw [hst] at h hg
      cases st with
      | done n0 q => simp only at h; injection h with h; injection h with h1 h2; subst h1; exact hg
      | more s' => exact ih s' hg n p' h

/-- **everything the name parser accepts is a legal DNS name**: labels of 1..63 octets, the reported length is
the length of the uncompressed name, at most 255 octets - however many compression pointers were followed -/
theorem parseName_sound (d : List Nat) (p : P) (n : Name) (p' : P) (h : parseName d p = .ok (n, p')) :
    (∀ l ∈ n.labels, 1 ≤ l.length ∧ l.length ≤ 63) ∧ n.nameLen = (encName n.labels).length ∧ n.nameLen ≤ 255 :=
  nameRun_sound d _ _ ⟨(by intro l hl; cases hl), rfl, (by show 0 < 255; omega)⟩ n p' h


end Codec.Mdns
