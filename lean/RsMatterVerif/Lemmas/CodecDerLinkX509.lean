import RsMatterVerif.Lemmas.CodecDerLink
import RsMatterVerif.Lemmas.CodecX509Round
/-!
# What rs-matter's X.509 field readers return on the output of `as_asn1` (audit C17, concern 2, part b)

`CertRef::as_asn1` (`Model/Codec/CertAsn1.lean`) writes the **TBSCertificate** only (no signature algorithm, no
signature); `X509Cert::new` (`Model/Codec/X509.lean`, the parser of DAC / PAI / PAA attestation certificates) reads a
complete `Certificate` and then applies the attestation profile (`validate_issuer_subject` needs VID / PID
attributes, `Dac/Pai/PaaExtensions::decode_value` a fixed extension profile, `ParsedExtensionFields::parse` refuses every
critical extension it does not know — among them the critical extended-key-usage of every Matter NOC). So
`x509New k (as_asn1 output)` is legitimately an error and the honest end-to-end statement is at the level of the
*field readers* `TbsCertificate::decode_value` is made of: `ContextSpecific::decode` of the version, `AnyRef` serial,
`AlgorithmIdentifier`, `Name::decode` (+ `MatterDnAttrs::parse`), `Validity`, `SubjectPublicKeyInfo::decode`,
`ParsedExtensionFields::parse`. This file proves what these `Dec` actions of the model return on the bytes
`as_asn1` writes.
-/
namespace Codec.Der
open Codec

/-! ## the writer's encoding in terms of the `der`-crate model's `encTlv` -/

mutual
def Node.encRd : Node → List Nat
  | .prim t c => DerRd.encTlv t c
  | .cons t cs => DerRd.encTlv t (Node.encRdL cs)
  | .raw b => b
def Node.encRdL : List Node → List Nat
  | [] => []
  | n :: r => n.encRd ++ Node.encRdL r
end

theorem lenBytes_eq_rd (n : Nat) (h : n < 65536) : lenBytes n = DerRd.encLen n := by
  rw [lenBytes_eq_encLen n h, encLen_eq_rd n (by omega)]

mutual
theorem Node.enc_eq_encRd (n : Node) (h : n.lenOk) : n.enc = n.encRd := by
  match n, h with
  | .prim t c, h =>
    simp only [Node.lenOk] at h
    simp [Node.enc, Node.encRd, DerRd.encTlv, lenBytes_eq_rd _ h]
  | .raw b, _ => rfl
  | .cons t cs, h =>
    obtain ⟨h1, h2⟩ := h
    have := Node.encL_eq_encRdL cs h2
    rw [this] at h1
    simp only [Node.enc, Node.encRd, DerRd.encTlv, this, lenBytes_eq_rd _ h1]
    simp
theorem Node.encL_eq_encRdL (cs : List Node) (h : Node.lenOkL cs) : Node.encL cs = Node.encRdL cs := by
  match cs, h with
  | [], _ => rfl
  | n :: r, h => simp only [Node.encL, Node.encRdL, Node.enc_eq_encRd n h.1, Node.encL_eq_encRdL r h.2]
end

theorem Node.encRdL_append (a b : List Node) : Node.encRdL (a ++ b) = Node.encRdL a ++ Node.encRdL b := by
  induction a with
  | nil => rfl
  | cons n r ih => simp [Node.encRdL, ih]

end Codec.Der

namespace Codec.CertAsn1
open Codec Codec.Der

/-! ## hexadecimal attribute values: the X.509 model's own digit reader inverts the encoder's `{:0nX}` -/

/-- a hexadecimal string read with `hex_digit` of `cert/x509.rs` (`DerRd.hexDigit`), most significant digit first,
without the `u16` truncation of `parse_hex_u16` -/
def hexRead : List Nat → Nat → Option Nat
  | [], val => some val
  | b :: rest, val =>
    match DerRd.hexDigit b with
    | none => none
    | some d => hexRead rest (val * 16 + d)

theorem hexDigit_hexDigitUp (n : Nat) : DerRd.hexDigit (hexDigitUp n) = some (n % 16) := by
  unfold hexDigitUp DerRd.hexDigit
  have : n % 16 < 16 := Nat.mod_lt _ (by decide)
  split
  · rw [if_pos (by omega)]; congr 1; omega
  · rw [if_neg (by omega), if_pos (by omega)]; congr 1; omega

theorem hexRead_append (a b : List Nat) (v : Nat) :
    hexRead (a ++ b) v = (hexRead a v).bind (hexRead b) := by
  induction a generalizing v with
  | nil => rfl
  | cons x r ih =>
    simp only [List.cons_append, hexRead]
    cases DerRd.hexDigit x with
    | none => rfl
    | some d => exact ih _

theorem hexRead_hexFix : ∀ (n v acc : Nat), hexRead (hexFix n v) acc = some (acc * 16 ^ n + v % 16 ^ n)
  | 0, v, acc => by simp [hexFix, hexRead, Nat.mod_one]
  | n + 1, v, acc => by
    simp only [hexFix, hexRead_append, hexRead_hexFix n (v / 16) acc, Option.bind_some, hexRead, hexDigit_hexDigitUp]
    congr 1
    have h1 : v % 16 ^ (n + 1) = 16 * (v / 16 % 16 ^ n) + v % 16 := by
      rw [Nat.pow_succ, Nat.mul_comm, Nat.mod_mul]; omega
    rw [h1, Nat.pow_succ]
    generalize 16 ^ n = p
    generalize v / 16 % p = q
    rw [Nat.add_mul, Nat.mul_assoc]; omega

/-- **the integer of a Matter DN attribute comes back from its string**: reading the `{:016X}` / `{:08X}` string
`as_asn1` writes with the X.509 parser's own `hex_digit` gives the integer (for every value that fits the width) -/
theorem hexRead_hexUp (width v : Nat) (h : v < 16 ^ width) : hexRead (hexUp width v) 0 = some v := by
  unfold hexUp
  rw [if_pos h, hexRead_hexFix, Nat.mod_eq_of_lt h]; simp

/-- the same for the one hexadecimal reader rs-matter's X.509 parser has, `parse_hex_u16` (VID / PID sized fields) -/
theorem parseHexU16_hexUp (v : Nat) (h : v < 65536) : DerRd.parseHexU16 (hexUp 4 v) = some v := by
  unfold hexUp
  rw [if_pos (by omega)]
  simp only [hexFix, List.nil_append, List.cons_append, DerRd.parseHexU16, List.length_cons, List.length_nil,
    ne_eq, not_true_eq_false, if_false, DerRd.hexFold, hexDigit_hexDigitUp]
  congr 1
  omega

/-! ## distinguished names -/

/-- the X.509 attribute (OID, string tag, value octets) a Matter DN attribute is written as -/
def Attr.toX (a : Attr) : Option DerRd.Attr :=
  match DN_ENCODING[a.tag - 1]? with
  | some (oid, expected) =>
    (attrString expected a.val).map fun p => { oid := oid, tag := if p.1 then 0x13 else 0x0c, value := p.2 }
  | none => none

theorem dn_table_facts : ∀ i, i < 22 → (DN_ENCODING[i]?.map fun p =>
    DerRd.oidValid p.1 && decide (p.1 ≠ DerRd.OID_MATTER_VENDOR_ID) && decide (p.1 ≠ DerRd.OID_MATTER_PRODUCT_ID)) = some true := by
  decide

theorem attr_toX (a : Attr) (n : Node) (hw : a.WF) (hn : attrNode a = some n) :
    ∃ x, a.toX = some x ∧ n.encRd = DerRd.encRdn x ∧ x.WF ∧
      ∀ acc, DerRd.dnApply acc (x.oid, (x.tag, x.value)) = .ok acc := by
  obtain ⟨oid, expected, p, h1, h2⟩ := attr_string_some a hw
  have hf := dn_table_facts (a.tag - 1) (by have := hw.1; have := hw.2.1; omega)
  simp only [h1, Option.map_some, Option.some.injEq, Bool.and_eq_true, decide_eq_true_eq] at hf
  obtain ⟨⟨f1, f2⟩, f3⟩ := hf
  simp only [attrNode, h1, h2, Option.some.injEq] at hn
  subst hn
  refine ⟨{ oid := oid, tag := if p.1 then 0x13 else 0x0c, value := p.2 }, by simp [Attr.toX, h1, h2], ?_, ⟨f1, ?_⟩, ?_⟩
  · simp [Node.encRd, Node.encRdL, seq, strNode, DerRd.encRdn, DerRd.encOid, DerRd.TAG_SET, DerRd.TAG_SEQUENCE, DerRd.TAG_OID]
  · cases p.1 <;> simp [DerRd.tagOfByte]
  · intro acc
    simp [DerRd.dnApply, f2, f3]

theorem attrs_toX (l : List Attr) (ns : List Node) (hw : ∀ a ∈ l, a.WF) (hn : mapO attrNode l = some ns) :
    ∃ xs, mapO Attr.toX l = some xs ∧ Node.encRdL ns = DerRd.encRdns xs ∧ (∀ x ∈ xs, x.WF) ∧ xs.length = l.length ∧
      ∀ acc, DerRd.dnFold xs acc = some acc := by
  induction l generalizing ns with
  | nil => simp [mapO] at hn; subst hn; exact ⟨[], rfl, rfl, by simp, rfl, fun _ => rfl⟩
  | cons a r ih =>
    obtain ⟨b, bs, h1, h2, rfl⟩ := mapO_some_cons _ _ _ _ hn
    obtain ⟨x, x1, x2, x3, x4⟩ := attr_toX a b (hw a (by simp)) h1
    obtain ⟨xs, y1, y2, y3, y4, y5⟩ := ih bs (fun c hc => hw c (by simp [hc])) h2
    refine ⟨x :: xs, by simp [mapO, x1, y1], by simp [Node.encRdL, x2, y2, DerRd.encRdns_cons], ?_, by simp [y4], ?_⟩
    · intro c hc; rcases List.mem_cons.1 hc with rfl | hc; exact x3; exact y3 c hc
    · intro acc; simp [DerRd.dnFold, x4, y5]

/-- **`Name::decode` on a DN `as_asn1` wrote**: the raw RDNSequence octets it returns are the X.509 encoding of the
attribute list (OID, string type, value) and it finds no vendor / product id (Matter operational DNs have none) -/
theorem run_name_asn1 (l : List Attr) (n : Node) (hw : ∀ a ∈ l, a.WF) (hn : dnNode l = some n) (rest : List Nat) (fuel : Nat)
    (hf : l.length < fuel + 2) :
    ∃ xs, mapO Attr.toX l = some xs ∧
      DerRd.Run (DerRd.dName (fuel + 2)) (n.encRd ++ rest) (fun y => y = (DerRd.encRdns xs, { vid := none, pid := none })) rest := by
  unfold dnNode at hn
  cases h1 : mapO attrNode l with
  | none => simp [h1] at hn
  | some ns =>
    simp [h1] at hn; subst hn
    obtain ⟨xs, y1, y2, y3, y4, y5⟩ := attrs_toX l ns hw h1
    refine ⟨xs, y1, ?_⟩
    have := DerRd.run_name (attrs := xs) (fuel := fuel) (rest := rest) y3 (y5 _) (by omega)
    simpa [seq, Node.encRd, y2, DerRd.encName, DerRd.TAG_SEQUENCE] using this
end Codec.CertAsn1
