import RsMatterVerif.Generated.Consts
import RsMatterVerif.Model.Codec.Buf
/-!
# Model of `transport/proto_hdr.rs` (`ProtoHdr::encode`, the decoding half of `decrypt_and_decode`
with `dec_key = None`, the getters)
-/
namespace Codec.ProtoHdr
open Codec

def INITIATOR : Nat := Consts.c17ExchInitiator
def ACK : Nat := Consts.c17ExchAck
def RELIABLE : Nat := Consts.c17ExchReliable
def SECEX : Nat := Consts.c17ExchSecex
def VENDOR : Nat := Consts.c17ExchVendor
def EXCH_FLAGS_ALL : Nat := INITIATOR ||| ACK ||| RELIABLE ||| SECEX ||| VENDOR

def contains (flags m : Nat) : Bool := flags &&& m == m

structure Hdr where
  exchId : Nat := 0
  flags : Nat := 0
  protoId : Nat := 65535
  opcode : Nat := 255
  vendorId : Nat := 0
  ackCtr : Nat := 0
deriving DecidableEq, Repr

def fromBits (all b : Nat) : Except Err Nat :=
  if b &&& all == b then .ok b else .error .invalid

def decode (h : Hdr) (l : List Nat) : Except Err (Hdr × List Nat) := do
  let (f, l) ← Rd.u8 l
  let flags ← fromBits EXCH_FLAGS_ALL f
  let (op, l) ← Rd.u8 l
  let (eid, l) ← Rd.u16 l
  let (pid, l) ← Rd.u16 l
  let h := { h with flags := flags, opcode := op, exchId := eid, protoId := pid }
  let (h, l) ← if contains flags VENDOR then do
      let (v, l) ← Rd.u16 l
      pure ({ h with vendorId := v }, l)
    else pure (h, l)
  if contains flags ACK then do
    let (a, l) ← Rd.u32 l
    pure ({ h with ackCtr := a }, l)
  else pure (h, l)

def encodeBytes (h : Hdr) : List Nat :=
  [h.flags % 256, h.opcode % 256] ++ le16 h.exchId ++ le16 h.protoId
  ++ (if contains h.flags VENDOR then le16 h.vendorId else [])
  ++ (if contains h.flags ACK then le32 h.ackCtr else [])

structure View where
  flags : Nat
  opcode : Nat
  exchId : Nat
  protoId : Nat
  vendor : Option Nat
  ack : Option Nat
deriving DecidableEq, Repr

def view (h : Hdr) : View :=
  { flags := h.flags, opcode := h.opcode, exchId := h.exchId, protoId := h.protoId
    vendor := if contains h.flags VENDOR then some h.vendorId else none
    ack := if contains h.flags ACK then some h.ackCtr else none }

def WF (h : Hdr) : Prop :=
  h.flags &&& EXCH_FLAGS_ALL = h.flags ∧ h.opcode < 256 ∧ h.exchId < 65536 ∧ h.protoId < 65536 ∧
  h.vendorId < 65536 ∧ h.ackCtr < 4294967296
instance (h : Hdr) : Decidable (WF h) := inferInstanceAs (Decidable (_ ∧ _))

/-- the setters store 0 for an absent field -/
def Canon (h : Hdr) : Prop :=
  (contains h.flags VENDOR = false → h.vendorId = 0) ∧ (contains h.flags ACK = false → h.ackCtr = 0)
instance (h : Hdr) : Decidable (Canon h) := inferInstanceAs (Decidable (_ ∧ _))

end Codec.ProtoHdr
