import RsMatterVerif.Model.Dedup
/-! Helper lemmas for C04: representation invariant of the receive window and the one-step refinement. -/
namespace C04
open Dedup
theorem plain_unsynced (s : RxState) (c : Nat) (enc : Bool) (h : s.synced = false) :
    postRecvPlain s c enc = ({ synced := true, max := c, bitmap := 0 }, true) := by
  simp [postRecvPlain, h]
theorem plain_eq (s : RxState) (enc : Bool) (h : s.synced = true) :
    postRecvPlain s s.max enc = (s, false) := by
  simp [postRecvPlain, h]
theorem plain_fwd (s : RxState) (c : Nat) (enc : Bool) (h : s.synced = true) (hc : c > s.max) :
    postRecvPlain s c enc = (forward s c (c - s.max), true) := by
  have : c ≠ s.max := by omega
  simp [postRecvPlain, h, this, hc]
theorem plain_win (s : RxState) (c : Nat) (enc : Bool) (h : s.synced = true) (hc : c < s.max)
    (hw : s.max - c ≤ L) : postRecvPlain s c enc = inWindow s (s.max - c) := by
  have h1 : c ≠ s.max := by omega
  have h2 : ¬ c > s.max := by omega
  simp [postRecvPlain, h, h1, h2, hw]
theorem plain_old (s : RxState) (c : Nat) (h : s.synced = true) (hc : c < s.max)
    (hw : ¬ s.max - c ≤ L) : postRecvPlain s c true = (s, false) := by
  have h1 : c ≠ s.max := by omega
  have h2 : ¬ c > s.max := by omega
  simp [postRecvPlain, h, h1, h2, hw]
theorem tb_shift (b d i : Nat) (hi : i < 16) : (((b <<< d) % 65536) ||| (1 <<< (d - 1))).testBit i
   = ((decide (d ≤ i) && b.testBit (i - d)) || decide (d - 1 = i)) := by
  have h65 : (65536 : Nat) = 2 ^ 16 := by decide
  rw [Nat.testBit_or, h65, Nat.testBit_mod_two_pow, Nat.testBit_shiftLeft, Nat.one_shiftLeft, Nat.testBit_two_pow]
  simp [hi]
theorem tb_ins (b k i : Nat) : (b ||| (1 <<< k)).testBit i = (b.testBit i || decide (k = i)) := by
  rw [Nat.testBit_or, Nat.one_shiftLeft, Nat.testBit_two_pow]

structure Inv (s : RxState) (acc : List Nat) : Prop where
  unsynced : s.synced = false → acc = []
  maxIn : s.synced = true → s.max ∈ acc
  le : ∀ a ∈ acc, a ≤ s.max
  bits : s.synced = true → ∀ i, i < 16 →
    (s.bitmap.testBit i = true ↔ (i + 1 ≤ s.max ∧ (s.max - (i + 1)) ∈ acc))
theorem L_eq : L = 16 := by decide

theorem spec_true (acc : List Nat) (c : Nat) (hn : c ∉ acc) (h : ∀ a ∈ acc, a ≤ c + 16) :
    specAccept acc c = true := by
  simp only [specAccept, Bool.and_eq_true, Bool.not_eq_true', List.all_eq_true, decide_eq_true_eq]
  refine ⟨by simpa using hn, fun a ha => by have := h a ha; rw [L_eq]; omega⟩
theorem spec_false_mem (acc : List Nat) (c : Nat) (hc : c ∈ acc) : specAccept acc c = false := by
  simp [specAccept, hc]
theorem spec_false_old (acc : List Nat) (c a : Nat) (ha : a ∈ acc) (h : c + 16 < a) :
    specAccept acc c = false := by
  simp only [specAccept, Bool.and_eq_false_imp, Bool.not_eq_true', List.all_eq_false,
    decide_eq_true_eq]
  intro _; exact ⟨a, ha, by rw [L_eq]; omega⟩

theorem inv_forward (s : RxState) (acc : List Nat) (c : Nat) (h : Inv s acc) (hs : s.synced = true)
    (hc : c > s.max) : Inv (forward s c (c - s.max)) (c :: acc) := by
  have hmax := h.maxIn hs
  have hbits := h.bits hs
  unfold forward
  rw [L_eq]
  by_cases hd : c - s.max ≤ 16
  · rw [if_pos hd]
    refine ⟨?_, ?_, ?_, ?_⟩
    · intro hh; simp [hs] at hh
    · intro _; simp
    · intro a ha
      simp only [List.mem_cons] at ha
      rcases ha with ha | ha
      · simp [ha]
      · have := h.le a ha; simp only; omega
    · intro _ i hi
      simp only [tb_shift _ _ _ hi, Bool.or_eq_true, Bool.and_eq_true, decide_eq_true_eq, List.mem_cons]
      constructor
      · rintro (⟨hge, hb⟩ | heq)
        · have := (hbits (i - (c - s.max)) (by omega)).1 hb
          refine ⟨by omega, Or.inr ?_⟩
          have h2 : c - (i + 1) = s.max - (i - (c - s.max) + 1) := by omega
          rw [h2]; exact this.2
        · refine ⟨by omega, Or.inr ?_⟩
          have h2 : c - (i + 1) = s.max := by omega
          rw [h2]; exact hmax
      · rintro ⟨hle, heq | hin⟩
        · omega
        · by_cases hlt : i + 1 < c - s.max
          · have := h.le _ hin; omega
          · by_cases he : i + 1 = c - s.max
            · right; omega
            · left
              refine ⟨by omega, ?_⟩
              apply (hbits (i - (c - s.max)) (by omega)).2
              refine ⟨by omega, ?_⟩
              have h2 : s.max - (i - (c - s.max) + 1) = c - (i + 1) := by omega
              rw [h2]; exact hin
  · rw [if_neg hd]
    refine ⟨?_, ?_, ?_, ?_⟩
    · intro hh; simp [hs] at hh
    · intro _; simp
    · intro a ha
      simp only [List.mem_cons] at ha
      rcases ha with ha | ha
      · simp [ha]
      · have := h.le a ha; simp only; omega
    · intro _ i hi
      simp only [Nat.zero_testBit, Bool.false_eq_true, false_iff, not_and, List.mem_cons,
        not_or]
      intro hle
      refine ⟨by omega, fun hin => ?_⟩
      have := h.le _ hin; omega

theorem inv_inWindow (s : RxState) (acc : List Nat) (c : Nat) (h : Inv s acc) (hs : s.synced = true)
    (hc : c < s.max) (hw : s.max - c ≤ 16) :
    (inWindow s (s.max - c)).2 = specAccept acc c ∧
    Inv (inWindow s (s.max - c)).1 (if (inWindow s (s.max - c)).2 then c :: acc else acc) := by
  have hmax := h.maxIn hs
  have hbits := h.bits hs
  unfold inWindow
  have hb := hbits (s.max - c - 1) (by omega)
  have hval : s.max - (s.max - c - 1 + 1) = c := by omega
  rw [hval] at hb
  by_cases ht : s.bitmap.testBit (s.max - c - 1) = true
  · rw [if_pos ht]
    have hin : c ∈ acc := (hb.1 ht).2
    exact ⟨(spec_false_mem acc c hin).symm, by simpa using h⟩
  · rw [if_neg ht]
    have hnin : c ∉ acc := fun hin => ht (hb.2 ⟨by omega, hin⟩)
    refine ⟨(spec_true acc c hnin (fun a ha => by have := h.le a ha; omega)).symm, ?_⟩
    simp only [if_true]
    refine ⟨?_, ?_, ?_, ?_⟩
    · intro hh; simp [hs] at hh
    · intro _; simp [hmax]
    · intro a ha
      simp only [List.mem_cons] at ha
      rcases ha with ha | ha
      · simp only; omega
      · exact h.le a ha
    · intro _ i hi
      simp only [tb_ins, Bool.or_eq_true, decide_eq_true_eq, List.mem_cons]
      constructor
      · rintro (hb' | heq)
        · have := (hbits i hi).1 hb'
          exact ⟨this.1, Or.inr this.2⟩
        · exact ⟨by omega, Or.inl (by omega)⟩
      · rintro ⟨hle, heq | hin⟩
        · right; omega
        · left; exact (hbits i hi).2 ⟨hle, hin⟩

theorem step_refines (s : RxState) (acc : List Nat) (c : Nat) (h : Inv s acc) :
    (postRecvPlain s c true).2 = specAccept acc c ∧
    Inv (postRecvPlain s c true).1
      (if (postRecvPlain s c true).2 then c :: acc else acc) := by
  cases hs : s.synced with
  | false =>
    have hacc := h.unsynced hs
    subst hacc
    rw [plain_unsynced s c true hs]
    refine ⟨by simp [specAccept], ?_⟩
    simp only [if_true]
    refine ⟨by simp, by simp, by simp, ?_⟩
    intro _ i hi
    simp only [Nat.zero_testBit, Bool.false_eq_true, false_iff, not_and, List.mem_singleton]
    intro h1 h2; omega
  | true =>
    have hmax := h.maxIn hs
    rcases Nat.lt_trichotomy c s.max with hlt | heq | hgt
    · by_cases hw : s.max - c ≤ L
      · rw [plain_win s c true hs hlt hw]
        exact inv_inWindow s acc c h hs hlt (by rw [L_eq] at hw; exact hw)
      · rw [plain_old s c hs hlt hw]
        rw [L_eq] at hw
        refine ⟨(spec_false_old acc c s.max hmax (by omega)).symm, by simpa using h⟩
    · subst heq
      rw [plain_eq s true hs]
      exact ⟨(spec_false_mem acc _ hmax).symm, by simpa using h⟩
    · rw [plain_fwd s c true hs hgt]
      have hnot : c ∉ acc := fun hm => by have := h.le c hm; omega
      refine ⟨(spec_true acc c hnot (fun a ha => by have := h.le a ha; omega)).symm, ?_⟩
      simp only [if_true]
      exact inv_forward s acc c h hs hgt
end C04
