import RsMatterVerif.Generated.Consts
import RsMatterVerif.Model.Codec.Buf
/-!
# Model of `transport/network/btp/session/packet.rs`: `BtpHdr`, `HandshakeReq`, `HandshakeResp`
The decoders read from a byte *iterator* (`msg.next().ok_or(ErrorCode::Invalid)`).
-/
namespace Codec.BtpHdr
open Codec

def HANDSHAKE : Nat := Consts.c17BtpHandshake
def MANAGEMENT : Nat := Consts.c17BtpManagement
def ACK : Nat := Consts.c17BtpAck
def ENDING : Nat := Consts.c17BtpEnding
def CONTINUE : Nat := Consts.c17BtpContinue
def BEGINNING : Nat := Consts.c17BtpBeginning
def FLAGS_ALL : Nat := HANDSHAKE ||| MANAGEMENT ||| ACK ||| ENDING ||| CONTINUE ||| BEGINNING

def contains (flags m : Nat) : Bool := flags &&& m == m

/-- `msg.next().ok_or(ErrorCode::Invalid)` -/
def next : List Nat → Except Err (Nat × List Nat)
  | b :: r => .ok (b, r)
  | [] => .error .invalid

structure Hdr where
  flags : Nat := 0
  opcode : Nat := 0
  ackNum : Nat := 0
  seqNum : Nat := 0
  msgLen : Nat := 0
deriving DecidableEq, Repr

def decode (h : Hdr) (l : List Nat) : Except Err (Hdr × List Nat) := do
  let (f, l) ← next l
  let flags := f &&& FLAGS_ALL                -- from_bits_truncate
  let h := { h with flags := flags }
  let (h, l) ← if contains flags MANAGEMENT then do
      let (x, l) ← next l; pure ({ h with opcode := x }, l)
    else pure (h, l)
  let (h, l) ← if contains flags ACK then do
      let (x, l) ← next l; pure ({ h with ackNum := x }, l)
    else pure (h, l)
  let (h, l) ← if !(contains flags HANDSHAKE) then do
      let (x, l) ← next l; pure ({ h with seqNum := x }, l)
    else pure (h, l)
  if contains flags BEGINNING && !(contains flags HANDSHAKE) then do
    let (a, l) ← next l
    let (b, l) ← next l
    pure ({ h with msgLen := a + 256 * b }, l)
  else pure (h, l)

def encodeBytes (h : Hdr) : List Nat :=
  [h.flags % 256]
  ++ (if contains h.flags MANAGEMENT then [h.opcode % 256] else [])
  ++ (if contains h.flags ACK then [h.ackNum % 256] else [])
  ++ (if !(contains h.flags HANDSHAKE) then [h.seqNum % 256] else [])
  ++ (if contains h.flags BEGINNING && !(contains h.flags HANDSHAKE) then le16 h.msgLen else [])

/-- `len()` -/
def len (h : Hdr) : Nat :=
  1 + (if contains h.flags MANAGEMENT then 1 else 0) + (if contains h.flags ACK then 1 else 0)
  + (if !(contains h.flags HANDSHAKE) then 1 else 0)
  + (if contains h.flags BEGINNING && !(contains h.flags HANDSHAKE) then 2 else 0)

structure View where
  flags : Nat
  opcode : Option Nat
  ack : Option Nat
  seq : Option Nat
  msgLen : Option Nat
deriving DecidableEq, Repr

def view (h : Hdr) : View :=
  { flags := h.flags
    opcode := if contains h.flags MANAGEMENT then some h.opcode else none
    ack := if contains h.flags ACK then some h.ackNum else none
    seq := if !(contains h.flags HANDSHAKE) then some h.seqNum else none
    msgLen := if contains h.flags BEGINNING && !(contains h.flags HANDSHAKE) then some h.msgLen else none }

def WF (h : Hdr) : Prop :=
  h.flags &&& FLAGS_ALL = h.flags ∧ h.opcode < 256 ∧ h.ackNum < 256 ∧ h.seqNum < 256 ∧ h.msgLen < 65536
instance (h : Hdr) : Decidable (WF h) := inferInstanceAs (Decidable (_ ∧ _))

/-! setters, in the order the harness applies them -/
def setSeq (h : Hdr) : Option Nat → Hdr
  | some s => { h with flags := h.flags &&& (FLAGS_ALL - HANDSHAKE), seqNum := s }
  | none => { h with flags := h.flags ||| HANDSHAKE, seqNum := 0 }
def setHandshake (h : Hdr) : Hdr := { h with flags := h.flags ||| HANDSHAKE ||| BEGINNING ||| ENDING }
def setOpcode (h : Hdr) : Option Nat → Hdr
  | some o => { h with flags := h.flags ||| MANAGEMENT, opcode := o }
  | none => { h with flags := h.flags &&& (FLAGS_ALL - MANAGEMENT), opcode := 0 }
def setAck (h : Hdr) : Option Nat → Hdr
  | some a => { h with flags := h.flags ||| ACK, ackNum := a }
  | none => { h with flags := h.flags &&& (FLAGS_ALL - ACK), ackNum := 0 }
def setMsgLen (h : Hdr) : Option Nat → Hdr
  | some n => { h with flags := h.flags ||| BEGINNING, msgLen := n }
  | none => { h with flags := h.flags &&& (FLAGS_ALL - BEGINNING), msgLen := 0 }
def setContinue (h : Hdr) : Hdr := { h with flags := h.flags ||| CONTINUE }
def setFinal (h : Hdr) : Hdr := { h with flags := h.flags ||| ENDING }

/-! ## handshake request / response -/

structure Req where
  versions : Nat
  mtu : Nat
  window : Nat
deriving DecidableEq, Repr

def Req.decode (l : List Nat) : Except Err (Req × List Nat) := do
  let (a, l) ← next l
  let (b, l) ← next l
  let (c, l) ← next l
  let (d, l) ← next l
  let (m0, l) ← next l
  let (m1, l) ← next l
  let (w, l) ← next l
  pure ({ versions := fromLe [a, b, c, d], mtu := m0 + 256 * m1, window := w }, l)

def Req.encodeBytes (r : Req) : List Nat := le32 r.versions ++ le16 r.mtu ++ [r.window % 256]

def Req.WF (r : Req) : Prop := r.versions < 4294967296 ∧ r.mtu < 65536 ∧ r.window < 256

structure Resp where
  version : Nat
  mtu : Nat
  window : Nat
deriving DecidableEq, Repr

def Resp.decode (l : List Nat) : Except Err (Resp × List Nat) := do
  let (v, l) ← next l
  let (m0, l) ← next l
  let (m1, l) ← next l
  let (w, l) ← next l
  pure ({ version := v, mtu := m0 + 256 * m1, window := w }, l)

def Resp.encodeBytes (r : Resp) : List Nat := [r.version % 256] ++ le16 r.mtu ++ [r.window % 256]

def Resp.WF (r : Resp) : Prop := r.version < 256 ∧ r.mtu < 65536 ∧ r.window < 256

end Codec.BtpHdr
