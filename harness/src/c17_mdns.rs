//! C17, sub-stream `mdns2`: the mDNS wire format of rs-matter's builtin mDNS, modelled in
//! `lean/RsMatterVerif/Model/Codec/Mdns.lean` (the driver recomputes every answer).
//!
//! ops (all self-contained text, strings as hex of their UTF-8 bytes, `-` = empty):
//!   `rt <name> <service> <protocol> <port> <host> <ip4 hex> <ip6,ip6|-> <k=v,k=v|-> <sub,sub|-> <host ttl> <svc ttl> <cap>`
//!        structure -> REAL `Host::broadcast` into a `cap`-byte buffer -> REAL `parse_into_answer`
//!        answer: `<bytes hex> <dec answer>` | `err BufferTooSmall` | `panic`
//!   `dec <hex> [scope]`   REAL `parse_into_answer`
//!        answer: `ok <labels> <port|-> [k=v,…] [addr,…] <scope>` | `none` | `err MdnsError` | `panic` | `timeout`
//!        (`<labels>` = hex labels joined by `.`, the root name is `.`; addresses = hex octets in packet order)
//!   `name <hex> <pos> <end>`  `ParsedName::parse` with a parser over `hex[pos..end]`
//!        answer: `ok <labels> <pos after> <name len> <compressed>` | `err <kind>`
//!   `skip <hex> <pos> <end>`  `ParsedName::skip`: `ok <pos after>` | `err <kind>`
//!   `txt <hex>`           `MdnsTxt` over raw TXT record data: `[k=v,…]`
//!   `q <labels> <rtype>`  `build_query`, then `parse_into_answer` on it: `<bytes hex> <dec answer>`
//!   `svc c <id> <disc> <enhanced> <vid> <pid> <sai|-> <sii|-> <dn> <pi> <ph> <dt|-> <tcp> <icd -|0|1> <port> <cap>`
//!   `svc o <compressed fabric id> <node id> <sai|-> <sii|-> <tcp> <icd> <port> <cap>`
//!        `MatterLocalService::service` (the name, subtypes and TXT pairs a Matter node publishes) with a `cap`-byte
//!        scratch buffer: `ok <name> <service> <protocol> <port> [sub,…] [k=v,…]` | `err BufferTooSmall`
//! Everything runs under `catch_unwind` on a helper thread with a watchdog (`timeout`).
use super::{edge, errname, guard, mutate, num};
use crate::proto::{hex, unhex, Out};
use crate::rng::Rng;

use rs_matter::transport::network::mdns::builtin::verif_query as hooks;
use rs_matter::transport::network::mdns::builtin::{parse_into_answer, Host};
use rs_matter::dm::clusters::basic_info::{BasicInfoConfig, PairingHintFlags};
use rs_matter::transport::network::mdns::MdnsLocalService;
use rs_matter::transport::network::MatterLocalService;
use rs_matter::transport::network::{IpAddr, Ipv4Addr, Ipv6Addr};

use std::sync::mpsc;
use std::time::Duration;

/// run `f` on a helper thread; a call that does not come back within 5 s is reported as `timeout`
fn watchdog<F: FnOnce() -> String + Send + 'static>(f: F) -> String {
    let (tx, rx) = mpsc::channel();
    std::thread::spawn(move || {
        let r = guard(f);
        let _ = tx.send(r);
    });
    match rx.recv_timeout(Duration::from_secs(5)) {
        Ok(s) => s,
        Err(_) => "timeout".into(),
    }
}

fn labels_str(labels: &[Vec<u8>]) -> String {
    if labels.is_empty() {
        ".".into()
    } else {
        labels.iter().map(|l| hex(l)).collect::<Vec<_>>().join(".")
    }
}

fn errkind(msg: &str) -> String {
    let k = if msg.contains("end of") {
        "short"
    } else if msg.contains("invalid label type") {
        "badlabel"
    } else if msg.contains("long domain name") {
        "longname"
    } else if msg.contains("too many compression pointers") {
        "compression"
    } else if msg.contains("trailing data") {
        "trailing"
    } else {
        return format!("err {}", msg.replace(' ', "_"));
    };
    format!("err {}", k)
}

pub fn dec(data: Vec<u8>, scope: Option<u32>) -> String {
    watchdog(move || match parse_into_answer(&data, scope) {
        Ok(Some(a)) => {
            let labels: Vec<Vec<u8>> = a.instance_name.iter().filter(|l| !l.is_root()).map(|l| l.as_slice().to_vec()).collect();
            let txt: Vec<String> = a.txt.clone().map(|(k, v)| format!("{}={}", hex(k.as_bytes()), hex(v.as_bytes()))).collect();
            let addrs: Vec<String> = a
                .addrs
                .clone()
                .map(|x| match x {
                    IpAddr::V4(v) => hex(&v.octets()),
                    IpAddr::V6(v) => hex(&v.octets()),
                })
                .collect();
            format!(
                "ok {} {} [{}] [{}] {}",
                labels_str(&labels),
                a.port.map(|p| p.to_string()).unwrap_or("-".into()),
                txt.join(","),
                addrs.join(","),
                a.scope_id
            )
        }
        Ok(None) => "none".into(),
        Err(e) => errname(&e),
    })
}

fn utf8(h: &str) -> Option<String> {
    String::from_utf8(unhex(h)).ok()
}

fn list(s: &str) -> Vec<&str> {
    s.split(',').filter(|x| *x != "-" && !x.is_empty()).collect()
}

fn rt(mut it: std::str::SplitWhitespace) -> String {
    let mut strs = Vec::new();
    for _ in 0..3 {
        match utf8(it.next().unwrap_or("-")) {
            Some(s) => strs.push(s),
            None => return "badutf8".into(),
        }
    }
    let port = num(it.next()) as u16;
    let Some(host) = utf8(it.next().unwrap_or("-")) else { return "badutf8".into() };
    let ip4 = unhex(it.next().unwrap_or("-"));
    let ip6s: Vec<Vec<u8>> = list(it.next().unwrap_or("-")).into_iter().map(unhex).collect();
    let mut txt: Vec<(String, String)> = Vec::new();
    for kv in list(it.next().unwrap_or("-")) {
        let mut p = kv.splitn(2, '=');
        match (utf8(p.next().unwrap_or("-")), utf8(p.next().unwrap_or("-"))) {
            (Some(k), Some(v)) => txt.push((k, v)),
            _ => return "badutf8".into(),
        }
    }
    let mut subs: Vec<String> = Vec::new();
    for s in list(it.next().unwrap_or("-")) {
        match utf8(s) {
            Some(s) => subs.push(s),
            None => return "badutf8".into(),
        }
    }
    let host_ttl = num(it.next()) as u32;
    let svc_ttl = num(it.next()) as u32;
    let cap = (num(it.next()) as usize).min(70000);
    if ip4.len() != 4 || ip6s.iter().any(|a| a.len() != 16) {
        return "badop".into();
    }
    let enc = watchdog(move || {
        let v6: Vec<Ipv6Addr> = ip6s
            .iter()
            .map(|a| {
                let mut x = [0u8; 16];
                x.copy_from_slice(a);
                Ipv6Addr::from(x)
            })
            .collect();
        let h = Host { hostname: &host, ip: Ipv4Addr::new(ip4[0], ip4[1], ip4[2], ip4[3]), ipv6: &v6 };
        let svc = MdnsLocalService {
            name: &strs[0],
            service: &strs[1],
            protocol: &strs[2],
            service_protocol: "",
            port,
            service_subtypes: subs.iter().map(|s| s.as_str()),
            txt_kvs: txt.iter().map(|(k, v)| (k.as_str(), v.as_str())),
        };
        let mut buf = vec![0u8; cap];
        match h.broadcast(&svc, &mut buf, host_ttl, svc_ttl) {
            Ok(n) => hex(&buf[..n]),
            Err(e) => errname(&e),
        }
    });
    if enc == "panic" || enc == "timeout" || enc.starts_with("err") {
        return enc;
    }
    format!("{} {}", enc, dec(unhex(&enc), Some(3)))
}

pub fn run(op: &str) -> String {
    let mut it = op.split_whitespace();
    match it.next() {
        Some("rt") => rt(it),
        Some("dec") => {
            let b = unhex(it.next().unwrap_or("-"));
            let scope = it.next().and_then(|s| s.parse::<u32>().ok());
            dec(b, scope)
        }
        Some("name") => {
            let b = unhex(it.next().unwrap_or("-"));
            let pos = num(it.next()) as usize;
            let end = num(it.next()) as usize;
            watchdog(move || {
                let mut labels: Vec<Vec<u8>> = Vec::new();
                match hooks::parse_name(&b, pos, end, &mut |l| labels.push(l.to_vec())) {
                    Ok((after, len, compressed)) => format!("ok {} {} {} {}", labels_str(&labels), after, len, compressed as u8),
                    Err(e) => errkind(&format!("{}", e)),
                }
            })
        }
        Some("skip") => {
            let b = unhex(it.next().unwrap_or("-"));
            let pos = num(it.next()) as usize;
            let end = num(it.next()) as usize;
            watchdog(move || match hooks::skip_name(&b, pos, end) {
                Ok(after) => format!("ok {}", after),
                Err(e) => errkind(&format!("{}", e)),
            })
        }
        Some("txt") => {
            let b = unhex(it.next().unwrap_or("-"));
            watchdog(move || {
                let v: Vec<String> = hooks::txt(&b).map(|(k, v)| format!("{}={}", hex(k.as_bytes()), hex(v.as_bytes()))).collect();
                format!("[{}]", v.join(","))
            })
        }
        Some("q") => {
            let lw = it.next().unwrap_or(".");
            let mut labels: Vec<String> = Vec::new();
            if lw != "." {
                for l in lw.split('.') {
                    match utf8(l) {
                        Some(s) => labels.push(s),
                        None => return "badutf8".into(),
                    }
                }
            }
            let rtype = num(it.next()) as u16;
            let enc = watchdog(move || {
                let ls: Vec<&str> = labels.iter().map(|s| s.as_str()).collect();
                let mut buf = vec![0u8; 1024];
                match hooks::build_query(&ls, rtype, &mut buf) {
                    Ok(n) => hex(&buf[..n]),
                    Err(e) => errname(&e),
                }
            });
            if enc == "panic" || enc == "timeout" || enc.starts_with("err") {
                return enc;
            }
            format!("{} {}", enc, dec(unhex(&enc), None))
        }
        Some("svc") => svc(it),
        _ => "badop".into(),
    }
}

fn optnum(s: Option<&str>) -> Option<u64> {
    s.and_then(|x| x.parse::<u64>().ok())
}

fn svc(mut it: std::str::SplitWhitespace) -> String {
    let kind = it.next().unwrap_or("");
    let (local, dn, pi, vid, pid, sai, sii, ph, dt, tcp);
    match kind {
        "c" => {
            let id = num(it.next());
            let disc = num(it.next()) as u16;
            let enhanced = num(it.next()) != 0;
            vid = num(it.next()) as u16;
            pid = num(it.next()) as u16;
            sai = optnum(it.next()).map(|x| x as u32);
            sii = optnum(it.next()).map(|x| x as u32);
            let Some(d) = utf8(it.next().unwrap_or("-")) else { return "badutf8".into() };
            let Some(p) = utf8(it.next().unwrap_or("-")) else { return "badutf8".into() };
            dn = d;
            pi = p;
            ph = num(it.next()) as u32;
            dt = optnum(it.next()).map(|x| x as u16);
            tcp = num(it.next()) != 0;
            local = MatterLocalService::Commissionable { id, discriminator: disc, enhanced };
        }
        "o" => {
            let cfid = num(it.next());
            let node = num(it.next());
            vid = 0;
            pid = 0;
            sai = optnum(it.next()).map(|x| x as u32);
            sii = optnum(it.next()).map(|x| x as u32);
            dn = String::new();
            pi = String::new();
            ph = 0;
            dt = None;
            tcp = num(it.next()) != 0;
            local = MatterLocalService::Commissioned { compressed_fabric_id: cfid, node_id: node };
        }
        _ => return "badop".into(),
    }
    let icd = match it.next() {
        Some("0") => Some(false),
        Some("1") => Some(true),
        _ => None,
    };
    let port = num(it.next()) as u16;
    let cap = (num(it.next()) as usize).min(4096);
    watchdog(move || {
        let dd = BasicInfoConfig {
            vid,
            pid,
            sai,
            sii,
            device_name: &dn,
            pairing_instruction: &pi,
            pairing_hint: PairingHintFlags::from_bits_retain(ph),
            device_type: dt,
            tcp_supported: tcp,
            ..Default::default()
        };
        let mut buf = vec![0u8; cap];
        let res = match local.verif_service(&dd, port, icd, &mut buf) {
            Ok((s, _)) => {
                let subs: Vec<String> = s.service_subtypes.clone().map(|x| hex(x.as_bytes())).collect();
                let txt: Vec<String> = s.txt_kvs.clone().map(|(k, v)| format!("{}={}", hex(k.as_bytes()), hex(v.as_bytes()))).collect();
                format!(
                    "ok {} {} {} {} [{}] [{}]",
                    hex(s.name.as_bytes()),
                    hex(s.service.as_bytes()),
                    hex(s.protocol.as_bytes()),
                    s.port,
                    subs.join(","),
                    txt.join(",")
                )
            }
            Err(e) => errname(&e),
        };
        res
    })
}

// ------------------------------------------------------------------ generator

const LABELCH: &[u8] = b"ABCDEFGHIJKLMNOPQRSTUVWXYZabcdefghijklmnopqrstuvwxyz0123456789-_";

fn label(r: &mut Rng, len: usize) -> Vec<u8> {
    (0..len).map(|_| *r.pick(LABELCH)).collect()
}

fn label_len(r: &mut Rng, out: &mut Out) -> usize {
    match r.below(40) {
        0 => {
            out.stat("mdns2_label_63", 1);
            63
        }
        1 => {
            out.stat("mdns2_label_64_illegal", 1);
            64
        }
        2 => 62,
        3 => 1,
        _ => *r.pick(&[4usize, 8, 12, 16, 16, 33]),
    }
}

/// a small dictionary of UTF-8 fragments (1-4 byte sequences) for TXT values
fn utf8_value(r: &mut Rng, len: usize) -> Vec<u8> {
    let frags: [&[u8]; 9] = [b"0", b"9", b"+", b"=", b"a", b" ", "é".as_bytes(), "€".as_bytes(), "😀".as_bytes()];
    let mut v = Vec::new();
    while v.len() < len {
        let f = *r.pick(&frags);
        if v.len() + f.len() > len {
            v.push(b'x');
        } else {
            v.extend_from_slice(f);
        }
    }
    v
}

/// minimal encoder with name compression (what other mDNS responders send), used for hand-made answers
struct Msg {
    b: Vec<u8>,
    /// (labels, offset) of every name suffix written so far
    dict: Vec<(Vec<Vec<u8>>, usize)>,
    an: u16,
}

impl Msg {
    fn new() -> Self {
        Msg { b: vec![0, 0, 0x84, 0, 0, 0, 0, 0, 0, 0, 0, 0], dict: Vec::new(), an: 0 }
    }
    fn name(&mut self, labels: &[Vec<u8>], compress: bool) {
        let mut i = 0;
        while i < labels.len() {
            if compress {
                if let Some((_, off)) = self.dict.iter().find(|(l, _)| l.as_slice() == &labels[i..]) {
                    let off = *off;
                    self.b.push(0xc0 | (off >> 8) as u8);
                    self.b.push(off as u8);
                    return;
                }
            }
            if self.b.len() < 0x3fff {
                self.dict.push((labels[i..].to_vec(), self.b.len()));
            }
            self.b.push(labels[i].len() as u8);
            self.b.extend_from_slice(&labels[i]);
            i += 1;
        }
        self.b.push(0);
    }
    fn rec(&mut self, owner: &[Vec<u8>], rtype: u16, cls: u16, compress: bool, data: impl FnOnce(&mut Msg)) {
        self.name(owner, compress);
        self.b.extend_from_slice(&rtype.to_be_bytes());
        self.b.extend_from_slice(&cls.to_be_bytes());
        self.b.extend_from_slice(&120u32.to_be_bytes());
        let at = self.b.len();
        self.b.extend_from_slice(&[0, 0]);
        data(self);
        let n = (self.b.len() - at - 2) as u16;
        self.b[at..at + 2].copy_from_slice(&n.to_be_bytes());
        self.an += 1;
    }
    fn finish(mut self, additional: u16) -> Vec<u8> {
        let an = self.an - additional.min(self.an);
        self.b[6..8].copy_from_slice(&an.to_be_bytes());
        self.b[10..12].copy_from_slice(&additional.min(self.an).to_be_bytes());
        self.b
    }
}

/// a response as a typical responder would send it: compressed names, records spread over the answer and
/// additional sections, optionally a question in front
fn compressed_answer(r: &mut Rng, out: &mut Out) -> Vec<u8> {
    out.stat("mdns2_compressed_answer", 1);
    let inst = vec![label(r, 16), b"_matterc".to_vec(), b"_udp".to_vec(), b"local".to_vec()];
    let host = vec![label(r, 12), b"local".to_vec()];
    let compress = !r.chance(1, 6);
    let mut m = Msg::new();
    if r.chance(1, 3) {
        // a question section in front (legacy unicast answers echo it)
        m.name(&inst[1..].to_vec(), compress);
        m.b.extend_from_slice(&[0, 12, 0, 1]);
        m.b[5] = 1;
    }
    let order = r.below(4);
    let with_ptr = r.chance(1, 2);
    if with_ptr && order != 3 {
        let target = inst.clone();
        m.rec(&inst[1..].to_vec(), 12, 1, compress, |m| m.name(&target, compress));
    }
    let port = edge(r, 16) as u16;
    let upper = r.chance(1, 4);
    let srv_host = host.clone();
    if order != 2 {
        m.rec(&inst, 33, 0x8001, compress, |m| {
            m.b.extend_from_slice(&[0, 0, 0, 0]);
            m.b.extend_from_slice(&port.to_be_bytes());
            m.name(&srv_host, compress);
        });
    }
    // TXT, sometimes owned by a differently-cased spelling of the instance
    let mut owner = inst.clone();
    if upper {
        owner[0] = owner[0].to_ascii_uppercase();
        owner[1] = owner[1].to_ascii_uppercase();
    }
    let nkv = r.below(4);
    let mut txt = Vec::new();
    for i in 0..nkv {
        let k = [&b"D"[..], b"VP", b"CM", b"DN"][i as usize % 4];
        let vl = *r.pick(&[0usize, 1, 4, 11]);
        let v = utf8_value(r, vl);
        txt.push((k.len() + v.len() + 1) as u8);
        txt.extend_from_slice(k);
        txt.push(b'=');
        txt.extend_from_slice(&v);
    }
    if txt.is_empty() {
        txt.push(0);
    }
    m.rec(&owner, 16, 0x8001, compress && !upper, |m| m.b.extend_from_slice(&txt));
    let additional = if r.chance(1, 2) { 0 } else { 1 + r.below(2) as u16 };
    // addresses (A + AAAA), some owned by an unrelated host
    if r.chance(3, 4) {
        let a = r.bytes(4);
        m.rec(&host, 1, 0x8001, compress, |m| m.b.extend_from_slice(&a));
    }
    if r.chance(1, 4) {
        let other = vec![label(r, 5), b"local".to_vec()];
        let a = r.bytes(4);
        m.rec(&other, 1, 0x8001, compress, |m| m.b.extend_from_slice(&a));
    }
    for _ in 0..r.below(3) {
        let a = r.bytes(16);
        m.rec(&host, 28, 0x8001, compress, |m| m.b.extend_from_slice(&a));
    }
    if with_ptr && order == 3 {
        let target = inst.clone();
        m.rec(&inst[1..].to_vec(), 12, 1, compress, |m| m.name(&target, compress));
    }
    m.finish(additional)
}

/// pointer-targeted mutations: self reference, mutual reference, forward, past the end, into a label
fn pointer_mutation(r: &mut Rng, b: &[u8], out: &mut Out) -> Vec<u8> {
    let mut v = b.to_vec();
    if v.len() < 16 {
        return v;
    }
    // existing pointer octets, if any
    let ptrs: Vec<usize> = (12..v.len() - 1).filter(|&i| v[i] >= 0xc0).collect();
    let i = if !ptrs.is_empty() && r.chance(2, 3) { *r.pick(&ptrs) } else { 12 + r.below(v.len() as u64 - 13) as usize };
    let kind = r.below(7);
    let target: usize = match kind {
        0 => {
            out.stat("mdns2_ptr_self", 1);
            i
        }
        1 => {
            out.stat("mdns2_ptr_forward", 1);
            (i + 2 + r.below(8) as usize).min(0x3fff)
        }
        2 => {
            out.stat("mdns2_ptr_past_end", 1);
            v.len() + r.below(4) as usize
        }
        3 => {
            out.stat("mdns2_ptr_mutual", 1);
            // two pointers pointing at each other
            let j = if i >= 14 { i - 2 } else { i + 2 };
            if j + 1 < v.len() {
                v[j] = 0xc0 | (i >> 8) as u8;
                v[j + 1] = i as u8;
            }
            j
        }
        4 => {
            out.stat("mdns2_ptr_header", 1);
            r.below(12) as usize
        }
        5 => {
            out.stat("mdns2_ptr_just_before", 1);
            i.saturating_sub(1 + r.below(3) as usize)
        }
        _ => {
            out.stat("mdns2_ptr_backward_any", 1);
            r.below(i as u64) as usize
        }
    };
    v[i] = 0xc0 | ((target >> 8) as u8 & 0x3f);
    v[i + 1] = target as u8;
    v
}

/// length-octet edits: label lengths, RDLENGTH, header counts
fn length_mutation(r: &mut Rng, b: &[u8], out: &mut Out) -> Vec<u8> {
    let mut v = b.to_vec();
    if v.len() < 14 {
        return v;
    }
    match r.below(4) {
        0 => {
            out.stat("mdns2_mut_count", 1);
            let i = *r.pick(&[4usize, 5, 6, 7, 8, 9, 10, 11]);
            v[i] = *r.pick(&[0u8, 1, 2, 3, 0xff]);
        }
        1 => {
            out.stat("mdns2_mut_label_len", 1);
            // the first name starts at 12
            v[12] = *r.pick(&[0u8, 1, 0x3f, 0x40, 0x7f, 0x80, 0xbf, 0xc0, 0xff]);
        }
        2 => {
            out.stat("mdns2_mut_qr", 1);
            v[2] ^= 0x80;
        }
        _ => {
            out.stat("mdns2_mut_len_any", 1);
            let i = 12 + r.below(v.len() as u64 - 12) as usize;
            v[i] = *r.pick(&[0u8, 1, 0x3f, 0x40, 0xc0, 0xff, v[i].wrapping_add(1), v[i].wrapping_sub(1)]);
        }
    }
    v
}

fn gen_rt(r: &mut Rng, out: &mut Out) -> String {
    let nl = label_len(r, out);
    let name = label(r, nl);
    let hl = label_len(r, out);
    let host = label(r, hl);
    let (service, protocol) = if r.chance(1, 2) { (b"_matterc".to_vec(), b"_udp".to_vec()) } else { (b"_matter".to_vec(), b"_tcp".to_vec()) };
    let ip4 = if r.chance(1, 5) { vec![0u8; 4] } else { r.bytes(4) };
    let n6 = *r.pick(&[0usize, 0, 1, 1, 2, 3]);
    let ip6s: Vec<String> = (0..n6).map(|_| if r.chance(1, 6) { hex(&[0u8; 16]) } else { hex(&r.bytes(16)) }).collect();
    let ntxt = *r.pick(&[0usize, 1, 2, 5, 9, 11]);
    let keys: [&[u8]; 13] = [b"D", b"VP", b"CM", b"DT", b"DN", b"SII", b"SAI", b"SAT", b"T", b"ICD", b"PH", b"PI", b""];
    let mut txt = Vec::new();
    let mut illegal = false;
    for i in 0..ntxt {
        let k = keys[(i + r.below(3) as usize) % keys.len()];
        let vlen = match r.below(30) {
            0 => 254 - k.len(),
            1 => {
                illegal = true;
                255 - k.len()
            }
            2 => 200,
            3 => 0,
            _ => *r.pick(&[1usize, 1, 4, 11, 40]),
        };
        let v = utf8_value(r, vlen);
        txt.push(format!("{}={}", hex(k), hex(&v)));
    }
    if illegal {
        out.stat("mdns2_txt_over_255_illegal", 1);
    }
    out.stat(&format!("mdns2_txt_{}", ntxt), 1);
    let nsub = *r.pick(&[0usize, 0, 1, 2, 4, 5]);
    let subs: Vec<String> = (0..nsub).map(|i| hex(format!("_{}{}", ["L", "S", "V", "T", "CM"][i % 5], r.below(4096)).as_bytes())).collect();
    let cap = match r.below(12) {
        0 => {
            out.stat("mdns2_small_cap", 1);
            r.below(400)
        }
        1 => r.below(14),
        _ => 9000,
    };
    format!(
        "rt {} {} {} {} {} {} {} {} {} {} {} {}",
        hex(&name),
        hex(&service),
        hex(&protocol),
        edge(r, 16),
        hex(&host),
        hex(&ip4),
        if ip6s.is_empty() { "-".into() } else { ip6s.join(",") },
        if txt.is_empty() { "-".into() } else { txt.join(",") },
        if subs.is_empty() { "-".into() } else { subs.join(",") },
        edge(r, 32),
        edge(r, 32),
        cap
    )
}

/// hand-made name buffers for `name` / `skip`: flat names at the length limits, pointer chains and loops
fn gen_name_ops(r: &mut Rng, out: &mut Out) -> Vec<String> {
    let mut ops = Vec::new();
    let mut b: Vec<u8> = Vec::new();
    let kind = r.below(8);
    let mut pos = 0usize;
    match kind {
        0 => {
            out.stat("mdns2_name_flat_limit", 1);
            // total wire length 253..257
            let total = *r.pick(&[253usize, 254, 255, 256, 257]);
            let mut left = total - 1;
            while left > 0 {
                let l = (left - 1).min(*r.pick(&[63usize, 63, 20, 1]));
                if l == 0 {
                    b.push(1);
                    b.push(b'x');
                    left = left.saturating_sub(2);
                    continue;
                }
                b.push(l as u8);
                b.extend(label(r, l));
                left -= l + 1;
            }
            b.push(0);
        }
        1 => {
            out.stat("mdns2_name_ptr_chain", 1);
            // name, then a chain of pointers each pointing at the previous one
            b.extend_from_slice(&[3, b'a', b'b', b'c', 0]);
            let n = r.range(1, 40) as usize;
            let mut prev = 0usize;
            for _ in 0..n {
                let at = b.len();
                b.push(0xc0 | (prev >> 8) as u8);
                b.push(prev as u8);
                prev = at;
            }
            pos = prev;
        }
        2 => {
            out.stat("mdns2_name_label_then_back", 1);
            // `01 61 c0 00`: a backward pointer to a label that runs into the same pointer again
            let l = r.range(1, 5) as usize;
            b.push(l as u8);
            b.extend(label(r, l));
            pos = if r.chance(1, 2) { b.len() } else { 0 };
            b.extend_from_slice(&[0xc0, 0]);
        }
        3 => {
            out.stat("mdns2_name_ptr_self", 1);
            let pl = r.below(4) as usize;
            b.extend(r.bytes(pl));
            pos = b.len();
            b.push(0xc0 | (pos >> 8) as u8);
            b.push(pos as u8);
        }
        4 => {
            out.stat("mdns2_name_suffix_compression", 1);
            b.extend_from_slice(&[5, b'l', b'o', b'c', b'a', b'l', 0]);
            let at = b.len();
            b.extend_from_slice(&[4, b'_', b'u', b'd', b'p', 0xc0, 0]);
            pos = b.len();
            let l = r.range(1, 63) as usize;
            b.push(l as u8);
            b.extend(label(r, l));
            b.push(0xc0);
            b.push(at as u8);
        }
        5 => {
            out.stat("mdns2_name_bad_label_type", 1);
            b.extend_from_slice(&[2, b'a', b'b']);
            b.push(*r.pick(&[0x40u8, 0x41, 0x7f, 0x80, 0xbf]));
            b.extend(r.bytes(3));
        }
        6 => {
            out.stat("mdns2_name_long_by_compression", 1);
            // a long flat name and a second name that prepends labels to it through a pointer
            let n = r.range(1, 4) as usize;
            for _ in 0..n {
                b.push(62);
                b.extend(label(r, 62));
            }
            b.push(0);
            pos = b.len();
            let l = *r.pick(&[1usize, 30, 61, 62, 63]);
            b.push(l as u8);
            b.extend(label(r, l));
            b.extend_from_slice(&[0xc0, 0]);
        }
        _ => {
            out.stat("mdns2_name_arbitrary", 1);
            let n = r.range(0, 24) as usize;
            b = r.bytes(n);
            for x in b.iter_mut() {
                if r.chance(1, 2) {
                    *x = *r.pick(&[0u8, 1, 2, 3, 0xc0, 0xc0, 0xc1, 0x3f, 0x40]);
                }
            }
            pos = r.below(n as u64 + 1) as usize;
        }
    }
    let end = b.len();
    ops.push(format!("name {} {} {}", hex(&b), pos, end));
    ops.push(format!("skip {} {} {}", hex(&b), pos, end));
    // the same with a shorter parser limit (record data sub-parser) and from other positions
    if end > 0 {
        let e2 = r.below(end as u64 + 1) as usize;
        ops.push(format!("name {} {} {}", hex(&b), pos.min(e2), e2));
        let p2 = r.below(end as u64) as usize;
        ops.push(format!("name {} {} {}", hex(&b), p2, end));
        ops.push(format!("skip {} {} {}", hex(&b), p2, end));
    }
    let m = mutate(r, &b, out);
    ops.push(format!("name {} {} {}", hex(&m), pos.min(m.len()), m.len()));
    ops
}

fn gen_txt_ops(r: &mut Rng, out: &mut Out) -> Vec<String> {
    let mut ops = Vec::new();
    for _ in 0..3 {
        let mut d = Vec::new();
        for _ in 0..r.below(5) {
            match r.below(8) {
                0 => {
                    out.stat("mdns2_txt_invalid_utf8", 1);
                    let bad: [&[u8]; 8] = [&[0xc0, 0x80], &[0xc1, 0xbf], &[0xe0, 0x80, 0x80], &[0xed, 0xa0, 0x80], &[0xf0, 0x80, 0x80, 0x80], &[0xf4, 0x90, 0x80, 0x80], &[0xf5, 0x80, 0x80, 0x80], &[0x80]];
                    let mut s = b"K=".to_vec();
                    s.extend_from_slice(*r.pick(&bad));
                    if r.chance(1, 2) {
                        s.extend_from_slice(b"x");
                    }
                    d.push(s.len() as u8);
                    d.extend(s);
                }
                1 => {
                    out.stat("mdns2_txt_no_eq", 1);
                    let sl = r.below(6) as usize;
                    let s = label(r, sl);
                    d.push(s.len() as u8);
                    d.extend(s);
                }
                2 => {
                    out.stat("mdns2_txt_boundary_utf8", 1);
                    let good: [&[u8]; 8] = [&[0xc2, 0x80], &[0xdf, 0xbf], &[0xe0, 0xa0, 0x80], &[0xed, 0x9f, 0xbf], &[0xee, 0x80, 0x80], &[0xf0, 0x90, 0x80, 0x80], &[0xf4, 0x8f, 0xbf, 0xbf], &[0xef, 0xbf, 0xbf]];
                    let mut s = (*r.pick(&good)).to_vec();
                    s.extend_from_slice(b"=");
                    s.extend_from_slice(*r.pick(&good));
                    d.push(s.len() as u8);
                    d.extend(s);
                }
                3 => {
                    out.stat("mdns2_txt_len_overrun", 1);
                    let s = b"AB=12".to_vec();
                    d.push(s.len() as u8 + r.range(1, 200) as u8);
                    d.extend(s);
                }
                4 => d.push(0),
                _ => {
                    let kl = r.below(4) as usize;
                    let k = label(r, kl);
                    let vl = r.below(12) as usize;
                    let v = utf8_value(r, vl);
                    d.push((k.len() + v.len() + 1) as u8);
                    d.extend(k);
                    d.push(b'=');
                    d.extend(v);
                }
            }
        }
        ops.push(format!("txt {}", hex(&d)));
        if r.chance(1, 2) {
            let m = mutate(r, &d, out);
            ops.push(format!("txt {}", hex(&m)));
        }
    }
    if r.chance(1, 3) {
        let al = r.range(0, 40) as usize;
        ops.push(format!("txt {}", hex(&r.bytes(al))));
    }
    ops
}

fn gen_case(r: &mut Rng, out: &mut Out) -> Vec<String> {
    let mut ops = Vec::new();
    match r.below(10) {
        0 | 1 | 2 | 3 => {
            out.stat("mdns2_case_broadcast", 1);
            let rt = gen_rt(r, out);
            let res = super::run_op("mdns2", &rt);
            ops.push(rt);
            if let Some(w) = res.split_whitespace().next() {
                if w.len() > 24 && w.bytes().all(|c| c.is_ascii_hexdigit()) {
                    let b = unhex(w);
                    ops.push(format!("dec {} {}", hex(&b), r.below(5)));
                    for _ in 0..3 {
                        let m = match r.below(3) {
                            0 => mutate(r, &b, out),
                            1 => pointer_mutation(r, &b, out),
                            _ => length_mutation(r, &b, out),
                        };
                        ops.push(format!("dec {}", hex(&m)));
                    }
                    out.stat("mdns2_truncation", 1);
                    let n = r.below(b.len() as u64) as usize;
                    ops.push(format!("dec {}", hex(&b[..n])));
                }
            }
        }
        4 | 5 | 6 => {
            out.stat("mdns2_case_compressed", 1);
            let b = compressed_answer(r, out);
            ops.push(format!("dec {} {}", hex(&b), r.below(5)));
            for _ in 0..4 {
                let m = match r.below(4) {
                    0 => mutate(r, &b, out),
                    1 | 2 => pointer_mutation(r, &b, out),
                    _ => length_mutation(r, &b, out),
                };
                ops.push(format!("dec {}", hex(&m)));
            }
            let n = r.below(b.len() as u64) as usize;
            ops.push(format!("dec {}", hex(&b[..n])));
            // the names of the message, parsed one by one: at the first record and at the pointers
            ops.push(format!("name {} 12 {}", hex(&b), b.len()));
            let ptrs: Vec<usize> = (12..b.len() - 1).filter(|&i| b[i] >= 0xc0).collect();
            for _ in 0..2 {
                if !ptrs.is_empty() {
                    let at = *r.pick(&ptrs);
                    ops.push(format!("name {} {} {}", hex(&b), at, b.len()));
                    ops.push(format!("skip {} {} {}", hex(&b), at.saturating_sub(r.below(6) as usize), b.len()));
                }
            }
        }
        7 => {
            out.stat("mdns2_case_names", 1);
            ops = gen_name_ops(r, out);
        }
        8 if r.chance(1, 2) => {
            out.stat("mdns2_case_txt", 1);
            ops = gen_txt_ops(r, out);
        }
        9 => {
            out.stat("mdns2_case_service", 1);
            // what a Matter node publishes, then the same description through the real encoder and parser
            let opt32 = |r: &mut Rng| if r.chance(1, 2) { "-".to_string() } else { edge(r, 32).to_string() };
            let icd = (*r.pick(&["-", "0", "1"])).to_string();
            let cap = if r.chance(1, 8) { r.below(120) } else { 1024 };
            let op = if r.chance(2, 3) {
                let dnl = *r.pick(&[0usize, 1, 8, 32]);
                let pil = *r.pick(&[0usize, 1, 16, 128]);
                let dn = utf8_value(r, dnl);
                let pi = utf8_value(r, pil);
                let dt = if r.chance(1, 2) { "-".to_string() } else { edge(r, 16).to_string() };
                format!(
                    "svc c {} {} {} {} {} {} {} {} {} {} {} {} {} {} {}",
                    edge(r, 64),
                    edge(r, 16),
                    r.below(2),
                    edge(r, 16),
                    edge(r, 16),
                    opt32(r),
                    opt32(r),
                    hex(&dn),
                    hex(&pi),
                    edge(r, 32),
                    dt,
                    r.below(2),
                    icd,
                    edge(r, 16),
                    cap
                )
            } else {
                format!("svc o {} {} {} {} {} {} {} {}", edge(r, 64), edge(r, 64), opt32(r), opt32(r), r.below(2), icd, edge(r, 16), cap)
            };
            let res = super::run_op("mdns2", &op);
            ops.push(op);
            let w: Vec<&str> = res.split_whitespace().collect();
            if w.len() == 7 && w[0] == "ok" {
                let strip = |x: &str| x.trim_start_matches('[').trim_end_matches(']').to_string();
                let subs = strip(w[5]);
                let txt = strip(w[6]);
                let host = label(r, 12);
                let rt = format!(
                    "rt {} {} {} {} {} {} {} {} {} {} {} 9000",
                    w[1],
                    w[2],
                    w[3],
                    w[4],
                    hex(&host),
                    hex(&r.bytes(4)),
                    hex(&r.bytes(16)),
                    if txt.is_empty() { "-".into() } else { txt },
                    if subs.is_empty() { "-".into() } else { subs },
                    edge(r, 32),
                    edge(r, 32)
                );
                ops.push(rt);
            }
        }
        _ => {
            out.stat("mdns2_case_misc", 1);
            // queries are ignored; arbitrary bytes with the QR bit set
            let labels = [hex(b"_matterc"), hex(b"_udp"), hex(b"local")];
            let nl = r.range(1, 3) as usize;
            ops.push(format!("q {} {}", labels[3 - nl..].join("."), *r.pick(&[12u16, 255, 33, 16])));
            for _ in 0..3 {
                let n = r.range(0, 90) as usize;
                let mut b = r.bytes(n);
                if n > 3 {
                    b[2] |= 0x80;
                }
                if n > 12 && r.chance(2, 3) {
                    // plausible counts
                    for i in [4usize, 6, 8, 10] {
                        b[i] = 0;
                        b[i + 1] = r.below(3) as u8;
                    }
                }
                ops.push(format!("dec {}", hex(&b)));
            }
        }
    }
    ops
}

pub fn gen(r: &mut Rng, out: &mut Out, thorough: bool, id: &mut u64) {
    let n: u64 = if thorough { 6000 } else { 600 };
    for _ in 0..n {
        let mut cr = r.fork();
        let ops = gen_case(&mut cr, out);
        out.stat("kind_mdns2", 1);
        super::emit_case(out, *id, "mdns2", ops);
        *id += 1;
    }
}
