import RsMatterVerif.Lemmas.Dedup
import RsMatterVerif.Lemmas.DedupGroup
/-!
# C04 — a message counter is accepted at most once per secure peer; newer ones always

Property theorems over `Model/Dedup.lean`.  The unicast part is a refinement to the
set-based specification `Dedup.specAccept`; the four clauses of the property are corollaries.
-/
namespace C04
open Dedup

/-- run a secure unicast session (encrypted, no roll-over) over a history of received counters;
returns the final state, the list of accepted counters (newest first) and the verdict per message. -/
def runU : RxState → List Nat → List Nat → RxState × List Nat × List Bool
  | s, acc, [] => (s, acc, [])
  | s, acc, c :: cs =>
    let r := postRecvPlain s c true
    let out := runU r.1 (if r.2 then c :: acc else acc) cs
    (out.1, out.2.1, r.2 :: out.2.2)

/-- the same history run through the set-based specification only -/
def specRun : List Nat → List Nat → List Bool
  | _, [] => []
  | acc, c :: cs =>
    let ok := specAccept acc c
    ok :: specRun (if ok then c :: acc else acc) cs

theorem inv_init : Inv RxState.unsynced [] := by
  refine ⟨fun _ => rfl, ?_, ?_, ?_⟩
  · intro h; simp [RxState.unsynced] at h
  · intro a h; simp at h
  · intro h; simp [RxState.unsynced] at h

/-- **Refinement**: on every history, from every state satisfying the invariant, the model's
verdicts are exactly those of the set-based specification. -/
theorem run_refines (cs : List Nat) : ∀ (s : RxState) (acc : List Nat), Inv s acc →
    (runU s acc cs).2.2 = specRun acc cs := by
  induction cs with
  | nil => intro s acc _; rfl
  | cons c cs ih =>
    intro s acc h
    have hs := step_refines s acc c h
    simp only [runU, specRun]
    rw [hs.1]
    congr 1
    have := ih _ _ hs.2
    rw [hs.1] at this
    exact this

/-- Every history of a fresh secure unicast session behaves like the specification. -/
theorem unicast_is_spec (cs : List Nat) :
    (runU RxState.unsynced [] cs).2.2 = specRun [] cs :=
  run_refines cs _ _ inv_init

/-! ## The clauses of the property, as statements about the specification run
(which by `unicast_is_spec` is the model's behaviour on every history). -/

/-- accepted counters only ever grow along a run -/
theorem spec_acc_mono (pre : List Nat) (c : Nat) (acc : List Nat) :
    specAccept (pre ++ c :: acc) c = false := by
  simp [specAccept]

/-- Clause 1: a value that has been accepted is never accepted again, whatever happens in between. -/
theorem no_double_accept (acc : List Nat) (c : Nat) (hc : c ∈ acc) : specAccept acc c = false := by
  simp [specAccept, hc]

/-- Clause 2: a value older than the window below an accepted value is never accepted. -/
theorem older_than_window_rejected (acc : List Nat) (c a : Nat) (ha : a ∈ acc) (h : c + 16 < a) :
    specAccept acc c = false := by
  simp only [specAccept, Bool.and_eq_false_imp, Bool.not_eq_true', List.all_eq_false,
    decide_eq_true_eq]
  intro _; exact ⟨a, ha, by rw [L_eq]; omega⟩

/-- Clause 3: a value greater than every value accepted so far is always accepted
(including the very first message, `acc = []`). -/
theorem newer_always_accepted (acc : List Nat) (c : Nat) (h : ∀ a ∈ acc, a < c) :
    specAccept acc c = true := by
  simp only [specAccept, Bool.and_eq_true, Bool.not_eq_true', List.all_eq_true, decide_eq_true_eq]
  refine ⟨?_, fun a ha => by have := h a ha; omega⟩
  cases hcon : acc.contains c with
  | false => rfl
  | true => have := h c (by simpa using hcon); omega

/-- Clause 4: a value inside the window that has not been accepted yet is accepted
(exactly once, by clause 1) — whatever the size of the jump that overtook it. -/
theorem in_window_once (acc : List Nat) (c : Nat) (hn : c ∉ acc) (h : ∀ a ∈ acc, a ≤ c + 16) :
    specAccept acc c = true := by
  simp only [specAccept, Bool.and_eq_true, Bool.not_eq_true', List.all_eq_true, decide_eq_true_eq]
  refine ⟨by simpa using hn, fun a ha => by have := h a ha; rw [L_eq]; omega⟩

/-- The accepted list of a run is what the verdicts say. -/
theorem runU_acc (cs : List Nat) : ∀ s acc, Inv s acc →
    Inv (runU s acc cs).1 (runU s acc cs).2.1 := by
  induction cs with
  | nil => intro s acc h; exact h
  | cons c cs ih =>
    intro s acc h
    simp only [runU]
    exact ih _ _ (step_refines s acc c h).2

/-- Non-vacuity: a concrete reachable state (gap of 20, then the overtaken value 119, then a
duplicate) — accepted, accepted, accepted, rejected. -/
example : (runU RxState.unsynced [] [100, 120, 119, 119]).2.2 = [true, true, true, false] := by
  decide

/-- Non-vacuity of clause 4's hypotheses. -/
example : (119 ∉ [120, 100]) ∧ ∀ a ∈ [120, 100], a ≤ 119 + 16 := by decide

/-! ## Unsecured sessions: a restart of the peer's counter is accepted -/

theorem restart_accepted (s : RxState) (c : Nat) (hs : s.synced = true)
    (h : c + L < s.max) : (postRecvPlain s c false).2 = true ∧
      (postRecvPlain s c false).1.max = c := by
  unfold postRecvPlain
  have h1 : ¬ (c = s.max) := by omega
  have h2 : ¬ (c > s.max) := by omega
  have h3 : ¬ (s.max - c ≤ L) := by omega
  simp [hs, h1, h2, h3]

/-! ## Group senders (modular comparison) -/

/-- Clause 3 for group senders: a counter that is ahead of the maximum in the modular sense
`(c − max) mod 2³² ∈ [1, 2³¹−1]` is always accepted. -/
theorem group_forward_accepted (s : RxState) (c : Nat) (hs : s.synced = true)
    (hne : c ≠ s.max) (hf : (c + U32 - s.max) % U32 ≤ I32MAX) :
    (postRecvRoll s c).2 = true := by
  unfold postRecvRoll
  simp [hs, hne, hf]

/-- Clause 2 for group senders: a counter behind the maximum by more than the window
(in the modular sense) is never accepted. -/
theorem group_behind_window_rejected (s : RxState) (c : Nat) (hs : s.synced = true)
    (hf : ¬ (c + U32 - s.max) % U32 ≤ I32MAX) (hb : ¬ (s.max + U32 - c) % U32 ≤ L) :
    (postRecvRoll s c).2 = false ∧ (postRecvRoll s c).1 = s := by
  unfold postRecvRoll
  by_cases hne : c = s.max
  · simp [hs, hne]
  · simp [hs, hne, hf, hb]

/-- The maximum itself is a duplicate. -/
theorem group_max_rejected (s : RxState) (hs : s.synced = true) :
    (postRecvRoll s s.max).2 = false := by
  unfold postRecvRoll; simp [hs]

/-- A counter inside the window is accepted at most once: its immediate repeat is rejected. -/
theorem group_in_window_once (s : RxState) (c : Nat) (hs : s.synced = true) (hne : c ≠ s.max)
    (hf : ¬ (c + U32 - s.max) % U32 ≤ I32MAX) (hb : (s.max + U32 - c) % U32 ≤ L) :
    (postRecvRoll (postRecvRoll s c).1 c).2 = false := by
  have h1 : ∀ t : RxState, t.synced = true → t.max = s.max →
      postRecvRoll t c = inWindow t ((s.max + U32 - c) % U32) := by
    intro t ht hm
    unfold postRecvRoll; simp [ht, hm, hne, hf, hb]
  rw [h1 s hs rfl]
  unfold inWindow
  by_cases ht : s.bitmap.testBit ((s.max + U32 - c) % U32 - 1) = true
  · rw [if_pos ht]
    rw [h1 s hs rfl]; unfold inWindow; rw [if_pos ht]
  · rw [if_neg ht]
    simp only
    have h2 := h1 (RxState.mk s.synced s.max (s.bitmap ||| 1 <<< ((s.max + U32 - c) % U32 - 1))) hs rfl
    rw [h2]
    unfold inWindow
    simp [tb_ins]

/-- The ghost instrumentation (`stepG`: unbounded positions) does not change behaviour: erasing the
ghost fields gives exactly `postRecvRoll`. -/
theorem stepG_erases (g : G) (c : Nat) :
    (stepG g c).2 = (postRecvRoll g.s c).2 ∧ (stepG g c).1.s = (postRecvRoll g.s c).1 := by
  unfold stepG
  cases h : (postRecvRoll g.s c).2 <;> simp only [h, Bool.false_eq_true, ↓reduceIte] <;>
    (try split) <;> simp

/-- the state of a group sender right after its trust-first message `first` -/
def gInit (first : Nat) : G := { s := RxState.new first, P := first + U32, acc := [first + U32] }

/-- **Clause 1 for a tracked group sender, whole histories**: as long as the sender's counter has
advanced by less than a full cycle (2³²) since the trust-first message, no wire value is accepted
twice (the trust-first message included). A 32-bit counter necessarily re-admits values after a
full cycle, so the bound is the full strength available. -/
theorem group_no_double_accept (first : Nat) (cs : List Nat) (hf : first < U32)
    (hc : ∀ c ∈ cs, c < U32)
    (hadv : (runG (gInit first) [first] cs).1.P - (first + U32) < U32) :
    (runG (gInit first) [first] cs).2.Nodup := by
  have h := runG_inv cs (gInit first) [first] (first + U32) hc (ginv_init first hf)
    (by
      have h0 : (first + U32) % U32 = first := by rw [U32_eq] at *; omega
      simp only [gInit, List.map_cons, List.map_nil, h0])
  rw [h.2]
  exact nodup_map_mod _ (first + U32) _ h.1.range hadv h.1.nodup

/-- Non-vacuity: a sender that rolls over (trust-first at 2³²−3, then 2, then the in-window
2³²−2, then repeats) — accepted wire values are distinct and the hypotheses hold. -/
example : (runG (gInit 4294967293) [4294967293] [2, 4294967294, 2, 4294967294, 4294967293]).2
    = [4294967294, 2, 4294967293] := by decide

/-! ## Group store: per-sender isolation, capacity -/

theorem lookupUpdate_length (clk fab node c : Nat) :
    ∀ (es es' : List GEntry) (b : Bool), lookupUpdate clk fab node c es = some (es', b) →
      es'.length = es.length := by
  intro es
  induction es with
  | nil => intro es' b h; simp [lookupUpdate] at h
  | cons e es ih =>
    intro es' b h
    unfold lookupUpdate at h
    by_cases hk : e.fab = fab ∧ e.node = node
    · simp only [hk, and_self, ↓reduceIte, Option.some.injEq, Prod.mk.injEq] at h
      rw [← h.1]; simp
    · simp only [hk, ↓reduceIte] at h
      cases hr : lookupUpdate clk fab node c es with
      | none => simp [hr] at h
      | some p =>
        obtain ⟨es2, b2⟩ := p
        simp only [hr, Option.some.injEq, Prod.mk.injEq] at h
        rw [← h.1]; simp [ih es2 b2 hr]

/-- The store never tracks more than `MAX_GROUP_CTR_ENTRIES` senders. -/
theorem store_capacity (g : GStore) (fab node c : Nat)
    (h : g.entries.length ≤ Consts.maxGroupCtrEntries) :
    (g.postRecv fab node c).1.entries.length ≤ Consts.maxGroupCtrEntries := by
  simp only [GStore.postRecv]
  split
  · rename_i es b hr
    simp only
    rw [lookupUpdate_length _ _ _ _ _ _ _ hr]; exact h
  · split
    · simp only [List.length_append, List.length_cons, List.length_nil]; omega
    · simp only [List.length_set]; exact h

/-- A sender that is not tracked is accepted (trust-first), also when the store is full. -/
theorem store_new_sender_accepted (g : GStore) (fab node c : Nat)
    (h : lookupUpdate ((g.clock + 1) % U32) fab node c g.entries = none) :
    (g.postRecv fab node c).2 = true := by
  unfold GStore.postRecv
  simp only [h]
  split <;> rfl

/-- On a hit, the verdict is the tracked sender's window verdict and the windows of all other
senders are untouched. -/
theorem lookupUpdate_spec (clk fab node c : Nat) :
    ∀ (es es' : List GEntry) (b : Bool), lookupUpdate clk fab node c es = some (es', b) →
      ∃ (pre post : List GEntry) (e : GEntry),
        es = pre ++ e :: post ∧ (∀ x ∈ pre, ¬ (x.fab = fab ∧ x.node = node)) ∧
        e.fab = fab ∧ e.node = node ∧ b = (postRecvRoll e.rx c).2 ∧
        es' = pre ++ { e with rx := (postRecvRoll e.rx c).1, lastUsed := clk } :: post := by
  intro es
  induction es with
  | nil => intro es' b h; simp [lookupUpdate] at h
  | cons e es ih =>
    intro es' b h
    unfold lookupUpdate at h
    by_cases hk : e.fab = fab ∧ e.node = node
    · simp only [hk, and_self, ↓reduceIte, Option.some.injEq, Prod.mk.injEq] at h
      exact ⟨[], es, e, by simp, by simp, hk.1, hk.2, h.2.symm, by simp [← h.1, hk.1, hk.2]⟩
    · simp only [hk, ↓reduceIte] at h
      cases hr : lookupUpdate clk fab node c es with
      | none => simp [hr] at h
      | some p =>
        obtain ⟨es2, b2⟩ := p
        simp only [hr, Option.some.injEq, Prod.mk.injEq] at h
        obtain ⟨pre, post, e0, h1, h2, h3, h4, h5, h6⟩ := ih es2 b2 hr
        refine ⟨e :: pre, post, e0, by simp [h1], ?_, h3, h4, by rw [← h.2]; exact h5, ?_⟩
        · intro x hx
          simp only [List.mem_cons] at hx
          rcases hx with hx | hx
          · rw [hx]; exact hk
          · exact h2 x hx
        · rw [← h.1, h6]; simp

/-! ## Store: one window per sender -/

def keys (es : List GEntry) : List (Nat × Nat) := es.map (fun e => (e.fab, e.node))

theorem lookupUpdate_none (clk fab node c : Nat) (es : List GEntry) :
    lookupUpdate clk fab node c es = none ↔ (fab, node) ∉ keys es := by
  induction es with
  | nil => simp [lookupUpdate, keys]
  | cons e es ih =>
    unfold lookupUpdate
    by_cases hk : e.fab = fab ∧ e.node = node
    · simp [hk, keys]
    · simp only [hk, ↓reduceIte]
      have hne : ¬ ((fab, node) = (e.fab, e.node)) := by
        intro h; apply hk; simp only [Prod.mk.injEq] at h; exact ⟨h.1.symm, h.2.symm⟩
      cases hr : lookupUpdate clk fab node c es with
      | none =>
        have := ih.1 hr
        simp only [keys, List.map_cons, List.mem_cons, not_or, true_iff]
        exact ⟨hne, this⟩
      | some p =>
        have : ¬ ((fab, node) ∉ keys es) := fun h => by rw [ih.2 h] at hr; simp at hr
        simp only [keys, List.map_cons, List.mem_cons, not_or, false_iff, not_and, reduceCtorEq]
        intro _; exact this

theorem lookupUpdate_keys (clk fab node c : Nat) :
    ∀ (es es' : List GEntry) (b : Bool), lookupUpdate clk fab node c es = some (es', b) →
      keys es' = keys es := by
  intro es es' b h
  obtain ⟨pre, post, e, h1, _, _, _, _, h6⟩ := lookupUpdate_spec clk fab node c es es' b h
  rw [h1, h6]; simp [keys]

theorem mem_set_imp {α : Type} (l : List α) (i : Nat) (x y : α) (h : y ∈ l.set i x) :
    y = x ∨ y ∈ l := by
  induction l generalizing i with
  | nil => simp at h
  | cons a l ih =>
    cases i with
    | zero => simp only [List.set_cons_zero, List.mem_cons] at h ⊢; rcases h with h | h <;> simp [h]
    | succ i =>
      simp only [List.set_cons_succ, List.mem_cons] at h ⊢
      rcases h with h | h
      · right; left; exact h
      · rcases ih i h with h | h
        · left; exact h
        · right; right; exact h

theorem nodup_set {α : Type} (l : List α) (i : Nat) (x : α) (h : l.Nodup) (hx : x ∉ l) :
    (l.set i x).Nodup := by
  induction l generalizing i with
  | nil => simp
  | cons a l ih =>
    simp only [List.nodup_cons, List.mem_cons, not_or] at h hx
    cases i with
    | zero => simp only [List.set_cons_zero, List.nodup_cons]; exact ⟨hx.2, h.2⟩
    | succ i =>
      simp only [List.set_cons_succ, List.nodup_cons]
      refine ⟨fun hm => ?_, ih i h.2 hx.2⟩
      rcases mem_set_imp l i x a hm with h1 | h1
      · exact hx.1 h1.symm
      · exact h.1 h1

/-- Every sender has at most one window in the store, after any history. -/
theorem store_keys_nodup (g : GStore) (fab node c : Nat) (h : (keys g.entries).Nodup) :
    (keys (g.postRecv fab node c).1.entries).Nodup := by
  simp only [GStore.postRecv]
  split
  · rename_i es b hr
    simp only
    rw [lookupUpdate_keys _ _ _ _ _ _ _ hr]; exact h
  · rename_i hr
    have hnot := (lookupUpdate_none _ _ _ _ _).1 hr
    split
    · simp only [keys, List.map_append, List.map_cons, List.map_nil]
      rw [List.nodup_append]
      refine ⟨h, by simp, ?_⟩
      intro a ha b hb
      simp only [List.mem_singleton] at hb
      subst hb
      intro heq; subst heq; exact hnot ha
    · simp only [keys, List.map_set]
      exact nodup_set _ _ _ h hnot

/-- Non-vacuity: the empty store has distinct keys. -/
example : (keys GStore.empty.entries).Nodup := by simp [keys, GStore.empty]

end C04
