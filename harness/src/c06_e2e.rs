//! End-to-end effect stream for C06 (modelled on rs-matter/tests/common/e2e.rs): the device is the
//! harness `Matter` whose access-control state the C05 ops configure; a second `Matter` is the
//! controller. Both are joined by zero-copy pipes with a pre-established session whose mode (CASE
//! with fabric / node id / CATs, or PASE with fabric index 0 = no fabric) is chosen per request. The
//! device runs the REAL `InteractionModel` + `Responder` over generated node metadata with an
//! instrumented handler that LOGS every read / write / invoke it receives and never refuses.
use core::net::{Ipv4Addr, SocketAddr, SocketAddrV4};
use core::num::NonZeroU8;
use core::pin::pin;
use core::task::{Context, Poll, RawWaker, RawWakerVTable, Waker};
use std::future::Future;
use std::sync::Mutex;

use embassy_futures::select::{select, select4, Either};
use embassy_sync::zerocopy_channel::{Channel, Receiver, Sender};
use embassy_time::{Duration, MockDriver};

use rs_matter::crypto::{test_only_crypto, Crypto};
use rs_matter::dm::clusters::net_comm::DummyNetworks;
use rs_matter::dm::devices::test::{TEST_DEV_ATT, TEST_DEV_COMM, TEST_DEV_DET};
use rs_matter::dm::{
    Async, AsyncHandler, Dataver, Handler, InvokeContext, InvokeReply, MatchContext, Metadata, Node, NonBlockingHandler,
    ReadContext, ReadReply, Reply, WriteContext,
};
use rs_matter::error::{Error, ErrorCode};
use rs_matter::im::events::EVENT_DATA_TAG;
use rs_matter::im::{
    AttrResp, CmdResp, EventPriority, EventResp, IMStatusCode, InteractionModel, InteractionModelState, InvokeResp, OpCode,
    ReportDataResp, StatusResp, WriteResp,
};
use rs_matter::persist::DummyKvBlobStore;
use rs_matter::respond::Responder;
use rs_matter::tlv::{FromTLV, TLVElement, TLVTag, TLVWrite};
use rs_matter::transport::exchange::{Exchange, MatterBuffers};
use rs_matter::transport::network::{
    Address, NetworkReceive, NetworkSend, NoNetwork, MAX_RX_PACKET_SIZE, MAX_TX_PACKET_SIZE,
};
use rs_matter::transport::session::{NocCatIds, ReservedSession, SessionMode};
use rs_matter::utils::select::Coalesce;
use rs_matter::utils::sync::blocking::raw::MatterRawMutex;
use rs_matter::{Matter, MATTER_PORT};

pub const DEVICE_ID: u64 = 123456;
pub const EVENTS_BUF: usize = 4096;
const ADDR: Address = Address::Udp(SocketAddr::V4(SocketAddrV4::new(Ipv4Addr::UNSPECIFIED, 0)));

/// what the instrumented handler sees and serves
pub struct Shared {
    pub node: Option<&'static Node<'static>>,
    pub log: Vec<String>,
}

pub static SHARED: Mutex<Shared> = Mutex::new(Shared { node: None, log: Vec::new() });

pub struct LogHandler {
    dataver: Dataver,
}

impl Handler for LogHandler {
    fn read(&self, ctx: impl ReadContext, reply: impl ReadReply) -> Result<(), Error> {
        let attr = ctx.attr();
        // list attributes hold one element; `list_index`: None = whole value, Some(null) = the empty
        // list that opens an item-by-item (chunked) encoding, Some(i) = element i
        let li = attr.list_index.clone().map(|li| li.into_option());
        let res = if let Some(mut writer) = reply.with_dataver(self.dataver.get())? {
            if attr.array {
                let tag = writer.tag();
                match li {
                    None => {
                        {
                            let mut tw = writer.writer();
                            tw.start_array(tag)?;
                            tw.u8(&TLVTag::Anonymous, 7)?;
                            tw.end_container()?;
                        }
                        writer.complete()
                    }
                    Some(None) => {
                        {
                            let mut tw = writer.writer();
                            tw.start_array(tag)?;
                            tw.end_container()?;
                        }
                        writer.complete()
                    }
                    Some(Some(0)) => writer.set(7u8),
                    Some(Some(_)) => Err(ErrorCode::ConstraintError.into()),
                }
            } else {
                writer.set(7u8)
            }
        } else {
            Ok(())
        };
        // an effect = data was produced for the attribute (a call that ran out of space in the
        // current chunk is repeated by the IM and produced nothing; list elements are not counted)
        if res.is_ok() && !matches!(li, Some(Some(_))) {
            SHARED.lock().unwrap().log.push(format!("R.{}.{}.{}", attr.endpoint_id, attr.cluster_id, attr.attr_id));
        }
        res
    }

    fn write(&self, ctx: impl WriteContext) -> Result<(), Error> {
        let attr = ctx.attr();
        SHARED.lock().unwrap().log.push(format!("W.{}.{}.{}", attr.endpoint_id, attr.cluster_id, attr.attr_id));
        Ok(())
    }

    fn invoke(&self, ctx: impl InvokeContext, _reply: impl InvokeReply) -> Result<(), Error> {
        let cmd = ctx.cmd();
        SHARED.lock().unwrap().log.push(format!("I.{}.{}.{}", cmd.endpoint_id, cmd.cluster_id, cmd.cmd_id));
        Ok(())
    }

    fn bump_dataver(&self, _ctx: impl MatchContext) {
        self.dataver.changed();
    }
}

impl NonBlockingHandler for LogHandler {}

pub struct LogModel(pub Async<LogHandler>);

impl Metadata for LogModel {
    fn access<F, R>(&self, f: F) -> R
    where
        F: FnOnce(&Node<'_>) -> R,
    {
        let node = SHARED.lock().unwrap().node.expect("node");
        f(node)
    }
}

impl AsyncHandler for LogModel {
    fn read_awaits(&self, _ctx: impl ReadContext) -> bool {
        false
    }
    fn write_awaits(&self, _ctx: impl WriteContext) -> bool {
        false
    }
    fn invoke_awaits(&self, _ctx: impl InvokeContext) -> bool {
        false
    }
    async fn read(&self, ctx: impl ReadContext, reply: impl ReadReply) -> Result<(), Error> {
        AsyncHandler::read(&self.0, ctx, reply).await
    }
    async fn write(&self, ctx: impl WriteContext) -> Result<(), Error> {
        AsyncHandler::write(&self.0, ctx).await
    }
    async fn invoke(&self, ctx: impl InvokeContext, reply: impl InvokeReply) -> Result<(), Error> {
        AsyncHandler::invoke(&self.0, ctx, reply).await
    }
    fn bump_dataver(&self, ctx: impl MatchContext) {
        AsyncHandler::bump_dataver(&self.0, ctx)
    }
}

/// the requester's session on the device
#[derive(Clone, Debug)]
pub enum Sess {
    Case { fab: u8, node_id: u64, cats: [u32; 3] },
    Pase { fab: u8 },
}

/// one request of the stream
pub struct Req {
    pub sess: Sess,
    /// `Some((timeout_ms, delay_ms))`: a TimedRequest precedes the action; the virtual clock is
    /// advanced by `delay_ms` between its StatusResponse and the action
    pub timed: Option<(u16, u64)>,
    pub opcode: OpCode,
    pub payload: Vec<u8>,
    /// events emitted on the device before the request: (endpoint, cluster, event, `FabricIndex` field)
    pub emit: Vec<(u16, u32, u32, FabF)>,
    /// follow-up chunks of a chunked Write action (the first message then carries MoreChunkedMessages):
    /// `(delay_ms, payload)` — the virtual clock is advanced by `delay_ms` after the answer to the
    /// previous chunk, then the chunk is sent on the same exchange
    pub more: Vec<(u64, Vec<u8>)>,
}

/// the `FabricIndex` field (context tag 254) put into an emitted event's payload
#[derive(Clone, Copy, Debug, PartialEq)]
pub enum FabF {
    /// no field: the event is not fabric-sensitive
    Absent,
    /// an 8-bit fabric index
    Idx(u8),
    /// the field is null
    Null,
    /// the field is a 16-bit integer (not readable as `u8`)
    Wide,
}

pub struct Answer {
    /// request-level outcome: `-`, `status:<name>`, `err:<code>`, `hang`, `timedfail:<..>`
    pub top: String,
    pub resp: Vec<String>,
    pub effects: Vec<String>,
    /// the answers to the follow-up chunks that were sent: (top, resp, effects)
    pub more: Vec<(String, Vec<String>, Vec<String>)>,
}

pub struct Env {
    pub client: Box<Matter<'static>>,
    pub buffers: Box<MatterBuffers>,
}

pub fn new_env() -> Env {
    let client = Box::new(Matter::new(&TEST_DEV_DET, TEST_DEV_COMM, &TEST_DEV_ATT, MATTER_PORT));
    client.with_state(|state| {
        state.fabrics.add_with_post_init(|_| Ok(())).unwrap();
    });
    Env { client, buffers: Box::new(MatterBuffers::new()) }
}

fn noop_waker() -> Waker {
    fn clone(_: *const ()) -> RawWaker {
        RawWaker::new(core::ptr::null(), &VTABLE)
    }
    fn noop(_: *const ()) {}
    static VTABLE: RawWakerVTable = RawWakerVTable::new(clone, noop, noop, noop);
    unsafe { Waker::from_raw(RawWaker::new(core::ptr::null(), &VTABLE)) }
}

/// poll a future at most `max` times (the mock time driver only moves when the stream says so)
fn run_bounded<F: Future>(f: F, max: u64) -> Option<F::Output> {
    let mut f = pin!(f);
    let w = noop_waker();
    let mut cx = Context::from_waker(&w);
    for _ in 0..max {
        if let Poll::Ready(v) = f.as_mut().poll(&mut cx) {
            return Some(v);
        }
    }
    None
}

fn set_session(matter: &Matter<'_>, crypto: impl Crypto, local: u64, peer: u64, mode: SessionMode) -> Result<(), Error> {
    matter.reset_transport()?;
    let mut session = ReservedSession::reserve_now(matter, crypto)?;
    session.update(local, peer, 1, 1, ADDR, mode, None, None, None, None)?;
    session.complete();
    Ok(())
}

fn status_name(s: IMStatusCode) -> String {
    format!("{:?}", s)
}

fn fmt_o<T: ToString>(o: Option<T>) -> String {
    o.map(|x| x.to_string()).unwrap_or_else(|| "*".into())
}

fn status_of(payload: &[u8]) -> String {
    match StatusResp::from_tlv(&TLVElement::new(payload)) {
        Ok(s) => format!("status:{}", status_name(s.status)),
        Err(_) => "status:?".into(),
    }
}

const ITEM_CAP: usize = 4000;

/// decode one response message; returns `more chunks follow`
fn render(opcode: u8, payload: &[u8], resp: &mut Vec<String>, top: &mut String) -> bool {
    let el = TLVElement::new(payload);
    if opcode == OpCode::ReportData as u8 {
        let Ok(r) = ReportDataResp::from_tlv(&el) else {
            *top = "undecodable".into();
            return false;
        };
        if let Some(reports) = &r.attr_reports {
            for a in reports.iter().take(ITEM_CAP) {
                match a {
                    // the elements of a list sent item by item (list index = null: append) belong to the
                    // attribute report that opened the list
                    Ok(AttrResp::Data(d)) if d.path.list_index.is_some() => {}
                    Ok(AttrResp::Data(d)) => resp.push(format!("ok {} {} {}", fmt_o(d.path.endpoint), fmt_o(d.path.cluster), fmt_o(d.path.attr))),
                    Ok(AttrResp::Status(s)) => resp.push(format!(
                        "st {}/{}/{} {}",
                        fmt_o(s.path.endpoint),
                        fmt_o(s.path.cluster),
                        fmt_o(s.path.attr),
                        status_name(s.status.status)
                    )),
                    Err(_) => {
                        resp.push("undecodable".into());
                        break;
                    }
                }
            }
        }
        if let Some(reports) = &r.event_reports {
            for e in reports.iter().take(ITEM_CAP) {
                match e {
                    Ok(EventResp::Data(d)) => resp.push(format!(
                        "ev {} {} {} n{}",
                        fmt_o(d.path.endpoint),
                        fmt_o(d.path.cluster),
                        fmt_o(d.path.event),
                        d.event_number
                    )),
                    Ok(EventResp::Status(s)) => resp.push(format!(
                        "st {}/{}/{} {}",
                        fmt_o(s.path.endpoint),
                        fmt_o(s.path.cluster),
                        fmt_o(s.path.event),
                        status_name(s.status.status)
                    )),
                    Err(_) => {
                        resp.push("undecodable".into());
                        break;
                    }
                }
            }
        }
        r.more_chunks.unwrap_or(false)
    } else if opcode == OpCode::WriteResponse as u8 {
        match WriteResp::from_tlv(&el) {
            Ok(r) => {
                for s in r.write_responses.iter().take(ITEM_CAP) {
                    match s {
                        Ok(s) if s.status.status == IMStatusCode::Success => {
                            resp.push(format!("ok {} {} {}", fmt_o(s.path.endpoint), fmt_o(s.path.cluster), fmt_o(s.path.attr)))
                        }
                        Ok(s) => resp.push(format!(
                            "st {}/{}/{} {}",
                            fmt_o(s.path.endpoint),
                            fmt_o(s.path.cluster),
                            fmt_o(s.path.attr),
                            status_name(s.status.status)
                        )),
                        Err(_) => {
                            resp.push("undecodable".into());
                            break;
                        }
                    }
                }
            }
            Err(_) => *top = "undecodable".into(),
        }
        false
    } else if opcode == OpCode::InvokeResponse as u8 {
        match InvokeResp::from_tlv(&el) {
            Ok(r) => {
                if let Some(rs) = &r.invoke_responses {
                    for c in rs.iter().take(ITEM_CAP) {
                        match c {
                            Ok(CmdResp::Status(s)) if s.status.status == IMStatusCode::Success => {
                                resp.push(format!("ok {} {} {}", fmt_o(s.path.endpoint), fmt_o(s.path.cluster), fmt_o(s.path.cmd)))
                            }
                            Ok(CmdResp::Status(s)) => resp.push(format!(
                                "st {}/{}/{} {}",
                                fmt_o(s.path.endpoint),
                                fmt_o(s.path.cluster),
                                fmt_o(s.path.cmd),
                                status_name(s.status.status)
                            )),
                            Ok(CmdResp::Cmd(d)) => resp.push(format!("ok {} {} {}", fmt_o(d.path.endpoint), fmt_o(d.path.cluster), fmt_o(d.path.cmd))),
                            Err(_) => {
                                resp.push("undecodable".into());
                                break;
                            }
                        }
                    }
                }
                r.more_chunks.unwrap_or(false)
            }
            Err(_) => {
                *top = "undecodable".into();
                false
            }
        }
    } else if opcode == OpCode::StatusResponse as u8 {
        *top = status_of(payload);
        false
    } else {
        *top = format!("opcode:{}", opcode);
        false
    }
}

/// answers of the messages sent so far: (top, resp, handler-log length after the answer)
type Answers = Vec<(String, Vec<String>, usize)>;

async fn client_side(client: &Matter<'_>, req: &Req, answers: &mut Answers) -> Result<(), Error> {
    let mut ex = Exchange::initiate(client, test_only_crypto(), NonZeroU8::new(1).unwrap(), DEVICE_ID).await?;
    let mut first_delay = 0u64;
    if let Some((timeout, delay)) = req.timed {
        first_delay = delay;
        ex.send_with(|_, wb| {
            wb.start_struct(&TLVTag::Anonymous)?;
            wb.u16(&TLVTag::Context(0), timeout)?;
            wb.u8(&TLVTag::Context(0xff), 13)?;
            wb.end_container()?;
            Ok(Some(OpCode::TimedRequest.into()))
        })
        .await?;
        ex.recv_fetch().await?;
        let ok = {
            let rx = ex.rx()?;
            rx.meta().proto_opcode == OpCode::StatusResponse as u8 && status_of(rx.payload()) == "status:Success"
        };
        if !ok {
            let rx = ex.rx()?;
            let top = format!("timedfail:{}", status_of(rx.payload()));
            ex.rx_done()?;
            let _ = ex.acknowledge().await;
            answers.push((top, Vec::new(), SHARED.lock().unwrap().log.len()));
            return Ok(());
        }
        ex.rx_done()?;
    }
    let opcode = req.opcode;
    let n_msgs = 1 + req.more.len();
    for k in 0..n_msgs {
        let (delay, bytes): (u64, &Vec<u8>) = if k == 0 { (first_delay, &req.payload) } else { (req.more[k - 1].0, &req.more[k - 1].1) };
        // the window: the device's clock moves on before the action (chunk) arrives
        MockDriver::get().advance(Duration::from_millis(delay));
        ex.send_with(|_, wb| {
            wb.append(bytes)?;
            Ok(Some(opcode.into()))
        })
        .await?;
        let mut top = String::from("-");
        let mut resp: Vec<String> = Vec::new();
        let mut chunks = 0;
        loop {
            ex.recv_fetch().await?;
            let more = {
                let rx = ex.rx()?;
                let rop = rx.meta().proto_opcode;
                render(rop, rx.payload(), &mut resp, &mut top)
            };
            ex.rx_done()?;
            chunks += 1;
            if more && chunks < 300 {
                ex.send_with(|_, wb| {
                    StatusResp::write(wb, IMStatusCode::Success)?;
                    Ok(Some(OpCode::StatusResponse.into()))
                })
                .await?;
            } else {
                break;
            }
        }
        let refused = top != "-";
        answers.push((top, resp, SHARED.lock().unwrap().log.len()));
        if refused {
            // a request-level status ends the action: the remaining chunks are not sent
            break;
        }
    }
    let _ = ex.acknowledge().await;
    Ok(())
}

const OP_POLLS: u64 = 400_000;

/// run one request against the real InteractionModel on `device`
pub fn run_request(device: &Matter<'_>, env: &Env, req: &Req) -> Answer {
    {
        let mut sh = SHARED.lock().unwrap();
        sh.log.clear();
    }
    let crypto = test_only_crypto();
    let (dev_mode, peer_id) = match &req.sess {
        Sess::Case { fab, node_id, cats } => match NonZeroU8::new(*fab) {
            Some(f) => (SessionMode::Case { fab_idx: f, cat_ids: *cats as NocCatIds }, *node_id),
            None => (SessionMode::Pase { fab_idx: 0 }, *node_id),
        },
        Sess::Pase { fab } => (SessionMode::Pase { fab_idx: *fab }, 1),
    };
    let mut answers: Answers = Vec::new();
    let setup = (|| -> Result<(), Error> {
        set_session(device, &crypto, DEVICE_ID, peer_id, dev_mode)?;
        set_session(
            &env.client,
            &crypto,
            peer_id,
            DEVICE_ID,
            SessionMode::Case { fab_idx: NonZeroU8::new(1).unwrap(), cat_ids: NocCatIds::default() },
        )?;
        Ok(())
    })();
    if let Err(e) = setup {
        return Answer { top: format!("setup:{:?}", e.code()), resp: Vec::new(), effects: Vec::new(), more: Vec::new() };
    }
    // fresh IM state per request: empty event queue, no subscriptions
    let state: Box<InteractionModelState<DummyNetworks, 3, EVENTS_BUF>> = Box::new(InteractionModelState::new(DummyNetworks));
    state.suppress_start_up_event();

    let mut buf1 = [heapless::Vec::new(); 1];
    let mut buf2 = [heapless::Vec::new(); 1];
    let mut pipe1 = Pipe::<MAX_RX_PACKET_SIZE>::new(&mut buf1);
    let mut pipe2 = Pipe::<MAX_TX_PACKET_SIZE>::new(&mut buf2);
    let (send_remote, recv_local) = pipe1.split();
    let (send_local, recv_remote) = pipe2.split();

    let kv = device.kv(DummyKvBlobStore);
    let handler = LogModel(Async(LogHandler { dataver: Dataver::new(7) }));
    let dm = InteractionModel::new(device, &crypto, &*env.buffers, handler, &kv, &*state);
    for (ep, cl, ev, fab) in &req.emit {
        let fab = *fab;
        let _ = state.events().push(*ep, *cl, *ev, EventPriority::Info, &kv, |mut tw| {
            tw.start_struct(&EVENT_DATA_TAG)?;
            match fab {
                FabF::Absent => {}
                FabF::Idx(f) => tw.u8(&TLVTag::Context(254), f)?,
                FabF::Null => tw.null(&TLVTag::Context(254))?,
                FabF::Wide => tw.u16(&TLVTag::Context(254), 0x0102)?,
            }
            tw.end_container()
        });
    }
    let responder = Responder::new_default(&dm);

    let outcome = run_bounded(
        async {
            let device_side = select4(
                env.client.run(&crypto, SendImpl(send_local), RecvImpl(recv_local), NoNetwork),
                device.run(&crypto, SendImpl(send_remote), RecvImpl(recv_remote), NoNetwork),
                responder.run::<4>(),
                dm.run(),
            )
            .coalesce();
            let client_fut = client_side(&env.client, req, &mut answers);
            match select(device_side, client_fut).await {
                Either::First(r) => Some(format!("devend:{:?}", r.map_err(|e| e.code()))),
                Either::Second(Ok(())) => None,
                Either::Second(Err(e)) => Some(format!("err:{:?}", e.code())),
            }
        },
        OP_POLLS,
    );
    let fail = match outcome {
        None => Some("hang".to_string()),
        Some(Some(why)) => Some(why),
        Some(None) => None,
    };
    let log = SHARED.lock().unwrap().log.clone();
    if let Some(why) = fail {
        // the message in flight got no answer: report the failure in its place
        answers.push((why, Vec::new(), log.len()));
    }
    let mut parts: Vec<(String, Vec<String>, Vec<String>)> = Vec::new();
    let mut from = 0usize;
    for (top, resp, upto) in answers {
        let upto = upto.min(log.len()).max(from);
        parts.push((top, resp, log[from..upto].to_vec()));
        from = upto;
    }
    if parts.is_empty() {
        parts.push(("hang".into(), Vec::new(), Vec::new()));
    }
    let (top, resp, effects) = parts.remove(0);
    Answer { top, resp, effects, more: parts }
}

type Pipe<'a, const N: usize> = Channel<'a, MatterRawMutex, heapless::Vec<u8, N>>;

struct RecvImpl<'a, const N: usize>(Receiver<'a, MatterRawMutex, heapless::Vec<u8, N>>);
struct SendImpl<'a, const N: usize>(Sender<'a, MatterRawMutex, heapless::Vec<u8, N>>);

impl<const N: usize> NetworkSend for SendImpl<'_, N> {
    async fn send_to(&mut self, data: &[u8], _addr: Address) -> Result<(), Error> {
        let vec = self.0.send().await;
        vec.clear();
        vec.extend_from_slice(data).unwrap();
        self.0.send_done();
        Ok(())
    }
}

impl<const N: usize> NetworkReceive for RecvImpl<'_, N> {
    async fn wait_available(&mut self) -> Result<(), Error> {
        self.0.receive().await;
        Ok(())
    }
    async fn recv_from(&mut self, buffer: &mut [u8]) -> Result<(usize, Address), Error> {
        let vec = self.0.receive().await;
        buffer[..vec.len()].copy_from_slice(vec);
        let len = vec.len();
        self.0.receive_done();
        Ok((len, ADDR))
    }
}
