import RsMatterVerif.Model.Codec.Buf
import RsMatterVerif.Model.Codec.DerRead
import RsMatterVerif.Model.Codec.CmsCd
import RsMatterVerif.Model.Codec.X509
import RsMatterVerif.Model.Codec.CdContent
import Driver.C17U
/-!
C17 driver, DER-based decoders (case kinds `der`, `dersig`, `cd`, `x509`, `csr`; harness: `c17_x509.rs`).

* `der`, `dersig`: the answers are recomputed with the model `Model/Codec/DerRead.lean` (`DIS` on a difference).
* `x509`, `csr`, `cd`: every parser answer is recomputed with `Model/Codec/X509.lean` (`X509Cert::new` for DAC / PAI /
  PAA with all accessors, `CsrRef::new` with key, signed range and raw signature), `Model/Codec/CmsCd.lean` and
  `Model/Codec/CdContent.lean` (`CertificationElements::decode` / `validate`); signature verification is symbolic
  (the `verify=` word is not recomputed).
* every kind: the oracle — no `panic`, no `timeout`; every byte field returned as a borrowed slice
  (`@off:len`) lies inside the input; a round trip (`rt` / `crt` / `gen` / `tlv`) returns the fields that
  were encoded (computed here from the op's fields, not from the model).
-/
namespace Driver.C17X509
open Codec Codec.DerRd Driver.C17U

/-! ### generic oracle helpers -/

def badWord (w : String) : Bool :=
  w = "panic" || w = "timeout" || w.endsWith ":panic" || w.endsWith ":timeout" || w = "Endless"

def crashed (out : String) : Bool := (words out).any badWord

/-- `@off:len` / `@e` / `@out:…` → `some (off, len)`; `none` = not a sub-slice of the input -/
def parseAt (s : String) : Option (Nat × Nat) :=
  if s = "e" then some (0, 0)
  else match s.splitOn ":" with
    | [a, b] => match a.toNat?, b.toNat? with
      | some x, some y => some (x, y)
      | _, _ => none
    | _ => none

/-- every `…@…` token of `seg` must denote a range inside an input of `n` bytes -/
def slicesInside (n : Nat) (seg : String) : Option String :=
  let toks := (words seg).flatMap (·.splitOn ",")
  toks.foldl (fun acc t =>
    match acc with
    | some e => some e
    | none =>
      match t.splitOn "@" with
      | [_, loc] =>
        match parseAt loc with
        | some (o, l) => if o + l ≤ n then none else some s!"returned slice {t} lies outside the {n}-byte input"
        | none => some s!"returned slice is not a sub-slice of the input: {t.take 60}"
      | _ => none) none

/-- bytes denoted by the value `name=@off:len` of a result segment -/
def field (seg : String) (name : String) : Option String :=
  (words seg).findSome? fun w => if w.startsWith (name ++ "=") then some ((w.drop (name.length + 1)).toString) else none

def sliceBytes (input : List Nat) (v : String) : Option (List Nat) :=
  if v.startsWith "@" then
    match parseAt (v.drop 1).toString with
    | some (o, l) => if o + l ≤ input.length then some ((input.drop o).take l) else none
    | none => none
  else none

def kvOf (ws : List String) : String → Option String := fun k =>
  ws.findSome? fun w => if w.startsWith (k ++ "=") then some ((w.drop (k.length + 1)).toString) else none

def optHex (v : Option String) : Option (List Nat) :=
  match v with
  | none => none
  | some "-" => none
  | some "e" => some []
  | some h => unhex h

def natOf (v : Option String) : Nat := (v.bind (·.toNat?)).getD 0

/-! ### `der`: the reading layer, recomputed with the model -/

def derErr (e : E) : String := if e = .panic then "panic" else s!"err {e.name}"

def atStr (off len : Nat) : String := if len = 0 then "@e" else s!"@{off}:{len}"

/-- the `while !is_finished { AnyRef::decode }` walk with positions (header and value read with the
model primitives); the model's own `items` is checked against it by `itemsAgree` -/
def itemsPos : Nat → Rdr → List String → Except (E × Nat) (List String × Rdr)
  | 0, _, acc => .error (.endless, acc.length)
  | fuel + 1, r, acc =>
    match r.isFinished with
    | .error e => .error (e, acc.length)
    | .ok true => .ok (acc.reverse, r)
    | .ok false =>
      match headerDecode r with
      | .error e => .error (e, acc.length)
      | .ok ((tag, len), r1) =>
        match r1.readSlice len with
        | .error e => .error (e, acc.length)
        | .ok (v, r2) => itemsPos fuel r2 (s!"{tag}{atStr r1.offset v.length}" :: acc)

def showItems (l : List String) : String := s!"ok {l.length} {if l.isEmpty then "-" else ",".intercalate l}"

def itemsAgree (input : List Nat) (strs : List String) (its : List (Nat × List Nat)) : Bool :=
  strs.length == its.length &&
  (strs.zip its).all fun (s, (tag, v)) =>
    match s.splitOn "@" with
    | [t, loc] => t = toString tag && (match parseAt loc with
        | some (o, l) => (input.drop o).take l == v && l == v.length
        | none => false)
    | _ => false

def stepDer (op : List String) (out : String) : String :=
  match op with
  | [what, h] =>
    match unhex h with
    | none => "BAD hex"
    | some bs =>
      let ora : Option String :=
        if crashed out then some "DER reading layer panicked or did not terminate"
        else slicesInside bs.length out
      let model : String :=
        match what with
        | "hdr" =>
          match Rdr.new bs >>= headerDecode with
          | .ok ((tag, len), r) => s!"ok {tag} {len} {r.position}"
          | .error e => derErr e
        | "any" =>
          match Rdr.new bs with
          | .error e => derErr e
          | .ok r =>
            match headerDecode r with
            | .error e => derErr e
            | .ok ((_, _), r1) =>
              match fromDerAny bs with
              | .ok (tag, v) => s!"ok {tag} {atStr r1.offset v.length}"
              | .error e => derErr e
        | "seq" =>
          match Rdr.new bs with
          | .error e => derErr e
          | .ok r =>
            match itemsPos (bs.length + 1) r [], seqItems bs with
            | .ok (l, _), .ok its => if itemsAgree bs l its then showItems l else "model-internal disagreement"
            | .error (e, n), .error (e', n') =>
              if e = e' ∧ n = n' then s!"{derErr e} after {n}" else "model-internal disagreement"
            | _, _ => "model-internal disagreement"
        | "nest" =>
          match sequenceItems bs with
          | .error e => derErr e
          | .ok its =>
            -- positions: re-walk inside the nested reader
            match Rdr.new bs >>= headerDecode with
            | .ok ((_, len), r1) =>
              match nestedNew r1 len with
              | .ok n =>
                match itemsPos (bs.length + 1) n [] with
                | .ok (l, _) => if itemsAgree bs l its then showItems l else "model-internal disagreement"
                | .error _ => "model-internal disagreement"
              | .error _ => "model-internal disagreement"
            | .error _ => "model-internal disagreement"
        | _ => "BAD op"
      if model.startsWith "BAD" then model else verdict model out ora
  | _ => "BAD op"

/-! ### `dersig`: `cert/der_utils.rs`, recomputed with the model -/

def showBytes (r : Except E (List Nat)) : String :=
  match r with
  | .ok l => s!"ok {hex l}"
  | .error e => derErr e

def beNat (l : List Nat) : Nat := l.foldl (fun a b => a * 256 + b) 0

/-- big-endian, exactly `n` bytes (specification of the raw signature halves) -/
def toBe (n v : Nat) : List Nat := (List.range n).map fun i => v / 256 ^ (n - 1 - i) % 256

def stepDersig (op : List String) (out : String) : String :=
  if crashed out then "ORA signature helper panicked or did not terminate" else
  match op with
  | ["sig", h] =>
    match unhex h with
    | none => "BAD hex"
    | some bs => verdict (showBytes (ecdsaDerToRaw bs)) out none
  | ["cpy", n, h] =>
    match unhex h, n.toNat? with
    | some bs, some n => verdict (showBytes (copyIntegerToFixed (min n 256) bs)) out none
    | _, _ => "BAD args"
  | ["rt", rh, sh] =>
    match unhex rh, unhex sh with
    | some r, some s =>
      let der := encSig (r.dropWhile (· == 0)) (s.dropWhile (· == 0))
      let model := s!"{hex der} {showBytes (ecdsaDerToRaw der)}"
      let ora : Option String :=
        if beNat r < 2 ^ 256 ∧ beNat s < 2 ^ 256 then
          let want := s!"ok {hex (toBe 32 (beNat r) ++ toBe 32 (beNat s))}"
          if (splitFirst out).2 = want then none else some s!"signature round trip: want [{want}] got [{(splitFirst out).2}]"
        else none
      verdict model out ora
    | _, _ => "BAD hex"
  | _ => "BAD op"

/-! ### `cd`: CMS envelope, TLV content and validation recomputed with the models; oracle -/

def toU8 (l : List Nat) : Tlv.Bytes := l.map UInt8.ofNat
def hexU8 (b : Tlv.Bytes) : String := hex (b.map (·.toNat))

/-- the harness' text form of `CertificationElements` -/
def cdShow (r : Except Cd.CdErr Cd.Elements) : String :=
  match r with
  | .error e => if (match e with | .panic _ => true | _ => false) then "panic" else s!"err {e.name}"
  | .ok c =>
    let pids := if c.productIds.isEmpty then "-" else ",".intercalate (c.productIds.map toString)
    let dac := match c.dacOrigin with | some (v, p) => s!"{v},{p}" | none => "-"
    let paa := if c.authorizedPaa.isEmpty then "-" else ",".intercalate (c.authorizedPaa.map hexU8)
    s!"ok fv={c.formatVersion} vid={c.vendorId} pids={pids} n={c.productIds.length} dt={c.deviceTypeId} cid={hexU8 c.certificateId} sl={c.securityLevel} si={c.securityInformation} vn={c.versionNumber} ct={c.certificationType} dac={dac} paa={paa} m={c.authorizedPaa.length}"

/-- `cval`: decode, then validate against the device identity of the op -/
def cvalModel (content : List Nat) (f : List Nat) (skid : List Nat) : String :=
  match Cd.decode (toU8 content), f with
  | .error e, _ => s!"nodecode {cdShow (.error e)}"
  | .ok c, [vid, pid, dvid, dpid, pvid, ppid] =>
    let u16 := fun (x : Nat) => x % 65536
    let sk := (skid.take 20) ++ List.replicate (20 - (skid.take 20).length) 0
    let d : Cd.DeviceInfo := { vendorId := u16 vid, productId := u16 pid, dacVendorId := u16 dvid, dacProductId := u16 dpid,
                               paiVendorId := u16 pvid, paiProductId := u16 ppid, paaSkid := toU8 sk }
    match Cd.validate c d with
    | .ok _ => "ok"
    | .error e => cdShow (.error e)
  | .ok _, _ => "BAD"

def TEST_KID : String := "62fa823359acfaa9963e1cfa140addf504f37160"

/-- the canonical text the harness prints for decoded certification elements, from the op's fields -/
def cdWant (kv : String → Option String) : Option String :=
  let pids := (kv "pids").getD "-"
  let npid := if pids = "-" then 0 else (pids.splitOn ",").length
  let paa := (kv "paa").getD "-"
  let paaL : List String := if paa = "-" ∨ paa = "e" then [] else paa.splitOn ","
  let cid := (optHex (kv "cid")).getD []
  let legal := natOf (kv "fv") = 1 ∧ 1 ≤ npid ∧ npid ≤ 100 ∧ cid.length = 19 ∧ cid.all (fun c => 32 ≤ c ∧ c < 127) ∧
    natOf (kv "ct") ≤ 2 ∧ paaL.length ≤ 10 ∧ paaL.all (fun p => p.length = 40) ∧
    (pids.splitOn ",").all (fun p => (p.toNat?.getD 65536) < 65536) ∧
    natOf (kv "vid") < 65536 ∧ natOf (kv "dt") < 4294967296 ∧ natOf (kv "sl") < 256 ∧ natOf (kv "si") < 65536 ∧
    natOf (kv "vn") < 65536 ∧
    (match kv "dac" with
      | some "-" | none => true
      | some d => match (d.splitOn ",").map (·.toNat?) with
        | [some a, some b] => decide (a < 65536 ∧ b < 65536)
        | _ => false) = true
  if legal then
    some s!"ok fv=1 vid={natOf (kv "vid")} pids={pids} n={npid} dt={natOf (kv "dt")} cid={hex cid} sl={natOf (kv "sl")} si={natOf (kv "si")} vn={natOf (kv "vn")} ct={natOf (kv "ct")} dac={(kv "dac").getD "-"} paa={if paaL.isEmpty then "-" else ",".intercalate paaL} m={paaL.length}"
  else none

/-- consistency of a decoded certification declaration with what `decode` promises -/
def cdSane (seg : String) : Option String :=
  if !(seg.startsWith "ok ") then none else
  let n := natOf (field seg "n")
  let m := natOf (field seg "m")
  if field seg "fv" ≠ some "1" then some "decoded CD with format_version ≠ 1"
  else if n = 0 ∨ n > 100 then some s!"decoded CD with {n} product ids"
  else if m > 10 then some s!"decoded CD with {m} authorized PAA entries"
  else if natOf (field seg "ct") > 2 then some "decoded CD with an undefined certification type"
  else none

/-- Matter specification, CD validation against the device identity (rules quoted in `validate`'s doc) -/
def cvalSpec (f : List Nat) (skid : String) (kv : String → Option String) : Option Bool :=
  match f with
  | [vid, pid, dvid, dpid, pvid, ppid] =>
    let pids := (((kv "pids").getD "-").splitOn ",").filterMap (·.toNat?)
    let paa := (kv "paa").getD "-"
    let paaL : List String := if paa = "-" ∨ paa = "e" then [] else paa.splitOn ","
    let cdVid := natOf (kv "vid")
    let base := vid = cdVid ∧ pids.contains pid
    let chain : Bool := match kv "dac" with
      | some "-" | none => decide (dvid = cdVid ∧ pvid = cdVid ∧ pids.contains dpid ∧ (ppid = 0 ∨ pids.contains ppid))
      | some d => match (d.splitOn ",").map (·.toNat?) with
        | [some ov, some op] => decide (dvid = ov ∧ pvid = ov ∧ dpid = op ∧ (ppid = 0 ∨ ppid = op))
        | _ => false
    let paaOk := paaL.isEmpty ∨ paaL.contains skid
    some (decide (base ∧ chain = true ∧ paaOk))
  | _ => none

/-- `CmsSignedData::parse` recomputed with the model (`Model/Codec/CmsCd.lean`) -/
def cmsShow (r : Except E Cms) : String :=
  match r with
  | .ok c => s!"ok kid={atStr c.kidOff c.kid.length} cd={atStr c.cdOff c.cd.length} sig={hex c.sig}"
  | .error e => derErr e

def stepCd (op : List String) (out : String) : String :=
  if crashed out then "ORA certification-declaration decoder panicked or did not terminate" else
  match op with
  | ["cms", h] =>
    match unhex h with
    | none => "BAD hex"
    | some bs => verdict (cmsShow (cmsParse bs)) out (slicesInside bs.length out)
  | ["cdec", h] =>
    match unhex h with
    | none => "BAD hex"
    | some bs => verdict (cdShow (Cd.decode (toU8 bs))) out (cdSane out)
  | ["cver", _, h] =>
    match cdSane out, unhex h with
    | some e, _ => s!"ORA {e}"
    | none, none => "BAD hex"
    | none, some bs =>
      -- the envelope part is recomputed; key lookup and signature verification are not modelled
      match cmsParse bs with
      | .error e => verdict (derErr e) out none
      | .ok c =>
        if out.startsWith "ok " then verdict (cdShow (Cd.decode (toU8 c.cd))) out none
        else if out = "err CdInvalidFormat" ∨ out = "err Invalid" then s!"DIS envelope accepted by the model, refused: {out}"
        else "ok"
  | "crt" :: kvs =>
    let kv := kvOf kvs
    match out.splitOn " | " with
    | [a, b] =>
      let (msgH, cmsRes) := splitFirst a
      let (cH, decRes) := splitFirst b
      match unhex msgH, unhex cH with
      | some msg, some content =>
        match slicesInside msg.length cmsRes, cdSane decRes with
        | some e, _ => s!"ORA {e}"
        | _, some e => s!"ORA {e}"
        | none, none =>
          if cmsShow (cmsParse msg) ≠ cmsRes then s!"DIS {cmsShow (cmsParse msg)}" else
          if cdShow (Cd.decode (toU8 content)) ≠ decRes then s!"DIS {cdShow (Cd.decode (toU8 content))}" else
          -- TLV content round trip
          let o1 : Option String := match cdWant kv with
            | some want => if decRes = want then none else some s!"CD round trip: want [{want}] got [{decRes}]"
            | none => none
          -- CMS envelope round trip
          let kid := (optHex (kv "kid")).getD []
          let r := (optHex (kv "r")).getD []
          let s := (optHex (kv "s")).getD []
          let o2 : Option String :=
            if kid.length = 20 ∧ beNat r < 2 ^ 256 ∧ beNat s < 2 ^ 256 then
              match field cmsRes "kid", field cmsRes "cd", field cmsRes "sig" with
              | some k, some c, some sg =>
                if sliceBytes msg k ≠ some kid then some "CMS round trip: signer key id differs"
                else if (sliceBytes msg c).getD [] ≠ content ∧ !(content.isEmpty) then some "CMS round trip: CD content differs"
                else if sg ≠ hex (toBe 32 (beNat r) ++ toBe 32 (beNat s)) then some "CMS round trip: signature differs"
                else none
              | _, _, _ => some s!"CMS round trip of a well-formed envelope failed: {cmsRes.take 80}"
            else none
          match o1, o2 with
          | some e, _ => s!"ORA {e}"
          | _, some e => s!"ORA {e}"
          | _, _ => "ok"
      | _, _ => "BAD crt output"
    | _ => if out.startsWith "err " then "ok" else "BAD crt output"
  | "cval" :: a :: b :: c :: d :: e :: f :: skid :: kvs =>
    let kv := kvOf kvs
    match nats [a, b, c, d, e, f] with
    | none => "BAD nums"
    | some fs =>
      if out.startsWith "err " then "ok" else     -- the TLV writer refused the fields
      let (contentH, res) := splitFirst out
      match unhex contentH, unhex skid with
      | some content, some sk =>
        let ora : Option String :=
          if res.startsWith "nodecode" then
            (if (cdWant kv).isSome then some s!"legal CD fields were not decoded: {res}" else none)
          else if (cdWant kv).isNone then none
          else match cvalSpec fs skid kv with
            | some want =>
              if want = (res = "ok") then none
              else some s!"CD validation: specification says {if want then "valid" else "invalid"}, implementation answered {res}"
            | none => none
        verdict s!"{contentH} {cvalModel content fs sk}" out ora
      | _, _ => "BAD cval output"
  | _ => "BAD op"

/-! ### `x509`: every parser answer recomputed with the model; oracle -/

/-- `is_valid_at` bits for the probes `[0, u64::MAX, nb, na, nb-1, na+1]` -/
def validWant (nb na : Nat) : String :=
  let probes := [0, U64_MAX, nb, na, nb - 1, min (na + 1) U64_MAX]
  String.ofList (probes.map fun t => if nb ≤ t ∧ t ≤ na then '1' else '0')

/-- checks on one `ok …` parser result for the input `der` -/
def certSane (der : List Nat) (seg : String) : Option String :=
  if !(seg.startsWith "ok ") then none else
  match slicesInside der.length seg with
  | some e => some e
  | none =>
    match (field seg "nb").bind (·.toNat?), (field seg "na").bind (·.toNat?), field seg "valid" with
    | some nb, some na, some v =>
      if v = validWant nb na then none else some s!"is_valid_at inconsistent with not_before/not_after: {v} for {nb}..{na}"
    | _, _, _ => none

def kindOf (ty : String) : CertKind := if ty = "dac" then .dac else if ty = "pai" then .pai else .paa

def slAt (p : List Nat × Nat) : String := atStr p.2 p.1.length

/-- the harness' text form of a parsed certificate: accessors, validity probes -/
def certShow (r : Except E Cert) : String :=
  match r with
  | .error e => derErr e
  | .ok c =>
    let nb := timeToUnixSecs c.notBefore
    let na := timeToUnixSecs c.notAfter
    let akid := match c.akid with | some a => slAt a | none => "-"
    s!"ok skid={slAt c.skid} akid={akid} pk={slAt c.pk} vid={optS c.vid} pid={optS c.pid} nb={nb} na={na} valid={validWant nb na}"

def modelSeg (ty : String) (der : List Nat) : String := certShow (x509New (kindOf ty) der)

def modelAll (der : List Nat) : String :=
  " | ".intercalate (["dac", "pai", "paa"].map fun t => s!"{t}:{modelSeg t der}")

/-- `DIS` when the model's text differs (after the oracle verdict `v` said ok) -/
def thenModel (v : String) (model out : String) : String :=
  if v ≠ "ok" then v else if model = out then "ok" else s!"DIS {model}"

def isHex4 (s : String) : Bool := s.length == 4 && s.toList.all fun c => c.isDigit || ('a' ≤ c && c ≤ 'f') || ('A' ≤ c && c ≤ 'F')

def hex4Val (s : String) : Nat :=
  s.toList.foldl (fun a c =>
    16 * a + (if c.isDigit then c.toNat - 48 else if 'a' ≤ c ∧ c ≤ 'f' then c.toNat - 87 else c.toNat - 55)) 0

/-- Matter specification 6.2.2.3 – 6.2.2.5 (DAC / PAI / PAA profile) on the op's fields: `some want` when
the certificate built from the fields is a legal one of its type; `want` = the expected accessor output
(without the positions) -/
def certLegal (ty : String) (kv : String → Option String) : Bool :=
  let g := fun k => (kv k).getD "-"
  let present := fun k => g k ≠ "-"
  let okVid := fun k => !(present k) || isHex4 (g k)
  let ku := g "ku"
  -- structural variants (`x=`) and raw time elements are compared with the model only
  let common := !(present "x") ∧ !(present "nbraw") ∧ !(present "naraw") ∧
    g "bcc" = "1" ∧ g "kuc" = "1" ∧ g "unk" ≠ "2" ∧ present "skid" ∧
    okVid "ivid" ∧ okVid "ipid" ∧ okVid "svid" ∧ okVid "spid" ∧
    ((optHex (kv "pk")).getD []).length = 65 ∧ ((optHex (kv "pk")).getD []).head? = some 4 ∧
    natOf (kv "nb") ≤ 253402300799 ∧ (g "na" = "inf" ∨ natOf (kv "na") ≤ 253402300799) ∧
    ((optHex (kv "ser")).getD []).length ≥ 1
  let sameVid := fun a b => hex4Val (g a) = hex4Val (g b)
  match ty with
  | "dac" => common ∧ g "ca" = "0" ∧ !(present "pl") ∧ ku = "8000" ∧ present "akid" ∧
      present "ivid" ∧ present "svid" ∧ present "spid" ∧ sameVid "ivid" "svid" ∧
      (!(present "ipid") ∨ sameVid "ipid" "spid")
  | "pai" => common ∧ g "ca" = "1" ∧ g "pl" = "0" ∧ (ku = "0600" ∨ ku = "8600") ∧ present "akid" ∧
      present "svid" ∧ (!(present "ivid") ∨ sameVid "ivid" "svid")
  | "paa" => common ∧ g "ca" = "1" ∧ (g "pl" = "-" ∨ g "pl" = "1") ∧ (ku = "0600" ∨ ku = "8600") ∧
      !(present "ipid") ∧ !(present "spid") ∧ g "ivid" = g "svid" ∧ g "icn" = g "scn"
  | _ => false

def certRoundTrip (der : List Nat) (seg : String) (kv : String → Option String) : Option String :=
  let g := fun k => (kv k).getD "-"
  if !(seg.startsWith "ok ") then some s!"legal certificate refused: {seg}" else
  let chk := fun (name key : String) =>
    match optHex (kv key), field seg name with
    | some want, some v => if sliceBytes der v = some want ∨ (want.isEmpty ∧ v = "@e") then none else some s!"{name} differs"
    | none, some v => if v = "-" then none else some s!"{name} returned although absent"
    | _, none => some s!"{name} missing"
  let num := fun (name key : String) =>
    match field seg name with
    | some v => if g key = "-" then (if v = "-" then none else some s!"{name} returned although absent")
        else if v = toString (hex4Val (g key)) then none else some s!"{name}: want {hex4Val (g key)} got {v}"
    | none => some s!"{name} missing"
  -- 9999-12-31T23:59:59Z is the "no well-defined expiration" time of RFC 5280 4.1.2.5: reported as u64::MAX
  let inf := fun (t : Nat) => if t = 253402300799 then U64_MAX else t
  let nbW := toString (inf (natOf (kv "nb")))
  let naW := if g "na" = "inf" then toString U64_MAX else toString (inf (natOf (kv "na")))
  [chk "skid" "skid", chk "akid" "akid", chk "pk" "pk", num "vid" "svid", num "pid" "spid",
   (if field seg "nb" = some nbW then none else some s!"not_before: want {nbW} got {(field seg "nb").getD "?"}"),
   (if field seg "na" = some naW then none else some s!"not_after: want {naW} got {(field seg "na").getD "?"}")].findSome? id

def segOf (out : String) (ty : String) : Option String :=
  (out.splitOn " | ").findSome? fun s =>
    let s := s.trimAscii.toString
    if s.startsWith (ty ++ ":") then some (s.drop (ty.length + 1)).toString else none

/-- the three `dac:… | pai:… | paa:…` segments of an `all`-style output for `der` -/
def allSane (der : List Nat) (out : String) : Option String :=
  ["dac", "pai", "paa"].findSome? fun ty => (segOf out ty).bind (certSane der)

def MATTER_EPOCH : Nat := 946684800

def stepX509 (op : List String) (out : String) : String :=
  if crashed out then "ORA X.509 parser panicked or did not terminate" else
  match op with
  | [ty, h] =>
    if ty = "tlv" then
      -- `<tlv key> <der> dac:… | pai:… | paa:…` (or an error of the converter)
      match words out with
      | key :: derH :: _ =>
        match unhex derH with
        | none => "ok"   -- converter error
        | some der =>
          let rest := ((out.drop (key.length + 1 + derH.length + 1)).toString)
          match allSane der rest with
          | some e => s!"ORA {e}"
          | none =>
            let bad := ["dac", "pai", "paa"].findSome? fun t =>
              match segOf rest t with
              | some seg =>
                if seg.startsWith "ok " then
                  match field seg "pk" with
                  | some v => if some ((sliceBytes der v).getD []) = unhex key then none else some s!"{t}: public key differs from the TLV certificate's"
                  | none => some "no public key"
                else none
              | none => none
            thenModel (match bad with | some e => s!"ORA {e}" | none => "ok") s!"{key} {derH} {modelAll der}" out
      | _ => "ok"
    else
      match unhex h with
      | none => "BAD hex"
      | some der =>
        if ty = "all" then thenModel (match allSane der out with | some e => s!"ORA {e}" | none => "ok") (modelAll der) out
        else thenModel (match certSane der out with | some e => s!"ORA {e}" | none => "ok") (modelSeg ty der) out
  | "rt" :: ty :: kvs =>
    let kv := kvOf kvs
    let (derH, seg) := splitFirst out
    match unhex derH with
    | none => "BAD rt output"
    | some der =>
      thenModel (match certSane der seg with
      | some e => s!"ORA {e}"
      | none =>
        if certLegal ty kv then
          match certRoundTrip der seg kv with
          | some e => s!"ORA certificate round trip ({ty}): {e}"
          | none => "ok"
        else "ok") s!"{derH} {modelSeg ty der}" out
  | "gen" :: _ :: kvs =>
    let kv := kvOf kvs
    match words out with
    | skidH :: _tlv :: keyH :: derH :: _ =>
      match unhex derH, unhex skidH, unhex keyH with
      | some der, some skid, some key =>
        let rest := (out.splitOn derH).getLast!
        match allSane der rest with
        | some e => s!"ORA {e}"
        | none =>
          match segOf rest "paa" with
          | some seg =>
            if seg.startsWith "ok " then
              let nbW := toString (MATTER_EPOCH + natOf (kv "nb"))
              let naW := if natOf (kv "na") = 0 then toString U64_MAX else toString (MATTER_EPOCH + natOf (kv "na"))
              if (field seg "pk").bind (sliceBytes der) ≠ some key then "ORA generated certificate: public key differs"
              else if (field seg "skid").bind (sliceBytes der) ≠ some skid then "ORA generated certificate: subject key id differs"
              else if field seg "nb" ≠ some nbW then s!"ORA generated certificate: not_before want {nbW}"
              else if field seg "na" ≠ some naW then s!"ORA generated certificate: not_after want {naW}"
              else thenModel "ok" (modelAll der) (rest.trimAscii.toString)
            else thenModel "ok" (modelAll der) (rest.trimAscii.toString)
          | none => "BAD gen output"
      | _, _, _ => "ok"
    | _ => "ok"
  | _ => "BAD op"

/-! ### `csr`: structure, key, signed range and raw signature recomputed with the model; `verify=` is symbolic -/

/-- everything the harness prints before ` verify=…` -/
def csrShow (r : Except E Csr) : String :=
  match r with
  | .error e => derErr e
  | .ok c =>
    let sig := match c.sig with | .ok s => hex s | .error e => "!" ++ e.name
    s!"ok pk={slAt c.pk} tbs={atStr c.tbsStart (c.tbsEnd - c.tbsStart)} sig={sig}"

/-- compare the parser part of `seg` with the model; a CSR whose signature cannot be converted is never verified -/
def csrVerdict (der : List Nat) (seg : String) : String :=
  let m := csrNew der
  let got := ((seg.splitOn " verify=").head!)
  if csrShow m ≠ got then s!"DIS {csrShow m}"
  else match m with
    | .ok c => (match c.sig with
        | .error _ => if field seg "verify" = some "ok" then "ORA CSR verified although its signature is not a DER ECDSA signature" else "ok"
        | .ok _ => "ok")
    | .error _ => "ok"

def stepCsr (op : List String) (out : String) : String :=
  if crashed out then "ORA CSR parser panicked or did not terminate" else
  match op with
  | ["csr", h] =>
    match unhex h with
    | none => "BAD hex"
    | some bs => match slicesInside bs.length out with | some e => s!"ORA {e}" | none => csrVerdict bs out
  | ["rt", _] =>
    match words out with
    | pkH :: derH :: "ok" :: rest =>
      match unhex pkH, unhex derH with
      | some pk, some der =>
        let seg := " ".intercalate rest
        match slicesInside der.length seg with
        | some e => s!"ORA {e}"
        | none =>
          if (field seg "pk").bind (sliceBytes der) ≠ some pk then "ORA CSR round trip: public key differs"
          else if field seg "verify" ≠ some "ok" then s!"ORA CSR round trip: self-signature not verified ({seg})"
          else if (field seg "tbs").bind (sliceBytes der) = none then "ORA CSR round trip: no signed range"
          else csrVerdict der ("ok " ++ seg)
      | _, _ => "BAD rt output"
    | _ => s!"ORA CSR built by the real encoder was refused: {out.take 80}"
  | _ => "BAD op"

def step (kind : String) (op : List String) (out : String) : Option String :=
  match kind with
  | "der" => some (stepDer op out)
  | "dersig" => some (stepDersig op out)
  | "cd" => some (stepCd op out)
  | "x509" => some (stepX509 op out)
  | "csr" => some (stepCsr op out)
  | _ => none

end Driver.C17X509
