import Driver.Util
/-! Driver for C20: not built yet. -/
namespace Driver.C20

def run : IO UInt32 := do
  IO.eprintln "C20: driver not built yet"
  return 2

end Driver.C20
