import RsMatterVerif.Lemmas.Acl
/-! # C05 — access is granted exactly when the Matter access-control algorithm grants it -/
namespace C05
open Acl

end C05
