import RsMatterVerif.Model.BtpLink
/-!
# Lemmas about `Model/Btp.lean`: the representation invariant of a BTP session and the
totality (never-panic) lemmas of its operations.
-/
namespace Btp

@[simp] theorem maxMessageSize_eq : maxMessageSize = 3166 := rfl
@[simp] theorem minMtu_eq : minMtu = 23 := rfl
@[simp] theorem maxMtu_eq : maxMtu = 247 := rfl
@[simp] theorem gattHeaderSize_eq : gattHeaderSize = 3 := rfl
@[simp] theorem ackTimeoutSecs_eq : ackTimeoutSecs = 15 := rfl
@[simp] theorem maxTxPacketSize_eq : maxTxPacketSize = 1232 := rfl

theorem clamp_bounds (x lo hi : Nat) (h : lo ≤ hi) : lo ≤ clamp x lo hi ∧ clamp x lo hi ≤ hi := by
  unfold clamp; split
  · omega
  · split <;> omega

theorem initialWindowSize_ok {mtu : Nat} (h : 20 ≤ mtu) :
    ∃ w, initialWindowSize mtu = .ok w ∧ w ≤ 255 ∧ (mtu ≤ 244 → 6 ≤ w) := by
  refine ⟨min (maxMessageSize / mtu / 2) 255, ?_, by omega, ?_⟩
  · unfold initialWindowSize; simp; omega
  · intro h2
    have : 6 ≤ 3166 / mtu / 2 := by
      have : 12 ≤ 3166 / mtu := by
        rw [Nat.le_div_iff_mul_le (by omega)]; omega
      omega
    simp; omega

/-- a decoded header carries bytes -/
structure Hdr.Wf (h : Hdr) : Prop where
  seq : h.seqNum < 256
  ack : h.ackNum < 256
  len : h.msgLen < 65536

/-- Representation invariant of a session (numeric part). -/
structure SInv (s : Session) : Prop where
  sendWs : s.send.windowSize = s.windowSize
  sendLe : s.send.level ≤ s.windowSize
  recvSum : s.recv.level + s.recv.ackLevel = s.windowSize
  msgLe : s.recv.msgCt ≤ s.recv.ackLevel
  wsLe : s.windowSize ≤ 255
  lastLt : s.send.lastSent < 256
  ackSeqLt : s.recv.ackSeq < 256
  remLt : s.recv.remMsgLen < 65536
  bufLe : s.recv.buf.length ≤ maxMessageSize
  est : s.established = true → 20 ≤ s.mtu ∧ s.mtu ≤ 244 ∧ 1 ≤ s.windowSize
  notEst : s.established = false → s.windowSize = 0
  hsPend : s.handshakePending = true → s.initiator = false →
    s.established = true ∧ s.send.level = s.windowSize

theorem sinv_fresh (i r : Bool) : SInv (Session.fresh i r) := by
  constructor <;> simp [Session.fresh]

theorem setup_sinv (s : Session) (v mtu ws : Nat) (hm : 20 ≤ mtu ∧ mtu ≤ 244) (hw : 1 ≤ ws ∧ ws ≤ 255) :
    SInv (s.setup v mtu ws) := by
  constructor <;> simp [Session.setup] <;> try omega
  · split <;> omega


/-- the outcome of an operation: either a new state satisfying `P`, or a clean error -/
def Clean {α : Type} (r : Except Fail α) (P : α → Prop) : Prop :=
  match r with
  | .ok a => P a
  | .error e => e.isPanic = false

theorem selectMtu_bounds (s : Session) (g : Option Nat) (m : Nat) :
    23 ≤ s.selectMtu g m ∧ s.selectMtu g m ≤ 247 := by
  have c := fun x => clamp_bounds x 23 247 (by omega)
  unfold Session.selectMtu
  simp only [minMtu_eq, maxMtu_eq]
  repeat' split
  all_goals first | exact c _ | omega

theorem csub_ok {a b : Nat} {why : String} (h : b ≤ a) : csub a b why = .ok (a - b) := by
  simp [csub, h]

theorem decodeReq_err {p : List Nat} {e : Fail} (h : decodeReq p = .error e) : e.isPanic = false := by
  unfold decodeReq at h
  split at h <;> simp at h
  subst h; rfl

theorem decodeResp_err {p : List Nat} {e : Fail} (h : decodeResp p = .error e) : e.isPanic = false := by
  unfold decodeResp at h
  split at h <;> simp at h
  subst h; rfl

theorem handshakeReq_clean (s : Session) (g : Option Nat) (h : Hdr) (p : List Nat) :
    Clean (s.processRxHandshakeReq g h p) SInv := by
  unfold Session.processRxHandshakeReq
  split
  · simp [Clean, Fail.isPanic]
  · cases hd : decodeReq p with
    | error e => exact decodeReq_err hd
    | ok req =>
      simp only
      have hb := selectMtu_bounds s g req.mtu
      rw [csub_ok (by simp; omega)]
      simp only [gattHeaderSize_eq]
      obtain ⟨w, hw, hw255, hw6⟩ := initialWindowSize_ok (mtu := s.selectMtu g req.mtu - 3) (by omega)
      rw [hw]
      simp only
      split
      · simp [Clean, Fail.isPanic]
      · simp only [Clean]
        apply setup_sinv <;> omega

theorem handshakeResp_clean (s : Session) (h : Hdr) (p : List Nat) (hp : ∀ b ∈ p, b < 256) :
    Clean (s.processRxHandshakeResp h p) SInv := by
  unfold Session.processRxHandshakeResp
  split
  · simp [Clean, Fail.isPanic]
  · cases hd : decodeResp p with
    | error e => exact decodeResp_err hd
    | ok resp =>
      simp only
      split
      · simp [Clean, Fail.isPanic]
      · rename_i hc
        simp only [Clean]
        simp at hc
        have h1 : ¬ resp.mtu < 20 := of_decide_eq_false hc.1.1
        have : resp.windowSize < 256 := by
          unfold decodeResp at hd
          split at hd <;> simp at hd
          subst hd
          simp
          apply hp; simp
        apply setup_sinv <;> omega


theorem ringPush_length_le (b d : List Nat) : (ringPush b d).length ≤ 3166 := by
  unfold ringPush; simp; omega

theorem ringPush_eq (b d : List Nat) (h : b.length + d.length ≤ 3166) : ringPush b d = b ++ d := by
  have : (b ++ d).length - maxMessageSize = 0 := by simp; omega
  show List.drop ((b ++ d).length - maxMessageSize) (b ++ d) = b ++ d
  rw [this]; rfl

/-- numeric invariant of the receive window for the negotiated window `w` -/
structure RInv (w : Nat) (r : RecvWindow) : Prop where
  sum : r.level + r.ackLevel = w
  msgLe : r.msgCt ≤ r.ackLevel
  ackSeqLt : r.ackSeq < 256
  remLt : r.remMsgLen < 65536
  bufLe : r.buf.length ≤ 3166

theorem cadd_ok {a b lim : Nat} {why : String} (h : a + b < lim) : cadd a b lim why = .ok (a + b) := by
  simp [cadd, h]

theorem startRem_lt (r : RecvWindow) (h : Hdr) (hh : h.Wf) (hr : r.remMsgLen < 65536) :
    r.startRem h.getMsgLen < 65536 := by
  unfold RecvWindow.startRem Hdr.getMsgLen
  have := hh.len
  split <;> rename_i heq
  · split at heq <;> simp at heq
    omega
  · exact hr

theorem recvCommit_clean (w : Nat) (hw : w ≤ 255) (r : RecvWindow) (hr : RInv w r) (hl : 1 ≤ r.level)
    (h : Hdr) (hh : h.Wf) (pfx p : List Nat) (rem now : Nat) (hrem : rem < 65536) :
    Clean (r.commit h pfx p rem now) (RInv w) := by
  unfold RecvWindow.commit
  have h1 := hr.sum
  have h2 := hr.msgLe
  have hb := ringPush_length_le (ringPush r.buf pfx) p
  rw [csub_ok hl, cadd_ok (by omega)]
  simp only
  by_cases hf : (h.fin && !p.isEmpty) = true
  · simp only [hf, if_true]
    rw [cadd_ok (by omega)]
    simp only [Clean]
    constructor <;> simp only [] <;> first | omega | exact hh.seq | exact hrem | exact hb
  · simp only [hf]
    simp only [Clean]
    constructor <;> simp only [] <;> first | omega | exact hh.seq | exact hrem | exact hb

theorem recvAccept_clean (w : Nat) (hw : w ≤ 255) (r : RecvWindow) (hr : RInv w r) (h : Hdr) (hh : h.Wf)
    (p : List Nat) (mtu now : Nat) :
    Clean (r.acceptIncoming h p mtu now) (RInv w) := by
  unfold RecvWindow.acceptIncoming
  split
  · simp [Clean, Fail.isPanic]
  split
  · simp [Clean, Fail.isPanic]
  rename_i hl
  repeat (split; simp [Clean, Fail.isPanic])
  have hl' : 1 ≤ r.level := by
    simp at hl; omega
  apply recvCommit_clean w hw r hr hl' h hh
  have := startRem_lt r h hh hr.remLt
  omega


theorem sendCheck_clean (w : SendWindow) (hle : w.level ≤ w.windowSize) (h : Hdr) :
    Clean (w.checkIncoming h) (fun _ => ∀ a, h.getAck = some a → wrapSub w.lastSent a < w.windowSize - w.level) := by
  unfold SendWindow.checkIncoming
  split
  · rename_i hn
    simp only [Clean]
    intro a ha; rw [hn] at ha; cases ha
  · rename_i a ha
    rw [csub_ok hle]
    simp only
    split
    · simp [Clean, Fail.isPanic]
    · simp only [Clean]
      intro a' ha'
      rw [ha] at ha'
      cases ha'
      omega

theorem sendAccept_ok (w : SendWindow) (hle : w.level ≤ w.windowSize) (h : Hdr) (now : Nat)
    (hck : ∀ a, h.getAck = some a → wrapSub w.lastSent a < w.windowSize - w.level) :
    ∃ w', w.acceptIncoming h now = .ok w' ∧ w'.windowSize = w.windowSize ∧ w'.level ≤ w.windowSize ∧
      w'.lastSent = w.lastSent ∧ (h.getAck = none → w' = w) := by
  unfold SendWindow.acceptIncoming
  split
  · exact ⟨w, rfl, rfl, hle, rfl, fun _ => rfl⟩
  · rename_i a ha
    have := hck a ha
    split
    · exact ⟨_, rfl, rfl, by simp, rfl, by intro h; simp [ha] at h⟩
    · rw [csub_ok (by omega)]
      exact ⟨_, rfl, rfl, by simp, rfl, by intro h; simp [ha] at h⟩

theorem rinv_of_sinv {s : Session} (h : SInv s) : RInv s.windowSize s.recv :=
  ⟨h.recvSum, h.msgLe, h.ackSeqLt, h.remLt, by have := h.bufLe; simpa using this⟩

theorem processRxData_clean (s : Session) (hs : SInv s) (h : Hdr) (hh : h.Wf) (p : List Nat) (now : Nat) :
    Clean (s.processRxData h p now) SInv := by
  unfold Session.processRxData
  have hle : s.send.level ≤ s.send.windowSize := by rw [hs.sendWs]; exact hs.sendLe
  have c1 := sendCheck_clean s.send hle h
  cases hc : s.send.checkIncoming h with
  | error e => rw [hc] at c1; exact c1
  | ok u =>
    rw [hc] at c1
    simp only [Clean] at c1
    simp only
    have c2 := recvAccept_clean s.windowSize hs.wsLe s.recv (rinv_of_sinv hs) h hh p s.mtu now
    cases hr : s.recv.acceptIncoming h p s.mtu now with
    | error e => rw [hr] at c2; exact c2
    | ok r =>
      rw [hr] at c2
      simp only [Clean] at c2
      simp only
      obtain ⟨w', hw', e1, e2, e3, e4⟩ := sendAccept_ok s.send hle h now c1
      rw [hw']
      simp only [Clean]
      constructor <;> simp only []
      · rw [e1]; exact hs.sendWs
      · rw [hs.sendWs] at e2; exact e2
      · exact c2.sum
      · exact c2.msgLe
      · exact hs.wsLe
      · rw [e3]; exact hs.lastLt
      · exact c2.ackSeqLt
      · exact c2.remLt
      · have := c2.bufLe; simpa using this
      · exact hs.est
      · exact hs.notEst
      · intro hp hi
        obtain ⟨he, hl⟩ := hs.hsPend hp hi
        refine ⟨he, ?_⟩
        -- nothing is outstanding, so no acknowledgement can have been accepted
        have hnone : h.getAck = none := by
          cases hga : h.getAck with
          | none => rfl
          | some a =>
            have := c1 a hga
            rw [hs.sendWs, hl] at this
            omega
        rw [e4 hnone]; exact hl


def Bytes (l : List Nat) : Prop := ∀ b ∈ l, b < 256

theorem takeIf_bytes {c : Bool} {bs : List Nat} {x : Nat} {r : List Nat} (hb : Bytes bs)
    (h : takeIf c bs = some (x, r)) : x < 256 ∧ Bytes r := by
  unfold takeIf at h
  split at h
  · split at h
    · cases h
    · simp at h
      obtain ⟨rfl, rfl⟩ := h
      exact ⟨hb _ (by simp), fun b hb' => hb b (by simp [hb'])⟩
  · simp at h
    obtain ⟨rfl, rfl⟩ := h
    exact ⟨by omega, hb⟩

theorem decodeHdr_clean (bs : List Nat) (hb : Bytes bs) :
    Clean (decodeHdr bs) (fun hp => hp.1.Wf ∧ Bytes hp.2) := by
  unfold decodeHdr
  split
  · simp [Clean, Fail.isPanic]
  · rename_i f r0
    have hr0 : Bytes r0 := fun b hb' => hb b (by simp [hb'])
    simp only
    split
    · simp [Clean, Fail.isPanic]
    · rename_i op r1 h1
      obtain ⟨_, hr1⟩ := takeIf_bytes hr0 h1
      split
      · simp [Clean, Fail.isPanic]
      · rename_i an r2 h2
        obtain ⟨han, hr2⟩ := takeIf_bytes hr1 h2
        split
        · simp [Clean, Fail.isPanic]
        · rename_i sn r3 h3
          obtain ⟨hsn, hr3⟩ := takeIf_bytes hr2 h3
          split
          · split
            · rename_i lo hi r4
              simp only [Clean]
              have hlo := hr3 lo (by simp)
              have hhi := hr3 hi (by simp)
              refine ⟨⟨hsn, han, ?_⟩, fun b hb' => hr3 b (by simp [hb'])⟩
              simp only []; omega
            · simp [Clean, Fail.isPanic]
          · simp only [Clean]
            exact ⟨⟨hsn, han, by simp⟩, hr3⟩

/-- **`process_rx` is total**: on every state satisfying the invariant and every byte string the
model of `Session::process_rx` either returns a new state satisfying the invariant, or a clean
error (never a panic). On an error the state is unchanged by construction (`Except`). -/
theorem processRx_clean (s : Session) (hs : SInv s) (g : Option Nat) (data : List Nat) (hd : Bytes data)
    (now : Nat) : Clean (s.processRx g data now) SInv := by
  unfold Session.processRx
  have c := decodeHdr_clean data hd
  cases hdec : decodeHdr data with
  | error e => rw [hdec] at c; exact c
  | ok hp =>
    rw [hdec] at c
    obtain ⟨h, p⟩ := hp
    simp only [Clean] at c
    simp only
    unfold Session.processRxSeg
    split
    · split
      · exact handshakeResp_clean s h p c.2
      · exact handshakeReq_clean s g h p
    · exact processRxData_clean s hs h c.1 p now

end Btp
