import RsMatterVerif.Lemmas.BtpLink
/-!
# C18 — BTP delivers each message intact, once and in order, or fails cleanly

Property theorems over `Model/Btp.lean` / `Model/BtpLink.lean`.
-/
namespace C18
open Btp

/-! ## Hostile peer: `process_rx` is total -/

/-- **Hostile peer, clause "can not crash the node"**: for every session state satisfying the
invariant, every GATT MTU, every byte string and every instant, `Session::process_rx` returns
either a new state satisfying the invariant or a clean error (`Fail.isPanic = false`); on an error
the state is unchanged (the model returns `Except`, the caller keeps the old state). -/
theorem process_rx_total (s : Session) (hs : SInv s) (g : Option Nat) (data : List Nat)
    (hd : Bytes data) (now : Nat) :
    (∃ s', s.processRx g data now = .ok s' ∧ SInv s') ∨
    (∃ e, s.processRx g data now = .error e ∧ e.isPanic = false) := by
  have c := processRx_clean s hs g data hd now
  cases h : s.processRx g data now with
  | ok s' => rw [h] at c; exact .inl ⟨s', rfl, c⟩
  | error e => rw [h] at c; exact .inr ⟨e, rfl, c⟩

/-- the invariant holds initially (`Session::new` + `set_initiator` + `set_relaxed_mtu_nego`) -/
theorem inv_init (initiator relaxed : Bool) : SInv (Session.fresh initiator relaxed) :=
  sinv_fresh initiator relaxed

/-- Non-vacuity: an established responder state satisfying the invariant exists (handshake request
with MTU 23 and window 5 processed by a fresh responder). -/
example : ∃ s, (Session.fresh false false).processRx none [0x65, 0x6c, 4, 0, 0, 0, 23, 0, 5] 0 = .ok s ∧
    s.established = true ∧ s.windowSize = 5 ∧ s.mtu = 20 := by
  exact ⟨_, rfl, rfl, rfl, rfl⟩

/-! ## One end under every operation of the outside world -/

/-- run a list of operations on a monitored end; a refused operation leaves the state unchanged -/
def run (m : Mon) : List EOp → Mon
  | [] => m
  | op :: ops =>
    match m.step op with
    | .ok (m', _) => run m' ops
    | .error _ => run m ops

/-- the bytes on the wire are bytes -/
def WfOps (ops : List EOp) : Prop := ∀ d now, EOp.rx d now ∈ ops → Bytes d

def freshMon (initiator relaxed : Bool) (gatt : Option Nat) : Mon :=
  { e := { s := Session.fresh initiator relaxed, gattMtu := gatt } }

theorem minv_fresh (i r : Bool) (g : Option Nat) : MInv (freshMon i r g) := by
  refine ⟨⟨sinv_fresh i r, by simp [freshMon], by simp [freshMon]⟩, ?_, ?_⟩
  · simpa [freshMon, Session.fresh] using ringRep_init
  · intro i b c h; simp [freshMon] at h

/-- **Invariant**: preserved by every operation — application, GATT glue, and a peer that sends
arbitrary bytes — in every order, for every negotiated MTU and window, including sequence wrap. -/
theorem end_inv (ops : List EOp) : ∀ (m : Mon), MInv m → WfOps ops → MInv (run m ops) := by
  induction ops with
  | nil => intro m hm _; exact hm
  | cons op ops ih =>
    intro m hm hw
    have hw' : WfOps ops := fun d now h => hw d now (List.mem_cons_of_mem _ h)
    have c := mon_step m hm op (fun d now h => hw d now (by rw [h]; exact List.mem_cons_self))
    simp only [run]
    cases h : m.step op with
    | ok r => rw [h] at c; exact ih r.1 c hw'
    | error f => exact ih m hm hw'

/-- **No operation ever panics**, whatever happened before: after any history of operations from a
fresh end, the next operation yields a state satisfying the invariant or a clean error. -/
theorem end_never_panics (i r : Bool) (g : Option Nat) (ops : List EOp) (hw : WfOps ops) (op : EOp)
    (hop : ∀ d now, op = .rx d now → Bytes d) :
    (∃ m' out, (run (freshMon i r g) ops).step op = .ok (m', out) ∧ MInv m') ∨
    (∃ e, (run (freshMon i r g) ops).step op = .error e ∧ e.isPanic = false) := by
  have hm := end_inv ops _ (minv_fresh i r g) hw
  have c := mon_step _ hm op hop
  cases h : (run (freshMon i r g) ops).step op with
  | ok r => rw [h] at c; exact .inl ⟨r.1, r.2, rfl, c⟩
  | error e => rw [h] at c; exact .inr ⟨e, rfl, c⟩

/-- **Nothing corrupted, duplicated or reordered, whoever the peer is**: after any history of
operations, the `i`-th message handed to the application is the `i`-th message of the
specification-side reassembly (`Spec.Reasm`) of the segments that were accepted in the current
session, cut to the caller's buffer. -/
theorem delivered_is_reassembly (i r : Bool) (g : Option Nat) (ops : List EOp) (hw : WfOps ops)
    (k : Nat) (b : List Nat) (c : Nat)
    (hk : (run (freshMon i r g) ops).fetched[k]? = some (b, c)) :
    ∃ full, (run (freshMon i r g) ops).rs.done[k]? = some full ∧ b = full.take c :=
  (end_inv ops _ (minv_fresh i r g) hw).dlv k b c hk

end C18
